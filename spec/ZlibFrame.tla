----------------------------- MODULE ZlibFrame -----------------------------
(***************************************************************************)
(* C07, format model: the zlib container of RFC 1950 around a DEFLATE body  *)
(* of DeflateStored's subset.                                               *)
(*                                                                         *)
(*   CMF = CINFO * 16 + 8          (CM = 8: deflate; CINFO <= 7)           *)
(*   FLG = FLEVEL * 64 + FDICT * 32 + FCHECK, (CMF * 256 + FLG) mod 31 = 0 *)
(*   [DICTID = Adler-32 of the preset dictionary, big-endian, if FDICT]    *)
(*   compressed data                                                        *)
(*   ADLER32 of the uncompressed data, big-endian                          *)
(*                                                                         *)
(* With a preset dictionary the body of this subset never refers to it      *)
(* (no matches), so the payload is unchanged; what is exercised is the      *)
(* framing: FDICT, DICTID, and the decoder's dictionary call sequence.      *)
(* TLC checks that Unframe(Frame(x)) gives the parts back and that the      *)
(* trailer is the Adler-32 of the payload, and exports <<bytes, payload,    *)
(* dictionary>> cases for the real std/zlib.                                *)
(***************************************************************************)
EXTENDS Integers, Sequences, TLC, Json, FmtBits

CONSTANTS ZMaxBlocks, ZPads,
          CInfos,          \* subset of 0..7
          FLevels,         \* subset of 0..3
          Dicts            \* preset dictionaries: a set of byte strings; <<>> stands for "no dictionary" (FDICT = 0)

\* dictionary sets for cfg files
DictsNone == { <<>> }
DictsSome == { <<>>, <<7>>, <<100, 105, 99, 116>> }
ZData == { <<>>, <<0>>, <<255, 1>>, <<143, 144, 128>> }

D == INSTANCE DeflateStored WITH MaxBlocks <- ZMaxBlocks, DataChoices <- ZData, Pads <- ZPads, c <- <<>>
A == INSTANCE Adler32 WITH AdlerMaxLen <- 0, AdlerAlphabet <- {}, x <- <<>>

Cases == [cinfo : CInfos, flevel : FLevels, dict : Dicts, body : D!Streams]

Header(cinfo, flevel, fdict) ==
    LET cmf == cinfo * 16 + 8
        flg0 == flevel * 64 + fdict * 32
        rem == (cmf * 256 + flg0) % 31
        flg == flg0 + (IF rem = 0 THEN 0 ELSE 31 - rem)
    IN <<cmf, flg>>

Frame(z) ==
    LET fd == IF z.dict = <<>> THEN 0 ELSE 1
    IN Header(z.cinfo, z.flevel, fd)
       \o (IF fd = 1 THEN A!AdlerBytesBE(z.dict) ELSE <<>>)
       \o D!EncodeBytes(z.body)
       \o A!AdlerBytesBE(D!Payload(z.body))

\* reader of the same layout (independent walk over the bytes)
Unframe(bs) ==
    IF Len(bs) < 2 THEN [ok |-> FALSE, why |-> "truncated"]
    ELSE LET cmf == bs[1]
             flg == bs[2]
             fd == (flg \div 32) % 2
             off == IF fd = 1 THEN 6 ELSE 2
         IN IF cmf % 16 # 8 THEN [ok |-> FALSE, why |-> "bad compression method"]
            ELSE IF cmf \div 16 > 7 THEN [ok |-> FALSE, why |-> "bad window size"]
            ELSE IF (cmf * 256 + flg) % 31 # 0 THEN [ok |-> FALSE, why |-> "bad parity"]
            ELSE IF Len(bs) < off THEN [ok |-> FALSE, why |-> "truncated"]
            ELSE LET r == D!Inflate(SubSeq(bs, off + 1, Len(bs)))
                 IN IF ~r.ok THEN [ok |-> FALSE, why |-> r.why]
                    ELSE IF Len(bs) # off + r.used + 4 THEN [ok |-> FALSE, why |-> "length"]
                    ELSE [ok |-> TRUE, why |-> "", out |-> r.out, fdict |-> fd,
                          dictid |-> IF fd = 1 THEN SubSeq(bs, 3, 6) ELSE <<>>,
                          trailer |-> SubSeq(bs, off + r.used + 1, off + r.used + 4)]

\* RFC 1950's own example header: 78 9C (CINFO 7, FLEVEL 2, no dictionary); 78 01 and 78 DA likewise
ASSUME Header(7, 2, 0) = <<120, 156>>
ASSUME Header(7, 0, 0) = <<120, 1>>
ASSUME Header(7, 3, 0) = <<120, 218>>
ASSUME Header(7, 2, 1) = <<120, 187>>

---------------------------------------------------------------------------
VARIABLE z

Init == z \in Cases
Next == UNCHANGED z
Spec == Init /\ [][Next]_z

RoundTrip == LET u == Unframe(Frame(z))
             IN /\ u.ok
                /\ u.out = D!Payload(z.body)
                /\ u.trailer = A!AdlerBytesBE(u.out)
                /\ (u.fdict = 1) = (z.dict # <<>>)
                /\ (u.fdict = 1 => u.dictid = A!AdlerBytesBE(z.dict))
Export == PrintT(ToJson([fmt |-> "zlib", bytes |-> Frame(z), out |-> D!Payload(z.body), dict |-> z.dict,
                         cinfo |-> z.cinfo, flevel |-> z.flevel, blocks |-> D!Desc(z.body)]))
=============================================================================

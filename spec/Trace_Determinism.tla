--------------------------- MODULE Trace_Determinism ---------------------------
(***************************************************************************)
(* C20: validation of the runs recorded from the real tools (cmd/wuffs,    *)
(* cmd/wuffs-c, lang/check/gen.go of the working tree) against the         *)
(* predicates of Determinism.tla.  The trace is ndjson, one event a line:  *)
(*                                                                         *)
(*  {"k":"gen", "pkg":P, "files":[names, in the order given], "src":D,     *)
(*   "env":C, "sha":S}       one compilation in a fresh process: package   *)
(*                           name P, ordered file list, digest D of the    *)
(*                           file contents, environment class C (GOMAXPROCS*)
(*                           GOGC, TMPDIR, cwd, LANG, TZ, which tree copy, *)
(*                           ...), S = exit code and sha256 of the output  *)
(*  {"k":"listdir", "dir":d, "names":[...], "codes":[[bytes]...],          *)
(*   "copy":c}               the order in which the build tool handed the  *)
(*                           files of directory d to the compiler, observed*)
(*                           at the exec boundary (argv of wuffs-c), in a  *)
(*                           tree copy whose raw readdir order is c's      *)
(*  {"k":"release", "regen":S1, "committed":S2, "copy":c}                  *)
(*  {"k":"axiom",   "gen":S1,   "committed":S2}                            *)
(*                                                                         *)
(* Accepted iff  one F explains all gen events (same <<pkg, files, src>>   *)
(* => same sha, whatever the env),  every listing is strictly sorted,      *)
(* the regenerated release equals the committed one,  the generated axiom  *)
(* table equals the committed data.go.                                     *)
(*                                                                         *)
(* As in Trace_Std: a failing clause does not disable the action; the      *)
(* names of the violated clauses are collected in `bad` and the invariant  *)
(* Accepted (bad = {}) is what TLC checks, so a rejection names the line   *)
(* (l - 1) and the clauses.  The runner removes the offending key/line and *)
(* validates the rest.                                                     *)
(***************************************************************************)
EXTENDS Integers, Sequences, FiniteSets, TLC, Json

CONSTANTS TraceFile

INSTANCE Determinism

Trace == ndJsonDeserialize(TraceFile)

VARIABLES l,      \* next trace line
          F,      \* the part of the unknown function learnt so far: key -> sha
          n,      \* counters by event kind (reported at the end)
          bad     \* clause names violated by the line just consumed

tvars == <<l, F, n, bad>>

E == Trace[l]
Key(e) == <<e.pkg, e.files, e.src>>

NoF == [k \in {} |-> ""]

TInit == /\ l = 1
         /\ F = NoF
         /\ n = [gen |-> 0, listdir |-> 0, release |-> 0, axiom |-> 0]
         /\ bad = {}

Step(k) == l <= Len(Trace) /\ E.k = k /\ l' = l + 1 /\ n' = [n EXCEPT ![k] = @ + 1]

Gen == /\ Step("gen")
       /\ bad' = IF Contradicts(F, Key(E), E.sha) THEN {"FunctionalDependence"} ELSE {}
       /\ F' = Learn(F, Key(E), E.sha)

ListDir == /\ Step("listdir")
           /\ bad' = (IF StrictlySorted(E.codes) THEN {} ELSE {"ListDirSorted"})
                     \cup (IF Len(E.codes) = Len(E.names) THEN {} ELSE {"ListDirWellFormed"})
           /\ F' = F

Release == /\ Step("release")
           /\ bad' = IF SameDigest(E.regen, E.committed) THEN {} ELSE {"ReleaseEqualsCommitted"}
           /\ F' = F

Axiom == /\ Step("axiom")
         /\ bad' = IF SameDigest(E.gen, E.committed) THEN {} ELSE {"AxiomTableEqualsCommitted"}
         /\ F' = F

TNext == Gen \/ ListDir \/ Release \/ Axiom
TSpec == TInit /\ [][TNext]_tvars

Accepted == bad = {}

\* what TLC prints of a state in an error trace (F can be large)
Shown == [l |-> l, bad |-> bad]

\* what was validated, as counted by TLC itself (printed in the last state)
ReportAtEnd ==
    (l = Len(Trace) + 1) =>
        PrintT(ToJson([report |-> "Trace_Determinism", lines |-> Len(Trace),
                       keys |-> Cardinality(DOMAIN F),
                       gen |-> n.gen, listdir |-> n.listdir, release |-> n.release, axiom |-> n.axiom]))

\* every line was consumed (an unknown event kind would stop the walk early)
AllConsumed == TLCGet("stats").diameter - 1 = Len(Trace)
=============================================================================

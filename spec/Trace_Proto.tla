----------------------------- MODULE Trace_Proto -----------------------------
(***************************************************************************)
(* Trace validation for C08: what the generated C really answered to the    *)
(* call histories TLC enumerated from WuffsObject.tla (events logged by      *)
(* harness/c/protodrive.c, one per call, schema of DESIGN.md appendix A.1    *)
(* plus the abstract action op/m/a/f/r) is accepted or rejected against      *)
(*   - WuffsObject's step relation: the observed status of every call must   *)
(*     match a reply the model allows for that action in a model state that  *)
(*     is compatible with everything observed before (`ms` is that set of    *)
(*     states: the relation is nondeterministic where the documents are),    *)
(*   - the I/O clauses of IOClauses.tla the property names (0 <= ri <= wi    *)
(*     <= len, ri / wi monotone, source and written destination unchanged),  *)
(*   - "a pure call / a call on a NULL receiver changes nothing".            *)
(*                                                                         *)
(* The recorded jobs share prefixes (every history of length k is a prefix  *)
(* of histories of length k+1, and the driver is run from scratch for each   *)
(* complete one), so the runner merges them into a TREE keyed by the event   *)
(* contents; a node is one recorded event after one recorded prefix.  TLC    *)
(* walks the tree (all workers), one state per node.  As in Trace_Std the    *)
(* violated clause names are collected in `bad`; a node below a rejected     *)
(* node is not visited (one rejection per history, no cascade).              *)
(*   Report    (survey configuration) prints <<"REJ", node, clauses>> for    *)
(*             every rejected node and lets the walk go on;                  *)
(*   Accepted  (confirmation configuration, run on the path of one rejected  *)
(*             history) is the invariant whose violation is the verdict.     *)
(***************************************************************************)
EXTENDS Integers, Sequences, FiniteSets, TLC, Json

CONSTANTS TreeFile

\* the step relation; the enumeration part of WuffsObject (its constants and variables) is not used here
W == INSTANCE WuffsObject WITH Configs <- {}, Tier <- "none", SimDepth <- 0, DoExport <- FALSE,
                               run <- 0, st <- 0, last <- 0, hist <- 0, exps <- 0, mem0 <- 0, sts <- 0
IO == INSTANCE IOClauses

Tree  == JsonDeserialize(TreeFile)     \* [nodes |-> <<[ev |-> event, kids |-> <<node ids>>], ...>>, roots |-> <<node ids>>]
Nodes == Tree.nodes

VARIABLES n,      \* current node (0 = above the roots)
          ms,     \* model states compatible with the events on the path to n
          bad     \* clauses violated by the event of n

tvars == <<n, ms, bad>>

TInit == n = 0 /\ ms = {} /\ bad = {}

KidsOf(k) == IF k = 0 THEN Tree.roots ELSE Nodes[k].kids

\* the I/O clauses the property lists (the caller-side justification clauses of C03 are not part of C08)
C08Clauses == {"IdxOrdered", "SrcRiMonotone", "DstWiMonotone", "SrcUnchanged", "DstPrefixUnchanged",
               "DstRiUnchanged", "StatusClassLegal", "NoInternalError", "SuspensionHasBuffer"}
IOBad(E) == { c \in C08Clauses : ~IO!Holds(c, E, 4096) }

Obs(E)   == [st |-> E.st, cls |-> E.cls]
ActOf(E) == W!A(E.op, E.m, E.a, E.f, E.r)

StartState(E) == W!Blank(E.kind, E.nf, E.hm, IF E.start THEN "Ok" ELSE IF E.mem = "zero" THEN "Zero" ELSE "Garbage")

\* successors of the compatible states under the observed reply
Succ(E) == LET x == ActOf(E)
           IN UNION { { W!Norm(pr[2]) : pr \in { q \in W!Step(s, x) : W!Match(Obs(E), q[1]) } } : s \in ms }
Expected(E) == LET x == ActOf(E) IN UNION { { pr[1] : pr \in W!Step(s, x) } : s \in ms }

\* "never a short read on a closed source" (doc/note/io-input-output.md: closed = no more bytes will come, so the
\* suspension cannot be resolved).  The std decoders promise it in their public wrappers ("#truncated input"); the
\* bare test object passes on what read_u8? says and is exempt.
ShortReadBad(E) == IF (\E s \in ms : s.kind # "twocoro") /\ ~IO!Holds("ShortReadJustified", E, 4096)
                   THEN {"ShortReadJustified"} ELSE {}

CallBad(E) ==
    (IF Succ(E) = {} THEN { "Reply_expected_" \o p : p \in Expected(E) } ELSE {})
    \cup IOBad(E)
    \cup ShortReadBad(E)
    \cup (IF "objchg" \in DOMAIN E /\ E.objchg
          THEN {IF E.op = "pure" THEN "PureCallChangedObject" ELSE "NullReceiverCallChangedObject"} ELSE {})
    \cup (IF "ssame" \in DOMAIN E /\ "sri0" \notin DOMAIN E /\ ~E.ssame THEN {"SrcUnchanged"} ELSE {})

Visit(k) ==
    LET E == Nodes[k].ev IN
    /\ n' = k
    /\ CASE E.k = "begin" ->
              /\ ms' = {StartState(E)}
              /\ bad' = IF E.start /\ E.ist # "" THEN {"InitializeSucceeds"} ELSE {}
         [] E.k = "call" ->
              /\ ms' = Succ(E)
              /\ bad' = CallBad(E)
         [] E.k = "end" -> ms' = ms /\ bad' = {}
         [] E.k = "crash" -> ms' = {} /\ bad' = {"NoSanitizerReport_" \o E.what}
         [] E.k = "timeout" -> ms' = {} /\ bad' = {"ReturnsAfterBoundedWork"}
         [] OTHER -> ms' = {} /\ bad' = {"UnknownEvent"}

TNext == /\ bad = {}
         /\ \E i \in 1 .. Len(KidsOf(n)) : Visit(KidsOf(n)[i])

TSpec == TInit /\ [][TNext]_tvars

Accepted == bad = {}
Report   == bad = {} \/ PrintT(<<"REJ", n, bad>>)
\* every node was visited unless it lies below a rejected one (checked by the runner against the tree size)
=============================================================================

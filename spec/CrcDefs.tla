------------------------------ MODULE CrcDefs ------------------------------
(***************************************************************************)
(* C07, format model: reflected, bit-at-a-time CRC with the polynomial as   *)
(* a parameter (CRC-32/IEEE 802.3 as used by gzip, PNG and xz; CRC-64/ECMA  *)
(* 182 in the reflected "XZ" form as used by xz and Go's hash/crc64).       *)
(*                                                                         *)
(*   register := all ones                                                  *)
(*   for every byte, for its bits from the least significant one:          *)
(*       feedback := register bit 0 XOR message bit                        *)
(*       register := register >> 1;  if feedback: register ^= poly         *)
(*   result := register XOR all ones                                       *)
(*                                                                         *)
(* poly is the reflected polynomial as 16-bit limbs, most significant      *)
(* first; the width is 16 * Len(poly).  The register is a function          *)
(* 0..W-1 -> BOOLEAN (bit 0 = least significant): no arithmetic on 32/64    *)
(* bit numbers is needed, so TLC's 32-bit integers are no limit.            *)
(*                                                                         *)
(* This module has no constants and no variables: the modules that need     *)
(* CRCs (Crc, GzipFrame, PngFilter's chunk layer) EXTEND it, so that TLC    *)
(* evaluates the constant tables at the end once (a definition reached      *)
(* through INSTANCE ... WITH would be re-evaluated at every use).           *)
(***************************************************************************)
EXTENDS Integers, Sequences, FiniteSets, FmtBits

PolyCrc32 == <<60856, 33568>>                     \* 0xEDB88320
PolyCrc64 == <<51564, 22421, 55175, 3906>>        \* 0xC96C5795D7870F42

\* pb: the polynomial's bits as a function 0..W-1 -> BOOLEAN (the last limb holds bits 0..15)
PolyBits(poly) == [i \in 0..(16 * Len(poly) - 1) |-> ((poly[Len(poly) - (i \div 16)] \div (2 ^ (i % 16))) % 2) = 1]

StepBit(pb, reg, bit) ==
    LET fb == (reg[0] # (bit = 1))
    IN [i \in DOMAIN pb |-> LET sh == IF (i + 1) \in DOMAIN pb THEN reg[i + 1] ELSE FALSE
                            IN IF fb THEN sh # pb[i] ELSE sh]

RECURSIVE StepBits(_, _, _, _)
StepBits(pb, reg, b, k) == IF k = 8 THEN reg ELSE StepBits(pb, StepBit(pb, reg, (b \div (2 ^ k)) % 2), b, k + 1)
StepByte(pb, reg, b) == StepBits(pb, reg, b, 0)

RECURSIVE CFrom(_, _, _, _)
CFrom(pb, reg, bs, i) == IF i > Len(bs) THEN reg ELSE CFrom(pb, StepByte(pb, reg, bs[i]), bs, i + 1)
CUpdate(pb, reg, bs) == CFrom(pb, reg, bs, 1)

Ones(pb) == [i \in DOMAIN pb |-> TRUE]
Final(reg) == [i \in DOMAIN reg |-> ~reg[i]]

\* the register as 16-bit limbs, most significant first
RECURSIVE LimbVal(_, _, _)
LimbVal(reg, lo, j) == IF j = 16 THEN 0 ELSE (IF reg[lo + j] THEN 2 ^ j ELSE 0) + LimbVal(reg, lo, j + 1)
NLimbs(reg) == Cardinality(DOMAIN reg) \div 16
Limbs(reg) == LET n == NLimbs(reg) IN [k \in 1..n |-> LimbVal(reg, 16 * (n - k), 0)]

CrcLimbsOf(poly, bs) == LET pb == PolyBits(poly) IN Limbs(Final(CUpdate(pb, Ones(pb), bs)))
CrcHexOf(poly, bs) == HexLimbs(CrcLimbsOf(poly, bs))
CrcBytesLEOf(poly, bs) == BytesLE(CrcLimbsOf(poly, bs))

---------------------------------------------------------------------------
(* A derived byte-at-a-time form (Sarwate) for the framing models, where    *)
(* many CRCs of longer strings are needed: the register is W/8 bytes (least *)
(* significant first); the table entry of i is the definition above applied *)
(* to the register whose low byte is i and the message byte 0.  Crc.tla's    *)
(* invariant FastEqualsDef (checked by TLC on its whole domain) ties this    *)
(* form to the bit-at-a-time definition.                                    *)
RegOfLowByte(pb, i) == [j \in DOMAIN pb |-> IF j < 8 THEN ((i \div (2 ^ j)) % 2) = 1 ELSE FALSE]
FastTabOf(poly) == LET pb == PolyBits(poly) IN [i \in 0..255 |-> BytesLE(Limbs(StepByte(pb, RegOfLowByte(pb, i), 0)))]

FastByte(tab, rb, b) == LET t == tab[XorB(rb[1], b)]
                            n == Len(rb)
                        IN [k \in 1..n |-> IF k < n THEN XorB(t[k], rb[k + 1]) ELSE t[k]]
RECURSIVE FastFrom(_, _, _, _)
FastFrom(tab, rb, bs, i) == IF i > Len(bs) THEN rb ELSE FastFrom(tab, FastByte(tab, rb, bs[i]), bs, i + 1)
FastCrcBytesLE(tab, bs) == LET n == Len(tab[0])
                               r == FastFrom(tab, [k \in 1..n |-> 255], bs, 1)
                           IN [k \in 1..n |-> 255 - r[k]]

\* A module that needs many CRC-32s defines its own constant  Tab32 == FastTabOf(PolyCrc32)  (TLC evaluates a
\* constant definition of the root module once, eagerly: it is not defined here so that only those modules pay)
Crc32LEWith(tab, bs) == FastCrcBytesLE(tab, bs)                                   \* the 4 bytes as gzip stores them
Crc32BEWith(tab, bs) == LET le == FastCrcBytesLE(tab, bs) IN <<le[4], le[3], le[2], le[1]>>   \* ... and as PNG stores them
=============================================================================

------------------------------ MODULE RacIndex ------------------------------
(***************************************************************************)
(* C15: RAC readers survive hostile files.                                 *)
(*                                                                         *)
(* A RAC file described ABSTRACTLY and ADVERSARIALLY, and the rules of     *)
(* doc/spec/rac-spec.md written in TLA+ (not the reader's algorithm):      *)
(*                                                                         *)
(*   SpecValid(f)   - f is a valid RAC file as far as a complete chunk     *)
(*                    walk can tell ("Branch Node Validation", "Root       *)
(*                    Node", "Search Within a Branch Node" incl. the       *)
(*                    anti-loop rule), read CONSERVATIVELY: wherever the   *)
(*                    document reserves a value or is silent, the file is  *)
(*                    not called valid, so that "valid" never over-claims. *)
(*   SpecChunks(f)  - its chunk list << DRange, Primary CRange >> in       *)
(*                    depth-first order, empty DRanges skipped.            *)
(*                                                                         *)
(* An abstract file has a size class, at most three index-node slots       *)
(*   S at offset 0,  M at OffM,  E at (size - node size)                    *)
(* and otherwise zero padding, except a small zlib stream at PadOff.  Each *)
(* node has arity 1..3 and per child << DPtr, TTag, CPtr, CLen, STag >>,   *)
(* DPtrMax, CPtrMax, Version, CodecByte, a second arity byte and a damage  *)
(* mark (magic / reserved byte / checksum).  CPtr and CPtrMax are chosen   *)
(* SYMBOLICALLY: a node slot (including the node's own), the padding, the  *)
(* file size, beyond the file, or one of those relative to a CBias of      *)
(* PadOff.                                                                  *)
(*                                                                         *)
(* TLC enumerates a family of such files as initial states; the invariant  *)
(* Export writes, for every file, one JSON row (to rows.ndjson)            *)
(*   [size, head, [node...], valid, dsize, zeroes, fdafter, [chunk...], family] *)
(* which harness/cmd/racireplay serialises to bytes (checksums repaired)   *)
(* and runs through lib/rac; the recorded results are judged by            *)
(* Trace_RacChunks.tla.                                                     *)
(***************************************************************************)
EXTENDS Integers, Sequences, FiniteSets, TLC, Json, CSV

CONSTANTS Families, \* set of names of the sub-spaces to enumerate (see Blocks; "random")
          Scale,    \* 0 = quick domains, 1 = thorough domains
          NSample   \* number of files drawn for the family "random"

---------------------------------------------------------------------------
(* Layout.                                                                 *)

OffM   == 96       \* slot M (S may occupy 0..63)
PadOff == 68       \* an in-file offset that is not a node: a zlib stream
NodeSize(ar) == 16 * ar + 16
Min(a, b) == IF a <= b THEN a ELSE b

\* TTag classes (doc: "COffs and DOffs, STags and TTags").
TBranch(t)   == t = 254
TCodecEl(t)  == t = 253
TReserved(t) == t >= 192 /\ t < 253

None == [off |-> -1]

---------------------------------------------------------------------------
(* Concrete files: what the rules talk about.                              *)
(*   f = [size, head, nodes]; head: 0 a node at offset 0, 1 Magic followed *)
(*   by an arity byte of 0, 2 no Magic.  node = [off, ar, ar2, ver, codec,  *)
(*   cmax, dmg, dptr, ttag, cptr, clen, stag] with 1-based sequences of     *)
(*   length ar; dptr[ar] is DPtrMax.  The doc's element index a is 0-based. *)

DP(n, i)   == IF i = 0 THEN 0 ELSE n.dptr[i]           \* DPtr[i], i \in 0..ar
DMax(n)    == n.dptr[n.ar]
DSize(n, a) == DP(n, a + 1) - DP(n, a)
TT(n, a)   == n.ttag[a + 1]
CP(n, a)   == n.cptr[a + 1]
CL(n, a)   == n.clen[a + 1]
ST(n, a)   == n.stag[a + 1]
Elems(n)   == 0 .. (n.ar - 1)

NodeAt(f, off) ==
    IF \E i \in 1..Len(f.nodes) : f.nodes[i].off = off
    THEN f.nodes[CHOOSE i \in 1..Len(f.nodes) : f.nodes[i].off = off]
    ELSE None

\* "Codec": Short codecs 0..3 are defined, all others reserved; a Long codec
\* needs a 0xFD element at index c64 + 64k.
IsLong(n)  == n.codec >= 128
HasMix(n)  == (n.codec % 128) >= 64
C64(n)     == n.codec % 64
LongIdx(n) == { i \in Elems(n) : i % 64 = C64(n) /\ TCodecEl(TT(n, i)) }
CodecOK(n) == IF IsLong(n) THEN LongIdx(n) # {} ELSE C64(n) \in 0..3
LongVal(n) == LET i == CHOOSE i \in LongIdx(n) : \A j \in LongIdx(n) : i <= j IN << CP(n, i), CL(n, i) >>
\* "if the parent's Codec does not have the Mix Bit set then the child's Codec
\* must equal its parent's" - read conservatively: the same codec byte (so the
\* child makes the same no-mix promise) and, for Long codecs, the same 7 bytes.
CodecAgree(p, c) ==
    HasMix(p) \/ (p.codec = c.codec /\ (IsLong(p) => LongVal(p) = LongVal(c)))

\* "Branch Node Validation", the context-free part.
NodeOK(n) ==
    /\ n.dmg = 0                                   \* Magic, Reserved (0) bytes, Checksum
    /\ n.ar >= 1 /\ n.ar2 = n.ar                   \* two Arity values match, non-zero
    /\ \E a \in Elems(n) : ~TCodecEl(TT(n, a))     \* at least one child Node
    /\ \A a \in Elems(n) : ~TReserved(TT(n, a))
    /\ \A a \in Elems(n) : TCodecEl(TT(n, a)) => DSize(n, a) = 0
    /\ \A a \in Elems(n) : DP(n, a) <= DP(n, a + 1)              \* DOffs sorted
    /\ \A a \in Elems(n) : ~TCodecEl(TT(n, a)) => CP(n, a) <= n.cmax   \* COff <= COffMax
    /\ n.ver = 1
    /\ CodecOK(n)

\* The parts of "Branch Node Validation" whose failure the document states
\* outright.  A node that is neither NodeOK nor DefInvalid is one the document
\* leaves open (a reserved TTag or Short Codec, a Version other than 1).
DefInvalid(n) ==
    \/ n.dmg # 0 \/ n.ar2 # n.ar
    \/ \A a \in Elems(n) : TCodecEl(TT(n, a))
    \/ \E a \in Elems(n) : TCodecEl(TT(n, a)) /\ DSize(n, a) # 0
    \/ \E a \in Elems(n) : DP(n, a) > DP(n, a + 1)
    \/ \E a \in Elems(n) : ~TCodecEl(TT(n, a)) /\ CP(n, a) > n.cmax
    \/ (IsLong(n) /\ LongIdx(n) = {})

\* "Root Node": a valid node whose CPtrMax equals the CFileSize, looked for
\* at the start, and if and only if that fails, at the end.  Whether the
\* start "fails" must be beyond doubt: if the node there is one the document
\* leaves open, the file is not called valid.
RootOK(f, n) == NodeOK(n) /\ n.cmax = f.size
StartsWithMagic(f) ==
    \/ f.head = 1
    \/ f.head = 0 /\ NodeAt(f, 0) # None /\ NodeAt(f, 0).dmg # 1
StartIsNoRoot(f) ==
    \/ f.head = 1                                       \* arity byte 0: "fail over to the CFile end"
    \/ f.head = 0 /\ (DefInvalid(NodeAt(f, 0)) \/ NodeAt(f, 0).cmax # f.size)
EndNode(f) ==
    \* the last byte of the file is the second arity byte of a node ending
    \* there; the node it implies starts at size - NodeSize(that byte).
    IF \E i \in 1..Len(f.nodes) : f.nodes[i].off + NodeSize(f.nodes[i].ar) = f.size /\ f.nodes[i].ar2 = f.nodes[i].ar
    THEN f.nodes[CHOOSE i \in 1..Len(f.nodes) : f.nodes[i].off + NodeSize(f.nodes[i].ar) = f.size]
    ELSE None
Root(f) ==
    IF ~StartsWithMagic(f) \/ f.size < 32 THEN None
    ELSE IF f.head = 0 /\ RootOK(f, NodeAt(f, 0)) THEN NodeAt(f, 0)
    ELSE IF StartIsNoRoot(f) /\ EndNode(f) # None /\ EndNode(f).off # 0 /\ RootOK(f, EndNode(f)) THEN EndNode(f)
    ELSE None

\* MakeCRange(i), for the Primary CRange i = a.
MakeCRange(n, cBias, i) ==
    LET m == cBias + n.cmax IN
    IF i >= n.ar THEN << m, m >>
    ELSE LET lo == cBias + CP(n, i) IN
         << lo, IF CL(n, i) = 0 THEN m ELSE Min(m, lo + CL(n, i) * 1024) >>

Bad == [ok |-> FALSE, chunks |-> << >>]
Fine(s) == [ok |-> TRUE, chunks |-> s]

\* Depth-first walk ("Search Within a Branch Node", "Continuing the
\* Reconstruction"): elements with an empty DRange are skipped, even branch
\* nodes; every visited child branch is validated against its parent.
RECURSIVE WalkFrom(_, _, _, _, _, _)
WalkFrom(f, n, cBias, dBias, fuel, a) ==
    IF a = n.ar THEN Fine(<< >>)
    ELSE
      LET this ==
            IF DSize(n, a) = 0 THEN Fine(<< >>)
            ELSE IF TBranch(TT(n, a)) THEN
              LET childOff   == cBias + CP(n, a)           \* SubBranch COffset
                  pMax       == cBias + n.cmax             \* parent's COffMax
                  cRem       == pMax - childOff            \* CRemaining
                  c          == NodeAt(f, childOff)
                  childCBias == IF ST(n, a) < n.ar THEN cBias + CP(n, ST(n, a)) ELSE cBias
                  childDBias == dBias + DP(n, a)
              IN IF \/ fuel = 0
                    \/ cRem < 4
                    \/ c = None                            \* no Magic there
                    \/ cRem < NodeSize(c.ar)
                    \/ ~NodeOK(c)
                    \/ ~CodecAgree(n, c)
                    \/ c.ver > n.ver
                    \/ childCBias + c.cmax > pMax          \* child COffMax <= parent COffMax
                    \/ DMax(c) # DSize(n, a)               \* child DOffMax = SubBranch DOffMax
                    \/ ~(childOff < n.off \/ DMax(c) < DMax(n))     \* the anti-loop rule
                 THEN Bad
                 ELSE WalkFrom(f, c, childCBias, childDBias, fuel - 1, 0)
            ELSE LET r == MakeCRange(n, cBias, a) IN
                 Fine(<< << dBias + DP(n, a), dBias + DP(n, a + 1), r[1], r[2] >> >>)
      IN IF ~this.ok THEN Bad
         ELSE LET rest == WalkFrom(f, n, cBias, dBias, fuel, a + 1) IN
              IF ~rest.ok THEN Bad ELSE Fine(this.chunks \o rest.chunks)

Fuel == 8    \* > any depth the anti-loop rule allows with three nodes

Verdict(f) ==
    LET r == Root(f) IN
    IF r = None THEN Bad ELSE WalkFrom(f, r, 0, 0, Fuel, 0)

SpecValid(f)  == Verdict(f).ok
SpecChunks(f) == Verdict(f).chunks
SpecDSize(f)  == IF Root(f) = None THEN 0 ELSE DMax(Root(f))

\* Every node of the file is RAC + Zeroes (Short codec 0, any Mix Bit).
AllZeroes(f) == \A i \in 1..Len(f.nodes) : f.nodes[i].codec % 64 = 0 /\ f.nodes[i].codec < 128
\* Some node has a Codec Element directly after an element with a non-empty DRange.
FdAfter(f) == \E i \in 1..Len(f.nodes) : LET n == f.nodes[i] IN
                 \E a \in 1..(n.ar - 1) : TCodecEl(TT(n, a)) /\ DSize(n, a - 1) > 0

B(x) == IF x THEN 1 ELSE 0
NodeRow(n) == << n.off, n.ar, n.ar2, n.ver, n.codec, n.cmax, n.dmg, n.dptr, n.ttag, n.cptr, n.clen, n.stag >>
RowOf(f) ==
    LET v == Verdict(f) IN
    << f.size, f.head, [i \in 1..Len(f.nodes) |-> NodeRow(f.nodes[i])],
       B(v.ok), SpecDSize(f), B(v.ok /\ AllZeroes(f)), B(FdAfter(f)), v.chunks >>

---------------------------------------------------------------------------
(* Symbolic files and their resolution.                                    *)
(*   sf = [size, head, nodes: sequence of symbolic nodes]                  *)
(*   symbolic node = [slot, ar, a2, dmode, dv, ttag, cptr, clen, stag,      *)
(*                    cmax, ver, codec, dmg], sequences of length >= ar     *)
(*   a2 = TRUE: the second arity byte differs; dmode "abs": dv are the     *)
(*   DPtrs, "inc": dv are increments (a sorted DPtr sequence).             *)

ArE(sf) == IF \E i \in 1..Len(sf.nodes) : sf.nodes[i].slot = "E"
           THEN sf.nodes[CHOOSE i \in 1..Len(sf.nodes) : sf.nodes[i].slot = "E"].ar ELSE 1
SlotOff(sf, s) == CASE s = "S" -> 0 [] s = "M" -> OffM [] s = "E" -> sf.size - NodeSize(ArE(sf))

Ptr(sf, p) ==
    CASE p = "S" -> 0 [] p = "M" -> OffM [] p = "E" -> SlotOff(sf, "E")
      [] p = "pad" -> PadOff [] p = "size" -> sf.size [] p = "beyond" -> sf.size + 9
      [] p = "sizem1" -> sf.size - 1
      [] p = "Mrel" -> OffM - PadOff [] p = "Erel" -> SlotOff(sf, "E") - PadOff
      [] p = "sizerel" -> sf.size - PadOff [] p = "one" -> 1

RECURSIVE Cumul(_, _)
Cumul(s, k) == IF k = 0 THEN 0 ELSE Cumul(s, k - 1) + s[k]

ResolveNode(sf, sn) ==
    [ off  |-> SlotOff(sf, sn.slot), ar |-> sn.ar,
      ar2  |-> IF sn.a2 THEN (sn.ar % 3) + 1 ELSE sn.ar,
      ver  |-> sn.ver, codec |-> sn.codec, cmax |-> Ptr(sf, sn.cmax), dmg |-> sn.dmg,
      dptr |-> [i \in 1..sn.ar |-> IF sn.dmode = "inc" THEN Cumul(sn.dv, i) ELSE sn.dv[i]],
      ttag |-> [i \in 1..sn.ar |-> sn.ttag[i]],
      cptr |-> [i \in 1..sn.ar |-> Ptr(sf, sn.cptr[i])],
      clen |-> [i \in 1..sn.ar |-> sn.clen[i]],
      stag |-> [i \in 1..sn.ar |-> sn.stag[i]] ]

Resolve(sf) ==
    [ size |-> sf.size, head |-> sf.head,
      nodes |-> [i \in 1..Len(sf.nodes) |-> ResolveNode(sf, sf.nodes[i])] ]

---------------------------------------------------------------------------
(* Families of symbolic files.                                             *)
(*                                                                         *)
(* A family is a sequence of BLOCKS; a block is a product of small         *)
(* domains (doms: a sequence of sequences of candidate values) plus the    *)
(* rule (tag) that assembles the chosen values into a symbolic file.  A    *)
(* file of the block is named by an index n < Total(doms) (mixed radix,    *)
(* first domain fastest), so that TLC's initial states are pairs           *)
(* << block, n >> of small integers and the decoding, the rules and the    *)
(* export run in the (parallel) successor computation.                     *)

RECURSIVE Prod(_, _)
Prod(doms, k) == IF k = 0 THEN 1 ELSE Len(doms[k]) * Prod(doms, k - 1)
Total(doms) == Prod(doms, Len(doms))

RECURSIVE Vals(_, _, _)
Vals(doms, n, k) ==
    IF k > Len(doms) THEN << >>
    ELSE << doms[k][(n % Len(doms[k])) + 1] >> \o Vals(doms, n \div Len(doms[k]), k + 1)

RECURSIVE Rep(_, _)
Rep(s, k) == IF k = 0 THEN << >> ELSE s \o Rep(s, k - 1)

\* The domains of one node of arity ar: per child << DPtr, TTag, CPtr, CLen,
\* STag >>, then << CPtrMax, Version, CodecByte >>.
NodeDoms(ar, DD, TTs, PTs, CLs, STs, CMs, VERs, CODs) ==
    Rep(<< DD, TTs, PTs, CLs, STs >>, ar) \o << CMs, VERs, CODs >>
NodeLen(ar) == 5 * ar + 3

\* The node assembled from the values v[k .. k + NodeLen(ar) - 1].
MkNode(slot, ar, v, k) ==
    [ slot |-> slot, ar |-> ar, a2 |-> FALSE, dmode |-> "abs",
      dv   |-> [i \in 1..ar |-> v[k + 5 * (i - 1)]],
      ttag |-> [i \in 1..ar |-> v[k + 5 * (i - 1) + 1]],
      cptr |-> [i \in 1..ar |-> v[k + 5 * (i - 1) + 2]],
      clen |-> [i \in 1..ar |-> v[k + 5 * (i - 1) + 3]],
      stag |-> [i \in 1..ar |-> v[k + 5 * (i - 1) + 4]],
      cmax |-> v[k + 5 * ar], ver |-> v[k + 5 * ar + 1], codec |-> v[k + 5 * ar + 2], dmg |-> 0 ]

\* Does symbolic node sn name slot s in a branch element?
Links(sn, s) == \E i \in 1..sn.ar : sn.ttag[i] = 254 /\ sn.cptr[i] = s

SizesOf(Sc) == IF Sc = 0 THEN << 240 >> ELSE << 240, 1400 >>

\* A plain leaf node / a root with one branch child, for the damage family.
Leafy(slot, ar) ==
    [ slot |-> slot, ar |-> ar, a2 |-> FALSE, dmode |-> "abs", dv |-> [i \in 1..ar |-> 5], ttag |-> [i \in 1..ar |-> 255],
      cptr |-> [i \in 1..ar |-> "pad"], clen |-> [i \in 1..ar |-> 0], stag |-> [i \in 1..ar |-> 255],
      cmax |-> "size", ver |-> 1, codec |-> 0, dmg |-> 0 ]
RootTo(slot, tgt) ==
    [ slot |-> slot, ar |-> 1, a2 |-> FALSE, dmode |-> "abs", dv |-> <<5>>, ttag |-> <<254>>, cptr |-> << tgt >>,
      clen |-> <<0>>, stag |-> <<255>>, cmax |-> "size", ver |-> 1, codec |-> 0, dmg |-> 0 ]
Dm(n, g) == IF g = 4 THEN [n EXCEPT !.a2 = TRUE] ELSE [n EXCEPT !.dmg = g]

Blocks(Fam, Sc) ==
    CASE Fam = "local1" ->
           \* one node (at the start, or at the end behind Magic+0 / no Magic),
           \* arity 1, every field hostile (quick: the full cross product only
           \* for the node at the start).
           LET full(slot) == NodeDoms(1, <<0, 5>>, <<255, 254, 253, 0, 192>>, << slot, "pad", "size", "beyond" >>,
                                      <<0, 1>>, <<255, 0>>, <<"size", "beyond", "pad">>, <<0, 1, 2>>, <<0, 1, 64, 63, 128>>)
               less(slot) == NodeDoms(1, <<0, 5>>, <<255, 254, 253, 0, 192>>, << slot, "pad", "size", "beyond" >>,
                                      <<0>>, <<255>>, <<"size", "beyond", "pad">>, <<0, 1, 2>>, <<0, 128>>)
           IN << [tag |-> "oneS", ar |-> 1, doms |-> << SizesOf(Sc) >> \o full("S")],
                 [tag |-> "oneE", ar |-> 1, doms |-> << SizesOf(Sc), <<1, 2>> >> \o (IF Sc = 0 THEN less("E") ELSE full("E"))] >>
      [] Fam = "damage" ->
           \* Magic / Reserved byte / Checksum / second Arity byte, on a root or
           \* on the child of a sound root.  doms = << size, arity, damage >>.
           LET d == << SizesOf(Sc), <<1, 2>>, <<0, 1, 2, 3, 4>> >>
           IN << [tag |-> "dmS", doms |-> d], [tag |-> "dmE", doms |-> d \o << <<1, 2>> >>],
                 [tag |-> "dmEM", doms |-> d], [tag |-> "dmSM", doms |-> d], [tag |-> "dmES", doms |-> d] >>
      [] Fam = "local2" ->
           \* one root at the start, arity 2 (3 in the thorough tier): DPtr
           \* order, tag classes, codec elements, long codecs.
           << [tag |-> "oneS", ar |-> 2,
               doms |-> << <<240>> >> \o NodeDoms(2, <<0, 3, 5>>, IF Sc = 0 THEN <<255, 254, 253, 0>> ELSE <<255, 254, 253, 0, 192>>,
                                                 IF Sc = 0 THEN <<"S", "beyond">> ELSE <<"S", "pad", "beyond">>,
                                                 <<0>>, <<255, 0>>, <<"size">>, <<1>>, <<0, 128, 129>>)] >>
           \o (IF Sc = 0 THEN << >> ELSE
               << [tag |-> "oneS", ar |-> 3,
                   doms |-> << <<240>> >> \o NodeDoms(3, <<0, 3, 5>>, <<255, 254, 253>>, <<"S", "beyond">>, <<0>>, <<255>>,
                                                     <<"size">>, <<1>>, <<0, 130>>)] >>)
      [] Fam = "link2" ->
           \* a root and one other node: who points at whom, with which DPtrs.
           \* Placement (root, other) = (S, M); thorough also (E, S).
           LET nd(ar, pts, cms) == NodeDoms(ar, <<0, 3, 6>>, <<255, 254>>, pts, <<0>>, <<255>>, cms, <<1>>, <<0>>)
               bl(r, o, pts, ocm) ==
                   << [tag |-> "two", r |-> r, o |-> o, ra |-> 1, oa |-> 1, doms |-> nd(1, pts, <<"size">>) \o nd(1, pts, ocm)],
                      [tag |-> "two", r |-> r, o |-> o, ra |-> 1, oa |-> 2, doms |-> nd(1, pts, <<"size">>) \o nd(2, pts, ocm)],
                      [tag |-> "two", r |-> r, o |-> o, ra |-> 2, oa |-> 1, doms |-> nd(2, pts, <<"size">>) \o nd(1, pts, ocm)],
                      [tag |-> "two", r |-> r, o |-> o, ra |-> 2, oa |-> 2, doms |-> nd(2, pts, <<"size">>) \o nd(2, pts, ocm)] >>
           IN IF Sc = 0 THEN bl("S", "M", <<"S", "M">>, <<"size">>)
              ELSE bl("S", "M", <<"S", "M", "pad">>, <<"size">>) \o bl("E", "S", <<"S", "E">>, <<"size", "sizem1">>)
      [] Fam = "link3" ->
           \* three arity-1 nodes: chains, self and mutual references; the node
           \* at the start is a root candidate (CPtrMax = size) or not.
           LET PT == IF Sc = 0 THEN <<"S", "M", "E">> ELSE <<"S", "M", "E", "pad">>
               nd(cms) == NodeDoms(1, IF Sc = 0 THEN <<0, 5>> ELSE <<0, 3, 5>>, <<255, 254>>, PT, <<0>>, <<255>>, cms, <<1>>, <<0>>)
           IN << [tag |-> "three", doms |-> nd(<<"size", "sizem1">>) \o nd(<<"size">>) \o nd(<<"size">>)] >>
      [] Fam = "link3w" ->
           \* a root of arity 2 at the end over two arity-1/2 nodes: DPtrMax can
           \* shrink down the tree, so valid three-level files exist.
           LET r == NodeDoms(2, <<0, 3, 5>>, <<255, 254>>, <<"S", "M", "E">>, <<0>>, <<255>>, <<"size">>, <<1>>, <<0>>)
               c(ar) == NodeDoms(ar, <<0, 2, 3>>, <<255, 254>>, <<"S", "M">>, <<0>>, <<255>>, <<"sizem1">>, <<1>>, <<0>>)
           IN << [tag |-> "wide", sa |-> 1, ma |-> 1, doms |-> r \o c(1) \o c(1)] >>
      [] Fam = "bias" ->
           \* CBiasing children (STag < Arity), pointers and CPtrMax relative to
           \* the bias, CLen clamps (in the 1400-byte class CLen = 1 bites).
           \* doms = << size, root DPtr[1], root TTag[0], root CPtr[0], root
           \* CPtr[1], root STag[1] >> then the child node at M.
           << [tag |-> "bias",
               doms |-> << IF Sc = 0 THEN <<1400>> ELSE <<240, 1400>>, <<0, 3, 5>>,
                           <<255, 253>>, <<"pad", "beyond">>, <<"M", "Mrel">>, <<255, 0, 1>> >>
                        \o NodeDoms(1, <<0, 2, 5>>, <<255, 254>>, IF Sc = 0 THEN <<"pad", "Mrel", "S">> ELSE <<"pad", "Mrel", "S", "one">>,
                                    <<0, 1>>, IF Sc = 0 THEN <<255>> ELSE <<255, 0>>,
                                    IF Sc = 0 THEN <<"size", "sizerel">> ELSE <<"size", "sizerel", "pad">>, <<1>>, <<0>>)] >>
      [] OTHER -> << >>

\* The symbolic file of block b chosen by the values v.
Build(b, v) ==
    CASE b.tag = "oneS" -> [size |-> v[1], head |-> 0, nodes |-> << MkNode("S", b.ar, v, 2) >>]
      [] b.tag = "oneE" -> [size |-> v[1], head |-> v[2], nodes |-> << MkNode("E", b.ar, v, 3) >>]
      [] b.tag = "dmS"  -> [size |-> v[1], head |-> 0, nodes |-> << Dm(Leafy("S", v[2]), v[3]) >>]
      [] b.tag = "dmE"  -> [size |-> v[1], head |-> v[4], nodes |-> << Dm(Leafy("E", v[2]), v[3]) >>]
      [] b.tag = "dmEM" -> [size |-> v[1], head |-> 1, nodes |-> << Dm([Leafy("M", v[2]) EXCEPT !.cmax = "sizem1"], v[3]), RootTo("E", "M") >>]
      [] b.tag = "dmSM" -> [size |-> v[1], head |-> 0, nodes |-> << RootTo("S", "M"), Dm(Leafy("M", v[2]), v[3]) >>]
      [] b.tag = "dmES" -> [size |-> v[1], head |-> 0, nodes |-> << Dm([Leafy("S", v[2]) EXCEPT !.cmax = "sizem1"], v[3]), RootTo("E", "S") >>]
      [] b.tag = "two"  ->
           LET r == MkNode(b.r, b.ra, v, 1)
               o == MkNode(b.o, b.oa, v, 1 + NodeLen(b.ra))
           IN [size |-> 240, head |-> IF b.r = "S" \/ b.o = "S" THEN 0 ELSE 1,
               nodes |-> IF b.r = "S" THEN << r, o >> ELSE << o, r >>]
      [] b.tag = "three" ->
           [size |-> 240, head |-> 0, nodes |-> << MkNode("S", 1, v, 1), MkNode("M", 1, v, 9), MkNode("E", 1, v, 17) >>]
      [] b.tag = "wide" ->
           [size |-> 240, head |-> 0,
            nodes |-> << MkNode("S", b.sa, v, 1 + NodeLen(2)), MkNode("M", b.ma, v, 1 + NodeLen(2) + NodeLen(b.sa)), MkNode("E", 2, v, 1) >>]
      [] b.tag = "bias" ->
           [size |-> v[1], head |-> 0,
            nodes |-> << [ slot |-> "S", ar |-> 2, a2 |-> FALSE, dmode |-> "abs", dv |-> << v[2], 5 >>, ttag |-> << v[3], 254 >>,
                           cptr |-> << v[4], v[5] >>, clen |-> <<0, 0>>, stag |-> << 255, v[6] >>, cmax |-> "size",
                           ver |-> 1, codec |-> 0, dmg |-> 0 ],
                         MkNode("M", 1, v, 7) >>]

\* Canonical representatives: in the two-node blocks the contents of a node
\* that the root does not name in any branch element cannot matter; only the
\* first such node (index part 0) is kept.
Canon(b, n) ==
    IF b.tag = "two"
    THEN LET rd == SubSeq(b.doms, 1, NodeLen(b.ra))
             r  == MkNode(b.r, b.ra, Vals(rd, n % Total(rd), 1), 1)
         IN Links(r, b.o) \/ (n \div Total(rd)) = 0
    ELSE TRUE

\* random: NSample files drawn (TLC's RandomElement, seeded by -seed) from
\* the full product, biased towards values that get past the early checks.
Pick(s) == s[RandomElement(1..Len(s))]
RandNode(slot) ==
    [ slot |-> slot, ar |-> Pick(<<1, 2, 2, 3, 3>>), a2 |-> Pick(<<FALSE, FALSE, FALSE, FALSE, FALSE, FALSE, FALSE, FALSE, FALSE, TRUE>>),
      dmode |-> Pick(<<"inc", "inc", "inc", "abs">>),
      dv   |-> [i \in 1..3 |-> Pick(<<0, 0, 2, 3, 3, 5>>)],
      ttag |-> [i \in 1..3 |-> Pick(<<255, 255, 255, 254, 254, 254, 254, 253, 0, 1, 192>>)],
      cptr |-> [i \in 1..3 |-> Pick(<<"S", "M", "E", "S", "M", "E", "pad", "pad", "size", "beyond", "Mrel", "Erel", "one">>)],
      clen |-> [i \in 1..3 |-> Pick(<<0, 0, 0, 1, 255>>)],
      stag |-> [i \in 1..3 |-> Pick(<<255, 255, 255, 0, 1, 2, 3>>)],
      cmax |-> Pick(<<"size", "size", "size", "size", "sizem1", "sizem1", "sizerel", "beyond", "pad">>),
      ver  |-> Pick(<<1, 1, 1, 1, 1, 1, 1, 0, 2>>),
      codec |-> Pick(<<0, 0, 0, 0, 64, 64, 1, 65, 128, 129, 192, 63, 2>>),
      dmg  |-> Pick(<<0, 0, 0, 0, 0, 0, 0, 0, 0, 0, 0, 0, 0, 0, 0, 0, 0, 1, 2, 3>>) ]
\* (a record of separately evaluated fields; it is turned into a symbolic
\* file only once it is a state value, so every draw is made exactly once)
RandFile(i) ==
    [ id |-> i, size |-> Pick(<<240, 240, 240, 1400>>), hd |-> Pick(<<1, 1, 1, 1, 2>>),
      pres |-> Pick(<< {"S"}, {"E"}, {"S", "M"}, {"M", "E"}, {"S", "E"}, {"S", "M", "E"}, {"S", "M", "E"}, {"S", "M", "E"} >>),
      nS |-> RandNode("S"), nM |-> RandNode("M"), nE |-> RandNode("E") ]
OfRand(r) ==
    [ size |-> r.size, head |-> IF "S" \in r.pres THEN 0 ELSE r.hd,
      nodes |-> (IF "S" \in r.pres THEN << r.nS >> ELSE << >>) \o (IF "M" \in r.pres THEN << r.nM >> ELSE << >>)
                \o (IF "E" \in r.pres THEN << r.nE >> ELSE << >>) ]

---------------------------------------------------------------------------
VARIABLES ix,   \* << block, index >> of the file, or << 0, the drawn record >> ("random")
          st    \* 0 = chosen, 1 = judged and exported

AllFams == << "damage", "local1", "local2", "link2", "link3", "link3w", "bias", "random" >>
FamIdx(name) == CHOOSE k \in 1..Len(AllFams) : AllFams[k] = name

\* The blocks of all chosen families, each tagged with its family (constant:
\* computed once).
RECURSIVE TagAll(_, _, _)
TagAll(bs, k, fam) == IF k > Len(bs) THEN << >> ELSE << [fam |-> fam, b |-> bs[k]] >> \o TagAll(bs, k + 1, fam)
RECURSIVE BlocksFrom(_)
BlocksFrom(k) ==
    IF k > Len(AllFams) THEN << >>
    ELSE (IF AllFams[k] \in Families THEN TagAll(Blocks(AllFams[k], Scale), 1, k) ELSE << >>) \o BlocksFrom(k + 1)
Bl == BlocksFrom(1)

Init ==
    /\ st = 0
    /\ \/ \E b \in 1..Len(Bl) : \E n \in 0..(Total(Bl[b].b.doms) - 1) : Canon(Bl[b].b, n) /\ ix = << b, n >>
       \/ "random" \in Families /\ \E i \in 1..NSample : ix = << 0, RandFile(i) >>
Next == st = 0 /\ st' = 1 /\ ix' = ix
Spec == Init /\ [][Next]_<< ix, st >>

TheFile ==
    IF ix[1] = 0 THEN Resolve(OfRand(ix[2]))
    ELSE Resolve(Build(Bl[ix[1]].b, Vals(Bl[ix[1]].b.doms, ix[2], 1)))
TheFam == IF ix[1] = 0 THEN FamIdx("random") ELSE Bl[ix[1]].fam

\* Sanity of the rules themselves (design level): the chunk list of a valid
\* file is what the property demands of any reader.
SaneRow(row) ==
    LET size == row[1]  valid == row[4]  dsize == row[5]  c == row[8] IN
    valid = 1 =>
        /\ \A i \in 1..Len(c) : c[i][1] < c[i][2] /\ 0 <= c[i][3] /\ c[i][3] <= c[i][4] /\ c[i][4] <= size
        /\ \A i \in 1..(Len(c) - 1) : c[i][2] = c[i + 1][1]
        /\ (Len(c) > 0 => c[1][1] = 0 /\ c[Len(c)][2] = dsize)
        /\ (Len(c) = 0 => dsize = 0)

\* The export "invariant": one JSON row per file, appended to rows.ndjson when
\* the file is judged (CSVWrite: PrintT's pretty-printer costs 5 ms a line).
Export == st = 1 => LET row == RowOf(TheFile) IN SaneRow(row) /\ CSVWrite("%1$s", << ToJson(row \o << TheFam >>) >>, "rows.ndjson")

ASSUME Families \subseteq { AllFams[k] : k \in 1..Len(AllFams) } /\ Families # {}
ASSUME Scale \in {0, 1}
ASSUME \A name \in Families \ {"random"} : Len(Blocks(name, Scale)) > 0
=============================================================================

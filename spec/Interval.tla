------------------------------ MODULE Interval ------------------------------
(***************************************************************************)
(* C06: interval arithmetic over-approximates every concrete result, and   *)
(* is the exact hull when all four operand bounds are finite.              *)
(*                                                                         *)
(* The specification defines each operation by COMPREHENSION over the      *)
(* members of the operand intervals, never by an algorithm on the bounds:   *)
(*                                                                         *)
(*   S(op, X, Y) == { x op y : x \in X, y \in Y, (x op y) defined }        *)
(*                                                                         *)
(* An interval is a record [lf, lo, hf, hi]: lf/hf say whether the lower/   *)
(* upper bound is finite (FALSE = -oo / +oo), lo/hi the finite values.      *)
(* The empty interval is any finite pair with lo > hi.                      *)
(*                                                                         *)
(* Binding (Mode V): the harness calls lib/interval for every              *)
(* <<X, Y, op>> of the universe and writes what the real code returned to   *)
(* rows.json; TLC takes every <<X, Y, op>> as an initial state and the      *)
(* invariant RowOK compares the real answer with the comprehension.        *)
(* A second table (lifted.json) holds the answers the code gave for         *)
(* operands moved to far-away regions (translated by c, scaled by 2^k,      *)
(* boxed for and/or) after exact un-lifting by the harness; the lift laws   *)
(* themselves are stated and TLC-checked in IntervalLift.tla.              *)
(***************************************************************************)
EXTENDS Integers, FiniteSets, Sequences, TLC, Json

CONSTANTS B,        \* finite bounds range over -B..B
          W,        \* infinite bounds are sampled over the window -W..W  (W > B)
          Ops,      \* subset of the operation names
          TableFile \* JSON file with the answers of the real code

Bounds == (-B)..B

Ivals == [lf : BOOLEAN, lo : Bounds, hf : BOOLEAN, hi : Bounds]

\* Canonical universe: an infinite side carries lo/hi = 0 (one representative).
Universe == { i \in Ivals : (~i.lf => i.lo = 0) /\ (~i.hf => i.hi = 0) }

IsEmpty(i) == i.lf /\ i.hf /\ i.lo > i.hi
AllFinite(i) == i.lf /\ i.hf

\* Members of i inside the sampling window.
Members(i) == { v \in (-W)..W : (i.lf => i.lo <= v) /\ (i.hf => v <= i.hi) }

Contains(i, v) == (i.lf => i.lo <= v) /\ (i.hf => v <= i.hi)

---------------------------------------------------------------------------
(* Concrete integer operations (ideal integers).                           *)

Abs(v) == IF v < 0 THEN -v ELSE v
Sgn(v) == IF v < 0 THEN -1 ELSE IF v > 0 THEN 1 ELSE 0

RECURSIVE Pow2(_)
Pow2(n) == IF n = 0 THEN 1 ELSE 2 * Pow2(n - 1)

\* Truncating division (big.Int.Quo), y # 0.
QuoT(x, y) == Sgn(x) * Sgn(y) * (Abs(x) \div Abs(y))

\* Two's complement on unbounded integers: floor division / non-negative
\* remainder by 2 peel off the low bit; the recursion ends in 0 or -1.
RECURSIVE BitAnd(_, _)
BitAnd(x, y) ==
    IF x = 0 \/ y = 0 THEN 0
    ELSE IF x = -1 THEN y
    ELSE IF y = -1 THEN x
    ELSE ((x % 2) * (y % 2)) + 2 * BitAnd(x \div 2, y \div 2)

RECURSIVE BitOr(_, _)
BitOr(x, y) ==
    IF x = 0 THEN y
    ELSE IF y = 0 THEN x
    ELSE IF x = -1 \/ y = -1 THEN -1
    ELSE (IF (x % 2) + (y % 2) > 0 THEN 1 ELSE 0) + 2 * BitOr(x \div 2, y \div 2)

Defined(op, x, y) ==
    CASE op = "quo" -> y # 0
      [] op = "lsh" -> y >= 0
      [] op = "rsh" -> y >= 0
      [] OTHER -> TRUE

Apply(op, x, y) ==
    CASE op = "add" -> x + y
      [] op = "sub" -> x - y
      [] op = "mul" -> x * y
      [] op = "quo" -> QuoT(x, y)
      [] op = "lsh" -> x * Pow2(y)
      [] op = "rsh" -> x \div Pow2(y)       \* floor: arithmetic shift right
      [] op = "and" -> BitAnd(x, y)
      [] op = "or"  -> BitOr(x, y)
      [] op = "rshbig" -> IF x < 0 THEN -1 ELSE 0   \* x >> (y + J), 2^J > |x|  (see IntervalLift!LawRshBig)

Arith == {"add", "sub", "mul", "quo", "lsh", "rsh", "and", "or", "rshbig"}

\* The comprehension.
S(op, X, Y) == { Apply(op, x, y) : <<x, y>> \in { p \in Members(X) \X Members(Y) : Defined(op, p[1], p[2]) } }
\* For "rshbig" the shift amounts are y + J with J >= 64 > B: negative only when
\* Y has no finite lower bound.
SomeUndefined(op, X, Y) ==
    IF op = "rshbig" THEN Members(X) # {} /\ ~Y.lf
    ELSE \E x \in Members(X), y \in Members(Y) : ~Defined(op, x, y)

SetMin(T) == CHOOSE m \in T : \A t \in T : m <= t
SetMax(T) == CHOOSE m \in T : \A t \in T : m >= t

---------------------------------------------------------------------------
(* What the real code answered: rows of                                    *)
(*   [ok, empty, lf, lo, hf, hi, alias]  as JSON arrays of integers (0/1). *)

Table == JsonDeserialize(TableFile)

\* Index of an interval in the harness's enumeration order (must match
\* harness/cmd/intervalreplay): lower bound index 0 = -oo, then -B..B;
\* upper bound index 0..2B = -B..B, then +oo.
LoIdx(i) == IF i.lf THEN i.lo + B + 1 ELSE 0
HiIdx(i) == IF i.hf THEN i.hi + B ELSE 2 * B + 1
NB == 2 * B + 2
IvalIdx(i) == LoIdx(i) * NB + HiIdx(i)
OpIdx(op) == CASE op = "add" -> 0 [] op = "sub" -> 1 [] op = "mul" -> 2 [] op = "quo" -> 3
               [] op = "lsh" -> 4 [] op = "rsh" -> 5 [] op = "and" -> 6 [] op = "or" -> 7
               [] op = "unite" -> 8 [] op = "intersect" -> 9 [] op = "rshbig" -> 10
               [] op = "andsc" -> 11 [] op = "orsc" -> 12
RowOf(X, Y, op) == Table[ (OpIdx(op) * NB * NB * NB * NB) + (IvalIdx(X) * NB * NB) + IvalIdx(Y) + 1 ]

Ans(r) == [ok |-> r[1] = 1, empty |-> r[2] = 1, lf |-> r[3] = 1, lo |-> r[4], hf |-> r[5] = 1, hi |-> r[6], alias |-> r[7] = 1,
           fits |-> r[8] = 1]

---------------------------------------------------------------------------
(* The acceptance predicate = the property, clause by clause.              *)

\* "an operation reports failure exactly when some pair makes it undefined"
OkExpected(op, X, Y) ==
    IF op \in Arith THEN ~SomeUndefined(op, X, Y) ELSE TRUE

\* "the result interval contains x op y for every x in X and y in Y"
Sound(op, X, Y, a) ==
    IF op \in Arith
    THEN \A v \in S(op, X, Y) : ~a.empty /\ Contains(a, v)
    ELSE IF op = "unite"
    THEN \A v \in Members(X) \cup Members(Y) : ~a.empty /\ Contains(a, v)
    ELSE \A v \in Members(X) \cap Members(Y) : ~a.empty /\ Contains(a, v)

\* "and is exactly the tightest such interval whenever all four bounds are finite"
HullSet(op, X, Y) ==
    IF op \in Arith THEN S(op, X, Y)
    ELSE IF op = "unite" THEN Members(X) \cup Members(Y)
    ELSE Members(X) \cap Members(Y)

Tight(op, X, Y, a) ==
    (AllFinite(X) /\ AllFinite(Y)) =>
        LET T == HullSet(op, X, Y) IN
        IF T = {} THEN a.empty
        ELSE /\ ~a.empty /\ a.lf /\ a.hf
             /\ a.lo = SetMin(T) /\ a.hi = SetMax(T)

\* "results never share storage with the operands"
NoAlias(a) == ~a.alias

Accept(op, X, Y, a) ==
    /\ a.ok = OkExpected(op, X, Y)
    /\ a.ok => /\ a.fits               \* the harness could represent the answer (|bound| < 2^30)
               /\ Sound(op, X, Y, a)
               /\ Tight(op, X, Y, a)
               /\ NoAlias(a)

---------------------------------------------------------------------------
(* Sparse scaling of and/or (ops "andsc", "orsc").  The harness calls And/Or *)
(* on X' = [a*2^k, b*2^k] and Y' = [c*2^k, d*2^k] (ALL integers in between,  *)
(* not only the multiples) for a large k.  Every x' is xh*2^k + xl, and      *)
(*   X' = Box([a, b-1], k) \cup {b*2^k}   (xl arbitrary in the box, 0 at b),  *)
(* so the exact hull is the hull of four pieces whose results are             *)
(* rh*2^k + rl with rl either fixed to 0 or ranging over all of 0..2^k-1:     *)
(* the expected answer is lo = L*2^k, hi = H*2^k + F*(2^k-1), with L, H, F    *)
(* computed here from small sets.  IntervalLift!LawSparse checks this         *)
(* decomposition against brute force for small k.                             *)

BitOp(o, a, b) == IF o = "andsc" THEN BitAnd(a, b) ELSE BitOr(a, b)
\* pieces: <<set of high parts, low part is free (1) or zero (0)>>
SparsePieces(o, X, Y) ==
    LET X1 == X.lo .. (X.hi - 1)   Y1 == Y.lo .. (Y.hi - 1)
        free2 == IF o = "orsc" THEN 1 ELSE 0      \* box x point: and -> low part 0, or -> low part free
    IN { <<{ BitOp(o, a, b) : a \in X1, b \in Y1 }, 1>>,
         <<{ BitOp(o, a, Y.hi) : a \in X1 }, free2>>,
         <<{ BitOp(o, X.hi, b) : b \in Y1 }, free2>>,
         <<{ BitOp(o, X.hi, Y.hi) }, 0>> }
SparseExpected(o, X, Y) ==
    LET ps == { p \in SparsePieces(o, X, Y) : p[1] # {} }
        highs == UNION { p[1] : p \in ps }
        H == SetMax(highs)
        F == IF \E p \in ps : p[2] = 1 /\ H \in p[1] THEN 1 ELSE 0
    IN [L |-> SetMin(highs), H |-> H, F |-> F]
SparseApplies(X, Y) == AllFinite(X) /\ AllFinite(Y) /\ ~IsEmpty(X) /\ ~IsEmpty(Y)

\* row layout for these ops: [ok (2 = not applicable), empty, lf, L, hf, H, alias, fits, F]
AcceptSparse(o, X, Y, r) ==
    IF ~SparseApplies(X, Y) THEN r[1] = 2
    ELSE LET e == SparseExpected(o, X, Y) IN
         /\ r[1] = 1 /\ r[2] = 0 /\ r[3] = 1 /\ r[5] = 1 /\ r[7] = 0 /\ r[8] = 1
         /\ r[4] = e.L /\ r[6] = e.H /\ r[9] = e.F

---------------------------------------------------------------------------
VARIABLES x, y, op

Init == x \in Universe /\ y \in Universe /\ op \in Ops
Next == UNCHANGED <<x, y, op>>
Spec == Init /\ [][Next]_<<x, y, op>>

RowOK == IF op \in {"andsc", "orsc"} THEN AcceptSparse(op, x, y, RowOf(x, y, op))
         ELSE Accept(op, x, y, Ans(RowOf(x, y, op)))

\* Vacuity guards, checked once (ASSUME): the universe contains every class
\* the property names, and the windows are wide enough for `ok` to be exact.
ASSUME W > B
ASSUME \E i \in Universe : IsEmpty(i)
ASSUME \E i \in Universe : ~i.lf /\ ~i.hf
ASSUME \E i \in Universe : ~i.lf /\ i.hf
ASSUME \E i \in Universe : i.lf /\ ~i.hf
=============================================================================

------------------------------ MODULE WuffsCore ------------------------------
(***************************************************************************)
(* A small-step operational semantics of a core of the Wuffs language,     *)
(* written against doc/wuffs-the-language.md and doc/note/*.md (ideal      *)
(* integers, checked ranges, modular / saturating operators as named,      *)
(* zero-initialised variables, left-to-right statement order, coroutines   *)
(* that suspend and resume) - NOT against internal/cgen.                    *)
(*                                                                         *)
(* Programs enter as the mechanical JSON image of the CHECKED AST that      *)
(* harness/cmd/wexport writes from /repo's lang/check (node table with the  *)
(* checker's claims: MBounds, ConstValue, facts before every statement).    *)
(*                                                                         *)
(* What TLC checks on it (one run serves several properties):               *)
(*   C01  NoFault       - no index/slice out of range, no overflow of a     *)
(*                        non-modular operator, conversion or store, no     *)
(*                        division by zero, no over-wide shift, no          *)
(*                        recursion; ClaimedRanges - every value computed   *)
(*                        in statement position lies in the exported range. *)
(*   C02  FactsTrue     - every fact / assert / loop invariant the checker  *)
(*                        holds at a statement is true whenever execution   *)
(*                        reaches it (incl. after suspensions, when the     *)
(*                        environment changed the buffers and arguments).   *)
(*   C05  NoPoisonRead  - (Mode = "cgen") a local that the generated C does *)
(*                        not save across a suspension is never read after  *)
(*                        resumption before being written.                  *)
(*   C04/C05 export     - the history variable `hist` carries, per public   *)
(*                        call, the specification's expected status,        *)
(*                        consumed/produced counts, output bytes and return *)
(*                        value; it is printed as JSON and replayed on the   *)
(*                        compiled C.                                       *)
(*                                                                         *)
(* Values: integers (bool = 0/1), status strings, arrays as sequences,      *)
(* slices as records <<base location, lo, hi>>.  Magnitudes are kept below  *)
(* 2^30 (TLC integers are 32-bit): a behaviour that would leave the window  *)
(* ends with fault = "oom" (out of model), which is never a violation.      *)
(*                                                                         *)
(* I/O objects.  A value of type io_reader / io_writer is a REFERENCE       *)
(* <<i, name>>: <<0, "src">> and <<0, "dst">> are the two buffers that the  *)
(* environment passes to a public call; <<i, r>> with i > 0 is the local    *)
(* variable r of the i-th frame of the call stack, which an enclosing       *)
(* io_bind block has bound to a slice.  io_limit / io_bind blocks are       *)
(* dynamic scopes: every frame carries a stack `iom` of the manipulations   *)
(* that are in force; the window a program sees through a reference is the  *)
(* real buffer cut down by every limit on that reference in every active    *)
(* frame.  Leaving the block by ANY way (end, break, continue, return)      *)
(* removes the manipulation; a suspension inside the block keeps it (the    *)
(* suspended frame is kept verbatim).                                       *)
(* iterate loops: the iteration variables are re-assigned at the start of   *)
(* every iteration from the loop's own cursor (doc/note/iterate-loops.md:   *)
(* "with chunk = input[8 .. 16]"), unrolling has no meaning, `break` leaves *)
(* the whole statement (all rounds), `continue` starts the next iteration.  *)
(* choose: the receiver remembers, per choosy function, which alternative   *)
(* is selected (initially the function itself).                             *)
(***************************************************************************)
EXTENDS Integers, Sequences, FiniteSets, TLC, Json, Bitwise

CONSTANTS ProgFile,   \* JSON: sequence of programs
          MaxCalls,   \* public calls per history (resumptions not counted)
          Mode,       \* "ideal" | "cgen"
          Schedule,   \* "oneshot" | "split"
          Fuel,       \* steps per history
          CheckFacts  \* TRUE: a false fact / assert / loop condition ends the behaviour (FactsTrue, C02);
                      \* FALSE: facts are not looked at, execution goes on to what the false fact would have "proven" safe
                      \* (C01's monitor, and the exported histories of C04 / C05)

Progs == JsonDeserialize(ProgFile)
Lim == 1073741824     \* 2^30

VARIABLES pi,        \* program index
          th,        \* receiver: field name -> value
          stack,     \* active frames (top = last)
          saved,     \* suspended coroutine frames: function name -> frame (or the empty record)
          src, dst,  \* I/O buffers of the current history
          mode,      \* "idle" (environment's turn) | "run" | "done"
          status,    \* status returned by the last public call
          retv,      \* value returned by the last public call
          disabled,  \* an error was returned: the object is dead
          active,    \* name of the suspended public coroutine ("" if none)
          fault,     \* "" or the first fault
          ncalls, hist, fuel,
          pend       \* the public call in progress (for the history)

vars == <<pi, th, stack, saved, src, dst, mode, status, retv, disabled, active, fault, ncalls, hist, fuel, pend>>

P == Progs[pi]
N == P.nodes
Nd(i) == N[i]

---------------------------------------------------------------------------
(* Types                                                                   *)

NumNames == {"u8", "u16", "u32", "u64", "i8", "i16", "i32", "i64"}
Width(c) == CASE c \in {"u8", "i8"} -> 8 [] c \in {"u16", "i16"} -> 16 [] c \in {"u32", "i32"} -> 32 [] OTHER -> 64
Signed(c) == c \in {"i8", "i16", "i32", "i64"}

RECURSIVE Pow2(_)
Pow2(n) == IF n = 0 THEN 1 ELSE 2 * Pow2(n - 1)

\* Range of an unrefined numeric type as [hlo, lo, hhi, hi] (h = 1 finite in model, 2 beyond the window)
BaseRange(c) ==
    IF c = "bool" THEN [hlo |-> 1, lo |-> 0, hhi |-> 1, hi |-> 1]
    ELSE IF Signed(c)
    THEN IF Width(c) <= 16 THEN [hlo |-> 1, lo |-> 0 - Pow2(Width(c) - 1), hhi |-> 1, hi |-> Pow2(Width(c) - 1) - 1]
         ELSE [hlo |-> 2, lo |-> 0, hhi |-> 2, hi |-> 0]
    ELSE IF Width(c) <= 16 THEN [hlo |-> 1, lo |-> 0, hhi |-> 1, hi |-> Pow2(Width(c)) - 1]
         ELSE [hlo |-> 1, lo |-> 0, hhi |-> 2, hi |-> 0]

IsNumTy(t) == t # 0 /\ Nd(t).k = "TypeExpr" /\ Nd(t).a = "" /\ Nd(t).b = "base" /\ (Nd(t).c \in NumNames \/ Nd(t).c = "bool")
IsIdealTy(t) == t # 0 /\ Nd(t).k = "TypeExpr" /\ Nd(t).a = "" /\ Nd(t).b = "base" /\ Nd(t).c = "ideal"
IsArrayTy(t) == t # 0 /\ Nd(t).k = "TypeExpr" /\ Nd(t).a \in {"array", "roarray"}
IsSliceTy(t) == t # 0 /\ Nd(t).k = "TypeExpr" /\ Nd(t).a \in {"slice", "roslice"}
IsStatusTy(t) == t # 0 /\ Nd(t).k = "TypeExpr" /\ Nd(t).a = "" /\ Nd(t).b = "base" /\ Nd(t).c = "status"
IsReaderTy(t) == t # 0 /\ Nd(t).k = "TypeExpr" /\ Nd(t).a = "" /\ Nd(t).b = "base" /\ Nd(t).c = "io_reader"
IsWriterTy(t) == t # 0 /\ Nd(t).k = "TypeExpr" /\ Nd(t).a = "" /\ Nd(t).b = "base" /\ Nd(t).c = "io_writer"
IsIOTy(t) == IsReaderTy(t) \/ IsWriterTy(t)

\* Range of a (possibly refined) numeric type: refinement bounds are constant expressions.
TyRange(t) ==
    LET b == BaseRange(Nd(t).c)
        lo == IF Nd(t).l # 0 /\ Nd(Nd(t).l).hcv = 1 THEN [h |-> 1, v |-> Nd(Nd(t).l).cv]
              ELSE IF Nd(t).l # 0 THEN [h |-> 2, v |-> 0] ELSE [h |-> b.hlo, v |-> b.lo]
        hi == IF Nd(t).m # 0 /\ Nd(Nd(t).m).hcv = 1 THEN [h |-> 1, v |-> Nd(Nd(t).m).cv]
              ELSE IF Nd(t).m # 0 THEN [h |-> 2, v |-> 0] ELSE [h |-> b.hhi, v |-> b.hi]
    IN [hlo |-> lo.h, lo |-> lo.v, hhi |-> hi.h, hi |-> hi.v]

InRange(v, r) == (r.hlo = 1 => v >= r.lo) /\ (r.hhi = 1 => v <= r.hi)
ArrayLen(t) == Nd(Nd(t).l).cv

---------------------------------------------------------------------------
(* Arithmetic helpers that never make TLC overflow                          *)

Abs(v) == IF v < 0 THEN 0 - v ELSE v
OOM(v) == v >= Lim \/ v <= 0 - Lim
\* product, or Lim (= out of model) if it would leave the window
SafeMul(x, y) == IF x = 0 \/ y = 0 THEN 0
                 ELSE IF Abs(x) >= Lim \/ Abs(y) >= Lim \/ Abs(x) > (Lim \div Abs(y)) THEN Lim
                 ELSE x * y
SafeShl(x, k) == IF k >= 30 THEN (IF x = 0 THEN 0 ELSE Lim) ELSE SafeMul(x, Pow2(k))
Mod2(v, w) == IF w >= 30 THEN v ELSE v % Pow2(w)     \* for v >= 0 inside the window
Clamp(v, r) == IF r.hlo = 1 /\ v < r.lo THEN r.lo ELSE IF r.hhi = 1 /\ v > r.hi THEN r.hi ELSE v
\* arithmetic shift right of a value inside the window by any amount (Bitwise!shiftR is a 32-bit Java shift)
ShR(x, k) == IF k >= 30 THEN (IF x < 0 THEN 0 - 1 ELSE 0) ELSE x \div Pow2(k)
Min2(x, y) == IF x < y THEN x ELSE y
SetMin(S) == CHOOSE x \in S : \A y \in S : x <= y

---------------------------------------------------------------------------
(* Expression evaluation.  C is the context [loc, args, pz]; th, src, dst   *)
(* are read from the state.  The result is always a record [v, f]: value    *)
(* and set of faults (so that TLC never compares values of different kinds).*)

\* faults are records [k, d]: k = "viol" (a safety violation of the program), "unsup" (outside the modelled
\* core language), "oom" (a value left the 2^30 window), "poison" (read of a local that the generated C does not
\* save across a suspension), "fuel"
V(d) == [k |-> "viol", d |-> d]
U(d) == [k |-> "unsup", d |-> d]
OOMF == [k |-> "oom", d |-> ""]
PZ(x) == [k |-> "poison", d |-> x]
R(v) == [v |-> v, f |-> {}]
F(s) == [v |-> 0, f |-> {s}]
Un(a, v) == [v |-> v, f |-> a.f]
Bi(a, b, v) == [v |-> v, f |-> a.f \cup b.f]
AddF(a, s) == [v |-> a.v, f |-> a.f \cup s]

\* (whether a value is an array (sequence) or a slice (record) is decided from the STATIC type of the
\* expression that produced it: TLC cannot compare values of different kinds)

\* where a slice points: a location is <<"loc"|"th"|"arg", name>>
Deref(C, loc) == CASE loc[1] = "loc" -> C.loc[loc[2]] [] loc[1] = "th" -> th[loc[2]] [] loc[1] = "arg" -> C.args[loc[2]]

Names(seq) == { seq[i].n : i \in 1..Len(seq) }

---------------------------------------------------------------------------
(* I/O references and windows.  C = [loc, args, pz, rc, fi, iom]: the frame *)
(* under evaluation is frame number C.fi of the call stack; the frames      *)
(* below it are stack[1 .. C.fi - 1].                                       *)

EmptySlice == [sl |-> TRUE, base |-> <<"none", "">>, lo |-> 0, hi |-> 0]
\* value of a local io_reader / io_writer variable: not bound, or bound by io_bind to the slice sl (in the owner's frame)
\* with read index ri (readers) / write index wi (writers) and history position hp
Unbound == [bound |-> FALSE, sl |-> EmptySlice, ri |-> 0, wi |-> 0, hp |-> 0]

FLoc(i, C) == IF i = C.fi THEN C.loc ELSE stack[i].loc
FIom(i, C) == IF i = C.fi THEN C.iom ELSE stack[i].iom

\* the reference that an io-typed expression denotes, or <<>>
IORef(e, C) ==
    LET n == Nd(e) IN
    IF n.a = "." /\ Nd(n.l).a = "" /\ Nd(n.l).c = "args" /\ n.c \in DOMAIN C.args THEN C.args[n.c]
    ELSE IF n.a = "" /\ n.c \in DOMAIN C.loc THEN <<C.fi, n.c>>
    ELSE <<>>

\* end positions of the io_limit blocks in force on ref, in every active frame
LimEnds(ref, C) ==
    UNION { { FIom(i, C)[k].end : k \in { j \in 1..Len(FIom(i, C)) : FIom(i, C)[j].k = "limit" /\ FIom(i, C)[j].ref = ref } } : i \in 1..C.fi }
Cut(v, ends) == IF ends = {} THEN v ELSE Min2(v, SetMin(ends))

\* elements of a slice value that lives in frame i
SliceElems(sl, i, C) ==
    IF sl.base[1] = "th" THEN SubSeq(th[sl.base[2]], sl.lo + 1, sl.hi)
    ELSE IF sl.base[1] = "loc" THEN SubSeq(FLoc(i, C)[sl.base[2]], sl.lo + 1, sl.hi)
    ELSE <<>>

\* what the program sees through a reader reference: data[ri+1 .. wi] is available, closed = no more will come
RdView(ref, C) ==
    LET ends == LimEnds(ref, C) IN
    IF ref[1] = 0
    THEN [data |-> src.data, ri |-> src.ri, wi |-> Cut(src.wi, ends), closed |-> src.closed /\ Cut(src.wi, ends) = src.wi, hp |-> 0]
    ELSE LET b == FLoc(ref[1], C)[ref[2]]
             bytes == IF b.bound THEN SliceElems(b.sl, ref[1], C) ELSE <<>>
         IN [data |-> bytes, ri |-> b.ri, wi |-> Cut(Len(bytes), ends), closed |-> FALSE, hp |-> b.hp]
\* ... and through a writer reference: hist = the n bytes written so far that are still in the buffer, cap - n = room
WrView(ref, C) ==
    LET ends == LimEnds(ref, C) IN
    IF ref[1] = 0
    THEN [hist |-> dst.data, n |-> Len(dst.data), cap |-> Cut(dst.cap, ends), hp |-> 0]
    ELSE LET b == FLoc(ref[1], C)[ref[2]]
             bytes == IF b.bound THEN SliceElems(b.sl, ref[1], C) ELSE <<>>
         IN [hist |-> SubSeq(bytes, 1, b.wi), n |-> b.wi, cap |-> Cut(Len(bytes), ends), hp |-> b.hp]

RECURSIVE Eval(_, _)
RECURSIVE Eval0(_, _)
RECURSIVE ArgVals(_, _, _)
RECURSIVE LEVal(_, _)
RECURSIVE EvalList(_, _, _)

\* the location an array-valued expression denotes (for slices and stores), or <<>>
LocOf(e) ==
    LET n == Nd(e) IN
    IF n.a = "" /\ n.hcv # 1 THEN <<"loc", n.c>>
    ELSE IF n.a = "." /\ Nd(n.l).a = "" /\ Nd(n.l).c = "this" THEN <<"th", n.c>>
    ELSE IF n.a = "." /\ Nd(n.l).a = "" /\ Nd(n.l).c = "args" THEN <<"arg", n.c>>
    ELSE <<>>

BinOp(op, n, a, b) ==
    LET x == a.v  y == b.v
        ty == n.ty
        rng == IF IsNumTy(ty) THEN BaseRange(Nd(ty).c) ELSE [hlo |-> 0, lo |-> 0, hhi |-> 0, hi |-> 0]
        w == IF IsNumTy(ty) /\ Nd(ty).c # "bool" THEN Width(Nd(ty).c) ELSE 64
        chk(v) == IF OOM(v) THEN [v |-> 0, f |-> a.f \cup b.f \cup {OOMF}]
                  ELSE IF IsNumTy(ty) /\ ~InRange(v, rng) THEN [v |-> v, f |-> a.f \cup b.f \cup {V("overflow")}]
                  ELSE Bi(a, b, v)
        wrap(v) == IF OOM(v) THEN [v |-> 0, f |-> a.f \cup b.f \cup {OOMF}] ELSE Bi(a, b, Mod2(v, w))
    IN CASE op = "+" -> chk(x + y)
         [] op = "-" -> chk(x - y)
         [] op = "*" -> chk(SafeMul(x, y))
         [] op = "/" -> IF y = 0 THEN AddF(Bi(a, b, 0), {V("divzero")}) ELSE chk(x \div y)
         [] op = "%" -> IF y = 0 THEN AddF(Bi(a, b, 0), {V("divzero")}) ELSE chk(x % y)
         [] op = "<<" -> IF y < 0 \/ y >= w THEN AddF(Bi(a, b, 0), {V("shift")}) ELSE chk(SafeShl(x, y))
         [] op = ">>" -> IF y < 0 \/ y >= w THEN AddF(Bi(a, b, 0), {V("shift")}) ELSE Bi(a, b, ShR(x, y))
         [] op = "&" -> Bi(a, b, x & y)
         [] op = "|" -> Bi(a, b, x | y)
         [] op = "^" -> Bi(a, b, x ^^ y)
         [] op = "~mod+" -> wrap(x + y)
         [] op = "~mod-" -> IF w >= 30 /\ x < y THEN AddF(Bi(a, b, 0), {OOMF}) ELSE wrap((x - y) + (IF w < 30 THEN Pow2(w) ELSE 0))
         [] op = "~mod*" -> wrap(SafeMul(x, y))
         [] op = "~mod<<" -> IF y < 0 \/ y >= w THEN AddF(Bi(a, b, 0), {V("shift")}) ELSE wrap(SafeShl(x, y))
         [] op = "~sat+" -> IF OOM(x + y) THEN AddF(Bi(a, b, 0), {OOMF}) ELSE Bi(a, b, Clamp(x + y, rng))
         [] op = "~sat-" -> Bi(a, b, Clamp(x - y, rng))
         [] op = "==" -> Bi(a, b, IF x = y THEN 1 ELSE 0)
         [] op = "<>" -> Bi(a, b, IF x # y THEN 1 ELSE 0)
         [] op = "<" -> Bi(a, b, IF x < y THEN 1 ELSE 0)
         [] op = "<=" -> Bi(a, b, IF x <= y THEN 1 ELSE 0)
         [] op = ">" -> Bi(a, b, IF x > y THEN 1 ELSE 0)
         [] op = ">=" -> Bi(a, b, IF x >= y THEN 1 ELSE 0)
         [] op = "and" -> Bi(a, b, IF x = 1 /\ y = 1 THEN 1 ELSE 0)
         [] op = "or" -> Bi(a, b, IF x = 1 \/ y = 1 THEN 1 ELSE 0)
         [] OTHER -> AddF(Bi(a, b, 0), {U(op)})

BinOps == {"+", "-", "*", "/", "%", "<<", ">>", "&", "|", "^", "~mod+", "~mod-", "~mod*", "~mod<<", "~sat+", "~sat-",
           "==", "<>", "<", "<=", ">", ">=", "and", "or"}

\* Built-in I/O methods at statement level.  Returns the action.
ReadN(meth) == CASE meth \in {"read_u8", "read_u8_as_u16", "read_u8_as_u32", "read_u8_as_u64"} -> 1
                 [] meth \in {"read_u16le", "read_u16be", "read_u16le_as_u32", "read_u16be_as_u32", "read_u16le_as_u64", "read_u16be_as_u64"} -> 2
                 [] meth \in {"read_u24le", "read_u24be", "read_u24le_as_u32", "read_u24be_as_u32", "read_u24le_as_u64", "read_u24be_as_u64"} -> 3
                 [] meth \in {"read_u32le", "read_u32be", "read_u32le_as_u64", "read_u32be_as_u64"} -> 4
                 [] meth \in {"read_u40le_as_u64", "read_u40be_as_u64"} -> 5
                 [] meth \in {"read_u48le_as_u64", "read_u48be_as_u64"} -> 6
                 [] meth \in {"read_u56le_as_u64", "read_u56be_as_u64"} -> 7
                 [] meth \in {"read_u64le", "read_u64be"} -> 8
                 [] OTHER -> 0
IsBE(meth) == meth \in {"read_u16be", "read_u16be_as_u32", "read_u16be_as_u64", "read_u24be", "read_u24be_as_u32", "read_u24be_as_u64", "read_u32be", "read_u32be_as_u64",
                        "read_u40be_as_u64", "read_u48be_as_u64", "read_u56be_as_u64", "read_u64be"}

\* value of k bytes (sequence) little- or big-endian
LEVal(bs, i) == IF i > Len(bs) THEN 0 ELSE bs[i] + 256 * LEVal(bs, i + 1)
BEVal(bs) == LEVal([i \in 1..Len(bs) |-> bs[Len(bs) + 1 - i]], 1)
\* the same, but Lim (= out of model) when the value would leave the 2^30 window (TLC integers are 32-bit)
SafeLE(bs) == IF \E i \in 5..Len(bs) : bs[i] # 0 THEN Lim
              ELSE IF Len(bs) >= 4 /\ bs[4] >= 64 THEN Lim
              ELSE LEVal(SubSeq(bs, 1, Min2(Len(bs), 4)), 1)
SafeBE(bs) == SafeLE([i \in 1..Len(bs) |-> bs[Len(bs) + 1 - i]])
\* the n bytes of v (0 <= v < 2^30), little- or big-endian
LEBytes(v, n) == [i \in 1..n |-> ShR(v, 8 * (i - 1)) % 256]
BEBytes(v, n) == [i \in 1..n |-> ShR(v, 8 * (n - i)) % 256]

PeekN(meth) == CASE meth \in {"peek_u8", "peek_u8_as_u16", "peek_u8_as_u32", "peek_u8_as_u64"} -> 1
                 [] meth \in {"peek_u16le", "peek_u16be", "peek_u16le_as_u32", "peek_u16be_as_u32", "peek_u16le_as_u64", "peek_u16be_as_u64"} -> 2
                 [] meth \in {"peek_u24le_as_u32", "peek_u24be_as_u32", "peek_u24le_as_u64", "peek_u24be_as_u64"} -> 3
                 [] meth \in {"peek_u32le", "peek_u32be", "peek_u32le_as_u64", "peek_u32be_as_u64"} -> 4
                 [] meth \in {"peek_u40le_as_u64", "peek_u40be_as_u64"} -> 5
                 [] meth \in {"peek_u48le_as_u64", "peek_u48be_as_u64"} -> 6
                 [] meth \in {"peek_u56le_as_u64", "peek_u56be_as_u64"} -> 7
                 [] meth \in {"peek_u64le", "peek_u64be"} -> 8
                 [] OTHER -> 0
PeekBE(meth) == meth \in {"peek_u16be", "peek_u16be_as_u32", "peek_u16be_as_u64", "peek_u24be_as_u32", "peek_u24be_as_u64", "peek_u32be", "peek_u32be_as_u64",
                          "peek_u40be_as_u64", "peek_u48be_as_u64", "peek_u56be_as_u64", "peek_u64be"}
\* unchecked multi-byte stores: io_writer.write_uNN{le,be}_fast!, slice.poke_uNN{le,be}!
WriteN(meth) == CASE meth \in {"write_u8_fast", "poke_u8"} -> 1
                  [] meth \in {"write_u16le_fast", "write_u16be_fast", "poke_u16le", "poke_u16be"} -> 2
                  [] meth \in {"write_u24le_fast", "write_u24be_fast", "poke_u24le", "poke_u24be"} -> 3
                  [] meth \in {"write_u32le_fast", "write_u32be_fast", "poke_u32le", "poke_u32be"} -> 4
                  [] meth \in {"write_u40le_fast", "write_u40be_fast", "poke_u40le", "poke_u40be"} -> 5
                  [] meth \in {"write_u48le_fast", "write_u48be_fast", "poke_u48le", "poke_u48be"} -> 6
                  [] meth \in {"write_u56le_fast", "write_u56be_fast", "poke_u56le", "poke_u56be"} -> 7
                  [] meth \in {"write_u64le_fast", "write_u64be_fast", "poke_u64le", "poke_u64be"} -> 8
                  [] OTHER -> 0
WriteBE(meth) == meth \in {"write_u16be_fast", "write_u24be_fast", "write_u32be_fast", "write_u40be_fast", "write_u48be_fast", "write_u56be_fast", "write_u64be_fast",
                           "poke_u16be", "poke_u24be", "poke_u32be", "poke_u40be", "poke_u48be", "poke_u56be", "poke_u64be"}

\* argument record of a user call: list0 of the call node holds Arg nodes
ArgVals(xs, i, C) == IF i > Len(xs) THEN [v |-> <<>>, f |-> {}]
                     ELSE LET a == Nd(xs[i])
                              isio == IsIOTy(Nd(a.r).ty)
                              rf == IF isio THEN IORef(a.r, C) ELSE <<>>
                              r == IF isio THEN (IF Len(rf) = 0 THEN F(U("io argument")) ELSE R(rf)) ELSE Eval(a.r, C)
                              rest == ArgVals(xs, i + 1, C)
                          IN [v |-> <<[n |-> a.c, v |-> r.v]>> \o rest.v, f |-> r.f \cup rest.f]
ArgFun(seq) == [x \in { seq[i].n : i \in 1..Len(seq) } |-> (CHOOSE p \in { seq[i] : i \in 1..Len(seq) } : p.n = x).v]

\* parameter refinements of a user call
ParamViol(f, argf) == \E i \in 1..Len(f.params) :
    LET p == f.params[i] IN IsNumTy(p.ty) /\ p.n \in DOMAIN argf /\ ~InRange(argf[p.n], TyRange(p.ty))

\* built-in pure methods of io_reader / io_writer values
IOMethod(C, recvE, meth, argsE) ==
    LET rt == Nd(recvE).ty
        rf == IORef(recvE, C)
    IN IF Len(rf) = 0 THEN F(U("io expression"))
       ELSE IF rf[1] = C.fi /\ rf[2] \in C.pz THEN F(PZ(rf[2]))
       ELSE IF IsReaderTy(rt)
       THEN LET v == RdView(rf, C) IN
            IF PeekN(meth) > 0
            THEN \* unchecked built-in: its pre-condition (enough bytes) must have been proven by the checker
                 IF v.wi - v.ri < PeekN(meth) THEN F(V("precondition " \o meth))
                 ELSE LET bs == SubSeq(v.data, v.ri + 1, v.ri + PeekN(meth))
                          x == IF PeekBE(meth) THEN SafeBE(bs) ELSE SafeLE(bs)
                      IN IF x >= Lim THEN F(OOMF) ELSE R(x)
            ELSE IF meth = "length" THEN R(v.wi - v.ri)
            ELSE IF meth = "is_closed" THEN R(IF v.closed THEN 1 ELSE 0)
            ELSE IF meth = "position" THEN (IF OOM(v.hp + v.ri) THEN F(OOMF) ELSE R(v.hp + v.ri))
            ELSE IF meth = "mark" THEN R(v.ri)
            ELSE IF meth = "count_since" /\ Len(argsE) = 1
            THEN LET m == Eval(Nd(argsE[1]).r, C) IN IF m.f # {} THEN m ELSE Un(m, IF v.ri >= m.v THEN v.ri - m.v ELSE 0)
            ELSE F(U("method " \o meth))
       ELSE LET w == WrView(rf, C) IN
            IF meth = "length" THEN R(w.cap - w.n)
            ELSE IF meth = "history_length" THEN R(w.n)
            ELSE IF meth = "history_position" THEN R(w.hp)
            ELSE IF meth = "position" THEN (IF OOM(w.hp + w.n) THEN F(OOMF) ELSE R(w.hp + w.n))
            ELSE IF meth = "mark" THEN R(w.n)
            ELSE IF meth = "count_since" /\ Len(argsE) = 1
            THEN LET m == Eval(Nd(argsE[1]).r, C) IN IF m.f # {} THEN m ELSE Un(m, IF w.n >= m.v THEN w.n - m.v ELSE 0)
            ELSE F(U("method " \o meth))

\* built-in pure methods: recvE is the receiver expression
Method(C, n, recvE, meth, argsE) ==
    LET rt == Nd(recvE).ty IN
    IF IsIOTy(rt) THEN IOMethod(C, recvE, meth, argsE)
    ELSE
    LET rv == Eval(recvE, C)
    IN IF meth = "length" /\ (IsArrayTy(rt) \/ IsSliceTy(rt))
       THEN IF rv.f # {} THEN rv ELSE IF IsSliceTy(rt) THEN Un(rv, rv.v.hi - rv.v.lo) ELSE Un(rv, Len(rv.v))
       ELSE IF meth \in {"prefix", "suffix"} /\ IsSliceTy(rt) /\ Len(argsE) = 1
       THEN \* the first / last up_to elements (all of them if there are fewer)
            LET o == Eval(Nd(argsE[1]).r, C) IN
            IF rv.f # {} THEN rv
            ELSE IF o.f # {} /\ o.f # {OOMF} THEN o
            ELSE LET len == rv.v.hi - rv.v.lo
                     k == IF o.f # {} THEN len ELSE Min2(o.v, len)
                 IN IF meth = "prefix" THEN R([rv.v EXCEPT !.hi = rv.v.lo + k]) ELSE R([rv.v EXCEPT !.lo = rv.v.hi - k])
       ELSE IF IsSliceTy(rt) /\ PeekN(meth) > 0
       THEN \* unchecked: slice.peek_uNN needs length() >= N
            IF rv.f # {} THEN rv
            ELSE IF rv.v.hi - rv.v.lo < PeekN(meth) THEN F(V("precondition " \o meth))
            ELSE LET bs == SubSeq(SliceElems(rv.v, C.fi, C), 1, PeekN(meth))
                     x == IF PeekBE(meth) THEN SafeBE(bs) ELSE SafeLE(bs)
                 IN IF x >= Lim THEN F(OOMF) ELSE R(x)
       ELSE IF meth \in {"min", "max"} /\ Len(argsE) = 1
       THEN LET o == Eval(Nd(argsE[1]).r, C) IN
            Bi(rv, o, IF meth = "min" THEN (IF rv.v < o.v THEN rv.v ELSE o.v) ELSE (IF rv.v > o.v THEN rv.v ELSE o.v))
       ELSE IF meth \in {"low_bits", "high_bits"} /\ Len(argsE) = 1 /\ IsNumTy(rt) /\ Nd(rt).c # "bool" /\ ~Signed(Nd(rt).c)
       THEN \* the n lowest bits / the n highest bits (moved down) of an unsigned value, n < width
            LET o == Eval(Nd(argsE[1]).r, C)
                w == Width(Nd(rt).c)
            IN IF rv.f # {} \/ o.f # {} THEN Bi(rv, o, 0)
               ELSE IF o.v < 0 \/ o.v >= w THEN AddF(Bi(rv, o, 0), {V("argument")})
               ELSE IF meth = "low_bits" THEN Bi(rv, o, Mod2(rv.v, o.v))
               ELSE Bi(rv, o, ShR(rv.v, w - o.v))
       ELSE IF meth = "is_ok" THEN Un(rv, IF rv.v = "ok" THEN 1 ELSE 0)
       ELSE IF meth = "is_error" THEN Un(rv, IF rv.v \in { P.errs[i] : i \in 1..Len(P.errs) } THEN 1 ELSE 0)
       ELSE IF meth = "is_suspension" THEN Un(rv, IF rv.v \in { P.susps[i] : i \in 1..Len(P.susps) } THEN 1 ELSE 0)
       ELSE IF meth = "is_note" THEN Un(rv, IF rv.v \in { P.notes[i] : i \in 1..Len(P.notes) } THEN 1 ELSE 0)
       ELSE F(U("method " \o meth))

\* C.rc = TRUE: also check the checker's claimed range (MBounds) of every numeric node that is evaluated (C01).
\* Calls with an effect are never evaluated here (they are statements).
Eval(e, C) ==
    LET n == Nd(e)
        r == Eval0(e, C)
    IN IF C.rc /\ r.f = {} /\ IsNumTy(n.ty) /\ ((n.hlo = 1 /\ r.v < n.lo) \/ (n.hhi = 1 /\ r.v > n.hi))
       THEN AddF(r, {[k |-> "range", d |-> ToString(e)]}) ELSE r

Eval0(e, C) ==
    LET n == Nd(e) IN
    IF n.hcv = 1 /\ (IsNumTy(n.ty) \/ IsIdealTy(n.ty)) THEN R(n.cv)
    ELSE IF n.hcv = 2 THEN F(OOMF)
    ELSE IF n.a = ""
    THEN \* identifier or literal
         IF IsStatusTy(n.ty) /\ n.c \notin DOMAIN C.loc THEN R(n.c)
         ELSE IF n.c \in DOMAIN C.loc
         THEN IF n.c \in C.pz THEN [v |-> C.loc[n.c], f |-> {PZ(n.c)}] ELSE R(C.loc[n.c])
         ELSE F(U("ident " \o n.c))
    ELSE IF n.a = "."
    THEN IF IsStatusTy(n.ty) /\ Nd(n.l).a = "" /\ Nd(n.l).c = "base" THEN R("base." \o n.c)
         ELSE IF Nd(n.l).a = "" /\ Nd(n.l).c = "args" /\ n.c \in DOMAIN C.args THEN R(C.args[n.c])
         ELSE IF Nd(n.l).a = "" /\ Nd(n.l).c = "this" /\ n.c \in DOMAIN th THEN R(th[n.c])
         ELSE F(U("selector " \o n.c))
    ELSE IF n.a = "["
    THEN LET b == Eval(n.l, C)  i == Eval(n.r, C) IN
         IF b.f # {} \/ i.f # {} THEN Bi(b, i, 0)
         ELSE IF IsSliceTy(Nd(n.l).ty)
         THEN IF i.v < 0 \/ i.v >= b.v.hi - b.v.lo THEN F(V("index"))
              ELSE R(Deref(C, b.v.base)[b.v.lo + i.v + 1])
         ELSE IF i.v < 0 \/ i.v >= Len(b.v) THEN F(V("index")) ELSE R(b.v[i.v + 1])
    ELSE IF n.a = ".."
    THEN LET b == Eval(n.l, C)
             lo == IF n.m = 0 THEN R(0) ELSE Eval(n.m, C)
             len == IF b.f # {} THEN 0 ELSE IF IsSliceTy(Nd(n.l).ty) THEN b.v.hi - b.v.lo ELSE Len(b.v)
             hi == IF n.r = 0 THEN R(len) ELSE Eval(n.r, C)
             fs == b.f \cup lo.f \cup hi.f
         IN IF fs # {} THEN [v |-> 0, f |-> fs]
            ELSE IF lo.v < 0 \/ lo.v > hi.v \/ hi.v > len THEN F(V("slice"))
            ELSE IF IsSliceTy(Nd(n.l).ty) THEN R([sl |-> TRUE, base |-> b.v.base, lo |-> b.v.lo + lo.v, hi |-> b.v.lo + hi.v])
            ELSE IF LocOf(n.l) = <<>> THEN F(U("slice base"))
            ELSE R([sl |-> TRUE, base |-> LocOf(n.l), lo |-> lo.v, hi |-> hi.v])
    ELSE IF n.a = "as"
    THEN LET x == Eval(n.l, C) IN
         IF x.f # {} THEN x
         ELSE IF IsNumTy(n.r) /\ ~InRange(x.v, TyRange(n.r)) THEN AddF(x, {V("conversion")}) ELSE x
    ELSE IF n.a = "("
    THEN IF Nd(n.l).a = "." /\ Nd(Nd(n.l).l).a = "" /\ Nd(Nd(n.l).l).c = "this" /\ Nd(n.l).c \in DOMAIN P.fmap
         THEN \* a pure user function inside an expression: interpreted when its body is a single `return e`
              LET g == IF P.fmap[Nd(n.l).c].choosy THEN P.fmap[th["~" \o Nd(n.l).c]] ELSE P.fmap[Nd(n.l).c]
                  body == Nd(g.id).z
              IN IF g.eff # "" \/ Len(body) # 1 \/ Nd(body[1]).k # "Ret" \/ Nd(body[1]).l = 0 THEN F(U("call in expression"))
                 ELSE LET av == ArgVals(n.x, 1, C) IN
                      IF av.f # {} THEN [v |-> 0, f |-> av.f]
                      ELSE IF ParamViol(g, ArgFun(av.v)) THEN F(V("argument"))
                      ELSE Eval(Nd(body[1]).l, [loc |-> <<>>, args |-> ArgFun(av.v), pz |-> {}, rc |-> C.rc, fi |-> C.fi + 1, iom |-> <<>>])
         ELSE IF Nd(n.l).a = "." THEN Method(C, n, Nd(n.l).l, Nd(n.l).c, n.x) ELSE F(U("call in expression"))
    ELSE IF n.ar = "u"
    THEN LET x == Eval(n.r, C) IN
         CASE n.a = "+" -> x
           [] n.a = "-" -> IF IsNumTy(n.ty) /\ ~InRange(0 - x.v, BaseRange(Nd(n.ty).c)) THEN AddF(Un(x, 0 - x.v), {V("overflow")}) ELSE Un(x, 0 - x.v)
           [] n.a = "not" -> Un(x, 1 - x.v)
           [] OTHER -> F(U("unary " \o n.a))
    ELSE IF n.ar = "b"
    THEN LET a == Eval(n.l, C) IN
         IF a.f # {} THEN a
         ELSE IF n.a = "and" /\ a.v = 0 THEN a                 \* short-circuit, as in the generated C
         ELSE IF n.a = "or" /\ a.v = 1 THEN a
         ELSE
         LET b == Eval(n.r, C) IN
         IF b.f # {} THEN Bi(a, b, 0)
         ELSE IF IsStatusTy(Nd(n.l).ty) THEN (IF n.a = "==" THEN Bi(a, b, IF a.v = b.v THEN 1 ELSE 0)
                                              ELSE IF n.a = "<>" THEN Bi(a, b, IF a.v # b.v THEN 1 ELSE 0) ELSE F(U("status operator")))
         ELSE BinOp(n.a, n, a, b)
    ELSE IF n.ar = "a" THEN EvalList(n, C, Len(n.x))
    ELSE F(U("expr " \o n.a))

\* associative operators: left fold over the first i operands of list0
EvalList(n, C, i) ==
    IF i = 1 THEN Eval(n.x[1], C)
    ELSE LET acc == EvalList(n, C, i - 1) IN
         IF acc.f # {} THEN acc
         ELSE IF n.a = "and" /\ acc.v = 0 THEN acc             \* short-circuit, as in the generated C
         ELSE IF n.a = "or" /\ acc.v = 1 THEN acc
         ELSE LET b == Eval(n.x[i], C) IN
              IF b.f # {} THEN Bi(acc, b, 0) ELSE BinOp(n.a, n, acc, b)

EvalTop(e, C) == Eval(e, C)

---------------------------------------------------------------------------
(* Frames and control                                                       *)

FuncRec(name) == P.fmap[name]          \* (the exporter also writes the function table keyed by name)

FuncTarget(name) == IF P.fmap[name].choosy THEN P.fmap[th["~" \o name]] ELSE P.fmap[name]   \* (`choose` redirects calls of a choosy function)

ZeroOf(l) == IF l.arr > 0 THEN [i \in 1..l.arr |-> 0] ELSE IF l.kind = "status" THEN "ok" ELSE IF l.kind = "slice" THEN EmptySlice
             ELSE IF l.kind \in {"reader", "writer"} THEN Unbound ELSE 0

\* fi: the frame's position in the call stack; its: the iterate loops in progress (innermost last), each
\* [root, cur (round node), pos, n, d (depth of the control stack at the statement), ivs]; iom: the io_limit / io_bind
\* blocks in force (innermost last), each [k, ref, end, name, old]
NewFrame(f, args, fi) ==
    [fn |-> f.name, args |-> args, fi |-> fi, its |-> <<>>, iom |-> <<>>,
     loc |-> [x \in Names(f.locals) |-> ZeroOf(CHOOSE l \in { f.locals[i] : i \in 1..Len(f.locals) } : l.n = x)],
     ctl |-> << [o |-> f.id, w |-> "z", pc |-> 1] >>,
     pz |-> {}, loops |-> {}, io |-> [k |-> "none"],
     re |-> FALSE]      \* re: the current statement is being re-entered after a suspension inside it

Top == stack[Len(stack)]
Ctx(fr) == [loc |-> fr.loc, args |-> fr.args, pz |-> fr.pz, rc |-> TRUE, fi |-> fr.fi, iom |-> fr.iom]
NoRc(C) == [C EXCEPT !.rc = FALSE]
CtlTop(fr) == fr.ctl[Len(fr.ctl)]
ListOf(c) == IF c.w = "z" THEN Nd(c.o).z ELSE Nd(c.o).y
CurStmt(fr) == ListOf(CtlTop(fr))[CtlTop(fr).pc]
AtEnd(fr) == CtlTop(fr).pc > Len(ListOf(CtlTop(fr)))

SetTop(fr) == [stack EXCEPT ![Len(stack)] = fr]
Advance(fr) == [fr EXCEPT !.ctl[Len(fr.ctl)].pc = @ + 1, !.re = FALSE]
PopCtl(fr) == [fr EXCEPT !.ctl = SubSeq(@, 1, Len(@) - 1)]
PushCtl(fr, o, w) == [fr EXCEPT !.ctl = Append(@, [o |-> o, w |-> w, pc |-> 1])]

\* (a safety violation is reported with the statement that was being executed: "index@<node>")
Fault(s) == /\ fault' = IF s.k = "viol" /\ mode = "run" /\ Len(stack) > 0 /\ ~AtEnd(Top)
                         THEN [k |-> s.k, d |-> s.d \o "@" \o ToString(CurStmt(Top))] ELSE s
            /\ mode' = "done"
            /\ UNCHANGED <<pi, th, stack, saved, src, dst, status, retv, disabled, active, ncalls, hist, fuel, pend>>

FirstOf(S) == CHOOSE x \in S : TRUE
NoFaultRec == [k |-> "none", d |-> ""]

---------------------------------------------------------------------------
(* Stores                                                                   *)

\* type node of a local / field / arg
LocalTy(f, x) == f.ltype[x]
FieldTy(x) == P.ftype[x]

\* Assign value v to the lvalue expression e in frame fr.  Returns [fr, th, f].
Store(e, v, fr) ==
    LET n == Nd(e)
        f == FuncRec(fr.fn)
        C == Ctx(fr)
    IN IF n.a = "" /\ n.c \in DOMAIN fr.loc
       THEN LET t == LocalTy(f, n.c) IN
            IF IsNumTy(t) /\ ~InRange(v, TyRange(t)) THEN [fr |-> fr, th |-> th, f |-> {V("store")}]
            ELSE [fr |-> [fr EXCEPT !.loc[n.c] = v, !.pz = @ \ {n.c}], th |-> th, f |-> {}]
       ELSE IF n.a = "." /\ Nd(n.l).c = "this" /\ n.c \in DOMAIN th
       THEN LET t == FieldTy(n.c) IN
            IF IsNumTy(t) /\ ~InRange(v, TyRange(t)) THEN [fr |-> fr, th |-> th, f |-> {V("store")}]
            ELSE [fr |-> fr, th |-> [th EXCEPT ![n.c] = v], f |-> {}]
       ELSE IF n.a = "["
       THEN LET i == Eval(n.r, C)
                loc == LocOf(n.l)
                et == Nd(e).ty
            IN IF i.f # {} THEN [fr |-> fr, th |-> th, f |-> i.f]
               ELSE IF (loc = <<>> \/ loc[1] = "arg") /\ ~IsSliceTy(Nd(n.l).ty) THEN [fr |-> fr, th |-> th, f |-> {U("store target")}]
               ELSE IF IsSliceTy(Nd(n.l).ty)     \* (also a slice-typed parameter: its value points into a field of the receiver)
               THEN \* store through a slice: the element lives in the array the slice points into (aliasing is real)
                    LET sv == Eval(n.l, C) IN
                    IF sv.f # {} THEN [fr |-> fr, th |-> th, f |-> sv.f]
                    ELSE IF i.v < 0 \/ i.v >= sv.v.hi - sv.v.lo THEN [fr |-> fr, th |-> th, f |-> {V("index")}]
                    ELSE IF IsNumTy(et) /\ ~InRange(v, TyRange(et)) THEN [fr |-> fr, th |-> th, f |-> {V("store")}]
                    ELSE IF sv.v.base[1] = "loc" THEN [fr |-> [fr EXCEPT !.loc[sv.v.base[2]][sv.v.lo + i.v + 1] = v], th |-> th, f |-> {}]
                    ELSE IF sv.v.base[1] = "th" THEN [fr |-> fr, th |-> [th EXCEPT ![sv.v.base[2]][sv.v.lo + i.v + 1] = v], f |-> {}]
                    ELSE [fr |-> fr, th |-> th, f |-> {U("store through slice of an argument")}]
               ELSE IF ~IsArrayTy(Nd(n.l).ty) THEN [fr |-> fr, th |-> th, f |-> {U("store target type")}]
               ELSE LET arr == Deref(C, loc) IN
                    IF i.v < 0 \/ i.v >= Len(arr) THEN [fr |-> fr, th |-> th, f |-> {V("index")}]
                    ELSE IF IsNumTy(et) /\ ~InRange(v, TyRange(et)) THEN [fr |-> fr, th |-> th, f |-> {V("store")}]
                    ELSE IF loc[1] = "loc" THEN [fr |-> [fr EXCEPT !.loc[loc[2]][i.v + 1] = v], th |-> th, f |-> {}]
                    ELSE [fr |-> fr, th |-> [th EXCEPT ![loc[2]][i.v + 1] = v], f |-> {}]
       ELSE [fr |-> fr, th |-> th, f |-> {U("lvalue")}]

\* The value that the assignment statement s stores when its right-hand side evaluated to v: v itself for `=` / `=?`,
\* `lhs op v` for the compound operators.  Returns [v, f].
AssignVal(s, v, fr) ==
    LET n == Nd(s)
        op == n.a
    IN IF op \in {"=", "=?"} THEN R(v)
       ELSE LET cur == Eval(n.l, Ctx(fr))
                bop == CASE op = "+=" -> "+" [] op = "-=" -> "-" [] op = "*=" -> "*" [] op = "/=" -> "/" [] op = "%=" -> "%"
                         [] op = "<<=" -> "<<" [] op = ">>=" -> ">>" [] op = "&=" -> "&" [] op = "|=" -> "|" [] op = "^=" -> "^"
                         [] op = "~mod+=" -> "~mod+" [] op = "~mod-=" -> "~mod-" [] op = "~mod*=" -> "~mod*" [] op = "~mod<<=" -> "~mod<<"
                         [] op = "~sat+=" -> "~sat+" [] op = "~sat-=" -> "~sat-" [] OTHER -> op
            IN IF cur.f # {} THEN cur ELSE BinOp(bop, Nd(n.l), cur, R(v))

---------------------------------------------------------------------------
(* Facts (C02)                                                              *)

\* the facts held before statement s that are false now
FalseFacts(s, C) ==
    { k \in 1..Len(Nd(s).fx) :
        LET r == EvalTop(Nd(s).fx[k], NoRc(C)) IN r.f = {} /\ r.v # 1 }
\* facts that cannot be interpreted (unsupported operator, fault inside the fact, poisoned operand)
OpaqueFacts(s, C) ==
    { k \in 1..Len(Nd(s).fx) : EvalTop(Nd(s).fx[k], NoRc(C)).f # {} }

\* assert / inv / pre / post conditions attached to a node's list y, by keyword
FalseAsserts(o, kws, C) ==
    { a \in { Nd(o).y[i] : i \in 1..Len(Nd(o).y) } :
        Nd(a).k = "Assert" /\ Nd(a).a \in kws /\ LET r == EvalTop(Nd(a).r, NoRc(C)) IN r.f = {} /\ r.v # 1 }

---------------------------------------------------------------------------
(* Returning to the caller / the environment                                *)

NoSaved == [none |-> TRUE]

\* status values are the literal's token text ("\"#bad thing\"") or "base." + text for the base package's;
\* their category (first character of the message) is tabulated by the exporter
SetOf(seq) == { seq[i] : i \in 1..Len(seq) }
IsErr(s) == s \in SetOf(P.errs)
IsSusp(s) == s \in SetOf(P.susps)
ShortRead == "base.\"$short read\""
ShortWrite == "base.\"$short write\""

Record(st, rv) ==
    Append(hist, [fn |-> pend.fn, args |-> pend.args, wi0 |-> pend.wi, closed0 |-> pend.closed, cap0 |-> pend.cap,
                  resumed |-> pend.resumed,
                  st |-> st, rv |-> rv, ri |-> src.ri, out |-> dst.data, disabled |-> disabled'])

\* the outermost (public) function finished or suspended with status st / value rv
ToEnv(st, rv, newsaved) ==
    /\ mode' = "idle" /\ status' = st /\ retv' = rv /\ stack' = <<>>
    /\ saved' = newsaved
    /\ disabled' = (disabled \/ IsErr(st))
    /\ active' = IF IsSusp(st) THEN pend.fn ELSE ""
    /\ hist' = Record(st, rv)
    /\ UNCHANGED <<pi, th, src, dst, fault, ncalls, fuel, pend>>

\* Deliver (st, rv) from the finished / suspended top frame `fr` to whoever
\* called it.  kind = "ret" (function completed) or "susp" (coroutine
\* suspended; fr is saved and will be resumed by the next call of fr.fn).
Deliver(fr, kind, st, rv) ==
    LET f == FuncRec(fr.fn)
        sv == IF kind = "susp" THEN [saved EXCEPT ![fr.fn] = fr] ELSE [saved EXCEPT ![fr.fn] = NoSaved]
    IN IF Len(stack) = 1 THEN ToEnv(IF f.eff = "?" THEN st ELSE "ok", rv, sv)
       ELSE LET caller == stack[Len(stack) - 1]
                cs == Nd(CurStmt(caller))       \* the call statement (an Assign)
                stk == SubSeq(stack, 1, Len(stack) - 1)
            IN IF f.eff = "?" /\ cs.a # "=?" /\ st # "ok"
               THEN \* plain coroutine call: a non-ok status propagates; the caller suspends / fails too
                    /\ stack' = stk /\ saved' = sv /\ mode' = "unwind" /\ status' = st /\ retv' = rv
                    /\ UNCHANGED <<pi, th, src, dst, disabled, active, fault, ncalls, hist, fuel, pend>>
               ELSE \* the value (the status for coroutine calls, the return value otherwise) goes to the LHS
                    LET val == IF f.eff = "?" THEN st ELSE rv IN
                    IF cs.l = 0
                    THEN /\ stack' = [stk EXCEPT ![Len(stk)] = Advance(caller)] /\ saved' = sv
                         /\ UNCHANGED <<pi, th, src, dst, mode, status, retv, disabled, active, fault, ncalls, hist, fuel, pend>>
                    ELSE LET av == AssignVal(CurStmt(caller), val, caller) IN
                         IF av.f # {} THEN Fault(FirstOf(av.f))
                         ELSE LET s == Store(cs.l, av.v, caller) IN
                         IF s.f # {} THEN Fault(FirstOf(s.f))
                         ELSE /\ stack' = [stk EXCEPT ![Len(stk)] = Advance(s.fr)] /\ th' = s.th /\ saved' = sv
                              /\ UNCHANGED <<pi, src, dst, mode, status, retv, disabled, active, fault, ncalls, hist, fuel, pend>>

---------------------------------------------------------------------------
(* One step of the top frame                                                *)

HasSaved(name) == "fn" \in DOMAIN saved[name]

\* Enter (or resume) user function g with argument function argf.
\* A local whose type holds a pointer (a slice) is NOT kept across a suspension: the generated code never saves it and
\* starts it again as the zero value (the empty slice) on resumption, and the checker drops every fact about such a
\* local at a suspension point for that reason (lang/check updateFactsForSuspension, HasPointers).  This is part of
\* what a program means, in both readings of a suspension.
SliceLocals(g) == { g.locals[i].n : i \in { j \in 1..Len(g.locals) : g.locals[j].kind = "slice" } }
Resumed(g, sf) == [x \in DOMAIN sf.loc |-> IF x \in SliceLocals(g) THEN EmptySlice ELSE sf.loc[x]]

Enter(g, argf, fr) ==
    IF \E i \in 1..Len(stack) : stack[i].fn = g.name THEN Fault(V("recursion"))
    ELSE IF ParamViol(g, argf) THEN Fault(V("argument"))
    ELSE IF \E i \in 1..Len(g.params) : g.params[i].kind = "slice" /\ argf[g.params[i].n].base[1] \in {"loc", "arg"}
    THEN Fault(U("slice of a local array passed to a callee"))     \* (locations are per frame: outside the fragment)
    ELSE LET nf == IF HasSaved(g.name)
                   THEN LET sf == saved[g.name] IN
                        [sf EXCEPT !.args = argf, !.fi = Len(stack) + 1, !.loc = Resumed(g, sf),
                                   !.pz = IF Mode = "cgen" THEN (DOMAIN sf.loc \ { g.resum[i] : i \in 1..Len(g.resum) }) \ SliceLocals(g) ELSE {}]
                   ELSE NewFrame(g, argf, Len(stack) + 1)
         IN /\ stack' = Append(SetTop(fr), nf)
            /\ saved' = [saved EXCEPT ![g.name] = NoSaved]
            /\ UNCHANGED <<pi, th, src, dst, mode, status, retv, disabled, active, fault, ncalls, hist, fuel, pend>>

Suspend(fr, st) == Deliver(fr, "susp", st, 0)

\* ---- effects of one statement on the top frame, the frames below it and the global buffers --------------------
\* S = [fr, low, th, src, dst]: the (new) top frame, the frames below it, the receiver and the two environment buffers
St0(fr) == [fr |-> fr, low |-> SubSeq(stack, 1, Len(stack) - 1), th |-> th, src |-> src, dst |-> dst]

\* overwrite elements at+1 .. at+Len(bs) of the array at location `base` of frame i
PutArr(S, i, base, at, bs) ==
    LET upd(arr) == [j \in 1..Len(arr) |-> IF j > at /\ j <= at + Len(bs) THEN bs[j - at] ELSE arr[j]]
    IN IF Len(bs) = 0 THEN S
       ELSE IF base[1] = "th" THEN [S EXCEPT !.th[base[2]] = upd(@)]
       ELSE IF base[1] = "loc" /\ i = S.fr.fi THEN [S EXCEPT !.fr.loc[base[2]] = upd(@)]
       ELSE IF base[1] = "loc" THEN [S EXCEPT !.low[i].loc[base[2]] = upd(@)]
       ELSE S
GetBound(S, ref) == IF ref[1] = S.fr.fi THEN S.fr.loc[ref[2]] ELSE S.low[ref[1]].loc[ref[2]]
SetBound(S, ref, b) == IF ref[1] = S.fr.fi THEN [S EXCEPT !.fr.loc[ref[2]] = b] ELSE [S EXCEPT !.low[ref[1]].loc[ref[2]] = b]
\* move the read index of a reader
SetRi(S, ref, ri) == IF ref[1] = 0 THEN [S EXCEPT !.src.ri = ri] ELSE SetBound(S, ref, [GetBound(S, ref) EXCEPT !.ri = ri])
\* append bytes to a writer (a bound writer writes into the array under its slice)
PutW(S, ref, bs) ==
    IF Len(bs) = 0 THEN S
    ELSE IF ref[1] = 0 THEN [S EXCEPT !.dst.data = @ \o bs]
    ELSE LET b == GetBound(S, ref) IN
         SetBound(PutArr(S, ref[1], b.sl.base, b.sl.lo + b.wi, bs), ref, [b EXCEPT !.wi = @ + Len(bs)])

\* Finish statement s (an Assign node) in state S: store the value v (if the statement has a left-hand side), advance.
Complete(s, hasv, v, S) ==
    LET n == Nd(s) IN
    IF n.l = 0 \/ ~hasv
    THEN /\ stack' = Append(S.low, Advance(S.fr)) /\ th' = S.th /\ src' = S.src /\ dst' = S.dst
         /\ UNCHANGED <<pi, saved, mode, status, retv, disabled, active, fault, ncalls, hist, fuel, pend>>
    ELSE LET val == AssignVal(s, v, S.fr) IN
         IF val.f # {} THEN Fault(FirstOf(val.f))
         ELSE LET st == Store(n.l, val.v, S.fr) IN
              IF st.f # {} THEN Fault(FirstOf(st.f))
              ELSE IF st.th # th /\ S.th # th THEN Fault(U("store to a field after a write through a bound writer"))
              ELSE /\ stack' = Append(S.low, Advance(st.fr)) /\ th' = (IF st.th # th THEN st.th ELSE S.th)
                   /\ src' = S.src /\ dst' = S.dst
                   /\ UNCHANGED <<pi, saved, mode, status, retv, disabled, active, fault, ncalls, hist, fuel, pend>>

FinishAssign(s, v, fr) == Complete(s, TRUE, v, St0(fr))

\* The top frame S.fr suspends inside a built-in with status st (the frame is kept and re-enters the statement).
SuspendIO(S, st) ==
    /\ th' = S.th /\ src' = S.src /\ dst' = S.dst
    /\ saved' = [saved EXCEPT ![S.fr.fn] = S.fr]
    /\ IF Len(stack) = 1
       THEN /\ mode' = "idle" /\ status' = st /\ retv' = 0 /\ stack' = <<>> /\ active' = pend.fn
            /\ hist' = Append(hist, [fn |-> pend.fn, args |-> pend.args, wi0 |-> pend.wi, closed0 |-> pend.closed, cap0 |-> pend.cap,
                                     resumed |-> pend.resumed, st |-> st, rv |-> 0, ri |-> S.src.ri, out |-> S.dst.data, disabled |-> disabled])
            /\ UNCHANGED <<pi, disabled, fault, ncalls, fuel, pend>>
       ELSE /\ stack' = S.low /\ mode' = "unwind" /\ status' = st /\ retv' = 0
            /\ UNCHANGED <<pi, disabled, active, fault, ncalls, hist, fuel, pend>>

\* n bytes copied from `distance` back in the history (overlapping copies repeat, as in LZ77)
RECURSIVE HistCopy(_, _, _)
HistCopy(h, d, n) == IF n = 0 THEN <<>> ELSE LET x == h[Len(h) - d + 1] IN <<x>> \o HistCopy(Append(h, x), d, n - 1)

\* Outcome of a statement-level call of an I/O or slice built-in with an effect:
\*   k = "ok": consume (reader rref: new read index ri), produce (writer wref: bytes bs), store into a slice (swon: bytes
\*             swbs at offset swat of the array at location swbase of this frame), result value v (hasv);
\*   k = "susp": the same effects, then suspend with status st, remembering the pending operation io;
\*   k = "fault": f.
Res0 == [k |-> "ok", f |-> NoFaultRec, st |-> "ok", rref |-> <<>>, ri |-> 0, wref |-> <<>>, bs |-> <<>>,
         swon |-> FALSE, swbase |-> <<"none", "">>, swat |-> 0, swbs |-> <<>>, hasv |-> FALSE, v |-> 0, io |-> [k |-> "none"]]
ResF(f) == [Res0 EXCEPT !.k = "fault", !.f = f]

ReaderEffects == {"skip_u32_fast", "skip_u32", "skip", "limited_copy_u32_to_slice"}
WriterEffects == {"write_u8", "copy_from_slice", "limited_copy_u32_from_slice", "limited_copy_u32_from_history",
                  "limited_copy_u32_from_history_fast", "limited_copy_u32_from_reader"}
SliceEffects == {"copy_from_slice"}

IOCall(s, fr) ==
    LET n == Nd(s)
        call == Nd(n.r)
        sel == Nd(call.l)
        meth == sel.c
        recvE == sel.l
        rt == Nd(recvE).ty
        C == Ctx(fr)
        A(i) == EvalTop(Nd(call.x[i]).r, C)
        rf == IF IsIOTy(rt) THEN IORef(recvE, C) ELSE <<>>
    IN
    IF IsIOTy(rt) /\ Len(rf) = 0 THEN ResF(U("io expression"))
    ELSE IF IsIOTy(rt) /\ rf[1] = fr.fi /\ rf[2] \in fr.pz THEN ResF(PZ(rf[2]))
    ELSE IF IsReaderTy(rt)
    THEN LET v == RdView(rf, C)
             avail == v.wi - v.ri
         IN
         IF ReadN(meth) > 0
         THEN LET k == ReadN(meth)
                  have == IF fr.io.k = "read" THEN fr.io.got ELSE <<>>     \* bytes already taken by a suspended multi-byte read
                  need == k - Len(have)
              IN IF avail >= need
                 THEN LET bs == have \o SubSeq(v.data, v.ri + 1, v.ri + need)
                          x == IF IsBE(meth) THEN SafeBE(bs) ELSE SafeLE(bs)
                      IN IF x >= Lim THEN ResF(OOMF)
                         ELSE [Res0 EXCEPT !.rref = rf, !.ri = v.ri + need, !.hasv = TRUE, !.v = x]
                 ELSE \* take what is there, remember it, suspend with "$short read"
                      [Res0 EXCEPT !.k = "susp", !.st = ShortRead, !.rref = rf, !.ri = v.wi,
                                   !.io = [k |-> "read", got |-> have \o SubSeq(v.data, v.ri + 1, v.wi)]]
         ELSE IF meth = "skip_u32_fast"
         THEN \* unchecked: pre-condition actual <= worst_case <= length()
              LET a == A(1)  w == A(2) IN
              IF a.f # {} THEN ResF(FirstOf(a.f)) ELSE IF w.f # {} THEN ResF(FirstOf(w.f))
              ELSE IF a.v > w.v \/ w.v > avail THEN ResF(V("precondition skip_u32_fast"))
              ELSE [Res0 EXCEPT !.rref = rf, !.ri = v.ri + a.v]
         ELSE IF meth \in {"skip_u32", "skip"}
         THEN \* suspending skip: the amount is evaluated once and the remainder is kept across suspensions
              LET a == IF fr.io.k = "skip" THEN R(fr.io.left) ELSE A(1) IN
              IF a.f # {} THEN ResF(FirstOf(a.f))
              ELSE IF avail >= a.v THEN [Res0 EXCEPT !.rref = rf, !.ri = v.ri + a.v]
              ELSE [Res0 EXCEPT !.k = "susp", !.st = ShortRead, !.rref = rf, !.ri = v.wi, !.io = [k |-> "skip", left |-> a.v - avail]]
         ELSE IF meth = "limited_copy_u32_to_slice"
         THEN \* copies min(up_to, s.length(), this.length()) bytes into the front of s; returns that count
              LET u == A(1)  sv == A(2) IN
              IF u.f # {} THEN ResF(FirstOf(u.f)) ELSE IF sv.f # {} THEN ResF(FirstOf(sv.f))
              ELSE LET k == Min2(Min2(u.v, sv.v.hi - sv.v.lo), avail) IN
                   [Res0 EXCEPT !.rref = rf, !.ri = v.ri + k, !.swon = TRUE, !.swbase = sv.v.base, !.swat = sv.v.lo,
                                !.swbs = SubSeq(v.data, v.ri + 1, v.ri + k), !.hasv = TRUE, !.v = k]
         ELSE ResF(U("method " \o meth))
    ELSE IF IsWriterTy(rt)
    THEN LET w == WrView(rf, C)
             room == w.cap - w.n
         IN
         IF meth = "write_u8"
         THEN LET a == IF fr.io.k = "write" THEN R(fr.io.val) ELSE A(1) IN     \* the argument is evaluated once
              IF a.f # {} THEN ResF(FirstOf(a.f))
              ELSE IF room > 0 THEN [Res0 EXCEPT !.wref = rf, !.bs = <<a.v>>]
              ELSE [Res0 EXCEPT !.k = "susp", !.st = ShortWrite, !.io = [k |-> "write", val |-> a.v]]
         ELSE IF WriteN(meth) > 0
         THEN \* unchecked: pre-condition length() >= N
              LET a == A(1) IN
              IF a.f # {} THEN ResF(FirstOf(a.f))
              ELSE IF room < WriteN(meth) THEN ResF(V("precondition " \o meth))
              ELSE [Res0 EXCEPT !.wref = rf, !.bs = IF WriteBE(meth) THEN BEBytes(a.v, WriteN(meth)) ELSE LEBytes(a.v, WriteN(meth))]
         ELSE IF meth \in {"copy_from_slice", "limited_copy_u32_from_slice"}
         THEN \* copies min([up_to,] s.length(), this.length()) bytes from the front of s; returns that count
              LET lim == meth = "limited_copy_u32_from_slice"
                  u == IF lim THEN A(1) ELSE R(0)
                  sv == IF lim THEN A(2) ELSE A(1)
              IN IF u.f # {} THEN ResF(FirstOf(u.f)) ELSE IF sv.f # {} THEN ResF(FirstOf(sv.f))
                 ELSE LET len == sv.v.hi - sv.v.lo
                          k == Min2(IF lim THEN Min2(u.v, len) ELSE len, room)
                      IN [Res0 EXCEPT !.wref = rf, !.bs = SubSeq(SliceElems(sv.v, fr.fi, C), 1, k), !.hasv = TRUE, !.v = k]
         ELSE IF meth \in {"limited_copy_u32_from_history", "limited_copy_u32_from_history_fast"}
         THEN LET u == A(1)  d == A(2) IN
              IF u.f # {} THEN ResF(FirstOf(u.f)) ELSE IF d.f # {} THEN ResF(FirstOf(d.f))
              ELSE IF meth = "limited_copy_u32_from_history_fast"
              THEN \* unchecked: pre-conditions 1 <= up_to <= length() and 1 <= distance <= history_length(); copies up_to bytes
                   IF u.v < 1 \/ u.v > room \/ d.v < 1 \/ d.v > w.n THEN ResF(V("precondition " \o meth))
                   ELSE [Res0 EXCEPT !.wref = rf, !.bs = HistCopy(w.hist, d.v, u.v), !.hasv = TRUE, !.v = u.v]
              ELSE \* copies min(up_to, length()) bytes; nothing if the distance is 0 or reaches before the history
                   IF d.v < 1 \/ d.v > w.n THEN [Res0 EXCEPT !.hasv = TRUE, !.v = 0]
                   ELSE LET k == Min2(u.v, room) IN [Res0 EXCEPT !.wref = rf, !.bs = HistCopy(w.hist, d.v, k), !.hasv = TRUE, !.v = k]
         ELSE IF meth = "limited_copy_u32_from_reader"
         THEN \* copies min(up_to, r.length(), this.length()) bytes from the reader r, which advances; returns that count
              LET u == A(1)
                  rr == IORef(Nd(call.x[2]).r, C)
              IN IF u.f # {} THEN ResF(FirstOf(u.f))
                 ELSE IF Len(rr) = 0 THEN ResF(U("io argument"))
                 ELSE IF rr[1] = fr.fi /\ rr[2] \in fr.pz THEN ResF(PZ(rr[2]))
                 ELSE LET rv == RdView(rr, C)
                          k == Min2(Min2(u.v, rv.wi - rv.ri), room)
                      IN [Res0 EXCEPT !.wref = rf, !.bs = SubSeq(rv.data, rv.ri + 1, rv.ri + k), !.rref = rr, !.ri = rv.ri + k, !.hasv = TRUE, !.v = k]
         ELSE ResF(U("method " \o meth))
    ELSE IF IsSliceTy(rt)
    THEN LET dv == EvalTop(recvE, C) IN
         IF dv.f # {} THEN ResF(FirstOf(dv.f))
         ELSE IF meth = "copy_from_slice"
         THEN \* copies min(this.length(), s.length()) elements; returns that count
              LET sv == A(1) IN
              IF sv.f # {} THEN ResF(FirstOf(sv.f))
              ELSE LET k == Min2(dv.v.hi - dv.v.lo, sv.v.hi - sv.v.lo) IN
                   [Res0 EXCEPT !.swon = TRUE, !.swbase = dv.v.base, !.swat = dv.v.lo, !.swbs = SubSeq(SliceElems(sv.v, fr.fi, C), 1, k), !.hasv = TRUE, !.v = k]
         ELSE IF WriteN(meth) > 0
         THEN \* slice.poke_uNN!: unchecked, pre-condition length() >= N
              LET a == A(1) IN
              IF a.f # {} THEN ResF(FirstOf(a.f))
              ELSE IF dv.v.hi - dv.v.lo < WriteN(meth) THEN ResF(V("precondition " \o meth))
              ELSE [Res0 EXCEPT !.swon = TRUE, !.swbase = dv.v.base, !.swat = dv.v.lo,
                                !.swbs = IF WriteBE(meth) THEN BEBytes(a.v, WriteN(meth)) ELSE LEBytes(a.v, WriteN(meth))]
         ELSE ResF(U("method " \o meth))
    ELSE ResF(U("method " \o meth))

DoIO(s, fr) ==
    LET r == IOCall(s, fr)
        S0 == St0(fr)
        S1 == IF Len(r.rref) > 0 THEN SetRi(S0, r.rref, r.ri) ELSE S0
        S2 == IF Len(r.wref) > 0 THEN PutW(S1, r.wref, r.bs) ELSE S1
        S3 == IF r.swon THEN PutArr(S2, fr.fi, r.swbase, r.swat, r.swbs) ELSE S2
    IN IF r.k = "fault" THEN Fault(r.f)
       ELSE IF r.k = "ok" THEN Complete(s, r.hasv, r.v, [S3 EXCEPT !.fr.io = [k |-> "none"]])
       ELSE SuspendIO([S3 EXCEPT !.fr.io = r.io, !.fr.re = TRUE], r.st)

\* statement-level call `recv.meth(args)` with receiver expression recvE
DoCall(s, fr) ==
    LET n == Nd(s)
        call == Nd(n.r)
        sel == Nd(call.l)
        meth == sel.c
        recvE == sel.l
        C == Ctx(fr)
    IN IF Nd(recvE).a = "" /\ Nd(recvE).c = "this" /\ (meth \in DOMAIN P.fmap)
       THEN LET g == FuncTarget(meth)
                av == ArgVals(call.x, 1, C)
            IN IF av.f # {} THEN Fault(FirstOf(av.f)) ELSE Enter(g, ArgFun(av.v), fr)
       ELSE DoIO(s, fr)

IsUserOrIOCall(e) ==
    /\ Nd(e).a = "(" /\ Nd(Nd(e).l).a = "."
    /\ LET sel == Nd(Nd(e).l) rt == Nd(sel.l).ty IN
       \/ (IsReaderTy(rt) /\ (ReadN(sel.c) > 0 \/ sel.c \in ReaderEffects))
       \/ (IsWriterTy(rt) /\ (sel.c \in WriterEffects \/ WriteN(sel.c) > 0))
       \/ (IsSliceTy(rt) /\ (sel.c \in SliceEffects \/ WriteN(sel.c) > 0))
       \/ (Nd(sel.l).a = "" /\ Nd(sel.l).c = "this" /\ sel.c \in DOMAIN P.fmap)

\* which block of an if / else-if chain is entered: <<node, "z"|"y">> or <<>>; faults in conditions surface as <<"fault", s>>
RECURSIVE IfTarget(_, _)
IfTarget(i, C) ==
    LET c == EvalTop(Nd(i).m, C) IN
    IF c.f # {} THEN [k |-> "fault", f |-> FirstOf(c.f)]
    ELSE IF c.v = 1 THEN [k |-> "blk", o |-> i, w |-> "z"]
    ELSE IF Nd(i).r # 0 THEN IfTarget(Nd(i).r, C)
    ELSE IF Len(Nd(i).y) > 0 THEN [k |-> "blk", o |-> i, w |-> "y"] ELSE [k |-> "none"]

\* leave the innermost io_limit / io_bind block: the manipulation ends (a binding is undone)
PopIom(fr) ==
    LET e == fr.iom[Len(fr.iom)]
        fr1 == [fr EXCEPT !.iom = SubSeq(@, 1, Len(@) - 1)]
    IN IF e.k = "bind" THEN [fr1 EXCEPT !.loc[e.name] = e.old] ELSE fr1
PopOne(fr) == IF Nd(CtlTop(fr).o).k = "IOManip" THEN PopCtl(PopIom(fr)) ELSE PopCtl(fr)
\* pop control entries down to (and including) the loop `lp`; io blocks that are left on the way end
RECURSIVE PopTo(_, _)
PopTo(fr, lp) == IF CtlTop(fr).o = lp THEN PopOne(fr) ELSE PopTo(PopOne(fr), lp)
\* after a jump: forget the iterate loops that were left (keepEq: a `continue` of the iterate loop at this depth keeps it)
TrimIts(fr, keepEq) == [fr EXCEPT !.its = SelectSeq(@, LAMBDA e : e.d < Len(fr.ctl) \/ (keepEq /\ e.d = Len(fr.ctl)))]

\* ---- iterate ----------------------------------------------------------------------------------------------------
IterTop(fr) == fr.its[Len(fr.its)]
IterActive(fr, s) == Len(fr.its) > 0 /\ IterTop(fr).root = s /\ IterTop(fr).d = Len(fr.ctl)
\* the first round, from node `nd` on, whose length fits into the remaining rem elements (0: none)
RECURSIVE RoundFor(_, _)
RoundFor(nd, rem) == IF Nd(nd).cv <= rem THEN nd ELSE IF Nd(nd).r # 0 THEN RoundFor(Nd(nd).r, rem) ELSE 0
\* evaluate the assignments `x = slice expression` of an iterate statement: [v |-> <<[name, sl]>>, f]
RECURSIVE IterVars(_, _, _)
IterVars(xs, i, fr) ==
    IF i > Len(xs) THEN [v |-> <<>>, f |-> {}]
    ELSE LET a == Nd(xs[i])
             lhs == Nd(a.l)
             r == IF lhs.a = "" /\ lhs.c \in DOMAIN fr.loc /\ IsSliceTy(Nd(a.r).ty) THEN EvalTop(a.r, Ctx(fr)) ELSE F(U("iterate assignment"))
             rest == IterVars(xs, i + 1, fr)
         IN [v |-> <<[name |-> lhs.c, sl |-> r.v]>> \o rest.v, f |-> r.f \cup rest.f]
\* every iteration variable becomes the window [pos, pos + len) of its slice
RECURSIVE SetIterVars(_, _, _, _, _)
SetIterVars(fr, ivs, i, pos, len) ==
    IF i > Len(ivs) THEN fr
    ELSE LET v == ivs[i] IN
         SetIterVars([fr EXCEPT !.loc[v.name] = [v.sl EXCEPT !.lo = v.sl.lo + pos, !.hi = v.sl.lo + pos + len], !.pz = @ \ {v.name}],
                     ivs, i + 1, pos, len)
\* start the next iteration of the innermost iterate loop, or finish the statement
IterNext(fr) ==
    LET e == IterTop(fr)
        rnd == RoundFor(e.cur, e.n - e.pos)
    IN IF rnd = 0
       THEN Advance([SetIterVars(fr, e.ivs, 1, e.pos, 0) EXCEPT !.its = SubSeq(@, 1, Len(@) - 1)])
       ELSE PushCtl([SetIterVars(fr, e.ivs, 1, e.pos, Nd(rnd).cv) EXCEPT !.its[Len(fr.its)].cur = rnd], rnd, "z")

Step ==
    /\ mode = "run" /\ Len(stack) > 0
    /\ IF fuel = 0 THEN Fault([k |-> "fuel", d |-> ""]) ELSE
       LET fr == Top
           C == Ctx(fr)
           f == FuncRec(fr.fn)
       IN IF AtEnd(fr)
          THEN LET o == CtlTop(fr).o IN
               IF Nd(o).k = "Func"
               THEN \* falling off the end: coroutines return ok, others return nothing
                    Deliver(fr, "ret", "ok", 0) /\ fuel' = fuel   \* (fuel is UNCHANGED inside Deliver)
               ELSE IF Nd(o).k = "While"
               THEN stack' = SetTop(PopCtl(fr)) /\ UNCHANGED <<pi, th, saved, src, dst, mode, status, retv, disabled, active, fault, ncalls, hist, pend>> /\ fuel' = fuel - 1
               ELSE IF Nd(o).k = "Iterate"
               THEN \* end of an iteration: the cursor advances, the iterate statement decides what comes next
                    stack' = SetTop([PopCtl(fr) EXCEPT !.its[Len(fr.its)].pos = @ + Nd(o).lo]) /\ UNCHANGED <<pi, th, saved, src, dst, mode, status, retv, disabled, active, fault, ncalls, hist, pend>> /\ fuel' = fuel - 1
               ELSE IF Nd(o).k = "IOManip"
               THEN stack' = SetTop(Advance(PopCtl(PopIom(fr)))) /\ UNCHANGED <<pi, th, saved, src, dst, mode, status, retv, disabled, active, fault, ncalls, hist, pend>> /\ fuel' = fuel - 1
               ELSE stack' = SetTop(Advance(PopCtl(fr))) /\ UNCHANGED <<pi, th, saved, src, dst, mode, status, retv, disabled, active, fault, ncalls, hist, pend>> /\ fuel' = fuel - 1
          ELSE LET s == CurStmt(fr)
                   n == Nd(s)
                   \* the facts recorded before a `while` statement are those at its first entry
                   \* ... and the facts before a statement are not re-examined when the statement is re-entered
                   \* after a suspension inside it (they held when it was first reached)
                   ff == IF CheckFacts /\ n.hf = 1 /\ ~fr.re /\ ~(n.k = "While" /\ s \in fr.loops) /\ ~(n.k = "Iterate" /\ IterActive(fr, s)) THEN FalseFacts(s, C) ELSE {}
               IN IF ff # {} THEN Fault([k |-> "fact", d |-> ToString(s) \o ":" \o ToString(FirstOf(ff))])
                  ELSE CASE n.k = "Var" -> stack' = SetTop(Advance(fr)) /\ UNCHANGED <<pi, th, saved, src, dst, mode, status, retv, disabled, active, fault, ncalls, hist, pend>> /\ fuel' = fuel - 1
                         [] n.k = "Assert" ->
                              LET r == EvalTop(n.r, NoRc(C)) IN
                              IF CheckFacts /\ r.f = {} /\ r.v # 1 THEN Fault([k |-> "fact", d |-> "assert " \o ToString(s)])
                              ELSE stack' = SetTop(Advance(fr)) /\ UNCHANGED <<pi, th, saved, src, dst, mode, status, retv, disabled, active, fault, ncalls, hist, pend>> /\ fuel' = fuel - 1
                         [] n.k = "Assign" ->
                              IF IsUserOrIOCall(n.r)
                              THEN DoCall(s, fr) /\ fuel' = fuel     \* (fuel UNCHANGED inside)
                              ELSE LET v == EvalTop(n.r, C) IN
                                   IF v.f # {} THEN Fault(FirstOf(v.f))
                                   ELSE FinishAssign(s, v.v, fr) /\ fuel' = fuel
                         [] n.k = "If" ->
                              LET t == IfTarget(s, C) IN
                              IF t.k = "fault" THEN Fault(t.f)
                              ELSE IF t.k = "none" THEN stack' = SetTop(Advance(fr)) /\ UNCHANGED <<pi, th, saved, src, dst, mode, status, retv, disabled, active, fault, ncalls, hist, pend>> /\ fuel' = fuel - 1
                              ELSE stack' = SetTop(PushCtl(fr, t.o, t.w)) /\ UNCHANGED <<pi, th, saved, src, dst, mode, status, retv, disabled, active, fault, ncalls, hist, pend>> /\ fuel' = fuel - 1
                         [] n.k = "While" ->
                              LET c == EvalTop(n.m, NoRc(C))      \* (ranges cached in a loop condition belong to one proving site)
                                  first == s \notin fr.loops
                                  badinv == IF CheckFacts THEN FalseAsserts(s, IF first THEN {"inv", "pre"} ELSE {"inv"}, C) ELSE {}
                              IN IF c.f # {} THEN Fault(FirstOf(c.f))
                                 ELSE IF badinv # {} THEN Fault([k |-> "fact", d |-> "loop " \o ToString(FirstOf(badinv))])
                                 ELSE IF c.v = 1
                                 THEN stack' = SetTop(PushCtl([fr EXCEPT !.loops = @ \cup {s}], s, "z")) /\ UNCHANGED <<pi, th, saved, src, dst, mode, status, retv, disabled, active, fault, ncalls, hist, pend>> /\ fuel' = fuel - 1
                                 ELSE LET badpost == IF CheckFacts THEN FalseAsserts(s, {"inv", "post"}, C) ELSE {} IN
                                      IF badpost # {} THEN Fault([k |-> "fact", d |-> "loop " \o ToString(FirstOf(badpost))])
                                      ELSE stack' = SetTop(Advance([fr EXCEPT !.loops = @ \ {s}])) /\ UNCHANGED <<pi, th, saved, src, dst, mode, status, retv, disabled, active, fault, ncalls, hist, pend>> /\ fuel' = fuel - 1
                         [] n.k = "Jump" ->
                              LET lp == n.jt
                                  isit == Nd(lp).k = "Iterate"
                                  fr1 == PopTo(fr, lp)
                                  fr2 == TrimIts(fr1, n.a = "continue")
                              IN IF n.a = "continue"
                                 THEN LET badinv == IF isit /\ CheckFacts THEN FalseAsserts(lp, {"inv", "pre"}, C) ELSE {} IN
                                      IF badinv # {} THEN Fault([k |-> "fact", d |-> "loop " \o ToString(FirstOf(badinv))])
                                      ELSE IF isit
                                      THEN \* `continue` of an iterate loop: the next iteration (the cursor advances)
                                           stack' = SetTop([fr2 EXCEPT !.its[Len(fr2.its)].pos = @ + Nd(lp).lo]) /\ UNCHANGED <<pi, th, saved, src, dst, mode, status, retv, disabled, active, fault, ncalls, hist, pend>> /\ fuel' = fuel - 1
                                      ELSE stack' = SetTop(fr2) /\ UNCHANGED <<pi, th, saved, src, dst, mode, status, retv, disabled, active, fault, ncalls, hist, pend>> /\ fuel' = fuel - 1
                                 ELSE LET badpost == IF CheckFacts THEN FalseAsserts(lp, {"post"}, C) ELSE {} IN
                                      IF badpost # {} THEN Fault([k |-> "fact", d |-> "loop " \o ToString(FirstOf(badpost))])
                                      ELSE IF isit
                                      THEN \* `break` of an iterate loop leaves the whole statement (every round); the variables end empty
                                           LET e == CHOOSE x \in { fr1.its[i] : i \in 1..Len(fr1.its) } : x.d = Len(fr1.ctl) IN
                                           stack' = SetTop(Advance(SetIterVars(fr2, e.ivs, 1, e.pos, 0))) /\ UNCHANGED <<pi, th, saved, src, dst, mode, status, retv, disabled, active, fault, ncalls, hist, pend>> /\ fuel' = fuel - 1
                                      ELSE stack' = SetTop(Advance([fr2 EXCEPT !.loops = @ \ {lp}])) /\ UNCHANGED <<pi, th, saved, src, dst, mode, status, retv, disabled, active, fault, ncalls, hist, pend>> /\ fuel' = fuel - 1
                         [] n.k = "Ret" ->
                              LET v == IF n.l = 0 THEN R(0) ELSE EvalTop(n.l, C)
                              IN IF v.f # {} THEN Fault(FirstOf(v.f))
                                 ELSE IF n.a = "yield"
                                 THEN Suspend(Advance(fr), v.v) /\ fuel' = fuel
                                 ELSE IF f.eff = "?" THEN Deliver(fr, "ret", v.v, 0) /\ fuel' = fuel
                                 ELSE Deliver(fr, "ret", "ok", v.v) /\ fuel' = fuel
                         [] n.k = "Iterate" ->
                              IF IterActive(fr, s) THEN stack' = SetTop(IterNext(fr)) /\ UNCHANGED <<pi, th, saved, src, dst, mode, status, retv, disabled, active, fault, ncalls, hist, pend>> /\ fuel' = fuel - 1
                              ELSE IF Len(n.x) = 0 THEN Fault(U("iterate without variables"))
                              ELSE LET iv == IterVars(n.x, 1, fr) IN
                                   IF iv.f # {} THEN Fault(FirstOf(iv.f))
                                   ELSE LET total == SetMin({ iv.v[i].sl.hi - iv.v[i].sl.lo : i \in 1..Len(iv.v) })   \* the shortest slice decides
                                            e == [root |-> s, cur |-> s, pos |-> 0, n |-> total, d |-> Len(fr.ctl), ivs |-> iv.v]
                                        IN stack' = SetTop(IterNext([fr EXCEPT !.its = Append(@, e)])) /\ UNCHANGED <<pi, th, saved, src, dst, mode, status, retv, disabled, active, fault, ncalls, hist, pend>> /\ fuel' = fuel - 1
                         [] n.k = "IOManip" ->
                              IF n.a = "io_limit"
                              THEN LET rf == IORef(n.l, C)
                                       lim == EvalTop(n.m, C)
                                   IN IF Len(rf) = 0 THEN Fault(U("io_limit expression"))
                                      ELSE IF rf[1] = fr.fi /\ rf[2] \in fr.pz THEN Fault(PZ(rf[2]))
                                      ELSE IF lim.f # {} /\ lim.f # {OOMF} THEN Fault(FirstOf(lim.f))
                                      ELSE LET at == IF IsReaderTy(Nd(n.l).ty) THEN RdView(rf, C).ri ELSE WrView(rf, C).n
                                               end == IF lim.f # {} \/ OOM(at + lim.v) THEN Lim ELSE at + lim.v    \* (a limit beyond the window limits nothing)
                                               e == [k |-> "limit", ref |-> rf, end |-> end, name |-> "", old |-> Unbound]
                                           IN stack' = SetTop(PushCtl([fr EXCEPT !.iom = Append(@, e)], s, "z")) /\ UNCHANGED <<pi, th, saved, src, dst, mode, status, retv, disabled, active, fault, ncalls, hist, pend>> /\ fuel' = fuel - 1
                              ELSE IF n.a = "io_bind"
                              THEN LET nm == Nd(n.l).c
                                       data == EvalTop(n.m, C)
                                       hp == EvalTop(n.r, C)
                                   IN IF Nd(n.l).a # "" \/ nm \notin DOMAIN fr.loc \/ ~IsSliceTy(Nd(n.m).ty) THEN Fault(U("io_bind expression"))
                                      ELSE IF data.f # {} THEN Fault(FirstOf(data.f))
                                      ELSE IF hp.f # {} /\ hp.f # {OOMF} THEN Fault(FirstOf(hp.f))
                                      ELSE LET b == [bound |-> TRUE, sl |-> data.v, ri |-> 0, wi |-> 0, hp |-> IF hp.f # {} THEN Lim ELSE hp.v]
                                               e == [k |-> "bind", ref |-> <<fr.fi, nm>>, end |-> 0, name |-> nm, old |-> fr.loc[nm]]
                                           IN stack' = SetTop(PushCtl([fr EXCEPT !.iom = Append(@, e), !.loc[nm] = b, !.pz = @ \ {nm}], s, "z")) /\ UNCHANGED <<pi, th, saved, src, dst, mode, status, retv, disabled, active, fault, ncalls, hist, pend>> /\ fuel' = fuel - 1
                              ELSE Fault(U("statement " \o n.a))
                         [] n.k = "Choose" ->
                              \* the first listed alternative is selected (alternatives with a cpu_arch condition are outside the fragment)
                              IF Len(n.x) = 0 THEN stack' = SetTop(Advance(fr)) /\ UNCHANGED <<pi, th, saved, src, dst, mode, status, retv, disabled, active, fault, ncalls, hist, pend>> /\ fuel' = fuel - 1
                              ELSE IF ("~" \o n.c) \notin DOMAIN th \/ Nd(n.x[1]).c \notin DOMAIN P.fmap THEN Fault(U("choose"))
                              ELSE IF P.fmap[Nd(n.x[1]).c].cpuarch THEN Fault(U("choose with a cpu_arch alternative"))
                              ELSE /\ stack' = SetTop(Advance(fr)) /\ th' = [th EXCEPT !["~" \o n.c] = Nd(n.x[1]).c]
                                   /\ UNCHANGED <<pi, saved, src, dst, mode, status, retv, disabled, active, fault, ncalls, hist, pend>> /\ fuel' = fuel - 1
                         [] OTHER -> Fault(U("statement " \o n.k))

\* A plain (non `=?`) coroutine call whose callee suspended or failed: the
\* caller does the same (one frame per step).
Unwind ==
    /\ mode = "unwind"
    /\ LET fr == Top
           cs == Nd(CurStmt(fr))
       IN IF cs.a = "=?"
          THEN \* the status is a value here: assign it and go on running
               LET s == Store(cs.l, status, fr) IN
               IF s.f # {} THEN Fault(FirstOf(s.f))
               ELSE /\ stack' = SetTop(Advance(s.fr)) /\ th' = s.th /\ mode' = "run"
                    /\ UNCHANGED <<pi, saved, src, dst, status, retv, disabled, active, fault, ncalls, hist, fuel, pend>>
          ELSE IF IsSusp(status)
          THEN \* this frame is suspended at the call statement (it will re-execute the call on resumption)
               LET sv == [saved EXCEPT ![fr.fn] = [fr EXCEPT !.re = TRUE]] IN
               IF Len(stack) = 1
               THEN /\ mode' = "idle" /\ stack' = <<>> /\ saved' = sv /\ active' = pend.fn
                    /\ hist' = Append(hist, [fn |-> pend.fn, args |-> pend.args, wi0 |-> pend.wi, closed0 |-> pend.closed, cap0 |-> pend.cap,
                                             resumed |-> pend.resumed, st |-> status, rv |-> 0, ri |-> src.ri, out |-> dst.data, disabled |-> disabled])
                    /\ UNCHANGED <<pi, th, src, dst, status, retv, disabled, fault, ncalls, fuel, pend>>
               ELSE /\ stack' = SubSeq(stack, 1, Len(stack) - 1) /\ saved' = sv
                    /\ UNCHANGED <<pi, th, src, dst, mode, status, retv, disabled, active, fault, ncalls, hist, fuel, pend>>
          ELSE \* an error (or note) status: the caller returns it as well
               IF Len(stack) = 1
               THEN /\ mode' = "idle" /\ stack' = <<>> /\ disabled' = (disabled \/ IsErr(status)) /\ active' = ""
                    /\ saved' = [saved EXCEPT ![fr.fn] = NoSaved]
                    /\ hist' = Append(hist, [fn |-> pend.fn, args |-> pend.args, wi0 |-> pend.wi, closed0 |-> pend.closed, cap0 |-> pend.cap,
                                             resumed |-> pend.resumed, st |-> status, rv |-> 0, ri |-> src.ri, out |-> dst.data, disabled |-> disabled'])
                    /\ UNCHANGED <<pi, th, src, dst, status, retv, fault, ncalls, fuel, pend>>
               ELSE /\ stack' = SubSeq(stack, 1, Len(stack) - 1) /\ saved' = [saved EXCEPT ![fr.fn] = NoSaved]
                    /\ UNCHANGED <<pi, th, src, dst, mode, status, retv, disabled, active, fault, ncalls, hist, fuel, pend>>

---------------------------------------------------------------------------
(* The environment                                                          *)

ZeroField(fd) == IF fd.arr > 0 THEN [i \in 1..fd.arr |-> 0] ELSE 0

Init ==
    /\ pi \in 1..Len(Progs)
    /\ th = [x \in Names(P.fields) \cup { "~" \o P.funcs[i].name : i \in { j \in 1..Len(P.funcs) : P.funcs[j].choosy } } |->
                IF x \in Names(P.fields) THEN ZeroField(CHOOSE fd \in { P.fields[i] : i \in 1..Len(P.fields) } : fd.n = x)
                ELSE (CHOOSE g \in { P.funcs[i] : i \in 1..Len(P.funcs) } : "~" \o g.name = x).name]     \* choosy functions start as themselves
    /\ stack = <<>>
    /\ saved = [x \in { P.funcs[i].name : i \in 1..Len(P.funcs) } |-> NoSaved]
    /\ \E k \in 1..Len(P.inputs) :
          LET d == P.inputs[k] IN
          src \in IF Schedule = "oneshot" THEN {[data |-> d, ri |-> 0, wi |-> Len(d), closed |-> TRUE]}
                  ELSE {[data |-> d, ri |-> 0, wi |-> w, closed |-> FALSE] : w \in 0..Len(d)}
    /\ dst \in IF Schedule = "oneshot" THEN {[data |-> <<>>, cap |-> P.dstcap]} ELSE {[data |-> <<>>, cap |-> c] : c \in 0..P.dstcap}
    /\ mode = "idle" /\ status = "ok" /\ retv = 0 /\ disabled = FALSE /\ active = "" /\ fault = NoFaultRec
    /\ ncalls = 0 /\ hist = <<>> /\ fuel = Fuel
    /\ pend = [fn |-> "", args |-> <<>>, wi |-> 0, closed |-> FALSE, cap |-> 0, resumed |-> FALSE]

PubFuncs == { P.funcs[i] : i \in { j \in 1..Len(P.funcs) : P.funcs[j].pub } }

\* a program may lower the number of public calls per history (operator-grid programs: many pure functions with
\* exhaustive argument choices, where longer histories add nothing)
PMaxCalls == IF "maxcalls" \in DOMAIN P /\ P.maxcalls < MaxCalls THEN P.maxcalls ELSE MaxCalls

\* A public call.  choice = index into the function's exported argument choices.
Call(g, ci) ==
    /\ mode = "idle" /\ fault = NoFaultRec
    /\ LET argf == ArgFun(g.choices[ci])
           resuming == g.eff = "?" /\ active = g.name
       IN /\ (resuming \/ ncalls < PMaxCalls)
          /\ pend' = [fn |-> g.name, args |-> g.choices[ci], wi |-> src.wi, closed |-> src.closed, cap |-> dst.cap, resumed |-> resuming]
          /\ ncalls' = IF resuming THEN ncalls ELSE ncalls + 1
          /\ IF disabled /\ g.eff # ""
             THEN \* status-returning methods of a dead object report it; others are no-ops (see C08 for the protocol itself)
                  /\ status' = IF g.rets = "status" \/ g.eff = "?" THEN "base.\"#disabled by previous error\"" ELSE "ok"
                  /\ hist' = Append(hist, [fn |-> g.name, args |-> g.choices[ci], wi0 |-> src.wi, closed0 |-> src.closed, cap0 |-> dst.cap,
                                           resumed |-> FALSE, st |-> status', rv |-> 0, ri |-> src.ri, out |-> dst.data, disabled |-> TRUE])
                  /\ UNCHANGED <<pi, th, stack, saved, src, dst, mode, retv, disabled, active, fault, fuel>>
             ELSE IF ParamViol(g, argf) /\ g.eff # ""
             THEN \* a public impure method checks its refined arguments at run time: "bad argument" kills the object
                  /\ status' = IF g.rets = "status" \/ g.eff = "?" THEN "base.\"#bad argument\"" ELSE "ok"
                  /\ disabled' = TRUE /\ active' = ""
                  /\ hist' = Append(hist, [fn |-> g.name, args |-> g.choices[ci], wi0 |-> src.wi, closed0 |-> src.closed, cap0 |-> dst.cap,
                                           resumed |-> FALSE, st |-> status', rv |-> 0, ri |-> src.ri, out |-> dst.data, disabled |-> TRUE])
                  /\ UNCHANGED <<pi, th, stack, saved, src, dst, mode, retv, fault, fuel>>
             ELSE IF ParamViol(g, argf)
             THEN \* a pure method with an out-of-range argument returns the zero value
                  /\ status' = "ok" /\ retv' = 0
                  /\ hist' = Append(hist, [fn |-> g.name, args |-> g.choices[ci], wi0 |-> src.wi, closed0 |-> src.closed, cap0 |-> dst.cap,
                                           resumed |-> FALSE, st |-> "ok", rv |-> 0, ri |-> src.ri, out |-> dst.data, disabled |-> disabled])
                  /\ UNCHANGED <<pi, th, stack, saved, src, dst, mode, disabled, active, fault, fuel>>
             ELSE IF g.eff = "?" /\ active # "" /\ active # g.name
             THEN /\ status' = "base.\"#interleaved coroutine calls\"" /\ disabled' = TRUE /\ active' = ""
                  /\ hist' = Append(hist, [fn |-> g.name, args |-> g.choices[ci], wi0 |-> src.wi, closed0 |-> src.closed, cap0 |-> dst.cap,
                                           resumed |-> FALSE, st |-> status', rv |-> 0, ri |-> src.ri, out |-> dst.data, disabled |-> TRUE])
                  /\ UNCHANGED <<pi, th, stack, saved, src, dst, mode, retv, fault, fuel>>
             ELSE /\ mode' = "run"
                  /\ stack' = << IF HasSaved(g.name)
                                 THEN LET sf == saved[g.name] IN
                                      [sf EXCEPT !.args = argf, !.fi = 1, !.loc = Resumed(g, sf),
                                                 !.pz = IF Mode = "cgen" THEN (DOMAIN sf.loc \ { g.resum[i] : i \in 1..Len(g.resum) }) \ SliceLocals(g) ELSE {}]
                                 ELSE NewFrame(g, argf, 1) >>
                  /\ saved' = [saved EXCEPT ![g.name] = NoSaved]
                  /\ UNCHANGED <<pi, th, src, dst, status, retv, disabled, active, fault, hist, fuel>>

\* between calls, after "$short read": the caller supplies more (any amount) or closes
Supply ==
    /\ Schedule = "split" /\ mode = "idle" /\ fault = NoFaultRec /\ status = ShortRead /\ ~src.closed
    /\ \/ \E k \in 1..(Len(src.data) - src.wi) : src' = [src EXCEPT !.wi = @ + k]
       \/ src.wi = Len(src.data) /\ src' = [src EXCEPT !.closed = TRUE]
    /\ status' = "supplied"
    /\ UNCHANGED <<pi, th, stack, saved, dst, mode, retv, disabled, active, fault, ncalls, hist, fuel, pend>>

Drain ==
    /\ Schedule = "split" /\ mode = "idle" /\ fault = NoFaultRec /\ status = ShortWrite /\ dst.cap < P.dstcap
    /\ \E k \in 1..(P.dstcap - dst.cap) : dst' = [dst EXCEPT !.cap = @ + k]
    /\ status' = "drained"
    /\ UNCHANGED <<pi, th, stack, saved, src, mode, retv, disabled, active, fault, ncalls, hist, fuel, pend>>

EnvCall == \E g \in PubFuncs : \E ci \in 1..Len(g.choices) :
              /\ (status \in {ShortRead, ShortWrite} => FALSE)    \* the driver reacts to a suspension first
              /\ Call(g, ci)

Next == Step \/ Unwind \/ EnvCall \/ Supply \/ Drain
Spec == Init /\ [][Next]_vars

---------------------------------------------------------------------------
(* Properties                                                               *)

NoFault       == fault.k # "viol"        \* C01: index / slice / overflow / conversion / store / divzero / shift / recursion / argument
ClaimedRanges == fault.k # "range"       \* C01: every statement-position value inside its exported MBounds
FactsTrue     == fault.k # "fact"        \* C02: facts, asserts, loop pre/inv/post
NoPoisonRead  == fault.k # "poison"      \* C05 (Mode = "cgen")
\* the history without observation-only parts, for exhaustive property configs
View == <<pi, th, stack, saved, src, dst, mode, status, retv, disabled, active, fault, ncalls, pend.fn>>

\* Export: print every finished history once (a history is finished when no
\* further public call is allowed or the run ended in a fault).
\* (... or the coroutine waits for input that cannot come - the source is closed - or for room that cannot come)
Stuck == mode = "idle" /\ ~disabled /\ fault = NoFaultRec
         /\ ((status = ShortRead /\ src.closed) \/ (status = ShortWrite /\ dst.cap >= P.dstcap))
Finished == \/ mode \in {"idle", "done"} /\ (ncalls >= PMaxCalls \/ mode = "done" \/ disabled)
                /\ ~(status \in {ShortRead, ShortWrite, "supplied", "drained"} /\ mode = "idle" /\ ~disabled /\ fault = NoFaultRec)
            \/ Stuck
\* (th: the receiver's fields at the end of the history - the observable receiver state that the compiled C must show too)
ExportInv == Finished => PrintT(ToJson([prog |-> pi, fault |-> fault, input |-> src.data, hist |-> hist,
                                        th |-> [x \in Names(P.fields) |-> th[x]]]))
=============================================================================

------------------------------ MODULE WuffsCore ------------------------------
(***************************************************************************)
(* A small-step operational semantics of a core of the Wuffs language,     *)
(* written against doc/wuffs-the-language.md and doc/note/*.md (ideal      *)
(* integers, checked ranges, modular / saturating operators as named,      *)
(* zero-initialised variables, left-to-right statement order, coroutines   *)
(* that suspend and resume) - NOT against internal/cgen.                    *)
(*                                                                         *)
(* Programs enter as the mechanical JSON image of the CHECKED AST that      *)
(* harness/cmd/wexport writes from /repo's lang/check (node table with the  *)
(* checker's claims: MBounds, ConstValue, facts before every statement).    *)
(*                                                                         *)
(* What TLC checks on it (one run serves several properties):               *)
(*   C01  NoFault       - no index/slice out of range, no overflow of a     *)
(*                        non-modular operator, conversion or store, no     *)
(*                        division by zero, no over-wide shift, no          *)
(*                        recursion; ClaimedRanges - every value computed   *)
(*                        in statement position lies in the exported range. *)
(*   C02  FactsTrue     - every fact / assert / loop invariant the checker  *)
(*                        holds at a statement is true whenever execution   *)
(*                        reaches it (incl. after suspensions, when the     *)
(*                        environment changed the buffers and arguments).   *)
(*   C05  NoPoisonRead  - (Mode = "cgen") a local that the generated C does *)
(*                        not save across a suspension is never read after  *)
(*                        resumption before being written.                  *)
(*   C04/C05 export     - the history variable `hist` carries, per public   *)
(*                        call, the specification's expected status,        *)
(*                        consumed/produced counts, output bytes and return *)
(*                        value; it is printed as JSON and replayed on the   *)
(*                        compiled C.                                       *)
(*                                                                         *)
(* Values: integers (bool = 0/1), status strings, arrays as sequences,      *)
(* slices as records <<base location, lo, hi>>.  Magnitudes are kept below  *)
(* 2^30 (TLC integers are 32-bit): a behaviour that would leave the window  *)
(* ends with fault = "oom" (out of model), which is never a violation.      *)
(***************************************************************************)
EXTENDS Integers, Sequences, FiniteSets, TLC, Json, Bitwise

CONSTANTS ProgFile,   \* JSON: sequence of programs
          MaxCalls,   \* public calls per history (resumptions not counted)
          Mode,       \* "ideal" | "cgen"
          Schedule,   \* "oneshot" | "split"
          Fuel        \* steps per history

Progs == JsonDeserialize(ProgFile)
Lim == 1073741824     \* 2^30

VARIABLES pi,        \* program index
          th,        \* receiver: field name -> value
          stack,     \* active frames (top = last)
          saved,     \* suspended coroutine frames: function name -> frame (or the empty record)
          src, dst,  \* I/O buffers of the current history
          mode,      \* "idle" (environment's turn) | "run" | "done"
          status,    \* status returned by the last public call
          retv,      \* value returned by the last public call
          disabled,  \* an error was returned: the object is dead
          active,    \* name of the suspended public coroutine ("" if none)
          fault,     \* "" or the first fault
          ncalls, hist, fuel,
          pend       \* the public call in progress (for the history)

vars == <<pi, th, stack, saved, src, dst, mode, status, retv, disabled, active, fault, ncalls, hist, fuel, pend>>

P == Progs[pi]
N == P.nodes
Nd(i) == N[i]

---------------------------------------------------------------------------
(* Types                                                                   *)

NumNames == {"u8", "u16", "u32", "u64", "i8", "i16", "i32", "i64"}
Width(c) == CASE c \in {"u8", "i8"} -> 8 [] c \in {"u16", "i16"} -> 16 [] c \in {"u32", "i32"} -> 32 [] OTHER -> 64
Signed(c) == c \in {"i8", "i16", "i32", "i64"}

RECURSIVE Pow2(_)
Pow2(n) == IF n = 0 THEN 1 ELSE 2 * Pow2(n - 1)

\* Range of an unrefined numeric type as [hlo, lo, hhi, hi] (h = 1 finite in model, 2 beyond the window)
BaseRange(c) ==
    IF c = "bool" THEN [hlo |-> 1, lo |-> 0, hhi |-> 1, hi |-> 1]
    ELSE IF Signed(c)
    THEN IF Width(c) <= 16 THEN [hlo |-> 1, lo |-> 0 - Pow2(Width(c) - 1), hhi |-> 1, hi |-> Pow2(Width(c) - 1) - 1]
         ELSE [hlo |-> 2, lo |-> 0, hhi |-> 2, hi |-> 0]
    ELSE IF Width(c) <= 16 THEN [hlo |-> 1, lo |-> 0, hhi |-> 1, hi |-> Pow2(Width(c)) - 1]
         ELSE [hlo |-> 1, lo |-> 0, hhi |-> 2, hi |-> 0]

IsNumTy(t) == t # 0 /\ Nd(t).k = "TypeExpr" /\ Nd(t).a = "" /\ Nd(t).b = "base" /\ (Nd(t).c \in NumNames \/ Nd(t).c = "bool")
IsIdealTy(t) == t # 0 /\ Nd(t).k = "TypeExpr" /\ Nd(t).a = "" /\ Nd(t).b = "base" /\ Nd(t).c = "ideal"
IsArrayTy(t) == t # 0 /\ Nd(t).k = "TypeExpr" /\ Nd(t).a \in {"array", "roarray"}
IsSliceTy(t) == t # 0 /\ Nd(t).k = "TypeExpr" /\ Nd(t).a \in {"slice", "roslice"}
IsStatusTy(t) == t # 0 /\ Nd(t).k = "TypeExpr" /\ Nd(t).a = "" /\ Nd(t).b = "base" /\ Nd(t).c = "status"
IsReaderTy(t) == t # 0 /\ Nd(t).k = "TypeExpr" /\ Nd(t).a = "" /\ Nd(t).b = "base" /\ Nd(t).c = "io_reader"
IsWriterTy(t) == t # 0 /\ Nd(t).k = "TypeExpr" /\ Nd(t).a = "" /\ Nd(t).b = "base" /\ Nd(t).c = "io_writer"

\* Range of a (possibly refined) numeric type: refinement bounds are constant expressions.
TyRange(t) ==
    LET b == BaseRange(Nd(t).c)
        lo == IF Nd(t).l # 0 /\ Nd(Nd(t).l).hcv = 1 THEN [h |-> 1, v |-> Nd(Nd(t).l).cv]
              ELSE IF Nd(t).l # 0 THEN [h |-> 2, v |-> 0] ELSE [h |-> b.hlo, v |-> b.lo]
        hi == IF Nd(t).m # 0 /\ Nd(Nd(t).m).hcv = 1 THEN [h |-> 1, v |-> Nd(Nd(t).m).cv]
              ELSE IF Nd(t).m # 0 THEN [h |-> 2, v |-> 0] ELSE [h |-> b.hhi, v |-> b.hi]
    IN [hlo |-> lo.h, lo |-> lo.v, hhi |-> hi.h, hi |-> hi.v]

InRange(v, r) == (r.hlo = 1 => v >= r.lo) /\ (r.hhi = 1 => v <= r.hi)
ArrayLen(t) == Nd(Nd(t).l).cv

---------------------------------------------------------------------------
(* Arithmetic helpers that never make TLC overflow                          *)

Abs(v) == IF v < 0 THEN 0 - v ELSE v
OOM(v) == v >= Lim \/ v <= 0 - Lim
\* product, or Lim (= out of model) if it would leave the window
SafeMul(x, y) == IF x = 0 \/ y = 0 THEN 0
                 ELSE IF Abs(x) >= Lim \/ Abs(y) >= Lim \/ Abs(x) > (Lim \div Abs(y)) THEN Lim
                 ELSE x * y
SafeShl(x, k) == IF k >= 30 THEN (IF x = 0 THEN 0 ELSE Lim) ELSE SafeMul(x, Pow2(k))
Mod2(v, w) == IF w >= 30 THEN v ELSE v % Pow2(w)     \* for v >= 0 inside the window
Clamp(v, r) == IF r.hlo = 1 /\ v < r.lo THEN r.lo ELSE IF r.hhi = 1 /\ v > r.hi THEN r.hi ELSE v

---------------------------------------------------------------------------
(* Expression evaluation.  C is the context [loc, args, pz]; th, src, dst   *)
(* are read from the state.  The result is always a record [v, f]: value    *)
(* and set of faults (so that TLC never compares values of different kinds).*)

\* faults are records [k, d]: k = "viol" (a safety violation of the program), "unsup" (outside the modelled
\* core language), "oom" (a value left the 2^30 window), "poison" (read of a local that the generated C does not
\* save across a suspension), "fuel"
V(d) == [k |-> "viol", d |-> d]
U(d) == [k |-> "unsup", d |-> d]
OOMF == [k |-> "oom", d |-> ""]
PZ(x) == [k |-> "poison", d |-> x]
R(v) == [v |-> v, f |-> {}]
F(s) == [v |-> 0, f |-> {s}]
Un(a, v) == [v |-> v, f |-> a.f]
Bi(a, b, v) == [v |-> v, f |-> a.f \cup b.f]
AddF(a, s) == [v |-> a.v, f |-> a.f \cup s]

\* (whether a value is an array (sequence) or a slice (record) is decided from the STATIC type of the
\* expression that produced it: TLC cannot compare values of different kinds)

\* where a slice points: a location is <<"loc"|"th"|"arg", name>>
Deref(C, loc) == CASE loc[1] = "loc" -> C.loc[loc[2]] [] loc[1] = "th" -> th[loc[2]] [] loc[1] = "arg" -> C.args[loc[2]]

Names(seq) == { seq[i].n : i \in 1..Len(seq) }

RECURSIVE Eval(_, _)
RECURSIVE Eval0(_, _)
RECURSIVE ArgVals(_, _, _)
RECURSIVE LEVal(_, _)
RECURSIVE EvalList(_, _, _)

\* the location an array-valued expression denotes (for slices and stores), or <<>>
LocOf(e) ==
    LET n == Nd(e) IN
    IF n.a = "" /\ n.hcv # 1 THEN <<"loc", n.c>>
    ELSE IF n.a = "." /\ Nd(n.l).a = "" /\ Nd(n.l).c = "this" THEN <<"th", n.c>>
    ELSE IF n.a = "." /\ Nd(n.l).a = "" /\ Nd(n.l).c = "args" THEN <<"arg", n.c>>
    ELSE <<>>

BinOp(op, n, a, b) ==
    LET x == a.v  y == b.v
        ty == n.ty
        rng == IF IsNumTy(ty) THEN BaseRange(Nd(ty).c) ELSE [hlo |-> 0, lo |-> 0, hhi |-> 0, hi |-> 0]
        w == IF IsNumTy(ty) /\ Nd(ty).c # "bool" THEN Width(Nd(ty).c) ELSE 64
        chk(v) == IF OOM(v) THEN [v |-> 0, f |-> a.f \cup b.f \cup {OOMF}]
                  ELSE IF IsNumTy(ty) /\ ~InRange(v, rng) THEN [v |-> v, f |-> a.f \cup b.f \cup {V("overflow")}]
                  ELSE Bi(a, b, v)
        wrap(v) == IF OOM(v) THEN [v |-> 0, f |-> a.f \cup b.f \cup {OOMF}] ELSE Bi(a, b, Mod2(v, w))
    IN CASE op = "+" -> chk(x + y)
         [] op = "-" -> chk(x - y)
         [] op = "*" -> chk(SafeMul(x, y))
         [] op = "/" -> IF y = 0 THEN AddF(Bi(a, b, 0), {V("divzero")}) ELSE chk(x \div y)
         [] op = "%" -> IF y = 0 THEN AddF(Bi(a, b, 0), {V("divzero")}) ELSE chk(x % y)
         [] op = "<<" -> IF y < 0 \/ y >= w THEN AddF(Bi(a, b, 0), {V("shift")}) ELSE chk(SafeShl(x, y))
         [] op = ">>" -> IF y < 0 \/ y >= w THEN AddF(Bi(a, b, 0), {V("shift")}) ELSE Bi(a, b, shiftR(x, y))
         [] op = "&" -> Bi(a, b, x & y)
         [] op = "|" -> Bi(a, b, x | y)
         [] op = "^" -> Bi(a, b, x ^^ y)
         [] op = "~mod+" -> wrap(x + y)
         [] op = "~mod-" -> IF w >= 30 /\ x < y THEN AddF(Bi(a, b, 0), {OOMF}) ELSE wrap((x - y) + (IF w < 30 THEN Pow2(w) ELSE 0))
         [] op = "~mod*" -> wrap(SafeMul(x, y))
         [] op = "~mod<<" -> IF y < 0 \/ y >= w THEN AddF(Bi(a, b, 0), {V("shift")}) ELSE wrap(SafeShl(x, y))
         [] op = "~sat+" -> IF OOM(x + y) THEN AddF(Bi(a, b, 0), {OOMF}) ELSE Bi(a, b, Clamp(x + y, rng))
         [] op = "~sat-" -> Bi(a, b, Clamp(x - y, rng))
         [] op = "==" -> Bi(a, b, IF x = y THEN 1 ELSE 0)
         [] op = "<>" -> Bi(a, b, IF x # y THEN 1 ELSE 0)
         [] op = "<" -> Bi(a, b, IF x < y THEN 1 ELSE 0)
         [] op = "<=" -> Bi(a, b, IF x <= y THEN 1 ELSE 0)
         [] op = ">" -> Bi(a, b, IF x > y THEN 1 ELSE 0)
         [] op = ">=" -> Bi(a, b, IF x >= y THEN 1 ELSE 0)
         [] op = "and" -> Bi(a, b, IF x = 1 /\ y = 1 THEN 1 ELSE 0)
         [] op = "or" -> Bi(a, b, IF x = 1 \/ y = 1 THEN 1 ELSE 0)
         [] OTHER -> AddF(Bi(a, b, 0), {U(op)})

BinOps == {"+", "-", "*", "/", "%", "<<", ">>", "&", "|", "^", "~mod+", "~mod-", "~mod*", "~mod<<", "~sat+", "~sat-",
           "==", "<>", "<", "<=", ">", ">=", "and", "or"}

\* Built-in I/O methods at statement level.  Returns the action.
ReadN(meth) == CASE meth \in {"read_u8", "read_u8_as_u16", "read_u8_as_u32", "read_u8_as_u64"} -> 1
                 [] meth \in {"read_u16le", "read_u16be", "read_u16le_as_u32", "read_u16be_as_u32", "read_u16le_as_u64", "read_u16be_as_u64"} -> 2
                 [] meth \in {"read_u24le", "read_u24be", "read_u24le_as_u32", "read_u24be_as_u32", "read_u24le_as_u64", "read_u24be_as_u64"} -> 3
                 [] meth \in {"read_u32le", "read_u32be", "read_u32le_as_u64", "read_u32be_as_u64"} -> 4
                 [] OTHER -> 0
IsBE(meth) == meth \in {"read_u16be", "read_u16be_as_u32", "read_u16be_as_u64", "read_u24be", "read_u24be_as_u32", "read_u24be_as_u64", "read_u32be", "read_u32be_as_u64"}

\* value of k bytes (sequence) little- or big-endian
LEVal(bs, i) == IF i > Len(bs) THEN 0 ELSE bs[i] + 256 * LEVal(bs, i + 1)
BEVal(bs) == LEVal([i \in 1..Len(bs) |-> bs[Len(bs) + 1 - i]], 1)

PeekN(meth) == CASE meth \in {"peek_u8", "peek_u8_as_u16", "peek_u8_as_u32", "peek_u8_as_u64"} -> 1
                 [] meth \in {"peek_u16le", "peek_u16be", "peek_u16le_as_u32", "peek_u16be_as_u32", "peek_u16le_as_u64", "peek_u16be_as_u64"} -> 2
                 [] meth \in {"peek_u24le_as_u32", "peek_u24be_as_u32", "peek_u24le_as_u64", "peek_u24be_as_u64"} -> 3
                 [] meth \in {"peek_u32le", "peek_u32be", "peek_u32le_as_u64", "peek_u32be_as_u64"} -> 4
                 [] OTHER -> 0
PeekBE(meth) == meth \in {"peek_u16be", "peek_u16be_as_u32", "peek_u16be_as_u64", "peek_u24be_as_u32", "peek_u24be_as_u64", "peek_u32be", "peek_u32be_as_u64"}

\* argument record of a user call: list0 of the call node holds Arg nodes
ArgVals(xs, i, C) == IF i > Len(xs) THEN [v |-> <<>>, f |-> {}]
                     ELSE LET a == Nd(xs[i])
                              isio == IsReaderTy(Nd(a.r).ty) \/ IsWriterTy(Nd(a.r).ty)
                              r == IF isio THEN R(0) ELSE Eval(a.r, C)
                              rest == ArgVals(xs, i + 1, C)
                          IN [v |-> <<[n |-> a.c, v |-> r.v]>> \o rest.v, f |-> r.f \cup rest.f]
ArgFun(seq) == [x \in { seq[i].n : i \in 1..Len(seq) } |-> (CHOOSE p \in { seq[i] : i \in 1..Len(seq) } : p.n = x).v]

\* parameter refinements of a user call
ParamViol(f, argf) == \E i \in 1..Len(f.params) :
    LET p == f.params[i] IN IsNumTy(p.ty) /\ p.n \in DOMAIN argf /\ ~InRange(argf[p.n], TyRange(p.ty))

\* built-in pure methods: recv is the evaluated receiver, rt its type node
Method(C, n, recvE, meth, argsE) ==
    LET rt == Nd(recvE).ty
        rv == Eval(recvE, C)
    IN IF meth = "length" /\ (IsArrayTy(rt) \/ IsSliceTy(rt))
       THEN IF rv.f # {} THEN rv ELSE IF IsSliceTy(rt) THEN Un(rv, rv.v.hi - rv.v.lo) ELSE Un(rv, Len(rv.v))
       ELSE IF IsReaderTy(rt) /\ PeekN(meth) > 0
       THEN \* unchecked built-in: its pre-condition (enough bytes) must have been proven by the checker
            IF src.wi - src.ri < PeekN(meth) THEN F(V("precondition " \o meth))
            ELSE LET bs == SubSeq(src.data, src.ri + 1, src.ri + PeekN(meth))
                     v == IF PeekBE(meth) THEN BEVal(bs) ELSE LEVal(bs, 1)
                 IN IF OOM(v) THEN F(OOMF) ELSE R(v)
       ELSE IF meth = "length" /\ IsReaderTy(rt) THEN R(src.wi - src.ri)
       ELSE IF meth = "length" /\ IsWriterTy(rt) THEN R(dst.cap - Len(dst.data))
       ELSE IF meth = "is_closed" /\ IsReaderTy(rt) THEN R(IF src.closed THEN 1 ELSE 0)
       ELSE IF meth = "position" /\ IsReaderTy(rt) THEN R(src.ri)
       ELSE IF meth \in {"min", "max"} /\ Len(argsE) = 1
       THEN LET o == Eval(Nd(argsE[1]).r, C) IN
            Bi(rv, o, IF meth = "min" THEN (IF rv.v < o.v THEN rv.v ELSE o.v) ELSE (IF rv.v > o.v THEN rv.v ELSE o.v))
       ELSE IF meth = "is_ok" THEN Un(rv, IF rv.v = "ok" THEN 1 ELSE 0)
       ELSE IF meth = "is_error" THEN Un(rv, IF rv.v \in { P.errs[i] : i \in 1..Len(P.errs) } THEN 1 ELSE 0)
       ELSE IF meth = "is_suspension" THEN Un(rv, IF rv.v \in { P.susps[i] : i \in 1..Len(P.susps) } THEN 1 ELSE 0)
       ELSE F(U("method " \o meth))

\* C.rc = TRUE: also check the checker's claimed range (MBounds) of every numeric node that is evaluated (C01).
\* Calls with an effect are never evaluated here (they are statements).
Eval(e, C) ==
    LET n == Nd(e)
        r == Eval0(e, C)
    IN IF C.rc /\ r.f = {} /\ IsNumTy(n.ty) /\ ((n.hlo = 1 /\ r.v < n.lo) \/ (n.hhi = 1 /\ r.v > n.hi))
       THEN AddF(r, {[k |-> "range", d |-> ToString(e)]}) ELSE r

Eval0(e, C) ==
    LET n == Nd(e) IN
    IF n.hcv = 1 /\ (IsNumTy(n.ty) \/ IsIdealTy(n.ty)) THEN R(n.cv)
    ELSE IF n.hcv = 2 THEN F(OOMF)
    ELSE IF n.a = ""
    THEN \* identifier or literal
         IF IsStatusTy(n.ty) /\ n.c \notin DOMAIN C.loc THEN R(n.c)
         ELSE IF n.c \in DOMAIN C.loc
         THEN IF n.c \in C.pz THEN [v |-> C.loc[n.c], f |-> {PZ(n.c)}] ELSE R(C.loc[n.c])
         ELSE F(U("ident " \o n.c))
    ELSE IF n.a = "."
    THEN IF IsStatusTy(n.ty) /\ Nd(n.l).a = "" /\ Nd(n.l).c = "base" THEN R("base." \o n.c)
         ELSE IF Nd(n.l).a = "" /\ Nd(n.l).c = "args" /\ n.c \in DOMAIN C.args THEN R(C.args[n.c])
         ELSE IF Nd(n.l).a = "" /\ Nd(n.l).c = "this" /\ n.c \in DOMAIN th THEN R(th[n.c])
         ELSE F(U("selector " \o n.c))
    ELSE IF n.a = "["
    THEN LET b == Eval(n.l, C)  i == Eval(n.r, C) IN
         IF b.f # {} \/ i.f # {} THEN Bi(b, i, 0)
         ELSE IF IsSliceTy(Nd(n.l).ty)
         THEN IF i.v < 0 \/ i.v >= b.v.hi - b.v.lo THEN F(V("index"))
              ELSE R(Deref(C, b.v.base)[b.v.lo + i.v + 1])
         ELSE IF i.v < 0 \/ i.v >= Len(b.v) THEN F(V("index")) ELSE R(b.v[i.v + 1])
    ELSE IF n.a = ".."
    THEN LET b == Eval(n.l, C)
             lo == IF n.m = 0 THEN R(0) ELSE Eval(n.m, C)
             len == IF b.f # {} THEN 0 ELSE IF IsSliceTy(Nd(n.l).ty) THEN b.v.hi - b.v.lo ELSE Len(b.v)
             hi == IF n.r = 0 THEN R(len) ELSE Eval(n.r, C)
             fs == b.f \cup lo.f \cup hi.f
         IN IF fs # {} THEN [v |-> 0, f |-> fs]
            ELSE IF lo.v < 0 \/ lo.v > hi.v \/ hi.v > len THEN F(V("slice"))
            ELSE IF IsSliceTy(Nd(n.l).ty) THEN R([sl |-> TRUE, base |-> b.v.base, lo |-> b.v.lo + lo.v, hi |-> b.v.lo + hi.v])
            ELSE IF LocOf(n.l) = <<>> THEN F(U("slice base"))
            ELSE R([sl |-> TRUE, base |-> LocOf(n.l), lo |-> lo.v, hi |-> hi.v])
    ELSE IF n.a = "as"
    THEN LET x == Eval(n.l, C) IN
         IF x.f # {} THEN x
         ELSE IF IsNumTy(n.r) /\ ~InRange(x.v, TyRange(n.r)) THEN AddF(x, {V("conversion")}) ELSE x
    ELSE IF n.a = "("
    THEN IF Nd(n.l).a = "." /\ Nd(Nd(n.l).l).a = "" /\ Nd(Nd(n.l).l).c = "this" /\ Nd(n.l).c \in DOMAIN P.fmap
         THEN \* a pure user function inside an expression: interpreted when its body is a single `return e`
              LET g == P.fmap[Nd(n.l).c]
                  body == Nd(g.id).z
              IN IF g.eff # "" \/ Len(body) # 1 \/ Nd(body[1]).k # "Ret" \/ Nd(body[1]).l = 0 THEN F(U("call in expression"))
                 ELSE LET av == ArgVals(n.x, 1, C) IN
                      IF av.f # {} THEN [v |-> 0, f |-> av.f]
                      ELSE IF ParamViol(g, ArgFun(av.v)) THEN F(V("argument"))
                      ELSE Eval(Nd(body[1]).l, [loc |-> <<>>, args |-> ArgFun(av.v), pz |-> {}, rc |-> C.rc])
         ELSE IF Nd(n.l).a = "." THEN Method(C, n, Nd(n.l).l, Nd(n.l).c, n.x) ELSE F(U("call in expression"))
    ELSE IF n.ar = "u"
    THEN LET x == Eval(n.r, C) IN
         CASE n.a = "+" -> x
           [] n.a = "-" -> IF IsNumTy(n.ty) /\ ~InRange(0 - x.v, BaseRange(Nd(n.ty).c)) THEN AddF(Un(x, 0 - x.v), {V("overflow")}) ELSE Un(x, 0 - x.v)
           [] n.a = "not" -> Un(x, 1 - x.v)
           [] OTHER -> F(U("unary " \o n.a))
    ELSE IF n.ar = "b"
    THEN LET a == Eval(n.l, C) IN
         IF a.f # {} THEN a
         ELSE IF n.a = "and" /\ a.v = 0 THEN a                 \* short-circuit, as in the generated C
         ELSE IF n.a = "or" /\ a.v = 1 THEN a
         ELSE
         LET b == Eval(n.r, C) IN
         IF b.f # {} THEN Bi(a, b, 0)
         ELSE IF IsStatusTy(Nd(n.l).ty) THEN (IF n.a = "==" THEN Bi(a, b, IF a.v = b.v THEN 1 ELSE 0)
                                              ELSE IF n.a = "<>" THEN Bi(a, b, IF a.v # b.v THEN 1 ELSE 0) ELSE F(U("status operator")))
         ELSE BinOp(n.a, n, a, b)
    ELSE IF n.ar = "a" THEN EvalList(n, C, Len(n.x))
    ELSE F(U("expr " \o n.a))

\* associative operators: left fold over the first i operands of list0
EvalList(n, C, i) ==
    IF i = 1 THEN Eval(n.x[1], C)
    ELSE LET acc == EvalList(n, C, i - 1) IN
         IF acc.f # {} THEN acc
         ELSE IF n.a = "and" /\ acc.v = 0 THEN acc             \* short-circuit, as in the generated C
         ELSE IF n.a = "or" /\ acc.v = 1 THEN acc
         ELSE LET b == Eval(n.x[i], C) IN
              IF b.f # {} THEN Bi(acc, b, 0) ELSE BinOp(n.a, n, acc, b)

EvalTop(e, C) == Eval(e, C)

---------------------------------------------------------------------------
(* Frames and control                                                       *)

FuncRec(name) == P.fmap[name]          \* (the exporter also writes the function table keyed by name)

EmptySlice == [sl |-> TRUE, base |-> <<"none", "">>, lo |-> 0, hi |-> 0]
ZeroOf(l) == IF l.arr > 0 THEN [i \in 1..l.arr |-> 0] ELSE IF l.kind = "status" THEN "ok" ELSE IF l.kind = "slice" THEN EmptySlice ELSE 0

NewFrame(f, args) ==
    [fn |-> f.name, args |-> args,
     loc |-> [x \in Names(f.locals) |-> ZeroOf(CHOOSE l \in { f.locals[i] : i \in 1..Len(f.locals) } : l.n = x)],
     ctl |-> << [o |-> f.id, w |-> "z", pc |-> 1] >>,
     pz |-> {}, loops |-> {}, io |-> [k |-> "none"],
     re |-> FALSE]      \* re: the current statement is being re-entered after a suspension inside it

Top == stack[Len(stack)]
Ctx(fr) == [loc |-> fr.loc, args |-> fr.args, pz |-> fr.pz, rc |-> TRUE]
NoRc(C) == [C EXCEPT !.rc = FALSE]
CtlTop(fr) == fr.ctl[Len(fr.ctl)]
ListOf(c) == IF c.w = "z" THEN Nd(c.o).z ELSE Nd(c.o).y
CurStmt(fr) == ListOf(CtlTop(fr))[CtlTop(fr).pc]
AtEnd(fr) == CtlTop(fr).pc > Len(ListOf(CtlTop(fr)))

SetTop(fr) == [stack EXCEPT ![Len(stack)] = fr]
Advance(fr) == [fr EXCEPT !.ctl[Len(fr.ctl)].pc = @ + 1, !.re = FALSE]
PopCtl(fr) == [fr EXCEPT !.ctl = SubSeq(@, 1, Len(@) - 1)]
PushCtl(fr, o, w) == [fr EXCEPT !.ctl = Append(@, [o |-> o, w |-> w, pc |-> 1])]

Fault(s) == /\ fault' = s /\ mode' = "done"
            /\ UNCHANGED <<pi, th, stack, saved, src, dst, status, retv, disabled, active, ncalls, hist, fuel, pend>>

FirstOf(S) == CHOOSE x \in S : TRUE
NoFaultRec == [k |-> "none", d |-> ""]

---------------------------------------------------------------------------
(* Stores                                                                   *)

\* type node of a local / field / arg
LocalTy(f, x) == f.ltype[x]
FieldTy(x) == P.ftype[x]

\* Assign value v to the lvalue expression e in frame fr.  Returns [fr, th, f].
Store(e, v, fr) ==
    LET n == Nd(e)
        f == FuncRec(fr.fn)
        C == Ctx(fr)
    IN IF n.a = "" /\ n.c \in DOMAIN fr.loc
       THEN LET t == LocalTy(f, n.c) IN
            IF IsNumTy(t) /\ ~InRange(v, TyRange(t)) THEN [fr |-> fr, th |-> th, f |-> {V("store")}]
            ELSE [fr |-> [fr EXCEPT !.loc[n.c] = v, !.pz = @ \ {n.c}], th |-> th, f |-> {}]
       ELSE IF n.a = "." /\ Nd(n.l).c = "this" /\ n.c \in DOMAIN th
       THEN LET t == FieldTy(n.c) IN
            IF IsNumTy(t) /\ ~InRange(v, TyRange(t)) THEN [fr |-> fr, th |-> th, f |-> {V("store")}]
            ELSE [fr |-> fr, th |-> [th EXCEPT ![n.c] = v], f |-> {}]
       ELSE IF n.a = "["
       THEN LET i == Eval(n.r, C)
                loc == LocOf(n.l)
                et == Nd(e).ty
            IN IF i.f # {} THEN [fr |-> fr, th |-> th, f |-> i.f]
               ELSE IF loc = <<>> \/ loc[1] = "arg" THEN [fr |-> fr, th |-> th, f |-> {U("store target")}]
               ELSE IF IsSliceTy(Nd(n.l).ty)
               THEN \* store through a slice: the element lives in the array the slice points into (aliasing is real)
                    LET sv == Eval(n.l, C) IN
                    IF sv.f # {} THEN [fr |-> fr, th |-> th, f |-> sv.f]
                    ELSE IF i.v < 0 \/ i.v >= sv.v.hi - sv.v.lo THEN [fr |-> fr, th |-> th, f |-> {V("index")}]
                    ELSE IF IsNumTy(et) /\ ~InRange(v, TyRange(et)) THEN [fr |-> fr, th |-> th, f |-> {V("store")}]
                    ELSE IF sv.v.base[1] = "loc" THEN [fr |-> [fr EXCEPT !.loc[sv.v.base[2]][sv.v.lo + i.v + 1] = v], th |-> th, f |-> {}]
                    ELSE IF sv.v.base[1] = "th" THEN [fr |-> fr, th |-> [th EXCEPT ![sv.v.base[2]][sv.v.lo + i.v + 1] = v], f |-> {}]
                    ELSE [fr |-> fr, th |-> th, f |-> {U("store through slice of an argument")}]
               ELSE IF ~IsArrayTy(Nd(n.l).ty) THEN [fr |-> fr, th |-> th, f |-> {U("store target type")}]
               ELSE LET arr == Deref(C, loc) IN
                    IF i.v < 0 \/ i.v >= Len(arr) THEN [fr |-> fr, th |-> th, f |-> {V("index")}]
                    ELSE IF IsNumTy(et) /\ ~InRange(v, TyRange(et)) THEN [fr |-> fr, th |-> th, f |-> {V("store")}]
                    ELSE IF loc[1] = "loc" THEN [fr |-> [fr EXCEPT !.loc[loc[2]][i.v + 1] = v], th |-> th, f |-> {}]
                    ELSE [fr |-> fr, th |-> [th EXCEPT ![loc[2]][i.v + 1] = v], f |-> {}]
       ELSE [fr |-> fr, th |-> th, f |-> {U("lvalue")}]

---------------------------------------------------------------------------
(* Facts (C02)                                                              *)

\* the facts held before statement s that are false now
FalseFacts(s, C) ==
    { k \in 1..Len(Nd(s).fx) :
        LET r == EvalTop(Nd(s).fx[k], NoRc(C)) IN r.f = {} /\ r.v # 1 }
\* facts that cannot be interpreted (unsupported operator, fault inside the fact, poisoned operand)
OpaqueFacts(s, C) ==
    { k \in 1..Len(Nd(s).fx) : EvalTop(Nd(s).fx[k], NoRc(C)).f # {} }

\* assert / inv / pre / post conditions attached to a node's list y, by keyword
FalseAsserts(o, kws, C) ==
    { a \in { Nd(o).y[i] : i \in 1..Len(Nd(o).y) } :
        Nd(a).k = "Assert" /\ Nd(a).a \in kws /\ LET r == EvalTop(Nd(a).r, NoRc(C)) IN r.f = {} /\ r.v # 1 }

---------------------------------------------------------------------------
(* Returning to the caller / the environment                                *)

NoSaved == [none |-> TRUE]

\* status values are the literal's token text ("\"#bad thing\"") or "base." + text for the base package's;
\* their category (first character of the message) is tabulated by the exporter
SetOf(seq) == { seq[i] : i \in 1..Len(seq) }
IsErr(s) == s \in SetOf(P.errs)
IsSusp(s) == s \in SetOf(P.susps)
ShortRead == "base.\"$short read\""
ShortWrite == "base.\"$short write\""

Record(st, rv) ==
    Append(hist, [fn |-> pend.fn, args |-> pend.args, wi0 |-> pend.wi, closed0 |-> pend.closed, cap0 |-> pend.cap,
                  resumed |-> pend.resumed,
                  st |-> st, rv |-> rv, ri |-> src.ri, out |-> dst.data, disabled |-> disabled'])

\* the outermost (public) function finished or suspended with status st / value rv
ToEnv(st, rv, newsaved) ==
    /\ mode' = "idle" /\ status' = st /\ retv' = rv /\ stack' = <<>>
    /\ saved' = newsaved
    /\ disabled' = (disabled \/ IsErr(st))
    /\ active' = IF IsSusp(st) THEN pend.fn ELSE ""
    /\ hist' = Record(st, rv)
    /\ UNCHANGED <<pi, th, src, dst, fault, ncalls, fuel, pend>>

\* Deliver (st, rv) from the finished / suspended top frame `fr` to whoever
\* called it.  kind = "ret" (function completed) or "susp" (coroutine
\* suspended; fr is saved and will be resumed by the next call of fr.fn).
Deliver(fr, kind, st, rv) ==
    LET f == FuncRec(fr.fn)
        sv == IF kind = "susp" THEN [saved EXCEPT ![fr.fn] = fr] ELSE [saved EXCEPT ![fr.fn] = NoSaved]
    IN IF Len(stack) = 1 THEN ToEnv(IF f.eff = "?" THEN st ELSE "ok", rv, sv)
       ELSE LET caller == stack[Len(stack) - 1]
                cs == Nd(CurStmt(caller))       \* the call statement (an Assign)
                stk == SubSeq(stack, 1, Len(stack) - 1)
            IN IF f.eff = "?" /\ cs.a # "=?" /\ st # "ok"
               THEN \* plain coroutine call: a non-ok status propagates; the caller suspends / fails too
                    /\ stack' = stk /\ saved' = sv /\ mode' = "unwind" /\ status' = st /\ retv' = rv
                    /\ UNCHANGED <<pi, th, src, dst, disabled, active, fault, ncalls, hist, fuel, pend>>
               ELSE \* the value (the status for coroutine calls, the return value otherwise) goes to the LHS
                    LET val == IF f.eff = "?" THEN st ELSE rv IN
                    IF cs.l = 0
                    THEN /\ stack' = [stk EXCEPT ![Len(stk)] = Advance(caller)] /\ saved' = sv
                         /\ UNCHANGED <<pi, th, src, dst, mode, status, retv, disabled, active, fault, ncalls, hist, fuel, pend>>
                    ELSE LET s == Store(cs.l, val, caller) IN
                         IF s.f # {} THEN Fault(FirstOf(s.f))
                         ELSE /\ stack' = [stk EXCEPT ![Len(stk)] = Advance(s.fr)] /\ th' = s.th /\ saved' = sv
                              /\ UNCHANGED <<pi, src, dst, mode, status, retv, disabled, active, fault, ncalls, hist, fuel, pend>>

---------------------------------------------------------------------------
(* One step of the top frame                                                *)

HasSaved(name) == "fn" \in DOMAIN saved[name]

\* Enter (or resume) user function g with argument function argf.
Enter(g, argf, fr) ==
    IF \E i \in 1..Len(stack) : stack[i].fn = g.name THEN Fault(V("recursion"))
    ELSE IF ParamViol(g, argf) THEN Fault(V("argument"))
    ELSE LET nf == IF HasSaved(g.name)
                   THEN LET sf == saved[g.name] IN
                        [sf EXCEPT !.args = argf,
                                   !.pz = IF Mode = "cgen" THEN DOMAIN sf.loc \ { g.resum[i] : i \in 1..Len(g.resum) } ELSE {}]
                   ELSE NewFrame(g, argf)
         IN /\ stack' = Append(SetTop(fr), nf)
            /\ saved' = [saved EXCEPT ![g.name] = NoSaved]
            /\ UNCHANGED <<pi, th, src, dst, mode, status, retv, disabled, active, fault, ncalls, hist, fuel, pend>>

Suspend(fr, st) == Deliver(fr, "susp", st, 0)

\* Complete an assignment statement `s` (an Assign node) with RHS value v.
FinishAssign(s, v, fr) ==
    LET n == Nd(s)
        C == Ctx(fr)
    IN IF n.l = 0 THEN /\ stack' = SetTop(Advance(fr))
                       /\ UNCHANGED <<pi, th, saved, src, dst, mode, status, retv, disabled, active, fault, ncalls, hist, fuel, pend>>
       ELSE LET op == n.a
                val == IF op \in {"=", "=?"} THEN R(v)
                       ELSE LET cur == EvalTop(n.l, C)
                                bop == CASE op = "+=" -> "+" [] op = "-=" -> "-" [] op = "*=" -> "*" [] op = "/=" -> "/" [] op = "%=" -> "%"
                                         [] op = "<<=" -> "<<" [] op = ">>=" -> ">>" [] op = "&=" -> "&" [] op = "|=" -> "|" [] op = "^=" -> "^"
                                         [] op = "~mod+=" -> "~mod+" [] op = "~mod-=" -> "~mod-" [] op = "~mod*=" -> "~mod*" [] op = "~mod<<=" -> "~mod<<"
                                         [] op = "~sat+=" -> "~sat+" [] op = "~sat-=" -> "~sat-" [] OTHER -> op
                            IN IF cur.f # {} THEN cur ELSE BinOp(bop, Nd(n.l), cur, R(v))
            IN IF val.f # {} THEN Fault(FirstOf(val.f))
               ELSE LET st == Store(n.l, val.v, fr) IN
                    IF st.f # {} THEN Fault(FirstOf(st.f))
                    ELSE /\ stack' = SetTop(Advance(st.fr)) /\ th' = st.th
                         /\ UNCHANGED <<pi, saved, src, dst, mode, status, retv, disabled, active, fault, ncalls, hist, fuel, pend>>

\* statement-level call `recv.meth(args)` with receiver expression recvE
DoCall(s, fr) ==
    LET n == Nd(s)
        call == Nd(n.r)
        sel == Nd(call.l)
        meth == sel.c
        recvE == sel.l
        rt == Nd(recvE).ty
        C == Ctx(fr)
    IN IF IsReaderTy(rt) /\ ReadN(meth) > 0
       THEN LET k == ReadN(meth)
                have == IF fr.io.k = "read" THEN fr.io.got ELSE <<>>     \* bytes already taken by a suspended multi-byte read
                avail == src.wi - src.ri
                need == k - Len(have)
            IN IF avail >= need
               THEN LET bs == have \o SubSeq(src.data, src.ri + 1, src.ri + need)
                        v == IF IsBE(meth) THEN BEVal(bs) ELSE LEVal(bs, 1)
                    IN /\ src' = [src EXCEPT !.ri = @ + need]
                       /\ LET fr2 == [fr EXCEPT !.io = [k |-> "none"]]
                              nn == Nd(s)
                          IN IF nn.l = 0 THEN stack' = SetTop(Advance(fr2)) /\ th' = th
                             ELSE LET st == Store(nn.l, v, fr2) IN
                                  IF st.f # {} THEN stack' = stack /\ th' = th   \* (unreachable: reads fit their types)
                                  ELSE stack' = SetTop(Advance(st.fr)) /\ th' = st.th
                       /\ UNCHANGED <<pi, saved, dst, mode, status, retv, disabled, active, fault, ncalls, hist, fuel, pend>>
               ELSE \* take what is there, remember it, suspend with "$short read"
                    LET bs == have \o SubSeq(src.data, src.ri + 1, src.wi)
                        fr2 == [fr EXCEPT !.io = [k |-> "read", got |-> bs], !.re = TRUE]
                    IN /\ src' = [src EXCEPT !.ri = src.wi]
                       /\ LET sv == [saved EXCEPT ![fr.fn] = fr2] IN
                          IF Len(stack) = 1
                          THEN /\ mode' = "idle" /\ status' = ShortRead /\ retv' = 0 /\ stack' = <<>> /\ saved' = sv
                               /\ active' = pend.fn
                               /\ hist' = Append(hist, [fn |-> pend.fn, args |-> pend.args, wi0 |-> pend.wi, closed0 |-> pend.closed, cap0 |-> pend.cap,
                                                        resumed |-> pend.resumed, st |-> ShortRead, rv |-> 0, ri |-> src.wi, out |-> dst.data, disabled |-> disabled])
                               /\ UNCHANGED <<pi, th, dst, disabled, fault, ncalls, fuel, pend>>
                          ELSE /\ stack' = SubSeq(stack, 1, Len(stack) - 1) /\ saved' = sv /\ mode' = "unwind"
                               /\ status' = ShortRead /\ retv' = 0
                               /\ UNCHANGED <<pi, th, dst, disabled, active, fault, ncalls, hist, fuel, pend>>
       ELSE IF IsWriterTy(rt) /\ meth = "write_u8"
       THEN LET a == IF fr.io.k = "write" THEN R(fr.io.val) ELSE EvalTop(Nd(call.x[1]).r, C) IN
            IF a.f # {} THEN Fault(FirstOf(a.f))
            ELSE IF Len(dst.data) < dst.cap
            THEN /\ dst' = [dst EXCEPT !.data = Append(@, a.v)]
                 /\ stack' = SetTop(Advance([fr EXCEPT !.io = [k |-> "none"]]))
                 /\ UNCHANGED <<pi, th, saved, src, mode, status, retv, disabled, active, fault, ncalls, hist, fuel, pend>>
            ELSE LET fr2 == [fr EXCEPT !.io = [k |-> "write", val |-> a.v], !.re = TRUE]
                     sv == [saved EXCEPT ![fr.fn] = fr2]
                 IN IF Len(stack) = 1
                    THEN /\ mode' = "idle" /\ status' = ShortWrite /\ retv' = 0 /\ stack' = <<>> /\ saved' = sv
                         /\ active' = pend.fn
                         /\ hist' = Append(hist, [fn |-> pend.fn, args |-> pend.args, wi0 |-> pend.wi, closed0 |-> pend.closed, cap0 |-> pend.cap,
                                                  resumed |-> pend.resumed, st |-> ShortWrite, rv |-> 0, ri |-> src.ri, out |-> dst.data, disabled |-> disabled])
                         /\ UNCHANGED <<pi, th, src, dst, disabled, fault, ncalls, fuel, pend>>
                    ELSE /\ stack' = SubSeq(stack, 1, Len(stack) - 1) /\ saved' = sv /\ mode' = "unwind"
                         /\ status' = ShortWrite /\ retv' = 0
                         /\ UNCHANGED <<pi, th, src, dst, disabled, active, fault, ncalls, hist, fuel, pend>>
       ELSE IF IsReaderTy(rt) /\ meth = "skip_u32_fast"
       THEN \* unchecked: pre-condition actual <= worst_case <= length()
            LET a == EvalTop(Nd(call.x[1]).r, C)  w == EvalTop(Nd(call.x[2]).r, C) IN
            IF a.f # {} THEN Fault(FirstOf(a.f)) ELSE IF w.f # {} THEN Fault(FirstOf(w.f))
            ELSE IF a.v > w.v \/ w.v > src.wi - src.ri THEN Fault(V("precondition skip_u32_fast"))
            ELSE /\ src' = [src EXCEPT !.ri = @ + a.v] /\ stack' = SetTop(Advance(fr))
                 /\ UNCHANGED <<pi, th, saved, dst, mode, status, retv, disabled, active, fault, ncalls, hist, fuel, pend>>
       ELSE IF IsWriterTy(rt) /\ meth = "write_u8_fast"
       THEN LET a == EvalTop(Nd(call.x[1]).r, C) IN
            IF a.f # {} THEN Fault(FirstOf(a.f))
            ELSE IF Len(dst.data) >= dst.cap THEN Fault(V("precondition write_u8_fast"))
            ELSE /\ dst' = [dst EXCEPT !.data = Append(@, a.v)] /\ stack' = SetTop(Advance(fr))
                 /\ UNCHANGED <<pi, th, saved, src, mode, status, retv, disabled, active, fault, ncalls, hist, fuel, pend>>
       ELSE IF IsReaderTy(rt) /\ meth \in {"skip_u32", "skip"}
       THEN \* suspending skip: the amount is evaluated once and the remainder is kept across suspensions
            LET a == IF fr.io.k = "skip" THEN R(fr.io.left) ELSE EvalTop(Nd(call.x[1]).r, C)
                avail == src.wi - src.ri
            IN IF a.f # {} THEN Fault(FirstOf(a.f))
               ELSE IF avail >= a.v
               THEN /\ src' = [src EXCEPT !.ri = @ + a.v] /\ stack' = SetTop(Advance([fr EXCEPT !.io = [k |-> "none"]]))
                    /\ UNCHANGED <<pi, th, saved, dst, mode, status, retv, disabled, active, fault, ncalls, hist, fuel, pend>>
               ELSE LET fr2 == [fr EXCEPT !.io = [k |-> "skip", left |-> a.v - avail], !.re = TRUE]
                        sv == [saved EXCEPT ![fr.fn] = fr2]
                    IN /\ src' = [src EXCEPT !.ri = src.wi]
                       /\ IF Len(stack) = 1
                          THEN /\ mode' = "idle" /\ status' = ShortRead /\ retv' = 0 /\ stack' = <<>> /\ saved' = sv /\ active' = pend.fn
                               /\ hist' = Append(hist, [fn |-> pend.fn, args |-> pend.args, wi0 |-> pend.wi, closed0 |-> pend.closed, cap0 |-> pend.cap,
                                                        resumed |-> pend.resumed, st |-> ShortRead, rv |-> 0, ri |-> src.wi, out |-> dst.data, disabled |-> disabled])
                               /\ UNCHANGED <<pi, th, dst, disabled, fault, ncalls, fuel, pend>>
                          ELSE /\ stack' = SubSeq(stack, 1, Len(stack) - 1) /\ saved' = sv /\ mode' = "unwind" /\ status' = ShortRead /\ retv' = 0
                               /\ UNCHANGED <<pi, th, dst, disabled, active, fault, ncalls, hist, fuel, pend>>
       ELSE IF Nd(recvE).a = "" /\ Nd(recvE).c = "this" /\ (meth \in DOMAIN P.fmap)
       THEN LET g == FuncRec(meth)
                av == ArgVals(call.x, 1, C)
            IN IF av.f # {} THEN Fault(FirstOf(av.f)) ELSE Enter(g, ArgFun(av.v), fr)
       ELSE \* a pure built-in method used as a statement-level RHS
            LET v == EvalTop(n.r, C) IN
            IF v.f # {} THEN Fault(FirstOf(v.f)) ELSE FinishAssign(s, v.v, fr)

IsUserOrIOCall(e) ==
    /\ Nd(e).a = "(" /\ Nd(Nd(e).l).a = "."
    /\ LET sel == Nd(Nd(e).l) rt == Nd(sel.l).ty IN
       \/ (IsReaderTy(rt) /\ ReadN(sel.c) > 0)
       \/ (IsWriterTy(rt) /\ sel.c \in {"write_u8", "write_u8_fast"})
       \/ (IsReaderTy(rt) /\ sel.c \in {"skip_u32_fast", "skip_u32", "skip"})
       \/ (Nd(sel.l).a = "" /\ Nd(sel.l).c = "this" /\ sel.c \in DOMAIN P.fmap)

\* which block of an if / else-if chain is entered: <<node, "z"|"y">> or <<>>; faults in conditions surface as <<"fault", s>>
RECURSIVE IfTarget(_, _)
IfTarget(i, C) ==
    LET c == EvalTop(Nd(i).m, C) IN
    IF c.f # {} THEN [k |-> "fault", f |-> FirstOf(c.f)]
    ELSE IF c.v = 1 THEN [k |-> "blk", o |-> i, w |-> "z"]
    ELSE IF Nd(i).r # 0 THEN IfTarget(Nd(i).r, C)
    ELSE IF Len(Nd(i).y) > 0 THEN [k |-> "blk", o |-> i, w |-> "y"] ELSE [k |-> "none"]

\* pop control entries down to (and including) the loop `lp`
RECURSIVE PopTo(_, _)
PopTo(fr, lp) == IF CtlTop(fr).o = lp THEN PopCtl(fr) ELSE PopTo(PopCtl(fr), lp)

Step ==
    /\ mode = "run" /\ Len(stack) > 0
    /\ IF fuel = 0 THEN Fault([k |-> "fuel", d |-> ""]) ELSE
       LET fr == Top
           C == Ctx(fr)
           f == FuncRec(fr.fn)
       IN IF AtEnd(fr)
          THEN LET o == CtlTop(fr).o IN
               IF Nd(o).k = "Func"
               THEN \* falling off the end: coroutines return ok, others return nothing
                    Deliver(fr, "ret", "ok", 0) /\ fuel' = fuel   \* (fuel is UNCHANGED inside Deliver)
               ELSE IF Nd(o).k = "While"
               THEN stack' = SetTop(PopCtl(fr)) /\ UNCHANGED <<pi, th, saved, src, dst, mode, status, retv, disabled, active, fault, ncalls, hist, pend>> /\ fuel' = fuel - 1
               ELSE stack' = SetTop(Advance(PopCtl(fr))) /\ UNCHANGED <<pi, th, saved, src, dst, mode, status, retv, disabled, active, fault, ncalls, hist, pend>> /\ fuel' = fuel - 1
          ELSE LET s == CurStmt(fr)
                   n == Nd(s)
                   \* the facts recorded before a `while` statement are those at its first entry
                   \* ... and the facts before a statement are not re-examined when the statement is re-entered
                   \* after a suspension inside it (they held when it was first reached)
                   ff == IF n.hf = 1 /\ ~fr.re /\ ~(n.k = "While" /\ s \in fr.loops) THEN FalseFacts(s, C) ELSE {}
               IN IF ff # {} THEN Fault([k |-> "fact", d |-> ToString(s) \o ":" \o ToString(FirstOf(ff))])
                  ELSE CASE n.k = "Var" -> stack' = SetTop(Advance(fr)) /\ UNCHANGED <<pi, th, saved, src, dst, mode, status, retv, disabled, active, fault, ncalls, hist, pend>> /\ fuel' = fuel - 1
                         [] n.k = "Assert" ->
                              LET r == EvalTop(n.r, NoRc(C)) IN
                              IF r.f = {} /\ r.v # 1 THEN Fault([k |-> "fact", d |-> "assert " \o ToString(s)])
                              ELSE stack' = SetTop(Advance(fr)) /\ UNCHANGED <<pi, th, saved, src, dst, mode, status, retv, disabled, active, fault, ncalls, hist, pend>> /\ fuel' = fuel - 1
                         [] n.k = "Assign" ->
                              IF IsUserOrIOCall(n.r)
                              THEN DoCall(s, fr) /\ fuel' = fuel     \* (fuel UNCHANGED inside)
                              ELSE LET v == EvalTop(n.r, C) IN
                                   IF v.f # {} THEN Fault(FirstOf(v.f))
                                   ELSE FinishAssign(s, v.v, fr) /\ fuel' = fuel
                         [] n.k = "If" ->
                              LET t == IfTarget(s, C) IN
                              IF t.k = "fault" THEN Fault(t.f)
                              ELSE IF t.k = "none" THEN stack' = SetTop(Advance(fr)) /\ UNCHANGED <<pi, th, saved, src, dst, mode, status, retv, disabled, active, fault, ncalls, hist, pend>> /\ fuel' = fuel - 1
                              ELSE stack' = SetTop(PushCtl(fr, t.o, t.w)) /\ UNCHANGED <<pi, th, saved, src, dst, mode, status, retv, disabled, active, fault, ncalls, hist, pend>> /\ fuel' = fuel - 1
                         [] n.k = "While" ->
                              LET c == EvalTop(n.m, NoRc(C))      \* (ranges cached in a loop condition belong to one proving site)
                                  first == s \notin fr.loops
                                  badinv == FalseAsserts(s, IF first THEN {"inv", "pre"} ELSE {"inv"}, C)
                              IN IF c.f # {} THEN Fault(FirstOf(c.f))
                                 ELSE IF badinv # {} THEN Fault([k |-> "fact", d |-> "loop " \o ToString(FirstOf(badinv))])
                                 ELSE IF c.v = 1
                                 THEN stack' = SetTop(PushCtl([fr EXCEPT !.loops = @ \cup {s}], s, "z")) /\ UNCHANGED <<pi, th, saved, src, dst, mode, status, retv, disabled, active, fault, ncalls, hist, pend>> /\ fuel' = fuel - 1
                                 ELSE LET badpost == FalseAsserts(s, {"inv", "post"}, C) IN
                                      IF badpost # {} THEN Fault([k |-> "fact", d |-> "loop " \o ToString(FirstOf(badpost))])
                                      ELSE stack' = SetTop(Advance([fr EXCEPT !.loops = @ \ {s}])) /\ UNCHANGED <<pi, th, saved, src, dst, mode, status, retv, disabled, active, fault, ncalls, hist, pend>> /\ fuel' = fuel - 1
                         [] n.k = "Jump" ->
                              LET lp == n.jt
                                  fr2 == PopTo(fr, lp)
                              IN IF n.a = "continue"
                                 THEN stack' = SetTop(fr2) /\ UNCHANGED <<pi, th, saved, src, dst, mode, status, retv, disabled, active, fault, ncalls, hist, pend>> /\ fuel' = fuel - 1
                                 ELSE LET badpost == FalseAsserts(lp, {"post"}, C) IN
                                      IF badpost # {} THEN Fault([k |-> "fact", d |-> "loop " \o ToString(FirstOf(badpost))])
                                      ELSE stack' = SetTop(Advance([fr2 EXCEPT !.loops = @ \ {lp}])) /\ UNCHANGED <<pi, th, saved, src, dst, mode, status, retv, disabled, active, fault, ncalls, hist, pend>> /\ fuel' = fuel - 1
                         [] n.k = "Ret" ->
                              LET v == IF n.l = 0 THEN R(0) ELSE EvalTop(n.l, C)
                              IN IF v.f # {} THEN Fault(FirstOf(v.f))
                                 ELSE IF n.a = "yield"
                                 THEN Suspend(Advance(fr), v.v) /\ fuel' = fuel
                                 ELSE IF f.eff = "?" THEN Deliver(fr, "ret", v.v, 0) /\ fuel' = fuel
                                 ELSE Deliver(fr, "ret", "ok", v.v) /\ fuel' = fuel
                         [] OTHER -> Fault(U("statement " \o n.k))

\* A plain (non `=?`) coroutine call whose callee suspended or failed: the
\* caller does the same (one frame per step).
Unwind ==
    /\ mode = "unwind"
    /\ LET fr == Top
           cs == Nd(CurStmt(fr))
       IN IF cs.a = "=?"
          THEN \* the status is a value here: assign it and go on running
               LET s == Store(cs.l, status, fr) IN
               IF s.f # {} THEN Fault(FirstOf(s.f))
               ELSE /\ stack' = SetTop(Advance(s.fr)) /\ th' = s.th /\ mode' = "run"
                    /\ UNCHANGED <<pi, saved, src, dst, status, retv, disabled, active, fault, ncalls, hist, fuel, pend>>
          ELSE IF IsSusp(status)
          THEN \* this frame is suspended at the call statement (it will re-execute the call on resumption)
               LET sv == [saved EXCEPT ![fr.fn] = [fr EXCEPT !.re = TRUE]] IN
               IF Len(stack) = 1
               THEN /\ mode' = "idle" /\ stack' = <<>> /\ saved' = sv /\ active' = pend.fn
                    /\ hist' = Append(hist, [fn |-> pend.fn, args |-> pend.args, wi0 |-> pend.wi, closed0 |-> pend.closed, cap0 |-> pend.cap,
                                             resumed |-> pend.resumed, st |-> status, rv |-> 0, ri |-> src.ri, out |-> dst.data, disabled |-> disabled])
                    /\ UNCHANGED <<pi, th, src, dst, status, retv, disabled, fault, ncalls, fuel, pend>>
               ELSE /\ stack' = SubSeq(stack, 1, Len(stack) - 1) /\ saved' = sv
                    /\ UNCHANGED <<pi, th, src, dst, mode, status, retv, disabled, active, fault, ncalls, hist, fuel, pend>>
          ELSE \* an error (or note) status: the caller returns it as well
               IF Len(stack) = 1
               THEN /\ mode' = "idle" /\ stack' = <<>> /\ disabled' = (disabled \/ IsErr(status)) /\ active' = ""
                    /\ saved' = [saved EXCEPT ![fr.fn] = NoSaved]
                    /\ hist' = Append(hist, [fn |-> pend.fn, args |-> pend.args, wi0 |-> pend.wi, closed0 |-> pend.closed, cap0 |-> pend.cap,
                                             resumed |-> pend.resumed, st |-> status, rv |-> 0, ri |-> src.ri, out |-> dst.data, disabled |-> disabled'])
                    /\ UNCHANGED <<pi, th, src, dst, status, retv, fault, ncalls, fuel, pend>>
               ELSE /\ stack' = SubSeq(stack, 1, Len(stack) - 1) /\ saved' = [saved EXCEPT ![fr.fn] = NoSaved]
                    /\ UNCHANGED <<pi, th, src, dst, mode, status, retv, disabled, active, fault, ncalls, hist, fuel, pend>>

---------------------------------------------------------------------------
(* The environment                                                          *)

ZeroField(fd) == IF fd.arr > 0 THEN [i \in 1..fd.arr |-> 0] ELSE 0

Init ==
    /\ pi \in 1..Len(Progs)
    /\ th = [x \in Names(P.fields) |-> ZeroField(CHOOSE fd \in { P.fields[i] : i \in 1..Len(P.fields) } : fd.n = x)]
    /\ stack = <<>>
    /\ saved = [x \in { P.funcs[i].name : i \in 1..Len(P.funcs) } |-> NoSaved]
    /\ \E k \in 1..Len(P.inputs) :
          LET d == P.inputs[k] IN
          src \in IF Schedule = "oneshot" THEN {[data |-> d, ri |-> 0, wi |-> Len(d), closed |-> TRUE]}
                  ELSE {[data |-> d, ri |-> 0, wi |-> w, closed |-> FALSE] : w \in 0..Len(d)}
    /\ dst \in IF Schedule = "oneshot" THEN {[data |-> <<>>, cap |-> P.dstcap]} ELSE {[data |-> <<>>, cap |-> c] : c \in 0..P.dstcap}
    /\ mode = "idle" /\ status = "ok" /\ retv = 0 /\ disabled = FALSE /\ active = "" /\ fault = NoFaultRec
    /\ ncalls = 0 /\ hist = <<>> /\ fuel = Fuel
    /\ pend = [fn |-> "", args |-> <<>>, wi |-> 0, closed |-> FALSE, cap |-> 0, resumed |-> FALSE]

PubFuncs == { P.funcs[i] : i \in { j \in 1..Len(P.funcs) : P.funcs[j].pub } }

\* A public call.  choice = index into the function's exported argument choices.
Call(g, ci) ==
    /\ mode = "idle" /\ fault = NoFaultRec
    /\ LET argf == ArgFun(g.choices[ci])
           resuming == g.eff = "?" /\ active = g.name
       IN /\ (resuming \/ ncalls < MaxCalls)
          /\ pend' = [fn |-> g.name, args |-> g.choices[ci], wi |-> src.wi, closed |-> src.closed, cap |-> dst.cap, resumed |-> resuming]
          /\ ncalls' = IF resuming THEN ncalls ELSE ncalls + 1
          /\ IF disabled /\ g.eff # ""
             THEN \* status-returning methods of a dead object report it; others are no-ops (see C08 for the protocol itself)
                  /\ status' = IF g.rets = "status" \/ g.eff = "?" THEN "base.\"#disabled by previous error\"" ELSE "ok"
                  /\ hist' = Append(hist, [fn |-> g.name, args |-> g.choices[ci], wi0 |-> src.wi, closed0 |-> src.closed, cap0 |-> dst.cap,
                                           resumed |-> FALSE, st |-> status', rv |-> 0, ri |-> src.ri, out |-> dst.data, disabled |-> TRUE])
                  /\ UNCHANGED <<pi, th, stack, saved, src, dst, mode, retv, disabled, active, fault, fuel>>
             ELSE IF ParamViol(g, argf) /\ g.eff # ""
             THEN \* a public impure method checks its refined arguments at run time: "bad argument" kills the object
                  /\ status' = IF g.rets = "status" \/ g.eff = "?" THEN "base.\"#bad argument\"" ELSE "ok"
                  /\ disabled' = TRUE /\ active' = ""
                  /\ hist' = Append(hist, [fn |-> g.name, args |-> g.choices[ci], wi0 |-> src.wi, closed0 |-> src.closed, cap0 |-> dst.cap,
                                           resumed |-> FALSE, st |-> status', rv |-> 0, ri |-> src.ri, out |-> dst.data, disabled |-> TRUE])
                  /\ UNCHANGED <<pi, th, stack, saved, src, dst, mode, retv, fault, fuel>>
             ELSE IF ParamViol(g, argf)
             THEN \* a pure method with an out-of-range argument returns the zero value
                  /\ status' = "ok" /\ retv' = 0
                  /\ hist' = Append(hist, [fn |-> g.name, args |-> g.choices[ci], wi0 |-> src.wi, closed0 |-> src.closed, cap0 |-> dst.cap,
                                           resumed |-> FALSE, st |-> "ok", rv |-> 0, ri |-> src.ri, out |-> dst.data, disabled |-> disabled])
                  /\ UNCHANGED <<pi, th, stack, saved, src, dst, mode, disabled, active, fault, fuel>>
             ELSE IF g.eff = "?" /\ active # "" /\ active # g.name
             THEN /\ status' = "base.\"#interleaved coroutine calls\"" /\ disabled' = TRUE /\ active' = ""
                  /\ hist' = Append(hist, [fn |-> g.name, args |-> g.choices[ci], wi0 |-> src.wi, closed0 |-> src.closed, cap0 |-> dst.cap,
                                           resumed |-> FALSE, st |-> status', rv |-> 0, ri |-> src.ri, out |-> dst.data, disabled |-> TRUE])
                  /\ UNCHANGED <<pi, th, stack, saved, src, dst, mode, retv, fault, fuel>>
             ELSE /\ mode' = "run"
                  /\ stack' = << IF HasSaved(g.name)
                                 THEN LET sf == saved[g.name] IN
                                      [sf EXCEPT !.args = argf,
                                                 !.pz = IF Mode = "cgen" THEN DOMAIN sf.loc \ { g.resum[i] : i \in 1..Len(g.resum) } ELSE {}]
                                 ELSE NewFrame(g, argf) >>
                  /\ saved' = [saved EXCEPT ![g.name] = NoSaved]
                  /\ UNCHANGED <<pi, th, src, dst, status, retv, disabled, active, fault, hist, fuel>>

\* between calls, after "$short read": the caller supplies more (any amount) or closes
Supply ==
    /\ Schedule = "split" /\ mode = "idle" /\ fault = NoFaultRec /\ status = ShortRead /\ ~src.closed
    /\ \/ \E k \in 1..(Len(src.data) - src.wi) : src' = [src EXCEPT !.wi = @ + k]
       \/ src.wi = Len(src.data) /\ src' = [src EXCEPT !.closed = TRUE]
    /\ status' = "supplied"
    /\ UNCHANGED <<pi, th, stack, saved, dst, mode, retv, disabled, active, fault, ncalls, hist, fuel, pend>>

Drain ==
    /\ Schedule = "split" /\ mode = "idle" /\ fault = NoFaultRec /\ status = ShortWrite /\ dst.cap < P.dstcap
    /\ \E k \in 1..(P.dstcap - dst.cap) : dst' = [dst EXCEPT !.cap = @ + k]
    /\ status' = "drained"
    /\ UNCHANGED <<pi, th, stack, saved, src, mode, retv, disabled, active, fault, ncalls, hist, fuel, pend>>

EnvCall == \E g \in PubFuncs : \E ci \in 1..Len(g.choices) :
              /\ (status \in {ShortRead, ShortWrite} => FALSE)    \* the driver reacts to a suspension first
              /\ Call(g, ci)

Next == Step \/ Unwind \/ EnvCall \/ Supply \/ Drain
Spec == Init /\ [][Next]_vars

---------------------------------------------------------------------------
(* Properties                                                               *)

NoFault       == fault.k # "viol"        \* C01: index / slice / overflow / conversion / store / divzero / shift / recursion / argument
ClaimedRanges == fault.k # "range"       \* C01: every statement-position value inside its exported MBounds
FactsTrue     == fault.k # "fact"        \* C02: facts, asserts, loop pre/inv/post
NoPoisonRead  == fault.k # "poison"      \* C05 (Mode = "cgen")
\* the history without observation-only parts, for exhaustive property configs
View == <<pi, th, stack, saved, src, dst, mode, status, retv, disabled, active, fault, ncalls, pend.fn>>

\* Export: print every finished history once (a history is finished when no
\* further public call is allowed or the run ended in a fault).
Finished == mode \in {"idle", "done"} /\ (ncalls >= MaxCalls \/ mode = "done" \/ disabled)
                /\ ~(status \in {ShortRead, ShortWrite, "supplied", "drained"} /\ mode = "idle" /\ ~disabled /\ fault = NoFaultRec)
ExportInv == Finished => PrintT(ToJson([prog |-> pi, fault |-> fault, input |-> src.data, hist |-> hist]))
=============================================================================

----------------------------- MODULE Trace_Jpeg -----------------------------
(***************************************************************************)
(* C18, content half (Mode V): acceptance of the files that the real       *)
(* lib/lowleveljpeg Encoder wrote.                                          *)
(*                                                                         *)
(* A trace is  [ req |-> what was requested, ev |-> events ]  where the     *)
(* events come from harness/internal/jpegwalk, an independent walker over   *)
(* the bytes (written from ITU-T T.81): one event per marker segment with   *)
(* its fields, one "blk" event per decoded block (the 64 quantised          *)
(* coefficients in coding = zig-zag order, DC after prediction) to which    *)
(* the harness has attached "in", the block that was passed to AddN at the  *)
(* same position of the input sequence (natural order), then the end of    *)
(* the entropy-coded data, EOI, end of file, and what image/jpeg said.      *)
(*                                                                         *)
(*   req = [ct, w, h, q]   ct = 1 gray, 3 4:4:4, 6 4:2:0;                   *)
(*                         q = <<luma, chroma>> each 64 factors in natural  *)
(*                         (row-major) order: the tables that were requested*)
(*                                                                         *)
(* The trace is accepted iff                                               *)
(*  - the marker grammar of a baseline file holds:                         *)
(*      SOI (APPn|COM|DQT|DHT)* SOF0 (APPn|COM|DQT|DHT)* SOS blocks EOI eof *)
(*  - the frame header declares 8 bit precision, the requested width and    *)
(*    height, the component count and sampling factors of the colour type;  *)
(*  - the quantisation table each component selects is defined and equals   *)
(*    the requested table (luma for the first component, chroma for the     *)
(*    others), in zig-zag order in the file;                               *)
(*  - every Huffman table is a well-formed prefix code over legal symbols   *)
(*    and every table a scan component selects is defined;                  *)
(*  - the scan names the frame's components in order, Ss=0 Se=63 Ah=Al=0;   *)
(*  - exactly Units(ct,w,h) MCUs of the right component order are decoded,  *)
(*    the last byte is padded with 1-bits, no other byte precedes EOI and    *)
(*    none follows it;                                                      *)
(*  - every decoded coefficient is the input coefficient divided by its     *)
(*    quantisation factor rounded to nearest (Nearest below);               *)
(*  - image/jpeg decodes the file and reports the requested dimensions.     *)
(*                                                                         *)
(* ROUNDING RULE: module JpegRound.  The property says "rounded to         *)
(* nearest" and the package promises no tie rule, so on an exact tie either  *)
(* neighbour is accepted:  Nearest(c, q, d) == 2 * |c - d*q| <= q.           *)
(***************************************************************************)
EXTENDS JpegRound, Sequences, FiniteSets, TLC, Json

CONSTANTS TraceFile      \* JSON: array of traces

Traces == JsonDeserialize(TraceFile)

---------------------------------------------------------------------------
(* Arithmetic.                                                             *)
CeilDiv(a, b) == (a + b - 1) \div b

Units(ct, w, h) ==
    IF ct = 6 THEN CeilDiv(w, 16) * CeilDiv(h, 16)
              ELSE CeilDiv(w, 8) * CeilDiv(h, 8)

\* Components (0-based index in the scan) of the blocks of one MCU, in order
\* (T.81 A.2.3: for each component Hi x Vi data units, left to right, top to
\* bottom; lowleveljpeg: luma TL, TR, BL, BR, Cb, Cr).
McuComps(ct) == CASE ct = 1 -> <<0>>
                  [] ct = 3 -> <<0, 1, 2>>
                  [] ct = 6 -> <<0, 0, 0, 0, 1, 2>>

\* Sampling factors <<H, V>> per component.
Sampling(ct) == CASE ct = 1 -> << <<1, 1>> >>
                  [] ct = 3 -> << <<1, 1>>, <<1, 1>>, <<1, 1>> >>
                  [] ct = 6 -> << <<2, 2>>, <<1, 1>>, <<1, 1>> >>

\* Which requested table (1 luma, 2 chroma) component c (0-based) uses.
ReqTable(c) == IF c = 0 THEN 1 ELSE 2

\* T.81 Figure A.6: ZigZag[k+1] is the natural (row-major) index of the k-th
\* coefficient in coding order.
ZigZag == << 0,  1,  8, 16,  9,  2,  3, 10,
            17, 24, 32, 25, 18, 11,  4,  5,
            12, 19, 26, 33, 40, 48, 41, 34,
            27, 20, 13,  6,  7, 14, 21, 28,
            35, 42, 49, 56, 57, 50, 43, 36,
            29, 22, 15, 23, 30, 37, 44, 51,
            58, 59, 52, 45, 38, 31, 39, 46,
            53, 60, 61, 54, 47, 55, 62, 63 >>

\* The table above is THE zig-zag sequence: a permutation that walks the
\* anti-diagonals in order, upwards on even ones and downwards on odd ones.
Row(n) == n \div 8
Col(n) == n % 8
ASSUME /\ Len(ZigZag) = 64
       /\ {ZigZag[k] : k \in 1..64} = 0..63
       /\ \A k \in 1..63 :
            LET a == ZigZag[k]  b == ZigZag[k + 1]
                da == Row(a) + Col(a)  db == Row(b) + Col(b) IN
            \/ /\ db = da                                   \* same anti-diagonal
               /\ IF da % 2 = 0 THEN Row(b) = Row(a) - 1 /\ Col(b) = Col(a) + 1
                                ELSE Row(b) = Row(a) + 1 /\ Col(b) = Col(a) - 1
            \/ /\ db = da + 1                               \* next one, from its end
               /\ IF da % 2 = 0 THEN (Row(a) = 0 \/ Col(a) = 7) ELSE (Col(a) = 0 \/ Row(a) = 7)
               /\ IF da % 2 = 0 THEN (IF Col(a) < 7 THEN Row(b) = 0 ELSE Col(b) = 7)
                                ELSE (IF Row(a) < 7 THEN Col(b) = 0 ELSE Row(b) = 7)

---------------------------------------------------------------------------
(* Well-formedness of one Huffman table specification (T.81 B.2.4.2,       *)
(* Annex C): counts[l] codes of length l, 1 <= l <= 16.                    *)
RECURSIVE SumSeq(_, _)
SumSeq(s, n) == IF n = 0 THEN 0 ELSE s[n] + SumSeq(s, n - 1)
RECURSIVE Pow2(_)
Pow2(n) == IF n = 0 THEN 1 ELSE 2 * Pow2(n - 1)
RECURSIVE Kraft(_, _)
\* sum of counts[l] * 2^(16-l)
Kraft(counts, l) == IF l = 0 THEN 0 ELSE counts[l] * Pow2(16 - l) + Kraft(counts, l - 1)

SymOK(tc, s) ==
    IF tc = 0 THEN s \in 0..11                        \* DC: the category
    ELSE LET r == s \div 16  z == s % 16 IN            \* AC: run/size
         IF z = 0 THEN r \in {0, 15} ELSE z \in 1..10

HuffOK(t) ==
    /\ t.tc \in {0, 1} /\ t.th \in {0, 1}              \* baseline: two tables of each class
    /\ Len(t.counts) = 16
    /\ \A l \in 1..16 : t.counts[l] \in 0..255
    /\ Len(t.syms) = SumSeq(t.counts, 16)
    /\ Len(t.syms) >= 1
    \* a prefix code in which the all-ones code word of each length is not used (Annex C)
    /\ Kraft(t.counts, 16) <= Pow2(16) - 1
    /\ \A i \in 1..Len(t.syms) : SymOK(t.tc, t.syms[i])
    /\ Cardinality({t.syms[i] : i \in 1..Len(t.syms)}) = Len(t.syms)

QuantTableOK(t) ==
    /\ t.pq = 0 /\ t.tq \in 0..3                       \* baseline: 8-bit factors
    /\ Len(t.v) = 64
    /\ \A k \in 1..64 : t.v[k] \in 1..255

\* The file's table (zig-zag order) is the requested table (natural order).
SameTable(fileZZ, reqNat) == \A k \in 1..64 : fileZZ[k] = reqNat[ZigZag[k] + 1]

---------------------------------------------------------------------------
VARIABLES t,       \* index of the trace
          i,       \* events consumed
          ph,      \* phase of the grammar
          dq,      \* quantisation tables defined so far: [0..3 -> <<>> or 64 values]
          dh,      \* set of <<tc, th>> defined so far
          fr,      \* the frame header event (k = "none" before it)
          nblk     \* blocks decoded so far

vars == <<t, i, ph, dq, dh, fr, nblk>>

Req == Traces[t].req
Ev  == Traces[t].ev

Init ==
    /\ t \in 1..Len(Traces)
    /\ i = 0 /\ ph = "start"
    /\ dq = [n \in 0..3 |-> <<>>] /\ dh = {} /\ fr = [k |-> "none"] /\ nblk = 0

BlocksPerMcu == Len(McuComps(Req.ct))
NComp == Len(Sampling(Req.ct))

Misc(e) == e.k \in {"APP", "COM"}

DqtOK(e) ==
    /\ Len(e.tables) >= 1
    /\ e.len = 2 + 65 * Len(e.tables)
    /\ \A n \in 1..Len(e.tables) : QuantTableOK(e.tables[n])
DqtApply(e) ==
    [n \in 0..3 |->
        LET S == {m \in 1..Len(e.tables) : e.tables[m].tq = n} IN
        IF S = {} THEN dq[n]
        ELSE e.tables[CHOOSE m \in S : \A m2 \in S : m2 <= m].v]      \* the last one wins

DhtOK(e) ==
    /\ Len(e.tables) >= 1
    /\ e.len = 2 + SumSeq([n \in 1..Len(e.tables) |-> 17 + Len(e.tables[n].syms)], Len(e.tables))
    /\ \A n \in 1..Len(e.tables) : HuffOK(e.tables[n])

Sof0OK(e) ==
    /\ e.p = 8
    /\ e.y = Req.h /\ e.x = Req.w
    /\ e.nf = NComp /\ Len(e.comps) = NComp
    /\ e.len = 8 + 3 * NComp
    /\ \A c \in 1..NComp :
          /\ e.comps[c].h = Sampling(Req.ct)[c][1]
          /\ e.comps[c].v = Sampling(Req.ct)[c][2]
          /\ e.comps[c].tq \in 0..3
          /\ e.comps[c].id \in 0..255
    /\ \A c1, c2 \in 1..NComp : c1 # c2 => e.comps[c1].id # e.comps[c2].id

SosOK(e) ==
    /\ fr.k = "SOF0"
    /\ e.ns = NComp /\ Len(e.comps) = NComp
    /\ e.len = 6 + 2 * NComp
    /\ e.ss = 0 /\ e.se = 63 /\ e.ah = 0 /\ e.al = 0
    /\ \A c \in 1..NComp :
          /\ e.comps[c].cs = fr.comps[c].id                 \* same components, same order
          /\ <<0, e.comps[c].td>> \in dh
          /\ <<1, e.comps[c].ta>> \in dh
          \* the table the component selects is defined and is the requested one
          /\ dq[fr.comps[c].tq] # <<>>
          /\ SameTable(dq[fr.comps[c].tq], Req.q[ReqTable(c - 1)])

\* one decoded block against the block that was passed in
BlkOK(e) ==
    /\ nblk < Units(Req.ct, Req.w, Req.h) * BlocksPerMcu
    /\ e.mcu = nblk \div BlocksPerMcu
    /\ e.comp = McuComps(Req.ct)[(nblk % BlocksPerMcu) + 1]
    /\ Len(e.zz) = 64 /\ Len(e.in) = 64
    /\ \A k \in 1..64 :
          LET n == ZigZag[k] + 1 IN
          Nearest(e.in[n], Req.q[ReqTable(e.comp)][n], e.zz[k])

\* many blocks summarised: the distinct <<coefficient, factor, decoded>> triples
\* of e.n consecutive blocks (paired by position by the harness)
TriOK(e) ==
    /\ e.n >= 0
    /\ nblk + e.n <= Units(Req.ct, Req.w, Req.h) * BlocksPerMcu
    /\ \A j \in 1..Len(e.triples) : Nearest(e.triples[j][1], e.triples[j][2], e.triples[j][3])

EcsEndOK(e) ==
    /\ nblk = Units(Req.ct, Req.w, Req.h) * BlocksPerMcu
    /\ e.mcus = Units(Req.ct, Req.w, Req.h)
    /\ e.pad \in 0..7 /\ e.padones
    /\ e.extra = 0

Step(e) ==
    CASE ph = "start" /\ e.k = "SOI" ->
            /\ ph' = "tables" /\ UNCHANGED <<dq, dh, fr, nblk>>
      [] ph \in {"tables", "frame"} /\ Misc(e) ->
            /\ UNCHANGED <<ph, dq, dh, fr, nblk>>
      [] ph \in {"tables", "frame"} /\ e.k = "DQT" /\ DqtOK(e) ->
            /\ dq' = DqtApply(e) /\ UNCHANGED <<ph, dh, fr, nblk>>
      [] ph \in {"tables", "frame"} /\ e.k = "DHT" /\ DhtOK(e) ->
            /\ dh' = dh \cup {<<e.tables[n].tc, e.tables[n].th>> : n \in 1..Len(e.tables)}
            /\ UNCHANGED <<ph, dq, fr, nblk>>
      [] ph = "tables" /\ e.k = "SOF0" /\ Sof0OK(e) ->
            /\ ph' = "frame" /\ fr' = e /\ UNCHANGED <<dq, dh, nblk>>
      [] ph = "frame" /\ e.k = "SOS" /\ SosOK(e) ->
            /\ ph' = "scan" /\ UNCHANGED <<dq, dh, fr, nblk>>
      [] ph = "scan" /\ e.k = "blk" /\ BlkOK(e) ->
            /\ nblk' = nblk + 1 /\ UNCHANGED <<ph, dq, dh, fr>>
      [] ph = "scan" /\ e.k = "tri" /\ TriOK(e) ->
            /\ nblk' = nblk + e.n /\ UNCHANGED <<ph, dq, dh, fr>>
      [] ph = "scan" /\ e.k = "ECSEND" /\ EcsEndOK(e) ->
            /\ ph' = "afterscan" /\ UNCHANGED <<dq, dh, fr, nblk>>
      [] ph = "afterscan" /\ e.k = "EOI" ->
            /\ ph' = "eoi" /\ UNCHANGED <<dq, dh, fr, nblk>>
      [] ph = "eoi" /\ e.k = "EOF" /\ e.trailing = 0 ->
            /\ ph' = "file-ok" /\ UNCHANGED <<dq, dh, fr, nblk>>
      [] ph = "file-ok" /\ e.k = "stdlib" /\ e.ok /\ e.w = Req.w /\ e.h = Req.h ->
            /\ ph' = "accepted" /\ UNCHANGED <<dq, dh, fr, nblk>>
      [] OTHER ->
            /\ ph' = "rejected" /\ UNCHANGED <<dq, dh, fr, nblk>>

Next ==
    /\ ph # "rejected"
    /\ i < Len(Ev)
    /\ i' = i + 1
    /\ Step(Ev[i + 1])
    /\ UNCHANGED t

Spec == Init /\ [][Next]_vars

\* The verdict: no event is rejected and a trace that has been read to its
\* end has been accepted.
NotRejected == ph # "rejected"
TraceAccepted == (i = Len(Ev)) => ph = "accepted"

=============================================================================

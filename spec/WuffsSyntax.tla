---------------------------- MODULE WuffsSyntax ----------------------------
(***************************************************************************)
(* C11 - a GENERATIVE model of Wuffs source text at token level.           *)
(*                                                                         *)
(* A state is a sentential form: a sequence of symbols, each a terminal    *)
(* (the spelling of one Wuffs token) or a non-terminal (a key of Prods).   *)
(* One derivation step (actions DeriveDecl / DeriveStmt / DeriveExpr /     *)
(* DeriveType) rewrites the LEFTMOST non-terminal by one of its            *)
(* productions.  A derivation is bounded by MaxTokens (pruned with the      *)
(* minimal yield MinLen of every non-terminal, itself computed by TLC).     *)
(*                                                                         *)
(* The grammar is "typed": there is one expression non-terminal per type   *)
(* of the fixed declaration context (Ctx below), so that a useful fraction *)
(* of the derived programs passes the type and bounds checker and reaches  *)
(* the C generator and the C compiler.  Ill-formed input comes from the    *)
(* DAMAGE actions:                                                         *)
(*   Void      an operand / sub-derivation is replaced by nothing          *)
(*   Splice    a sub-derivation of a DIFFERENT non-terminal is put in      *)
(*   Nest      a construct is nested N deep, N from NestDepths (at, just   *)
(*             below and beyond the documented limits 63 / 255); written   *)
(*             as pseudo tokens "@open:k:N" ... "@close:k:N" whose meaning *)
(*             is Unfold below (the harness expands them the same way)     *)
(*   Drop / Dup / Swap     one token removed, doubled, swapped with next   *)
(*   Unbalance a bracket token inserted at an arbitrary position           *)
(* In Mode = "adjacency" the initial states are ALL k-tuples over the      *)
(* token alphabet (every pair / triple adjacency), embedded in a context.  *)
(*                                                                         *)
(* Export: the invariant Export prints every finished token sequence       *)
(* (context prefix + derived part + context suffix) as one JSON line;      *)
(* harness/cmd/toolreplay renders it to source text and feeds it to the    *)
(* real tokenizer, parser, checker, formatter and C generator.  What the   *)
(* real stages may answer is specified in ToolPipeline.tla.                *)
(***************************************************************************)
EXTENDS Integers, Sequences, FiniteSets, TLC, TLCExt, Json

CONSTANTS
    Mode,        \* "derive" | "adjacency"
    Start,       \* start non-terminal ("Stmt", "Stmts", "File", "Decl", "EU32", "Type", ...)
    Ctx,         \* context name: "bodyq" | "bodye" | "bodyp" | "bodyr" | "top" | "decls" | "const" | "field" | "var" | ...
    MaxTokens,   \* bound on the length of the derived part (pseudo tokens count 1)
    MinTokens,   \* the outermost lists (Body, File) do not end before the form has this many symbols
    MaxDamage,   \* number of damage steps allowed per behaviour
    DamageKinds, \* subset of {"void","splice","nest","drop","dup","swap","unbalance"}
    NestDepths,  \* depths N for the Nest action
    AdjK,        \* adjacency mode: tuple length
    AdjAlphabet, \* adjacency mode: "full" | "core"
    Label        \* provenance label carried into the export

VARIABLES form,  \* the sentential form / finished token sequence (derived part only)
          phase, \* "derive" while non-terminals remain, then "done"
          dmg    \* sequence of strings: the damage steps applied so far

vars == <<form, phase, dmg>>

---------------------------------------------------------------------------
(* Helpers.                                                                *)

Min2(a, b) == IF a < b THEN a ELSE b
Big == 1000000

RECURSIVE Cat(_)
Cat(ss) == IF ss = <<>> THEN <<>> ELSE Head(ss) \o Cat(Tail(ss))

RECURSIVE Rep(_, _)
Rep(s, n) == IF n = 0 THEN <<>> ELSE s \o Rep(s, n - 1)

BaseT(n) == <<"base", ".", n>>

---------------------------------------------------------------------------
(* The grammar.  Non-terminals are exactly DOMAIN Prods.                   *)

NumLits == {"0", "7", "0xFF", "0b101", "4294967296"}
NumTypes == {"u8", "u16", "u32", "u64", "i8", "i16", "i32", "i64"}
BinU == {"+", "-", "*", "/", "%", "<<", ">>", "&", "|", "^",
         "~mod+", "~mod-", "~mod*", "~mod<<", "~sat+", "~sat-"}
AssocU == {"+", "*", "&", "|", "^"}
OpEqs == {"+=", "-=", "*=", "/=", "%=", "<<=", ">>=", "&=", "|=", "^=",
          "~mod+=", "~mod-=", "~mod*=", "~mod<<=", "~sat+=", "~sat-="}
Cmps == {"==", "<>", "<", "<=", ">", ">="}
ItNs == {"1", "2", "256", "0", "257"}
ViaAxiom == "\"a < b: a < c; c <= b\""

IterHead(lbl) ==
    <<"iterate">> \o lbl \o <<"(", "p", "=", "ESlice", ")",
      "(", "length", ":", "ItN", ",", "advance", ":", "ItN", ",", "unroll", ":", "ItN", ")">>

Prods == [
  \* ------------------------------------------------------------ statements
  Body  |-> { <<>>, <<"Stmt", ";", "Body">> },          \* the outermost statement list of a function body
  Stmts |-> { <<>>, <<"Stmt", ";", "Stmts">> },
  Block |-> { <<"{", "Stmts", "}">> },
  Stmt |-> {
      <<"LU32", "=", "EU32">>,
      <<"LU32", "OpEq", "OU32">>,
      <<"x", "=", "this", ".", "g", "!", "(", "n", ":", "EU32", ")">>,
      <<"x", "=", "args", ".", "src", ".", "read_u32le", "?", "(", ")">>,
      <<"c", "=", "EU8">>,
      <<"c", "OpEq", "OU8">>,
      <<"c", "=", "args", ".", "src", ".", "read_u8", "?", "(", ")">>,
      <<"args", ".", "dst", ".", "write_u8", "?", "(", "a", ":", "EU8", ")">>,
      <<"this", ".", "a", "[", "i", "]", "=", "EU8">>,
      <<"t", "=", "EBool">>,
      <<"this", ".", "b", "=", "EBool">>,
      <<"i", "=", "OU32", "&", "7">>,
      <<"i", "=", "EU32">>,
      <<"s", "=", "ESlice">>,
      <<"z", "=", "EStatus">>,
      <<"z", "=?", "this", ".", "h", "?", "(", "src", ":", "args", ".", "src", ")">>,
      <<"this", ".", "k", "!", "(", "n", ":", "EU32", ")">>,
      <<"this", ".", "h", "?", "(", "src", ":", "args", ".", "src", ")">>,
      <<"if", "EBool", "Block", "ElsePart">>,
      <<"if", ".", "likely", "EBool", "Block">>,
      <<"if", ".", "unlikely", "EBool", "Block", "ElsePart">>,
      <<"while", "EBool", "LoopAsserts", "Block">>,
      <<"while", ".", "lbl", "EBool", "LoopAsserts", "Block", ".", "lbl">>,
      <<"while", "true", "{{", "Stmts", "break", ";", "}}">>,
      <<"while", ".", "lbl", "true", "LoopAsserts", "{{", "Stmts", "break", ".", "lbl", ";", "}}", ".", "lbl">>,
      <<"break">>, <<"continue">>, <<"break", ".", "lbl">>, <<"continue", ".", "lbl">>,
      <<"return", "RetVal">>,
      <<"yield", "?", "YieldVal">>,
      <<"assert", "EBool">>,
      <<"assert", "EBool", "via", ViaAxiom, "(", "c", ":", "EU32", ")">>,
      <<"assert", "OU32", "<", "OU32", "via", ViaAxiom, "(", "c", ":", "OU32", ")">>,
      IterHead(<<>>) \o <<"Block">>,
      IterHead(<<".", "lbl">>) \o <<"Block">>,
      IterHead(<<>>) \o <<"Block", "else", "(", "length", ":", "ItN", ",", "advance", ":", "ItN", ",", "unroll", ":", "ItN", ")", "Block">>,
      <<"io_limit", "(", "io", ":", "args", ".", "src", ",", "limit", ":", "EU64", ")", "Block">>,
      <<"io_bind", "(", "io", ":", "r", ",", "data", ":", "ESlice", ",", "history_position", ":", "EU64", ")", "Block">>,
      <<"io_bind", "(", "io", ":", "args", ".", "src", ",", "data", ":", "ESlice", ",", "history_position", ":", "EU64", ")", "Block">>,
      <<"io_forget_history", "(", "io", ":", "args", ".", "dst", ")", "Block">>,
      <<"choose", "k", "=", "[", "k2", "]">>,
      <<"choose", "k", "=", "[", "k2", ",", "k", ",", "]">>,
      <<"var", "v", ":", "Type">>
  },
  ElsePart |-> { <<>>, <<"else", "Block">>, <<"else", "if", "EBool", "Block", "ElsePart">> },
  LoopAsserts |-> { <<>>, <<",", "inv", "EBool">>, <<",", "inv", "EBool", ",">>,
                    <<",", "pre", "EBool", ",", "inv", "EBool", ",", "post", "EBool">>,
                    <<",", "post", "EBool", ",", "inv", "EBool">> },
  OpEq |-> { <<o>> : o \in OpEqs },
  ItN  |-> { <<n>> : n \in ItNs },
  LU32 |-> { <<"x">>, <<"y">>, <<"this", ".", "m">>, <<"this", ".", "w">>, <<"args", ".", "n">> },
  RetVal |-> { <<"ok">>, <<"\"#bad\"">>, <<"z">>, <<"EU32">>, <<"base", ".", "\"#bad data\"">>, <<"\"$wait\"">> },
  YieldVal |-> { <<"\"$wait\"">>, <<"base", ".", "\"$short read\"">>, <<"z">>, <<"\"#bad\"">> },
  \* ----------------------------------------------------------- expressions
  \* (no operator precedence in Wuffs: "a op b", "a op a op a" for the
  \*  associative ones, anything else needs parentheses)
  EU32 |-> { <<"OU32">>, <<"OU32", "BinOp", "OU32">>, <<"OU8", "as", "base", ".", "u32">>,
             <<"EU64P", "as", "base", ".", "u32">> }
           \cup { <<"OU32", o, "OU32", o, "OU32">> : o \in AssocU },
  OU32 |-> { <<"x">>, <<"y">>, <<"K">>, <<"Num">>, <<"this", ".", "m">>, <<"this", ".", "w">>, <<"i">>,
             <<"(", "EU32", ")">>, <<"this", ".", "p", "(", "n", ":", "EU32", ")">>,
             <<"x", ".", "min", "(", "no_more_than", ":", "OU32", ")">>,
             <<"+", "Num">>, <<"args", ".", "v">> },
  BinOp |-> { <<o>> : o \in BinU },
  Num  |-> { <<n>> : n \in NumLits },
  EU8  |-> { <<"OU8">>, <<"OU8", "BinOp", "OU8">>, <<"(", "EU32", "&", "0xFF", ")", "as", "base", ".", "u8">> },
  OU8  |-> { <<"c">>, <<"200">>, <<"this", ".", "a", "[", "i", "]">>, <<"T", "[", "i", "&", "3", "]">>,
             <<"s", "[", "EU32", "]">>, <<"args", ".", "src", ".", "peek_u8", "(", ")">>, <<"(", "EU8", ")">> },
  EU64 |-> { <<"Num">>, <<"Num", "as", "base", ".", "u64">>, <<"s", ".", "length", "(", ")">>,
             <<"OU32", "as", "base", ".", "u64">>, <<"EU64P">> },
  EU64P |-> { <<"(", "r", ".", "length", "(", ")", "&", "0xFF", ")">>,
              <<"(", "s", ".", "length", "(", ")", "&", "Num", ")">> },
  EBool |-> { <<"OBool">>, <<"not", "OBool">>, <<"OU32", "Cmp", "OU32">>, <<"OU8", "Cmp", "OU8">>,
              <<"OBool", "and", "OBool">>, <<"OBool", "or", "OBool">>,
              <<"OBool", "and", "OBool", "and", "OBool">>, <<"OBool", "or", "OBool", "or", "OBool">>,
              <<"EStatus", "==", "EStatus">> },
  OBool |-> { <<"t">>, <<"true">>, <<"false">>, <<"this", ".", "b">>, <<"(", "EBool", ")">>,
              <<"z", ".", "is_ok", "(", ")">>, <<"z", ".", "is_error", "(", ")">> },
  Cmp  |-> { <<o>> : o \in Cmps },
  ESlice |-> { <<"s">>, <<"p">>, <<"this", ".", "a", "[", "..", "]">>, <<"this", ".", "a", "[", "..", "i", "]">>,
               <<"this", ".", "a", "[", "i", "..", "]">>, <<"s", "[", "EU64", "..", "EU64", "]">>,
               <<"this", ".", "big", "[", "..", "]">>, <<"args", ".", "q">>,
               <<"this", ".", "util", ".", "empty_slice_u8", "(", ")">> },
  EStatus |-> { <<"ok">>, <<"z">>, <<"\"#bad\"">>, <<"base", ".", "\"#bad data\"">>, <<"base", ".", "\"$short read\"">> },
  \* ------------------------------------------------------------------ types
  Type |-> { <<"base", ".", "NumT">>, <<"base", ".", "NumT", "[", "..=", "Num", "]">>,
             <<"base", ".", "NumT", "[", "Num", "..=", "Num", "]">>, <<"base", ".", "NumT", "[", "Num", "..=", "]">>,
             <<"base", ".", "bool">>, <<"base", ".", "status">>, <<"base", ".", "io_reader">>,
             <<"array", "[", "Num", "]", "Type">>, <<"slice", "Type">>, <<"roslice", "Type">>,
             <<"table", "Type">>, <<"roarray", "[", "Num", "]", "Type">>, <<"ptr", "foo">>, <<"nptr", "foo">>,
             <<"foo">>, <<"bar">>, <<"baz">>, <<"base", ".", "range_ii_u32">> },
  NumT |-> { <<n>> : n \in NumTypes },
  \* struct-typed fields: references to the structs of the context through type decorators (the order of the C struct
  \* definitions and the cycle check both come from one topological sort over by-value fields)
  SType |-> { <<"SBase">>, <<"SDec">>, <<"array", "[", "ANum", "]", "SType">>, <<"roarray", "[", "ANum", "]", "SType">> },
  SBase |-> { <<"foo">>, <<"bar">>, <<"baz">> },
  SDec  |-> { <<"ptr", "SBase">>, <<"nptr", "SBase">>, <<"slice", "SBase">>, <<"table", "SBase">> },
  ANum |-> { <<"2">>, <<"0">>, <<"256">> },
  \* ----------------------------------------------------------- declarations
  File |-> { <<>>, <<"Decl", ";", "File">> },
  Decl |-> {
      <<"use", "UsePath">>,
      <<"Vis", "const", "CName", ":", "Type", "=", "ConstVal">>,
      <<"Vis", "status", "StatusLit">>,
      <<"Vis", "struct", "SName", "Classy", "Impl", "(", "Fields", ")", "Extra">>,
      <<"Vis", "func", "FName", "Effect", "(", "Fields", ")", "OutType", "FuncAsserts", "FBody">>
  },
  Vis |-> { <<"pub">>, <<"pri">> },
  UsePath |-> { <<"\"std/crc32\"">>, <<"\"std/adler32\"">>, <<"\"std/nonesuch\"">>, <<"\"\"">> },
  CName |-> { <<"K">>, <<"KK">>, <<"k">> },
  ConstVal |-> { <<"Num">>, <<"-", "Num">>, <<"[", "ConstList", "]">>, <<"Num", "BinOp", "Num">>,
                 <<"(", "Num", "BinOp", "Num", ")", "BinOp", "Num">>, <<"true">>, <<"K">> },
  ConstList |-> { <<>>, <<"ConstVal">>, <<"ConstVal", ",", "ConstList">> },
  StatusLit |-> { <<"\"#bad\"">>, <<"\"$wait\"">>, <<"\"@note\"">>, <<"\"plain\"">>, <<"\"#\"">> },
  SName |-> { <<"foo">>, <<"bar">> },
  Classy |-> { <<>>, <<"?">> },
  Impl |-> { <<>>, <<"implements", "base", ".", "hasher_u32">>,
             <<"implements", "base", ".", "hasher_u32", ",", "base", ".", "io_transformer">>,
             <<"implements", "bar">> },
  Fields |-> { <<>>, <<"Field">>, <<"Field", ",", "Fields">> },
  Field |-> { <<"FId", ":", "Type">> },
  FId |-> { <<"m">>, <<"n">>, <<"a">>, <<"x">> },
  Extra |-> { <<>>, <<"+", "(", "Fields", ")">> },
  FName |-> { <<"foo", ".", "f">>, <<"foo", ".", "g">>, <<"bar", ".", "f">>, <<"f">>,
              <<"foo", ".", "update_u32">>, <<"foo", ".", "reset">> },
  Effect |-> { <<>>, <<"!">>, <<"?">> },
  OutType |-> { <<>>, <<"Type">> },
  FuncAsserts |-> { <<>>, <<",", "choosy", ",">>, <<",", "pre", "EBool", ",">>,
                    <<",", "choose", "cpu_arch", ">=", "x86_sse42", ",">>, <<",", "post", "EBool", ",", "pre", "EBool">> },
  FBody |-> { <<"{", "VarDecls", "Stmts", "}">> },
  VarDecls |-> { <<>>, <<"var", "LVar", ":", "Type", ";", "VarDecls">> },
  LVar |-> { <<"x">>, <<"y">>, <<"c">>, <<"t">>, <<"s">>, <<"z">>, <<"i">> }
]

NT == DOMAIN Prods
IsNT(sym) == sym \in NT

DeclNT == {"File", "Decl", "Vis", "UsePath", "CName", "ConstVal", "ConstList", "StatusLit", "SName", "Classy",
           "Impl", "Fields", "Field", "FId", "Extra", "FName", "Effect", "OutType", "FuncAsserts", "FBody",
           "VarDecls", "LVar"}
StmtNT == {"Body", "Stmts", "Block", "Stmt", "ElsePart", "LoopAsserts", "OpEq", "ItN", "LU32", "RetVal", "YieldVal"}
TypeNT == {"Type", "NumT", "SType", "SBase", "SDec", "ANum"}
ExprNT == NT \ (DeclNT \cup StmtNT \cup TypeNT)

ASSUME DeclNT \cup StmtNT \cup TypeNT \subseteq NT

\* Every symbol of every right-hand side is a terminal (a STRING); nothing to
\* check.  MinLen[nt] = length of the shortest terminal yield of nt, computed
\* as a fixpoint.
SumLen(rhs, m) ==
    LET RECURSIVE S(_)
        S(k) == IF k > Len(rhs) THEN 0
                ELSE Min2(Big, (IF IsNT(rhs[k]) THEN m[rhs[k]] ELSE 1) + S(k + 1))
    IN S(1)

SetMin(T) == CHOOSE v \in T : \A w \in T : v <= w

\* MinLen is written out (TLC's functions and operator arguments are lazy: an
\* iterated fixpoint computation inside TLC costs 20 s per run) and CHECKED:
\* it must be a fixpoint of one step of the shortest-yield equations.
MinStep(m) == [nt \in NT |-> SetMin({ SumLen(rhs, m) : rhs \in Prods[nt] })]

MinLen == [
     Stmt |-> 1, Body |-> 0, Stmts |-> 0, Block |-> 2, ElsePart |-> 0, LoopAsserts |-> 0, OpEq |-> 1, ItN |-> 1,
     LU32 |-> 1, RetVal |-> 1, YieldVal |-> 1, EU32 |-> 1, OU32 |-> 1, BinOp |-> 1, Num |-> 1, EU8 |-> 1,
     OU8 |-> 1, EU64 |-> 1, EU64P |-> 9, EBool |-> 1, OBool |-> 1, Cmp |-> 1, ESlice |-> 1, EStatus |-> 1,
     Type |-> 1, NumT |-> 1, SType |-> 1, SBase |-> 1, SDec |-> 2, ANum |-> 1, File |-> 0, Decl |-> 2, Vis |-> 1, UsePath |-> 1, CName |-> 1, ConstVal |-> 1,
     ConstList |-> 0, StatusLit |-> 1, SName |-> 1, Classy |-> 0, Impl |-> 0, Fields |-> 0, Field |-> 3,
     FId |-> 1, Extra |-> 0, FName |-> 1, Effect |-> 0, OutType |-> 0, FuncAsserts |-> 0, FBody |-> 2,
     VarDecls |-> 0, LVar |-> 1 ]

ASSUME DOMAIN MinLen = NT
ASSUME \A nt \in NT : MinStep(MinLen)[nt] = MinLen[nt]
ASSUME \A nt \in NT : MinLen[nt] < Big      \* every non-terminal is productive

FormMin(f) == SumLen(f, MinLen)

---------------------------------------------------------------------------
(* Nesting: kind |-> what is repeated around (or after) which core.  For   *)
(* the depths far beyond every limit (n >= DeepFrom) the core is the fixed   *)
(* closed sequence `core`, so that there is one such source per kind.        *)

NestKinds == [
  paren  |-> [core |-> <<"1">>, nts |-> {"OU32", "OBool", "OU8"}, open |-> <<"(">>, close |-> <<")">>],
  not    |-> [core |-> <<"t">>, nts |-> {"OBool"}, open |-> <<"not">>, close |-> <<>>],
  neg    |-> [core |-> <<"1">>, nts |-> {"OU32", "ConstVal"}, open |-> <<"-">>, close |-> <<>>],
  index  |-> [core |-> <<"0">>, nts |-> {"OU8"}, open |-> <<"T", "[">>, close |-> <<"]">>],
  call   |-> [core |-> <<"x">>, nts |-> {"OU32"}, open |-> <<"this", ".", "p", "(", "n", ":">>, close |-> <<")">>],
  binr   |-> [core |-> <<"1">>, nts |-> {"OU32"}, open |-> <<"(", "1", "~mod+">>, close |-> <<")">>],
  andr   |-> [core |-> <<"t">>, nts |-> {"OBool"}, open |-> <<"(", "t", "and">>, close |-> <<")">>],
  dots   |-> [core |-> <<"this">>, nts |-> {"OU32", "LU32"}, open |-> <<>>, close |-> <<".", "m">>],
  calls  |-> [core |-> <<"x">>, nts |-> {"OU32"}, open |-> <<>>, close |-> <<"(", ")">>],
  idxs   |-> [core |-> <<"T">>, nts |-> {"OU8", "OU32"}, open |-> <<>>, close |-> <<"[", "0", "]">>],
  slices |-> [core |-> <<"s">>, nts |-> {"ESlice"}, open |-> <<>>, close |-> <<"[", "..", "]">>],
  assoc  |-> [core |-> <<"1">>, nts |-> {"OU32"}, open |-> <<"1", "+">>, close |-> <<>>],
  ifb    |-> [core |-> <<"break">>, nts |-> {"Stmt"}, open |-> <<"if", "t", "{">>, close |-> <<";", "}">>],
  whileb |-> [core |-> <<"break">>, nts |-> {"Stmt"}, open |-> <<"while", "t", "{">>, close |-> <<";", "}">>],
  iterb  |-> [core |-> <<"break">>, nts |-> {"Stmt"},
              open |-> <<"iterate", "(", "p", "=", "s", ")", "(", "length", ":", "1", ",", "advance", ":", "1", ",", "unroll", ":", "1", ")", "{">>,
              close |-> <<";", "}">>],
  elif   |-> [core |-> <<>>, nts |-> {"ElsePart"}, open |-> <<"else", "if", "t", "{", "}">>, close |-> <<>>],
  iolim  |-> [core |-> <<"break">>, nts |-> {"Stmt"}, open |-> <<"io_limit", "(", "io", ":", "args", ".", "src", ",", "limit", ":", "0", ")", "{">>,
              close |-> <<";", "}">>],
  stmts  |-> [core |-> <<"break">>, nts |-> {"Stmt"}, open |-> <<"x", "=", "y", ";">>, close |-> <<>>],
  ptr    |-> [core |-> <<"foo">>, nts |-> {"Type"}, open |-> <<"ptr">>, close |-> <<>>],
  slice  |-> [core |-> <<"foo">>, nts |-> {"Type"}, open |-> <<"slice">>, close |-> <<>>],
  array  |-> [core |-> <<"foo">>, nts |-> {"Type"}, open |-> <<"array", "[", "2", "]">>, close |-> <<>>],
  list   |-> [core |-> <<"1">>, nts |-> {"ConstVal"}, open |-> <<"[">>, close |-> <<"]">>],
  fields |-> [core |-> <<>>, nts |-> {"Fields"}, open |-> <<"m", ":", "base", ".", "u8", ",">>, close |-> <<>>],
  decls  |-> [core |-> <<"pri", "status", "\"#bad\"">>, nts |-> {"Decl"}, open |-> <<"pri", "status", "\"#bad\"", ";">>, close |-> <<>>]
]

NestNames == DOMAIN NestKinds
DeepFrom == 100000

\* The meaning of a pseudo token (never evaluated by TLC for the large N; the
\* harness implements exactly this).
Unfold(kind, side, n) == Rep(IF side = "open" THEN NestKinds[kind].open ELSE NestKinds[kind].close, n)

NestTok(side, kind, n) == "@" \o side \o ":" \o kind \o ":" \o ToString(n)

---------------------------------------------------------------------------
(* The fixed contexts (all of them accepted by the unchanged tool chain    *)
(* with an empty derived part: see checks/C11.py self-test).               *)

CtxDecls ==
    <<"pub", "status", "\"#bad\"", ";", "pub", "status", "\"$wait\"", ";",
      "pri", "const", "K", ":", "base", ".", "u32", "=", "5", ";",
      "pri", "const", "T", ":", "roarray", "[", "4", "]", "base", ".", "u8", "=", "[", "1", ",", "2", ",", "3", ",", "4", "]", ";",
      "pub", "struct", "foo", "?", "(",
          "m", ":", "base", ".", "u32", ",", "b", ":", "base", ".", "bool", ",",
          "a", ":", "array", "[", "8", "]", "base", ".", "u8", ",",
          "w", ":", "base", ".", "u32", "[", "..=", "7", "]", ",",
          "util", ":", "base", ".", "utility", ",", ")",
          "+", "(", "big", ":", "array", "[", "64", "]", "base", ".", "u8", ",", ")", ";",
      "pri", "func", "foo", ".", "g", "!", "(", "n", ":", "base", ".", "u32", ")", "base", ".", "u32", "{",
          "return", "args", ".", "n", ";", "}", ";",
      "pri", "func", "foo", ".", "p", "(", "n", ":", "base", ".", "u32", ")", "base", ".", "u32", "{",
          "return", "args", ".", "n", "&", "0xFF", ";", "}", ";",
      "pri", "func", "foo", ".", "h", "?", "(", "src", ":", "base", ".", "io_reader", ")", "{",
          "var", "c", ":", "base", ".", "u8", ";",
          "c", "=", "args", ".", "src", ".", "read_u8", "?", "(", ")", ";", "}", ";",
      "pri", "func", "foo", ".", "k", "!", "(", "n", ":", "base", ".", "u32", ")", ",", "choosy", ",", "{", "}", ";",
      "pri", "func", "foo", ".", "k2", "!", "(", "n", ":", "base", ".", "u32", ")", "{", "}", ";">>

CtxVars ==
    <<"var", "x", ":", "base", ".", "u32", ";", "var", "y", ":", "base", ".", "u32", ";",
      "var", "c", ":", "base", ".", "u8", ";", "var", "t", ":", "base", ".", "bool", ";",
      "var", "s", ":", "slice", "base", ".", "u8", ";", "var", "z", ":", "base", ".", "status", ";",
      "var", "i", ":", "base", ".", "u32", "[", "..=", "7", "]", ";",
      "var", "r", ":", "base", ".", "io_reader", ";", "var", "p", ":", "slice", "base", ".", "u8", ";">>

BodyE == CtxDecls \o <<"pub", "func", "foo", ".", "e", "!", "(", "v", ":", "base", ".", "u32", "[", "..=", "2", "]", ",",
                         "q", ":", "slice", "base", ".", "u8", ")", "{">> \o CtxVars

Prefix ==
    CASE Ctx = "bodyq" -> CtxDecls \o <<"pub", "func", "foo", ".", "f", "?", "(", "dst", ":", "base", ".", "io_writer", ",",
                                        "src", ":", "base", ".", "io_reader", ")", "{">> \o CtxVars
      [] Ctx = "bodye" -> BodyE
      [] Ctx = "bodyp" -> CtxDecls \o <<"pri", "func", "foo", ".", "q", "(", "n", ":", "base", ".", "u32", ")", "base", ".", "u32", "{">> \o CtxVars
      [] Ctx = "bodyr" -> CtxDecls \o <<"pub", "func", "foo", ".", "r", "!", "(", "v", ":", "base", ".", "u32", "[", "..=", "2", "]", ")", "base", ".", "u32", "{">> \o CtxVars
      [] Ctx = "xu32"  -> BodyE \o <<"x", "=">>
      [] Ctx = "tbool" -> BodyE \o <<"t", "=">>
      [] Ctx = "cu8"   -> BodyE \o <<"c", "=">>
      [] Ctx = "sslice" -> BodyE \o <<"s", "=">>
      [] Ctx = "lhs"   -> BodyE
      [] Ctx = "else"  -> BodyE \o <<"if", "t", "{", "}">>
      [] Ctx = "struct" -> <<"pri", "struct", "bar", "(">>
      [] Ctx = "top"   -> <<>>
      [] Ctx = "decls" -> CtxDecls
      [] Ctx = "const" -> <<"pri", "const", "KK", ":", "base", ".", "u32", "=">>
      [] Ctx = "field" -> <<"pri", "struct", "bar", "(", "f", ":">>
      \* a field of a classy struct, with the context's declarations (so that the struct type foo exists), in
      \* the first and in the "+" section
      [] Ctx = "fieldq" -> CtxDecls \o <<"pub", "struct", "bar", "?", "(", "f", ":">>
      [] Ctx = "fieldx" -> CtxDecls \o <<"pub", "struct", "bar", "?", "(", "m", ":", "base", ".", "u32", ",", ")", "+", "(", "f", ":">>
      \* ... and a "+" field of struct bar that may name bar itself (a cycle) or baz, a struct declared LATER in the file
      [] Ctx = "fieldfwd" -> CtxDecls \o <<"pub", "struct", "bar", "?", "(", "m", ":", "base", ".", "u32", ",", ")", "+", "(", "f", ":">>
      [] Ctx = "var"   -> <<"pri", "func", "f", "(", ")", "{", "var", "v", ":">>
      \* inside the inner loop of the SECOND of two sequential loops that share the label lbl (the first one has a
      \* deep break): jumps derived here meet a label that was already used in this function
      [] Ctx = "inloop2" -> BodyE \o <<"while", ".", "lbl", "true", "{", "while", "true", "{", "break", ".", "lbl", ";", "}", ";", "}", ".", "lbl", ";",
                                       "while", ".", "lbl", "x", "<", "y", "{", "while", "t", "{">>

Suffix ==
    CASE Ctx \in {"bodyq", "bodye"} -> <<"}", ";">>
      [] Ctx \in {"bodyp", "bodyr"} -> <<"return", "x", ";", "}", ";">>
      [] Ctx \in {"xu32", "tbool", "cu8", "sslice", "else"} -> <<";", "}", ";">>
      [] Ctx = "lhs" -> <<"=", "1", ";", "}", ";">>
      [] Ctx = "struct" -> <<")", ";">>
      [] Ctx \in {"top", "decls"} -> <<>>
      [] Ctx = "const" -> <<";">>
      [] Ctx \in {"field", "fieldq", "fieldx"} -> <<",", ")", ";">>
      [] Ctx = "fieldfwd" -> <<",", ")", ";", "pub", "struct", "baz", "?", "(", "q", ":", "base", ".", "u32", ",", ")", ";">>
      [] Ctx = "var"   -> <<";", "}", ";">>
      [] Ctx = "inloop2" -> <<";", "}", ";", "}", ".", "lbl", ";", "}", ";">>

\* In a body context the derived part is a statement list: a derived single
\* statement gets its terminating ";".
Glue == IF Ctx \in {"bodyq", "bodye", "bodyp", "bodyr"} /\ Start = "Stmt" THEN <<";">> ELSE <<>>   \* ("inloop2": the suffix starts with ";")

Tokens(f) == Prefix \o f \o Glue \o Suffix

---------------------------------------------------------------------------
(* Token alphabet of the adjacency mode: every built-in squiggle, operator *)
(* and keyword, plus one representative per open class.                    *)

Squiggles == {";", ".", "..", "..=", ",", "!", "?", ":", "(", "[", "{", "{{", ")", "]", "}", "}}"}
Assigns == OpEqs \cup {"=", "=?"}
Operators == BinU \cup Cmps \cup {"and", "or", "as", "not"}
Keywords == {"assert", "break", "choose", "choosy", "const", "continue", "else", "func", "io_bind",
             "io_forget_history", "io_limit", "if", "implements", "inv", "iterate", "post", "pre",
             "pri", "pub", "return", "struct", "use", "var", "via", "while", "yield"}
TypeMods == {"array", "nptr", "ptr", "roarray", "roslice", "rotable", "slice", "table"}
Representatives == {"x", "1", "0xFF", "\"#bad\"", "'a'", "true", "ok", "nullptr", "args", "this", "base", "u32",
                    "io", "length", "foo", "lbl", "coroutine_resumed", "cpu_arch"}
FullAlphabet == Squiggles \cup Assigns \cup Operators \cup Keywords \cup TypeMods \cup Representatives
CoreAlphabet == {";", ".", "..", ",", "!", "?", ":", "(", "[", "{", ")", "]", "}", "=", "+", "-", "as", "not",
                 "if", "while", "iterate", "return", "var", "x", "1", "\"#bad\"", "this", "array", "else", "{{", "}}"}
Alphabet == IF AdjAlphabet = "full" THEN FullAlphabet ELSE CoreAlphabet

---------------------------------------------------------------------------
(* Behaviours.                                                             *)

Init ==
    /\ dmg = <<>>
    /\ IF Mode = "adjacency"
       THEN /\ form \in [1..AdjK -> Alphabet]
            /\ phase = "done"
       ELSE /\ form = <<Start>>
            /\ phase = "derive"

HasNT(f) == \E k \in 1..Len(f) : IsNT(f[k])
LeftNT(f) == CHOOSE k \in 1..Len(f) : IsNT(f[k]) /\ \A j \in 1..(k - 1) : ~IsNT(f[j])

Rewrite(f, k, rhs) == SubSeq(f, 1, k - 1) \o rhs \o SubSeq(f, k + 1, Len(f))

Finish(f) == IF HasNT(f) THEN "derive" ELSE "done"

\* One derivation step at the leftmost non-terminal nt = form[k]; `rest` is the
\* minimal yield of everything but nt (computed once per state in Next).
Derive(class, k, nt, rest) ==
    /\ nt \in class
    /\ \E rhs \in Prods[nt] :
         /\ rest + SumLen(rhs, MinLen) <= MaxTokens
         /\ (rhs = <<>> /\ nt \in {"Body", "File"}) => Len(form) > MinTokens
         /\ form' = Rewrite(form, k, rhs)
         /\ phase' = Finish(form')
    /\ UNCHANGED dmg

DeriveDecl(k, nt, rest) == Derive(DeclNT, k, nt, rest)
DeriveStmt(k, nt, rest) == Derive(StmtNT, k, nt, rest)
DeriveExpr(k, nt, rest) == Derive(ExprNT, k, nt, rest)
DeriveType(k, nt, rest) == Derive(TypeNT, k, nt, rest)

CanDamage(kind) == kind \in DamageKinds /\ Len(dmg) < MaxDamage

\* Replace an operand (or any sub-derivation) by nothing.
VoidNT == {"OU32", "OBool", "OU8", "EU32", "EBool", "EU8", "EU64", "ESlice", "EStatus", "Type", "Block", "Num",
           "LU32", "RetVal", "ItN", "Fields", "ConstVal", "FBody", "FName", "Cmp", "BinOp", "OpEq"}
Void(k, nt, rest) ==
    /\ CanDamage("void")
    /\ nt \in VoidNT
    /\ form' = Rewrite(form, k, <<>>)
    /\ phase' = Finish(form')
    /\ dmg' = Append(dmg, "void " \o nt)

\* Put a sub-derivation of a different non-terminal in.
SpliceNT == {"EU32", "EBool", "EU8", "ESlice", "EStatus", "EU64", "Type", "Stmt", "Block", "Decl", "Field", "ConstVal",
             "LoopAsserts", "FuncAsserts", "Stmts", "File"}
Splice(k, nt, rest) ==
    /\ CanDamage("splice")
    /\ nt \in SpliceNT
    /\ \E other \in SpliceNT \ {nt} :
         /\ rest + MinLen[other] <= MaxTokens
         /\ form' = Rewrite(form, k, <<other>>)
         /\ phase' = "derive"
         /\ dmg' = Append(dmg, "splice " \o nt \o "<-" \o other)

\* Nest N deep.  The core is the non-terminal itself (derived afterwards).
Nest(k, nt, rest) ==
    /\ CanDamage("nest")
    /\ \E kind \in NestNames, n \in NestDepths :
         /\ nt \in NestKinds[kind].nts
         /\ LET core == IF n >= DeepFrom THEN NestKinds[kind].core
                        ELSE IF nt \in {"ElsePart", "Fields"} THEN <<>> ELSE <<nt>>
            IN /\ rest + 2 + SumLen(core, MinLen) <= MaxTokens
               /\ form' = Rewrite(form, k, <<NestTok("open", kind, n)>> \o core \o <<NestTok("close", kind, n)>>)
               /\ phase' = Finish(form')
               /\ dmg' = Append(dmg, "nest " \o kind \o " " \o ToString(n))

\* Token-level damage of a finished sequence.
Drop ==
    /\ phase = "done" /\ CanDamage("drop")
    /\ \E k \in 1..Len(form) :
         /\ form' = SubSeq(form, 1, k - 1) \o SubSeq(form, k + 1, Len(form))
         /\ dmg' = Append(dmg, "drop " \o ToString(k))
    /\ UNCHANGED phase

Dup ==
    /\ phase = "done" /\ CanDamage("dup")
    /\ \E k \in 1..Len(form) :
         /\ form' = SubSeq(form, 1, k) \o SubSeq(form, k, Len(form))
         /\ dmg' = Append(dmg, "dup " \o ToString(k))
    /\ UNCHANGED phase

Swap ==
    /\ phase = "done" /\ CanDamage("swap")
    /\ \E k \in 1..(Len(form) - 1) :
         /\ form[k] # form[k + 1]
         /\ form' = [form EXCEPT ![k] = form[k + 1], ![k + 1] = form[k]]
         /\ dmg' = Append(dmg, "swap " \o ToString(k))
    /\ UNCHANGED phase

Brackets == {"(", ")", "[", "]", "{", "}", "{{", "}}"}
Unbalance ==
    /\ phase = "done" /\ CanDamage("unbalance")
    /\ \E k \in 0..Len(form), b \in Brackets :
         /\ form' = SubSeq(form, 1, k) \o <<b>> \o SubSeq(form, k + 1, Len(form))
         /\ dmg' = Append(dmg, "unbalance " \o b \o " " \o ToString(k))
    /\ UNCHANGED phase

Next ==
    \/ /\ phase = "derive"
       /\ LET k == LeftNT(form)
              nt == form[k]
              rest == FormMin(form) - MinLen[nt]
          IN \/ DeriveDecl(k, nt, rest) \/ DeriveStmt(k, nt, rest) \/ DeriveExpr(k, nt, rest) \/ DeriveType(k, nt, rest)
             \/ Void(k, nt, rest) \/ Splice(k, nt, rest) \/ Nest(k, nt, rest)
    \/ Drop \/ Dup \/ Swap \/ Unbalance

Spec == Init /\ [][Next]_vars

---------------------------------------------------------------------------
(* Properties of the model itself and the export.                          *)

TypeOK ==
    /\ phase \in {"derive", "done"}
    /\ phase = "done" <=> ~HasNT(form)
    /\ Len(dmg) <= MaxDamage
    /\ Mode = "derive" => FormMin(form) <= MaxTokens + 1   \* Drop/Dup/Unbalance add at most one

\* Every finished sequence is printed (one JSON object per line): the derived
\* part; the source presented to the tool chain is Tokens(form) = the context
\* prefix + the derived part + the context suffix.
Export ==
    phase = "done" =>
        PrintT(ToJson([o |-> <<Label>> \o dmg, t |-> form]))

\* Printed once per run: the context, and what the pseudo tokens mean.
NestTable == [k \in NestNames |-> [open |-> NestKinds[k].open, close |-> NestKinds[k].close]]
ASSUME PrintT(ToJson([context |-> [name |-> Ctx, prefix |-> Prefix, suffix |-> Glue \o Suffix], nest |-> NestTable]))

=============================================================================

---------------------------- MODULE FlateCutImpl ----------------------------
(***************************************************************************)
(* C16 part (b): an implementation-shaped model of lib/flatecut's           *)
(* algorithm (cutter.cut, doStored, doHuffman, writeEndCode, cutSingleBlock *)
(* in /repo/lib/flatecut/flatecut.go) over small abstract streams,          *)
(* model-checked against the result specification FlateCut!Accept.          *)
(*                                                                         *)
(* The model follows the code path by path: a bit cursor `pos`              *)
(* (= 8*bits.index - bits.nBits), the position of the current and of the    *)
(* previous block's final-block bit (finalBlockIndex/NBits and              *)
(* prevFinalBlockIndex/NBits), the checkpoint = last symbol boundary that   *)
(* still leaves room for this block's end-of-block code, the three internal *)
(* outcomes errInternalNoProgress / SomeProgress / ReplaceWithSingleBlock,   *)
(* final-bit patching, un-reading to the previous block, stored-block       *)
(* shortening and the single-block fall-back.  Its output is an IMAGE of    *)
(* the modified buffer (blocks with the bit position at which each starts); *)
(* what a decoder makes of that image is decided by FlateCut's abstract     *)
(* decoder, not by this module.                                            *)
(*                                                                         *)
(* Uses:                                                                   *)
(*  1. design check - with Guard = TRUE (the repaired algorithm, see        *)
(*     findings/C16-*.patch) every answer over the                          *)
(*     enumerated universe satisfies Accept (invariant AnswerAccepted);     *)
(*  2. counterexample-guided scripts - with Guard = FALSE (the code as it   *)
(*     is) the invariant AnswerReported prints every <<stream, limit>>      *)
(*     whose answer Accept rejects; the runner turns them into concrete     *)
(*     streams for the real code;                                          *)
(*  3. vacuity guard - Mutant # "none" plants a typical mistake; TLC must   *)
(*     find a rejected answer;                                             *)
(*  4. fidelity - with Universe = "file" the streams are the abstract       *)
(*     images of concrete streams that the harness cut with the real code;  *)
(*     AnswerAsRecorded compares the model's <<err, eLen, dLen>> with the    *)
(*     recorded ones for every limit (replay: specification -> code).       *)
(***************************************************************************)
EXTENDS FlateCut, Json, SequencesExt

CONSTANTS
    Universe,      \* "enum" | "file"
    StreamFile,    \* JSON file with abstract streams + recorded answers (Universe = "file")
    MaxBlocks,     \* enumerated universe: number of blocks
    StoredNs,      \*   lengths of stored blocks
    FixSymCodes,   \*   symbols of fixed blocks, each 1000 * bit cost + decoded length
    DynSymCodes,   \*   ... of dynamic blocks   (cfg files cannot hold tuples)
    MaxSyms,       \*   symbols per Huffman block
    DynHdrs,       \*   header sizes (bits) of dynamic blocks
    DynEobs,       \*   end-of-block code lengths of dynamic blocks
    Guard,         \* TRUE = repaired algorithm, FALSE = the code as it is
    Mutant         \* "none" | "eobroom" | "nopatch" | "storedlen" | "unread"

---------------------------------------------------------------------------
(* The universes.                                                          *)

SeqsUpTo(A, n) == UNION { [1..m -> A] : m \in 0..n }
FixSyms == { <<c \div 1000, c % 1000>> : c \in FixSymCodes }
DynSyms == { <<c \div 1000, c % 1000>> : c \in DynSymCodes }

StoredBlocks == { [t |-> "stored", fin |-> FALSE, hdr |-> 0, eob |-> 0, dz |-> FALSE, syms |-> [j \in 1..n |-> <<8, 1>>]] : n \in StoredNs }
FixedBlocks  == { [t |-> "fixed", fin |-> FALSE, hdr |-> 0, eob |-> 7, dz |-> FALSE, syms |-> s] : s \in SeqsUpTo(FixSyms, MaxSyms) }
DynBlocks    == { [t |-> "dynamic", fin |-> FALSE, hdr |-> h, eob |-> e, dz |-> FALSE, syms |-> s] :
                    h \in DynHdrs, e \in DynEobs, s \in SeqsUpTo(DynSyms, MaxSyms) }
BlockSet     == StoredBlocks \cup FixedBlocks \cup DynBlocks

MarkFinal(bs) == [j \in 1..Len(bs) |-> [bs[j] EXCEPT !.fin = (j = Len(bs))]]

EnumStreams == { <<0, Annotate(MarkFinal(bs))>> : bs \in UNION { [1..n -> BlockSet] : n \in 1..MaxBlocks } }

TypeName(n) == CASE n = 0 -> "stored" [] n = 1 -> "fixed" [] n = 2 -> "dynamic"
File == IF Universe = "file" THEN JsonDeserialize(StreamFile) ELSE <<>>
FileBlock(b) == [t |-> TypeName(b.t), fin |-> b.fin = 1, hdr |-> b.hdr, eob |-> b.eob, dz |-> b.dz = 1,
                 syms |-> [j \in 1..Len(b.syms) |-> <<b.syms[j][1], b.syms[j][2]>>]]
FileStreams == { <<n, Annotate([j \in 1..Len(File[n].blocks) |-> FileBlock(File[n].blocks[j])])>> : n \in 1..Len(File) }

Streams == IF Universe = "file" THEN FileStreams ELSE EnumStreams

\* The universe as a constant sequence: a state holds only an index into it.
StreamSeq == SetToSeq(Streams)

---------------------------------------------------------------------------
VARIABLES
    sidx,     \* index of the input stream in StreamSeq
    lim,      \* maxEncodedLen as passed by the caller
    maxl,     \* maxEncodedLen after clamping to the buffer
    pc,
    bi,       \* index of the block being read
    fbp,      \* bit position of its final-block bit
    prevfbp,  \* ... of the previous block's (-1: there is none, "isFirstBlock")
    pos,      \* the bit cursor
    k,        \* symbols of this block read so far
    ck,       \* checkpoint: number of symbols kept (-1: no checkpoint)
    ckpos,    \* checkpoint: bit position
    dl,       \* c.decodedLen
    dtmp,     \* doHuffman's local decodedLen
    cur,      \* image of the block being finished
    img,      \* image of the blocks already passed
    res       \* the answer

strm    == StreamSeq[sidx][2]     \* the (annotated) input stream
fileidx == StreamSeq[sidx][1]     \* its index in File (0 in the enumerated universe)

vars == <<sidx, lim, maxl, pc, bi, fbp, prevfbp, pos, k, ck, ckpos, dl, dtmp, cur, img, res>>

NoBlock == [t |-> "none"]
NoRes   == [err |-> FALSE, eLen |-> 0, dLen |-> 0, img |-> <<>>]

Init ==
    /\ sidx \in 1..Len(StreamSeq)
    /\ lim \in 2..(StreamLen(strm) + 2)
    /\ maxl = 0 /\ pc = "start" /\ bi = 1 /\ fbp = 0 /\ prevfbp = -1 /\ pos = 0
    /\ k = 0 /\ ck = -1 /\ ckpos = 0 /\ dl = 0 /\ dtmp = 0
    /\ cur = NoBlock /\ img = <<>> /\ res = NoRes

At(b, p) == [t |-> b.t, fin |-> b.fin, hdr |-> b.hdr, eob |-> b.eob, syms |-> b.syms, at |-> p]

\* "Set the n'th bit of c.bits.bytes[finalBlockIndex-1] to be 1": the final
\* bit of whichever block starts at bit position p.
PatchFinal(im, p) == [j \in 1..Len(im) |-> IF im[j].at = p THEN [im[j] EXCEPT !.fin = TRUE] ELSE im[j]]

Answer(e, d, im) == [err |-> FALSE, eLen |-> e, dLen |-> d, img |-> im]
Error == [err |-> TRUE, eLen |-> 0, dLen |-> 0, img |-> <<>>]

\* Cut: argument checks and clamping.
Start ==
    /\ pc = "start"
    /\ LET m == Min2(lim, StreamLen(strm)) IN
       IF lim < 2 \/ m < 2
       THEN /\ res' = Error /\ pc' = "done" /\ maxl' = m
       ELSE /\ maxl' = m /\ pc' = "header" /\ res' = res
    /\ UNCHANGED <<sidx, lim, bi, fbp, prevfbp, pos, k, ck, ckpos, dl, dtmp, cur, img>>

\* cutter.cut: take(1) finalBlock, remember where it was, take(2) blockType.
Header ==
    /\ pc = "header"
    /\ IF bi > Len(strm)
       THEN /\ res' = Error /\ pc' = "done" /\ UNCHANGED <<fbp, pos>>      \* errInvalidNotEnoughData
       ELSE /\ fbp' = pos
            /\ pos' = pos + 3
            /\ pc' = IF strm[bi].t = "stored" THEN "stored" ELSE "huffman"
            /\ res' = res
    /\ UNCHANGED <<sidx, lim, maxl, bi, prevfbp, k, ck, ckpos, dl, dtmp, cur, img>>

\* doStored
Stored ==
    /\ pc = "stored"
    /\ LET b == strm[bi]
           q == BytesOf(pos)              \* c.bits.index once whole buffered bytes are given back
           n == Len(b.syms)
           index == q + 4
           remaining == maxl - index
       IN
       IF maxl < q \/ maxl - q < 4
       THEN /\ pc' = "noprogress" /\ UNCHANGED <<pos, dl, cur>>
       ELSE IF remaining >= n
       THEN /\ pos' = 8 * (index + n) /\ dl' = dl + n /\ cur' = b /\ pc' = "endblock"
       ELSE IF remaining = 0
       THEN /\ pc' = "noprogress" /\ UNCHANGED <<pos, dl, cur>>
       ELSE /\ pos' = 8 * (index + remaining) /\ dl' = dl + remaining
            /\ cur' = IF Mutant = "storedlen" THEN b      \* forgets to rewrite LEN / NLEN
                      ELSE [b EXCEPT !.syms = SubSeq(b.syms, 1, remaining)]
            /\ pc' = "someprogress"
    /\ UNCHANGED <<sidx, lim, maxl, bi, fbp, prevfbp, k, ck, ckpos, dtmp, img, res>>

\* doStaticHuffman / doDynamicHuffman up to the symbol loop of doHuffman.
\* The code as it is answers errInvalidBadHuffmanTree for a dynamic block that
\* has no distance code at all (dz), wherever the limit is.
Huffman ==
    /\ pc = "huffman"
    /\ LET p1 == pos + strm[bi].hdr IN
       /\ pos' = p1
       /\ IF ~Guard /\ strm[bi].dz
          THEN /\ res' = Error /\ pc' = "done"
          ELSE /\ res' = res
               /\ IF BytesOf(p1) > maxl                  \* c.bits.index > c.maxEncodedLen
                  THEN pc' = "noprogress"
                  ELSE pc' = "symbol"
    /\ k' = 0 /\ ck' = -1 /\ ckpos' = 0 /\ dtmp' = dl
    /\ UNCHANGED <<sidx, lim, maxl, bi, fbp, prevfbp, dl, cur, img>>

\* one iteration of doHuffman's loop
Symbol ==
    /\ pc = "symbol"
    /\ LET b == strm[bi] IN
       IF k < Len(b.syms)
       THEN LET s  == b.syms[k + 1]
                p1 == pos + s[1]
                d1 == dtmp + s[2]
                over == IF Mutant = "eobroom" THEN p1 > 8 * maxl            \* forgets the room for the end code
                        ELSE p1 + b.eob > 8 * maxl
            IN /\ pos' = p1 /\ dtmp' = d1 /\ k' = k + 1
               /\ IF over
                  THEN /\ pc' = "break" /\ UNCHANGED <<ck, ckpos, dl, cur>>
                  ELSE /\ ck' = k + 1 /\ ckpos' = p1 /\ dl' = d1 /\ pc' = pc /\ cur' = cur
       ELSE \* the end-of-block code
            IF Guard /\ pos + b.eob > 8 * maxl
            THEN /\ pc' = "break" /\ UNCHANGED <<pos, dtmp, k, ck, ckpos, dl, cur>>
            ELSE /\ pos' = pos + b.eob /\ cur' = b /\ pc' = "endblock"
                 /\ UNCHANGED <<dtmp, k, ck, ckpos, dl>>
    /\ UNCHANGED <<sidx, lim, maxl, bi, fbp, prevfbp, img, res>>

\* after the loop of doHuffman
Break ==
    /\ pc = "break"
    /\ LET b == strm[bi] IN
       IF ck < 0
       THEN /\ pc' = "noprogress" /\ UNCHANGED <<pos, cur>>
       ELSE IF prevfbp < 0 /\ maxl > 5 /\ dl < Min2(maxl - 5, 65535)
       THEN /\ pc' = "single" /\ UNCHANGED <<pos, cur>>                      \* errInternalReplaceWithSingleBlock
       ELSE /\ pos' = ckpos + b.eob                                           \* rewind, writeEndCode
            /\ cur' = [b EXCEPT !.syms = SubSeq(b.syms, 1, ck)]
            /\ pc' = "someprogress"
    /\ UNCHANGED <<sidx, lim, maxl, bi, fbp, prevfbp, k, ck, ckpos, dl, dtmp, img, res>>

\* cut's `case nil`
EndBlock ==
    /\ pc = "endblock"
    /\ img' = Append(img, At(cur, fbp))
    /\ IF ~strm[bi].fin
       THEN /\ prevfbp' = fbp /\ bi' = bi + 1 /\ pc' = "header"
       ELSE /\ pc' = "finish" /\ UNCHANGED <<prevfbp, bi>>
    /\ UNCHANGED <<sidx, lim, maxl, fbp, pos, k, ck, ckpos, dl, dtmp, cur, res>>

\* cut's `case errInternalNoProgress`
NoProgress ==
    /\ pc = "noprogress"
    /\ IF prevfbp < 0
       THEN /\ pc' = "single" /\ UNCHANGED <<pos, img>>
       ELSE /\ pos' = IF Mutant = "unread" THEN fbp + 1 ELSE fbp            \* un-read to just before the final bit
            /\ img' = IF Mutant = "nopatch" THEN img ELSE PatchFinal(img, prevfbp)
            /\ pc' = "finish"
    /\ UNCHANGED <<sidx, lim, maxl, bi, fbp, prevfbp, k, ck, ckpos, dl, dtmp, cur, res>>

\* cut's `case errInternalSomeProgress`
SomeProgress ==
    /\ pc = "someprogress"
    /\ img' = IF Mutant = "nopatch" THEN Append(img, At(cur, fbp))
              ELSE PatchFinal(Append(img, At(cur, fbp)), fbp)
    /\ pc' = "finish"
    /\ UNCHANGED <<sidx, lim, maxl, bi, fbp, prevfbp, pos, k, ck, ckpos, dl, dtmp, cur, res>>

\* cutSingleBlock(c.bits.bytes, c.maxEncodedLen)
Single ==
    /\ pc = "single"
    /\ LET n == IF maxl > 5 THEN Min2(Min2(maxl - 5, 65535), TotalOf(strm)) ELSE 0 IN
       res' = IF n > 0
              THEN Answer(n + 5, n, << [t |-> "stored", fin |-> TRUE, hdr |-> 0, eob |-> 0,
                                        syms |-> [j \in 1..n |-> <<8, 1, j - 1>>], at |-> 0] >>)
              ELSE Answer(2, 0, << [t |-> "fixed", fin |-> TRUE, hdr |-> 0, eob |-> 7, syms |-> <<>>, at |-> 0] >>)
    /\ pc' = "done"
    /\ UNCHANGED <<sidx, lim, maxl, bi, fbp, prevfbp, pos, k, ck, ckpos, dl, dtmp, cur, img>>

\* the tail of cut: clear the unused high bits, return c.bits.index
Finish ==
    /\ pc = "finish"
    /\ res' = Answer(BytesOf(pos), dl, img)
    /\ pc' = "done"
    /\ UNCHANGED <<sidx, lim, maxl, bi, fbp, prevfbp, pos, k, ck, ckpos, dl, dtmp, cur, img>>

Next == Start \/ Header \/ Stored \/ Huffman \/ Symbol \/ Break \/ EndBlock \/ NoProgress \/ SomeProgress \/ Single \/ Finish

Spec == Init /\ [][Next]_vars

---------------------------------------------------------------------------
Obs == ObserveAbstract(strm, lim, res)

\* (1), (3): every answer is acceptable to the result specification
AnswerAccepted == pc = "done" => Accept(Obs)

\* The shape of a stream, for scripts: per block its type and symbol count.
ShapeOf(S) == [j \in 1..Len(S) |-> [t |-> S[j].t, n |-> Len(S[j].syms), eob |-> S[j].eob, hdr |-> S[j].hdr]]

\* (2): list every rejected answer, keep going
AnswerReported ==
    pc = "done" =>
        (Accept(Obs) \/ PrintT(ToJson([ce |-> ShapeOf(strm), limit |-> lim, len |-> StreamLen(strm),
                                       eLen |-> res.eLen, dLen |-> res.dLen, failed |-> Failed(Obs)])))

\* (4): the real code gave the same answer for this stream and limit
Recorded == File[fileidx].results[lim - 1]       \* rows <<limit, err, eLen, dLen>> for limit = 2, 3, ...
SameAsRecorded ==
    /\ Recorded[1] = lim
    /\ (Recorded[2] = 1) = res.err
    /\ ~res.err => (Recorded[3] = res.eLen /\ Recorded[4] = res.dLen)
AnswerAsRecorded ==
    (pc = "done" /\ Universe = "file") =>
        (SameAsRecorded \/ PrintT(ToJson([diff |-> File[fileidx].sid, limit |-> lim, model |-> <<res.err, res.eLen, res.dLen>>,
                                          code |-> Recorded])))

\* the model never leaves the buffer, whatever the verdict on its answer
CursorInBuffer == pos <= 8 * StreamLen(strm) + 7

\* Vacuity guards for the enumerated universe (checked once).
ASSUME Universe = "enum" =>
    /\ \E s \in EnumStreams : \E j \in 1..Len(s[2]) : s[2][j].t = "stored" /\ s[2][j].syms = <<>>
    /\ \E s \in EnumStreams : \E j \in 1..Len(s[2]) : s[2][j].t # "stored" /\ s[2][j].syms = <<>>
    /\ \A s \in EnumStreams : ValidStream(s[2])
=============================================================================

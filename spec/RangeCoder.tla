------------------------------ MODULE RangeCoder ------------------------------
(***************************************************************************)
(* C17: the LZMA range coder, at TRUE width, for a literal-only stream     *)
(* (lc = 3, lp = 0, pb = 2).                                               *)
(*                                                                         *)
(* Written from the LZMA specification (LZMA-SDK DOC/lzma-specification:   *)
(* CRangeDecoder::Init / Normalize / DecodeBit, BitTreeDecode, the literal *)
(* coder, UpdateState_Literal) and the reference encoder's RangeEnc_       *)
(* EncodeBit / RangeEnc_ShiftLow / RangeEnc_FlushData - NOT from           *)
(* lib/litonlylzma, whose shiftLow is organised differently (three cases   *)
(* on a 64-bit `low`, a pendingHead byte and a count of extra bytes).      *)
(*                                                                         *)
(*   kNumBitModelTotalBits = 11    probabilities are 11-bit, "P(bit = 0)"  *)
(*   kNumMoveBits          = 5                                             *)
(*   kTopValue             = 2^24                                          *)
(*   encoder: low (33 bits), range (32 bits), cache, cacheSize             *)
(*   decoder: code (32 bits), range (32 bits)                              *)
(*                                                                         *)
(* TLC's integers are 32-bit signed.  Every 32-bit quantity is therefore   *)
(* kept EXACTLY as two 16-bit halves (hi, lo), the 33-bit `low` as a carry *)
(* bit c plus two halves, and the product (range >> 11) * prob as a sum of *)
(* partial products below 2^22.  Nothing is approximated or truncated that *)
(* the 32-bit machine arithmetic of the format does not truncate.          *)
(*                                                                         *)
(* This module is constant-level (no variables): arithmetic, one decision  *)
(* of the encoder / decoder, the literal layer, and the two file framings  *)
(* (.lzma header, LZMA2 chunks of .xz) around the range-coded bytes.       *)
(* RangeCoderMC   model-checks it (round trip from extreme states),        *)
(* RangeCoderReach uses its encoder to find payloads that reach the rare   *)
(* encoder states, RangeCoderRows uses its decoder as an independent       *)
(* decoder of what lib/litonlylzma's Encode really wrote.                  *)
(***************************************************************************)
EXTENDS Integers, Sequences, TLC

H == 65536                          \* 2^16

---------------------------------------------------------------------------
(* Exact arithmetic on (hi, lo) pairs, 0 <= hi, lo < 2^16.                  *)

Lt(ah, al, bh, bl) == ah < bh \/ (ah = bh /\ al < bl)

\* a - b for a >= b
Sub(ah, al, bh, bl) == IF al >= bl THEN <<ah - bh, al - bl>> ELSE <<ah - bh - 1, al + H - bl>>

(* bound = (range >> 11) * p,  0 <= p <= 2048.                              *)
(*   r11 = range >> 11 = rh * 32 + (rl >> 11)              < 2^21           *)
(*   r11 = a * 2^10 + b,  a < 2^11, b < 2^10                                *)
(*   bound = (a * p) * 2^10 + b * p,   a * p < 2^22,  b * p < 2^21          *)
(*   with X = a * p = xh * 64 + xl:  X * 2^10 = xh * 2^16 + xl * 2^10       *)
Bound(rh, rl, p) ==
    LET r11  == rh * 32 + (rl \div 2048)
        X    == (r11 \div 1024) * p
        Y    == (r11 % 1024) * p
        lraw == (X % 64) * 1024 + (Y % H)              \* < 2^17
    IN  <<(X \div 64) + (Y \div H) + (lraw \div H), lraw % H>>

---------------------------------------------------------------------------
(* Adaptive probabilities.                                                  *)
PInit    == 1024
PUp(p)   == p + ((2048 - p) \div 32)       \* after coding a 0
PDown(p) == p - (p \div 32)                \* after coding a 1

(* The probability table is sparse: a function from the indices touched so  *)
(* far; every other entry still has its reset value 1024.  (`:>` and `@@`   *)
(* are TLC's function constructors; `@@` gives priority to its left side.)  *)
NoProbs == <<>>
P(pm, k) == IF k \in DOMAIN pm THEN pm[k] ELSE PInit
Put(pm, k, v) == (k :> v) @@ pm

(* Index space.  IsMatch[state][posState] with kNumPosBitsMax = 4, then the *)
(* literal coder: 0x300 probabilities per literal state, (lp, lc) = (0, 3)  *)
(* so the literal state is the previous byte's top three bits.              *)
LC == 3
LP == 0
PB == 2
PropsByte == (PB * 5 + LP) * 9 + LC          \* = 93 = 0x5D
IsMatchKey(state, posState) == state * 16 + posState
LitBase == 12 * 16
LitKey(pos, prev, sym) == LitBase + 768 * (((pos % (2 ^ LP)) * (2 ^ LC)) + (prev \div (2 ^ (8 - LC)))) + sym

(* The LZMA state machine restricted to literals (UpdateState_Literal).     *)
(* States 0..6 are the "previous packet was a literal" states; a stream of  *)
(* literals only never leaves state 0, where literals are coded with the    *)
(* plain 8-level bit tree (the matched-literal variant needs state >= 7).   *)
LitNextState(s) == IF s < 4 THEN 0 ELSE IF s < 10 THEN s - 3 ELSE s - 6
ASSUME LitNextState(0) = 0
ASSUME PropsByte = 93

---------------------------------------------------------------------------
(* DECODER.  For TLC's sake the state is a flat tuple, not a record:        *)
(*   t = <<bit, p, ch, cl, rh, rl, ip, ok>>                                 *)
(*   bit  the decision just decoded          p   its updated probability    *)
(*   ch, cl  code (two 16-bit halves)        rh, rl  range                  *)
(*   ip   index of the next unread input byte (1-based)                     *)
(*   ok   FALSE iff normalisation needed a byte that is not there           *)
TBit(t) == t[1]
TProb(t) == t[2]
TIp(t) == t[7]
TOk(t) == t[8]
TCodeZero(t) == t[3] = 0 /\ t[4] = 0

(* RangeDecoder::Init: five bytes; the first must be 0, the other four are  *)
(* the big-endian code, which must not equal the initial range 0xFFFFFFFF.  *)
DecInitOK(in) == Len(in) >= 5 /\ in[1] = 0 /\ ~(in[2] = 255 /\ in[3] = 255 /\ in[4] = 255 /\ in[5] = 255)
DecInit(in) == <<0, 0, in[2] * 256 + in[3], in[4] * 256 + in[5], H - 1, H - 1, 6, TRUE>>

(* Normalize: while range < 2^24 { range <<= 8; code = (code << 8) | byte } *)
(* - once is enough here, TLC checks in RangeCoderMC that range >= 2^24     *)
(* afterwards (probabilities stay inside 31..2017).                         *)
Norm(in, bit, p, ch, cl, rh, rl, ip) ==
    IF rh >= 256 THEN <<bit, p, ch, cl, rh, rl, ip, TRUE>>
    ELSE IF ip > Len(in) THEN <<bit, p, ch, cl, rh, rl, ip, FALSE>>
    ELSE <<bit, p, (ch % 256) * 256 + (cl \div 256), (cl % 256) * 256 + in[ip],
           rh * 256 + (rl \div 256), (rl % 256) * 256, ip + 1, TRUE>>

(* DecodeBit: one binary decision with probability p, then Normalize.       *)
DecBit(in, ch, cl, rh, rl, ip, p) ==
    LET b  == Bound(rh, rl, p)
        bh == b[1]
        bl == b[2]
    IN  IF ch < bh \/ (ch = bh /\ cl < bl)
        THEN Norm(in, 0, PUp(p), ch, cl, bh, bl, ip)                \* code < bound: 0, range = bound
        ELSE LET nr == Sub(rh, rl, bh, bl)
                 nc == Sub(ch, cl, bh, bl)
             IN  Norm(in, 1, PDown(p), nc[1], nc[2], nr[1], nr[2], ip)   \* 1: code -= bound, range -= bound
DecNext(in, t, p) == DecBit(in, t[3], t[4], t[5], t[6], t[7], p)

(* BitTreeDecode with 8 levels: the literal's bits, most significant first. *)
(* base = LitKey(pos, prev, 0).  Result <<t, pm, sym>>.                     *)
RECURSIVE DecTree(_, _, _, _, _)
DecTree(in, t, pm, base, sym) ==
    IF sym >= 256 \/ ~TOk(t) THEN <<t, pm, sym>>
    ELSE LET r == DecNext(in, t, P(pm, base + sym))
         IN  DecTree(in, r, Put(pm, base + sym, TProb(r)), base, 2 * sym + TBit(r))

(* n literals.  Result [t, out, st]; st = "ok", "short" (input exhausted)   *)
(* or "nonliteral": an is-match bit of 1 leaves the literal-only sub-format *)
(* (a match, a rep or the end marker would follow).                         *)
RECURSIVE DecLits(_, _, _, _, _, _, _)
DecLits(in, t, pm, pos, prev, n, out) ==
    IF n = 0 THEN [t |-> t, out |-> out, st |-> "ok"]
    ELSE LET k == IsMatchKey(0, pos % (2 ^ PB))
             m == DecNext(in, t, P(pm, k))
         IN  IF ~TOk(m) THEN [t |-> m, out |-> out, st |-> "short"]
             ELSE IF TBit(m) = 1 THEN [t |-> m, out |-> out, st |-> "nonliteral"]
             ELSE LET r == DecTree(in, m, Put(pm, k, TProb(m)), LitKey(pos, prev, 0), 1)
                  IN  IF ~TOk(r[1]) THEN [t |-> r[1], out |-> out, st |-> "short"]
                      ELSE DecLits(in, r[1], r[2], pos + 1, r[3] - 256, n - 1, Append(out, r[3] - 256))

(* A complete range-coded segment `rc` that must hold exactly n literals,   *)
(* coded from the reset state.  The format lets a stream with a known size  *)
(* end without a marker only in the state code = 0 (IsFinishedOK), and      *)
(* nothing of the segment may be left unread.                               *)
DecodeSegment(rc, n) ==
    IF Len(rc) < 5 THEN [st |-> "short", out |-> <<>>, left |-> 0, finished |-> FALSE]
    ELSE IF ~DecInitOK(rc) THEN [st |-> "corrupt", out |-> <<>>, left |-> Len(rc) - 5, finished |-> FALSE]
    ELSE LET r == DecLits(rc, DecInit(rc), NoProbs, 0, 0, n, <<>>)
         IN  [st |-> r.st, out |-> r.out, left |-> Len(rc) - (TIp(r.t) - 1), finished |-> TCodeZero(r.t)]

SegmentOK(s) == s.st = "ok" /\ s.left = 0 /\ s.finished

---------------------------------------------------------------------------
(* ENCODER (reference encoder).  e = [c, lh, ll, rh, rl, cache, cs, out]    *)
(* low = c * 2^32 + lh * 2^16 + ll;  cs = cacheSize.  Observation fields    *)
(* (never read by the coder itself):                                        *)
(*   bad   a byte or the carry bit overflowed (must never happen)           *)
(*   x32   number of ShiftLow calls with low = 2^32 exactly                 *)
(*   cp    largest number of pending 0xFF bytes resolved by a carry         *)
(*   mcs   largest cacheSize seen at a ShiftLow                             *)
(*   eq24  decisions after which range = 2^24 exactly (not normalised)      *)
(*   m24   decisions after which range = 2^24 - 1 (normalised)              *)
EncInit == [c |-> 0, lh |-> 0, ll |-> 0, rh |-> H - 1, rl |-> H - 1, cache |-> 0, cs |-> 1, out |-> <<>>,
            bad |-> FALSE, x32 |-> 0, cp |-> 0, mcs |-> 1, eq24 |-> 0, m24 |-> 0]

(* RangeEnc_ShiftLow:                                                       *)
(*   if ((uint32)low < 0xFF000000 || (low >> 32) != 0) {                    *)
(*       temp = cache; do { write(temp + (low >> 32)); temp = 0xFF; }       *)
(*       while (--cacheSize != 0);  cache = (uint32)low >> 24; }            *)
(*   cacheSize++;  low = (uint32)low << 8;                                  *)
ShiftLow(e) ==
    LET emit == e.lh < 65280 \/ e.c = 1
    IN  [c |-> 0, lh |-> (e.lh % 256) * 256 + (e.ll \div 256), ll |-> (e.ll % 256) * 256,
         rh |-> e.rh, rl |-> e.rl,
         cache |-> IF emit THEN e.lh \div 256 ELSE e.cache,
         cs |-> IF emit THEN 1 ELSE e.cs + 1,
         out |-> IF emit THEN e.out \o <<(e.cache + e.c) % 256>> \o [i \in 1..(e.cs - 1) |-> (255 + e.c) % 256] ELSE e.out,
         bad |-> e.bad \/ (emit /\ e.cache + e.c > 255),
         x32 |-> e.x32 + (IF e.c = 1 /\ e.lh = 0 /\ e.ll = 0 THEN 1 ELSE 0),
         cp |-> IF e.c = 1 /\ e.cs - 1 > e.cp THEN e.cs - 1 ELSE e.cp,
         mcs |-> IF e.cs > e.mcs THEN e.cs ELSE e.mcs,
         eq24 |-> e.eq24, m24 |-> e.m24]

(* RangeEnc_EncodeBit (the probability update is the caller's: PUp/PDown).  *)
EncBit(e, p, bit) ==
    LET b  == Bound(e.rh, e.rl, p)
        sl == e.ll + b[2]
        sh == e.lh + b[1] + (sl \div H)
        nr == Sub(e.rh, e.rl, b[1], b[2])
        e1 == IF bit = 0 THEN [e EXCEPT !.rh = b[1], !.rl = b[2]]
              ELSE [e EXCEPT !.ll = sl % H, !.lh = sh % H, !.c = e.c + (sh \div H),
                             !.rh = nr[1], !.rl = nr[2], !.bad = e.bad \/ (e.c + (sh \div H) > 1)]
        e2 == [e1 EXCEPT !.eq24 = e1.eq24 + (IF e1.rh = 256 /\ e1.rl = 0 THEN 1 ELSE 0),
                         !.m24 = e1.m24 + (IF e1.rh = 255 /\ e1.rl = H - 1 THEN 1 ELSE 0)]
    IN  IF e2.rh >= 256 THEN e2
        ELSE ShiftLow([e2 EXCEPT !.rh = e2.rh * 256 + (e2.rl \div 256), !.rl = (e2.rl % 256) * 256])

(* RangeEnc_FlushData: five ShiftLow calls.                                 *)
EncFlush(e) == ShiftLow(ShiftLow(ShiftLow(ShiftLow(ShiftLow(e)))))

RECURSIVE EncTree(_, _, _, _, _, _, _)
EncTree(e, pm, pos, prev, sym, byte, i) ==
    IF i < 0 THEN [e |-> e, pm |-> pm]
    ELSE LET bit == (byte \div (2 ^ i)) % 2
             k   == LitKey(pos, prev, sym)
             p   == P(pm, k)
         IN  EncTree(EncBit(e, p, bit), Put(pm, k, IF bit = 0 THEN PUp(p) ELSE PDown(p)), pos, prev, 2 * sym + bit, byte, i - 1)

(* One literal: is-match bit 0, then the 8 bits of the byte.                *)
EncLiteral(e, pm, pos, prev, byte) ==
    LET k == IsMatchKey(0, pos % (2 ^ PB))
        p == P(pm, k)
    IN  EncTree(EncBit(e, p, 0), Put(pm, k, PUp(p)), pos, prev, 1, byte, 7)

RECURSIVE EncLits(_, _, _, _, _)
EncLits(e, pm, pos, prev, pay) ==
    IF pos = Len(pay) THEN e
    ELSE LET r == EncLiteral(e, pm, pos, prev, pay[pos + 1]) IN EncLits(r.e, r.pm, pos + 1, pay[pos + 1], pay)

EncodeSegment(pay) == EncFlush(EncLits(EncInit, NoProbs, 0, 0, pay)).out

(* Invariant of the encoder between decisions (RangeCoderMC checks it on    *)
(* every state it reaches): range is normalised; low + range <= 2^33 - 512; *)
(* a cache byte of 0xFF can take no further carry.                          *)
\* low + range <= 2^33 - 512, as (c, sum of halves)
LowPlusRangeOK(e) ==
    LET sl == e.ll + e.rl
        sh == e.lh + e.rh + (sl \div H)          \* < 2^17 + 1
        top == e.c + (sh \div H)                  \* in units of 2^32
    IN  top < 2 /\ (top = 1 => Lt(sh % H, sl % H, H - 1, H - 511))   \* remainder <= 2^32 - 512
EncInv(e) ==
    /\ e.rh >= 256 /\ e.rh < H /\ e.rl \in 0..(H - 1)
    /\ e.c \in {0, 1} /\ e.lh \in 0..(H - 1) /\ e.ll \in 0..(H - 1)
    /\ e.cache \in 0..255 /\ e.cs >= 1
    /\ LowPlusRangeOK(e)
    /\ e.cache = 255 => (e.c = 0 /\ LET sl == e.ll + e.rl
                                        sh == e.lh + e.rh + (sl \div H)
                                    IN  sh < H \/ (sh = H /\ sl % H = 0))     \* low + range <= 2^32
    /\ ~e.bad

---------------------------------------------------------------------------
(* FRAMINGS around a range-coded segment.                                   *)

Zeros(n) == [i \in 1..n |-> 0]

(* .lzma: 13-byte header (LzmaAlone.tla), then one segment.  The size field *)
(* must be the known size; sizes >= 2^31 and the "unknown size + end        *)
(* marker" form are outside what this literal-only model decodes            *)
(* (status "unmodelled", which is not a verdict about the file).            *)
LzmaDecode(file) ==
    IF Len(file) < 13 THEN [st |-> "short", out |-> <<>>, left |-> 0, finished |-> FALSE]
    ELSE IF file[1] # PropsByte \/ file[9] >= 128 \/ file[10] # 0 \/ file[11] # 0 \/ file[12] # 0 \/ file[13] # 0
    THEN [st |-> "unmodelled", out |-> <<>>, left |-> 0, finished |-> FALSE]
    ELSE DecodeSegment(SubSeq(file, 14, Len(file)),
                       file[6] + 256 * file[7] + 65536 * file[8] + 16777216 * file[9])

(* .xz: stream header (12 bytes), block header ((file[13] + 1) * 4 bytes,   *)
(* one LZMA2 filter, no size fields), then LZMA2 chunks up to the 0x00 end  *)
(* marker.  What follows (padding, check, index, footer) is XzLayout's and  *)
(* the independent decoders' business.  Chunks:                             *)
(*   0x01 / 0x02   uncompressed, u16be size - 1                             *)
(*   0xE0..0xFF    LZMA with state reset, new properties and dictionary     *)
(*                 reset: u21 unpacked size - 1, u16 packed size - 1, props *)
(*   0x80..0xDF    LZMA continuing an earlier chunk's state: "unmodelled"   *)
XzMagicOK(file) == Len(file) >= 24 /\ SubSeq(file, 1, 6) = <<253, 55, 122, 88, 90, 0>>

RECURSIVE XzChunks(_, _, _)
XzChunks(file, off, out) ==
    IF off > Len(file) THEN [st |-> "short", out |-> out, next |-> off]
    ELSE LET ctrl == file[off] IN
      IF ctrl = 0 THEN [st |-> "ok", out |-> out, next |-> off + 1]
      ELSE IF ctrl \in {1, 2} THEN
        IF off + 2 > Len(file) THEN [st |-> "short", out |-> out, next |-> off]
        ELSE LET n == file[off + 1] * 256 + file[off + 2] + 1 IN
             IF off + 2 + n > Len(file) THEN [st |-> "short", out |-> out, next |-> off]
             ELSE XzChunks(file, off + 3 + n, out \o SubSeq(file, off + 3, off + 2 + n))
      ELSE IF ctrl >= 224 THEN
        IF off + 5 > Len(file) THEN [st |-> "short", out |-> out, next |-> off]
        ELSE LET un == (ctrl % 32) * 65536 + file[off + 1] * 256 + file[off + 2] + 1
                 cn == file[off + 3] * 256 + file[off + 4] + 1
             IN  IF file[off + 5] # PropsByte THEN [st |-> "unmodelled", out |-> out, next |-> off]
                 ELSE IF off + 5 + cn > Len(file) THEN [st |-> "short", out |-> out, next |-> off]
                 ELSE LET s == DecodeSegment(SubSeq(file, off + 6, off + 5 + cn), un)
                      IN  IF ~SegmentOK(s) THEN [st |-> IF s.st # "ok" THEN s.st ELSE IF s.left # 0 THEN "leftover" ELSE "unfinished",
                                                  out |-> out \o s.out, next |-> off]
                          ELSE XzChunks(file, off + 6 + cn, out \o s.out)
      ELSE [st |-> "unmodelled", out |-> out, next |-> off]

XzDecode(file) ==
    IF ~XzMagicOK(file) THEN [st |-> "corrupt", out |-> <<>>, next |-> 1]
    ELSE IF file[14] # 0 \/ file[15] # 33 \/ file[16] # 1 THEN [st |-> "unmodelled", out |-> <<>>, next |-> 13]
    ELSE XzChunks(file, 12 + (file[13] + 1) * 4 + 1, <<>>)

(* The verdict on one encoded file: "ok", or why not.                       *)
FileVerdict(fmt, file, payload) ==
    IF fmt = 1 THEN
        LET r == LzmaDecode(file) IN
        IF r.st # "ok" THEN r.st
        ELSE IF r.out # payload THEN "mismatch"
        ELSE IF r.left # 0 THEN "leftover"
        ELSE IF ~r.finished THEN "unfinished"
        ELSE "ok"
    ELSE
        LET r == XzDecode(file) IN
        IF r.st # "ok" THEN r.st
        ELSE IF r.out # payload THEN "mismatch"
        ELSE "ok"
=============================================================================

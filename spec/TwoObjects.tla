----------------------------- MODULE TwoObjects -----------------------------
(***************************************************************************)
(* C10: hermeticity as a specification.                                     *)
(*                                                                         *)
(* Two objects A and B, each with its own private state (abstracted to the  *)
(* sequence of calls it has absorbed - the most any implementation state    *)
(* can depend on).  A call on one object reads and writes only that         *)
(* object's state and the buffers passed to it; a pure method reads the     *)
(* receiver and changes nothing.  There is NO other variable: that is the   *)
(* specification of "no state outside the object".                          *)
(*                                                                         *)
(* Properties:                                                              *)
(*   Isolation   - in every interleaving, the state (and therefore every    *)
(*                 reply) of each object equals what its own projection of   *)
(*                 the history gives in isolation (solo).                   *)
(*   PureIsFrame - a Pure step leaves every variable unchanged.             *)
(* The driver realises the interleavings (baton mode of stddrive.c) and     *)
(* Trace_Std.tla (Mode "same", clause PureLeavesReceiverUnchanged) accepts  *)
(* the recorded runs iff each object's trace equals its solo trace.         *)
(***************************************************************************)
EXTENDS Integers, Sequences, TLC

CONSTANT NSteps
Objs == {"A", "B"}
Calls == {"coro", "impure"}

VARIABLES st,      \* st[o]: the calls object o has absorbed
          solo,    \* solo[o]: the same object run alone on its own projection of the history
          hist,    \* the interleaved history <<object, call>>
          last     \* kind of the last step

vars == <<st, solo, hist, last>>

Init == /\ st = [o \in Objs |-> <<>>] /\ solo = [o \in Objs |-> <<>>] /\ hist = <<>> /\ last = "init"

\* the reply of a call is a function of the receiver's state only
Reply(s, c) == <<Len(s), c>>

Call(o, c) == /\ Len(hist) < NSteps
              /\ st' = [st EXCEPT ![o] = Append(@, c)]
              /\ solo' = [solo EXCEPT ![o] = Append(@, c)]       \* the solo run sees exactly o's own calls
              /\ hist' = Append(hist, <<o, c>>)
              /\ last' = "call"

Pure(o) == /\ Len(hist) < NSteps /\ last' = "pure" /\ UNCHANGED <<st, solo, hist>>

Next == \E o \in Objs : (\E c \in Calls : Call(o, c)) \/ Pure(o)
Spec == Init /\ [][Next]_vars

TypeOK == \A o \in Objs : Len(st[o]) <= NSteps
\* every object's state (hence every reply) is what the solo run has
Isolation == \A o \in Objs : st[o] = solo[o]
PureIsFrame == [][last' = "pure" => UNCHANGED <<st, solo, hist>>]_vars
=============================================================================

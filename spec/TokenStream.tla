----------------------------- MODULE TokenStream -----------------------------
(***************************************************************************)
(* What a well-formed TOKEN STREAM is, and when two token streams are the  *)
(* same stream cut at different buffer boundaries (a NORMAL FORM).         *)
(*                                                                         *)
(* Sources (every rule below names the one it is read from):               *)
(*   [T]  doc/note/tokens.md                                               *)
(*   [H]  internal/cgen/base/token-public.h  ([T] refers to it for the     *)
(*        VBC/VBD bit assignments and their meaning)                       *)
(*   [J]  std/json/common_consts.wuffs, decode_json.wuffs (comments)       *)
(*   [C]  std/cbor/decode_cbor.wuffs (comments on the constants)           *)
(*                                                                         *)
(* A token (a uint64: value 47 bits | continued 1 bit | length 16 bits,    *)
(* [T] "Representation") is represented here, and in the events that      *)
(* harness/c/stddrive.c records, as a tuple                                *)
(*      <<x, a, b, con, len>>      optionally followed by pos              *)
(*   x = 0 simple token:   a = value_major (21 bits), b = value_minor (25) *)
(*   x = 1 extended token: a, b = the high / low 23 bits of the 46-bit     *)
(*                          value_extension  (TLC integers are 32-bit)     *)
(*   con = the continued bit, len = the length in source bytes,            *)
(*   pos = the driver's claim of the stream offset of the token's first    *)
(*         byte (checked, not trusted: PositionsChain).                    *)
(*                                                                         *)
(* The module has no variables; spec/Trace_Std.tla evaluates its           *)
(* operators on recorded tokens, spec/TokenStreamMC.tla model-checks the   *)
(* normal form itself.                                                     *)
(***************************************************************************)
EXTENDS Integers, Sequences, FiniteSets, TLC
LOCAL SeqX == INSTANCE SequencesExt      \* FoldLeft (evaluated iteratively by TLC's Java override)

\* ---- fields ----------------------------------------------------------------
TX(t)   == t[1]
TA(t)   == t[2]
TB(t)   == t[3]
TCon(t) == t[4]
TLen(t) == t[5]
TPos(t) == t[6]
Core(t) == <<t[1], t[2], t[3], t[4], t[5]>>          \* a token without its position
Tok(x, a, b, c, n) == <<x, a, b, c, n>>

Bit(v, mask) == (v \div mask) % 2 = 1                 \* mask is a power of two

IsExtended(t) == TX(t) = 1
IsSimple(t)   == TX(t) = 0
\* [T] "A zero value_major is reserved for Wuffs' built-in base package": only then do VBC and VBD exist
IsBase(t)     == IsSimple(t) /\ TA(t) = 0
Vbc(t)        == TB(t) \div 2097152                    \* value_minor bits 21..24  ([T]: bits 38..41 of the token)
Vbd(t)        == TB(t) % 2097152                       \* value_minor bits 0..20   ([T]: bits 17..37)

\* [H] WUFFS_BASE__TOKEN__VBC__*
VbcFiller == 0   VbcStructure == 1   VbcString == 2   VbcUnicodeCodePoint == 3
VbcLiteral == 4  VbcNumber == 5      VbcInlineIntegerSigned == 6  VbcInlineIntegerUnsigned == 7
IsCat(t, c) == IsBase(t) /\ Vbc(t) = c

\* [H] WUFFS_BASE__TOKEN__VBD__STRUCTURE__*
SPush == 1  SPop == 2  SFromNone == 16  SFromList == 32  SFromDict == 64  SToNone == 4096  SToList == 8192  SToDict == 16384
\* [H] WUFFS_BASE__TOKEN__VBD__STRING__*
StrDefinitelyUtf8 == 1  StrChainMustBeUtf8 == 2  StrDefinitelyAscii == 16  StrChainMustBeAscii == 32  StrCopy == 512

\* ---- rule 0: the fields are what the representation can hold ([T] "Representation") --------
\* (true of anything the driver can log from a uint64; kept because a corrupted trace is caught here first)
FieldsInRange(t) ==
    /\ TX(t) \in {0, 1} /\ TCon(t) \in {0, 1}
    /\ TLen(t) \in 0..65535                            \* [T] "the maximum token length is 65535 bytes"
    /\ IF IsSimple(t) THEN TA(t) \in 0..2097151 /\ TB(t) \in 0..33554431
                      ELSE TA(t) \in 0..8388607 /\ TB(t) \in 0..8388607
\* [H] only categories 0..7 are defined for base tokens
CategoryDefined(t) == IsBase(t) => Vbc(t) \in 0..7
\* [T] "at 21 bits, the VBD can hold every valid Unicode code point, up to U+10FFFF": the 21 bits of a code point
\* token hold a code point, i.e. at most 0x10FFFF.  (Whether a lone surrogate may be named is not stated; not demanded.)
CodePointValid(t) == IsCat(t, VbcUnicodeCodePoint) => Vbd(t) <= 1114111

\* ---- rule 1: the tokens partition the source bytes ----------------------------------------
\* [T] "The tokens partition the bytes. Each byte belongs to exactly one token. Each token spans zero or more
\* bytes ... each token would correspond to a sub-slice, one whose length was the token length and whose position
\* was the sum of all previous tokens' lengths."  A consumer (example/jsonptr) finds a token's bytes at
\* src[cursor - len .. cursor) right after the call that produced the token, so the tokens written by a call cover
\* exactly the bytes that call consumed: first token at `from`, each next one where the previous ended, the last
\* one ending at `to`.  With the recorded positions this is a chain of local equalities (no summation).
PositionsChain(toks, from, to) ==
    IF Len(toks) = 0 THEN from = to
    ELSE /\ TPos(toks[1]) = from
         /\ \A i \in 1..(Len(toks) - 1) : TPos(toks[i + 1]) = TPos(toks[i]) + TLen(toks[i])
         /\ TPos(toks[Len(toks)]) + TLen(toks[Len(toks)]) = to

\* ---- rule 2: chains ----------------------------------------------------------------------
\* [T] "The continued bit is whether the token chain for this token also contains the next token. The final token
\* in a token chain, including stand-alone tokens, will have the continued bit set to zero."  A finished stream
\* (status ok) therefore ends with a token whose continued bit is 0: ChainClosedAtEnd(lastCon).
ChainClosedAtEnd(lastCon) == lastCon = 0
\* [T] "Extended tokens are typically part of a multi-token chain whose first token is a simple token that provides
\* the semantics for each value_extension": an extended token never starts a chain.
\* [C] "When a token chain contains extended tokens like this, all but the last token has zero length."
\* prevCon / prevLen describe the token before toks[i] (the last token of the previous call for i = 1).
ExtendedInsideChain(toks, prevCon, prevLen) ==
    \A i \in 1..Len(toks) :
        IsExtended(toks[i]) =>
            LET pc == IF i = 1 THEN prevCon ELSE TCon(toks[i - 1])
                pl == IF i = 1 THEN prevLen ELSE TLen(toks[i - 1])
            IN pc = 1 /\ pl = 0
\* [J] DECODER_NUMBER_LENGTH_MAX_INCL: "this package's tokenizer never splits a single JSON number into multiple
\* tokens"; [C] emits floating point numbers as one token too: a NUMBER token is a chain of its own.
NumberUnsplit(toks, prevCon) ==
    \A i \in 1..Len(toks) :
        IsCat(toks[i], VbcNumber) => (TCon(toks[i]) = 0 /\ (IF i = 1 THEN prevCon ELSE TCon(toks[i - 1])) = 0)

\* ---- rule 3: structure tokens are balanced -------------------------------------------------
\* [T] "Structure is another [VBC], for container boundaries like the start and end of HTML elements and JSON
\* arrays"; [H] PUSH / POP, FROM_{NONE,LIST,DICT}, TO_{NONE,LIST,DICT}.  A stack of container kinds (1 list, 2 dict;
\* 0 stands for "none", the empty stack): PUSH enters a TO-kind container from a FROM-kind one, POP leaves a
\* FROM-kind container back into a TO-kind one; never a pop on the empty stack; empty again when the stream is done.
KindOf(vbd, none, list, dict) ==
    IF Bit(vbd, list) THEN 1 ELSE IF Bit(vbd, dict) THEN 2 ELSE IF Bit(vbd, none) THEN 0 ELSE 3
OneOf3(vbd, p, q, r) == (IF Bit(vbd, p) THEN 1 ELSE 0) + (IF Bit(vbd, q) THEN 1 ELSE 0) + (IF Bit(vbd, r) THEN 1 ELSE 0) = 1
Top(stack) == IF Len(stack) = 0 THEN 0 ELSE stack[Len(stack)]
\* one structure token against the stack: [stack, ok]
StructStep(acc, t) ==
    LET vbd == Vbd(t)
        from == KindOf(vbd, SFromNone, SFromList, SFromDict)
        to == KindOf(vbd, SToNone, SToList, SToDict)
        shape == Bit(vbd, SPush) # Bit(vbd, SPop) /\ OneOf3(vbd, SFromNone, SFromList, SFromDict) /\ OneOf3(vbd, SToNone, SToList, SToDict)
    IN IF ~acc.ok THEN acc
       ELSE IF ~shape THEN [acc EXCEPT !.ok = FALSE]
       ELSE IF Bit(vbd, SPush)
            THEN IF from = Top(acc.stack) /\ to \in {1, 2}
                 THEN [acc EXCEPT !.stack = Append(@, to)] ELSE [acc EXCEPT !.ok = FALSE]
            ELSE IF Len(acc.stack) > 0 /\ from = Top(acc.stack)
                    /\ to = Top(SubSeq(acc.stack, 1, Len(acc.stack) - 1))
                 THEN [acc EXCEPT !.stack = SubSeq(@, 1, Len(@) - 1)] ELSE [acc EXCEPT !.ok = FALSE]
IsStructure(t) == IsCat(t, VbcStructure)
\* all structure tokens of a call against the stack the previous calls left
StructWalk(stack, toks) == SeqX!FoldLeft(StructStep, [stack |-> stack, ok |-> TRUE], SelectSeq(toks, IsStructure))
StructBalancedAtEnd(stack) == stack = <<>>

\* ---- rule 4: UTF-8 does not straddle tokens -------------------------------------------------
\* [H] "DEFINITELY_FOO means that the destination bytes (and also the source bytes, for 1_DST_1_SRC_COPY) are in the
\* FOO format ... When a CHAIN_ETC_UTF_8 bit is set, the parser must ensure that non-ASCII code points (with
\* multi-byte UTF-8 encodings) do not straddle token boundaries.  Checking UTF-8 validity can inspect each token
\* separately."  So the bytes of a 1:1-copy STRING token flagged DEFINITELY_UTF_8 or CHAIN_MUST_BE_UTF_8 are, by
\* themselves, valid UTF-8; flagged DEFINITELY_ASCII or CHAIN_MUST_BE_ASCII they are all below 0x80.
\* UTF-8 validity is a local property: every byte is ASCII, or a lead byte followed inside the span by the right
\* continuation bytes, or a continuation byte that some lead byte at most 3 positions earlier accounts for.
IsCont(b) == b \in 128..191
LeadLen(b) == IF b < 128 THEN 1 ELSE IF b \in 194..223 THEN 2 ELSE IF b \in 224..239 THEN 3 ELSE IF b \in 240..244 THEN 4 ELSE 0
\* the second byte's range depends on the lead byte (no overlong forms, no surrogates, nothing above U+10FFFF)
SecondOk(b0, b1) == CASE b0 = 224 -> b1 \in 160..191
                      [] b0 = 237 -> b1 \in 128..159
                      [] b0 = 240 -> b1 \in 144..191
                      [] b0 = 244 -> b1 \in 128..143
                      [] OTHER -> IsCont(b1)
\* bytes: a function on lo..hi (1-based indexes into the bytes the call consumed)
Utf8ValidSpan(bytes, lo, hi) ==
    \A i \in lo..hi :
        LET b == bytes[i] IN
        \/ b < 128
        \/ /\ LeadLen(b) >= 2
           /\ i + LeadLen(b) - 1 <= hi
           /\ SecondOk(b, bytes[i + 1])
           /\ \A k \in 2..(LeadLen(b) - 1) : IsCont(bytes[i + k])
        \/ /\ IsCont(b)
           /\ \E k \in 1..3 : /\ i - k >= lo
                              /\ LeadLen(bytes[i - k]) > k
                              /\ \A m \in 1..(k - 1) : IsCont(bytes[i - m])
AsciiSpan(bytes, lo, hi) == \A i \in lo..hi : bytes[i] < 128
NeedsUtf8(t) == IsCat(t, VbcString) /\ Bit(Vbd(t), StrCopy) /\ (Bit(Vbd(t), StrDefinitelyUtf8) \/ Bit(Vbd(t), StrChainMustBeUtf8))
NeedsAscii(t) == IsCat(t, VbcString) /\ Bit(Vbd(t), StrCopy) /\ (Bit(Vbd(t), StrDefinitelyAscii) \/ Bit(Vbd(t), StrChainMustBeAscii))
\* toks with positions; bytes = the source bytes consumed by the call, the first of them at stream offset `from`
Utf8NotStraddled(toks, bytes, from) ==
    \A i \in 1..Len(toks) :
        LET t == toks[i]
            lo == TPos(t) - from + 1
            hi == lo + TLen(t) - 1
        IN /\ NeedsUtf8(t) => (lo >= 1 /\ hi <= Len(bytes) /\ Utf8ValidSpan(bytes, lo, hi))
           /\ NeedsAscii(t) => (lo >= 1 /\ hi <= Len(bytes) /\ AsciiSpan(bytes, lo, hi))

\* ---- the normal form ------------------------------------------------------------------------
\* What may a buffer boundary (an exhausted source window, a full token buffer, the 16-bit length field) change in
\* the token sequence?  It may cut one token into consecutive tokens that say the same thing about consecutive
\* spans.  That is meaningful only for tokens whose meaning is ADDITIVE over the concatenation of their spans:
\*   * base STRING tokens: [H] "CONVERT_D_DST_S_SRC means that multiples of S source bytes ... produces multiples of
\*     D destination bytes" - converting span1 then span2 is converting span1 span2; [T] gives the 65535-byte
\*     limit as the first reason why one string is several tokens of one chain.
\*   * base FILLER tokens: [T] "Such tokens can generally be ignored (other than accumulating their length)".
\* Nothing else is additive: a UNICODE_CODE_POINT token is exactly one code point ([T]: "can each be represented by
\* a single VBC__UNICODE_CODE_POINT token"), a NUMBER is never split ([J]), STRUCTURE / LITERAL / INLINE_INTEGER
\* tokens and every extended or non-base token stand for one item.
\* Two adjacent tokens a, b are the two halves of one cut token when they carry the same value (all 47 value bits),
\* the value is additive, and
\*   (chain rule)  a is continued: b belongs to a's chain ([T]: "The continued bit is whether the token chain for
\*                 this token also contains the next token"), or
\*   (plain-filler rule)  the value is 0 = base FILLER without any detail bit (white space).  Refinement forced by
\*                 the unchanged code: std/json emits white space as STAND-ALONE filler tokens (continued = 0) and
\*                 flushes the run it has seen whenever the source window ends, so "   " is one token of length 3
\*                 in a one-shot run and three tokens of length 1 under 1-byte source pieces (674 of 3555 compared
\*                 split runs differed from their one-shot run under the chain rule alone, none under both rules).
\*                 Justified by [T]'s "ignored (other than accumulating their length)"; it is NOT extended to
\*                 filler with detail bits (punctuation, comments), whose chains are kept apart.
\* The merged token has the common value, b's continued bit (it ends where b ends) and the summed length, which may
\* exceed 65535: the normal form is an abstract stream, not a representable one.
Additive(t) == IsBase(t) /\ Vbc(t) \in {VbcFiller, VbcString}
SameValue(a, b) == a[1] = b[1] /\ a[2] = b[2] /\ a[3] = b[3]
PlainFiller(t) == IsBase(t) /\ TB(t) = 0
Mergeable(a, b) == SameValue(a, b) /\ Additive(a) /\ (TCon(a) = 1 \/ PlainFiller(a))
Merge(a, b) == <<a[1], a[2], a[3], b[4], a[5] + b[5]>>

\* one token against the normal form built so far (what the driver's incremental tok_nf_add does too)
NormStep(acc, t) ==
    IF Len(acc) > 0 /\ Mergeable(acc[Len(acc)], t)
    THEN [acc EXCEPT ![Len(acc)] = Merge(@, t)]
    ELSE Append(acc, Core(t))
NormaliseFrom(acc, toks) == SeqX!FoldLeft(NormStep, acc, toks)
Normalise(toks) == NormaliseFrom(<<>>, toks)
\* the normal form of a stream that arrives as a sequence of token sequences (one per call)
NormaliseMany(tokseqs) == SeqX!FoldLeft(NormaliseFrom, <<>>, tokseqs)

\* The same function by divide and conquer (whether two neighbours merge depends on those two tokens only, so the
\* normal form of a concatenation is the two normal forms joined at the seam); TokenStreamMC checks the equality.
Join(l, r) ==
    IF Len(l) = 0 THEN r ELSE IF Len(r) = 0 THEN l
    ELSE IF Mergeable(l[Len(l)], r[1])
         THEN SubSeq(l, 1, Len(l) - 1) \o <<Merge(l[Len(l)], r[1])>> \o SubSeq(r, 2, Len(r))
         ELSE l \o r
RECURSIVE NormaliseDC(_)
NormaliseDC(toks) ==
    IF Len(toks) = 0 THEN <<>>
    ELSE IF Len(toks) = 1 THEN <<Core(toks[1])>>
    ELSE LET m == Len(toks) \div 2
         IN Join(NormaliseDC(SubSeq(toks, 1, m)), NormaliseDC(SubSeq(toks, m + 1, Len(toks))))

TotalLen(toks) == SeqX!FoldLeft(LAMBDA n, t : n + TLen(t), 0, toks)
=============================================================================

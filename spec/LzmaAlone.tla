------------------------------ MODULE LzmaAlone ------------------------------
(***************************************************************************)
(* C17: the .lzma ("LZMA alone") file: a 13-byte header followed by the     *)
(* range coder's byte stream.  Source: LZMA-SDK DOC/lzma-specification.txt  *)
(*                                                                         *)
(*   offset 0      properties byte  = (pb * 5 + lp) * 9 + lc,               *)
(*                 lc in 0..8, lp in 0..4, pb in 0..4  (so the byte < 225)  *)
(*   offset 1..4   dictionary size, u32le (any value; decoders use at least *)
(*                 4096)                                                    *)
(*   offset 5..12  uncompressed size, u64le; 0xFFFF_FFFF_FFFF_FFFF means    *)
(*                 "unknown": the stream must then end with an              *)
(*                 end-of-stream marker.  With a known size the decoder     *)
(*                 stops after that many bytes (a marker is optional).      *)
(*   offset 13     range coder: one byte that must be 0x00, then four bytes *)
(*                 of initial code which must not be 0xFFFF_FFFF            *)
(*                 (RangeDecoder::Init of the specification).               *)
(*                                                                         *)
(* As in XzLayout, an action takes one parsed event and is enabled iff the  *)
(* unit is legal; the module is used as trace acceptor (Trace_XzLayout) and *)
(* model-checked alone as a generator (LGenSpec).                           *)
(***************************************************************************)
EXTENDS Integers, TLC

VARIABLES
    lphase,   \* "idle", "header", "payload", "end", "done"
    loff,     \* offset of the next unparsed byte
    lmarker   \* TRUE iff the header said "unknown size": an end marker is owed

lzvars == <<lphase, loff, lmarker>>

LzInit == lphase = "header" /\ loff = 0 /\ lmarker = FALSE
LzIdle == lphase = "idle" /\ loff = 0 /\ lmarker = FALSE

LzGoto(ph) == lphase' = ph /\ loff' = 0 /\ lmarker' = FALSE

LProps(p) == [lc |-> p % 9, lp |-> (p \div 9) % 5, pb |-> p \div 45]

(* `plen` is the number of bytes the file has to decode to.                 *)
LHeader(e, plen) ==
    /\ e.ev = "lheader" /\ lphase = "header"
    /\ e.off = loff /\ e.len = 13
    /\ e.props \in 0..224
    /\ LProps(e.props).lc \in 0..8 /\ LProps(e.props).lp \in 0..4 /\ LProps(e.props).pb \in 0..4
    /\ e.dictlo \in 0..65535 /\ e.dicthi \in 0..65535
    /\ e.known => ~e.ubig /\ e.usize = plen       \* a known size is THE size
    /\ lmarker' = ~e.known
    /\ loff' = loff + 13
    /\ lphase' = "payload"

LPayload(e) ==
    /\ e.ev = "lpayload" /\ lphase = "payload"
    /\ e.off = loff
    /\ e.len >= 5                                 \* the five initialisation bytes
    /\ e.first = 0 /\ ~e.initff
    /\ loff' = loff + e.len
    /\ lphase' = "end"
    /\ UNCHANGED lmarker

(* Whether an owed end-of-stream marker is present cannot be seen without   *)
(* decoding; it is part of what the independent decoders judge (the trace   *)
(* specification's terminal conditions).                                    *)
LEof(e, flen) ==
    /\ e.ev = "eof" /\ lphase = "end"
    /\ e.off = loff /\ loff = flen /\ e.len = 0
    /\ lphase' = "done"
    /\ UNCHANGED <<loff, lmarker>>

LzStep(e, flen, plen) == LHeader(e, plen) \/ LPayload(e) \/ LEof(e, flen)

---------------------------------------------------------------------------
(* GENERATOR.                                                               *)
CONSTANT LGenPlen      \* payload lengths to try

LGenHeader ==
    { [ev |-> "lheader", off |-> o, len |-> l, props |-> p, dictlo |-> dl, dicthi |-> dh,
       known |-> k, usize |-> u, ubig |-> b] :
        o \in {0, 1}, l \in {13}, p \in {0, 8, 93, 224, 225, 255}, dl \in {0, 4096, 65535}, dh \in {0, 1, 65535},
        k \in BOOLEAN, u \in LGenPlen \cup {0, 1}, b \in BOOLEAN }
LGenPayload ==
    { [ev |-> "lpayload", off |-> loff, len |-> l, first |-> f, initff |-> i] :
        l \in {0, 4, 5, 6, 100}, f \in {0, 1, -1}, i \in BOOLEAN }
LGenEof == { [ev |-> "eof", off |-> o, len |-> 0] : o \in {loff, loff + 1} }

LGenNext == \E e \in LGenHeader \cup LGenPayload \cup LGenEof, pl \in LGenPlen : LzStep(e, loff, pl)
LGenSpec == LzInit /\ [][LGenNext]_lzvars

LTypeOK == lphase \in {"idle", "header", "payload", "end", "done"} /\ loff \in Nat /\ lmarker \in BOOLEAN
\* The smallest .lzma file has 18 bytes.
LDoneInv == lphase = "done" => loff >= 18
LPayloadInv == lphase = "payload" => loff = 13
=============================================================================

------------------------------ MODULE FmtBits ------------------------------
(***************************************************************************)
(* C07 helper: bytes, bit strings and hexadecimal text for the small        *)
(* format models (Adler32, Crc, DeflateStored, ZlibFrame, GzipFrame,        *)
(* LzwGif, PngFilter).  TLC's integers are 32-bit, so 32/64-bit words are   *)
(* kept as sequences of 16-bit limbs (most significant first) or as         *)
(* sequences of bits; a byte is an integer 0..255; a bit is 0 or 1.         *)
(***************************************************************************)
EXTENDS Integers, Sequences

HexChars == <<"0", "1", "2", "3", "4", "5", "6", "7", "8", "9", "a", "b", "c", "d", "e", "f">>
Hex8(b) == HexChars[(b \div 16) + 1] \o HexChars[(b % 16) + 1]
Hex16(n) == Hex8(n \div 256) \o Hex8(n % 256)

\* hexadecimal text of a word given as 16-bit limbs, most significant first
RECURSIVE HexLimbsFrom(_, _)
HexLimbsFrom(s, i) == IF i > Len(s) THEN "" ELSE Hex16(s[i]) \o HexLimbsFrom(s, i + 1)
HexLimbs(s) == HexLimbsFrom(s, 1)

\* bytes of a word given as 16-bit limbs
BytesBE(s) == [i \in 1..(2 * Len(s)) |-> IF i % 2 = 1 THEN s[(i + 1) \div 2] \div 256 ELSE s[i \div 2] % 256]
BytesLE(s) == LET be == BytesBE(s) IN [i \in 1..Len(be) |-> be[Len(be) + 1 - i]]

\* n bits of the value v, least / most significant bit first
BitsLSB(v, n) == [i \in 1..n |-> (v \div (2 ^ (i - 1))) % 2]
BitsMSB(v, n) == [i \in 1..n |-> (v \div (2 ^ (n - i))) % 2]

\* the bits of a byte string, each byte least significant bit first (the order in which DEFLATE and GIF-LZW read them)
BitsOfBytes(bs) == [i \in 1..(8 * Len(bs)) |-> (bs[((i - 1) \div 8) + 1] \div (2 ^ ((i - 1) % 8))) % 2]

\* pack a bit string into bytes, least significant bit first, the last byte padded with zero bits
BitAt(bits, i) == IF i <= Len(bits) THEN bits[i] ELSE 0
PackLSB(bits) == [k \in 1..((Len(bits) + 7) \div 8) |->
                    BitAt(bits, 8 * k - 7) + 2 * BitAt(bits, 8 * k - 6) + 4 * BitAt(bits, 8 * k - 5) + 8 * BitAt(bits, 8 * k - 4)
                    + 16 * BitAt(bits, 8 * k - 3) + 32 * BitAt(bits, 8 * k - 2) + 64 * BitAt(bits, 8 * k - 1) + 128 * BitAt(bits, 8 * k)]

\* value of the n bits after position pos (0-based), least / most significant first
RECURSIVE ValLSB(_, _, _)
ValLSB(bits, pos, n) == IF n = 0 THEN 0 ELSE bits[pos + 1] + 2 * ValLSB(bits, pos + 1, n - 1)
RECURSIVE ValMSB(_, _, _)
ValMSB(bits, pos, n) == IF n = 0 THEN 0 ELSE bits[pos + 1] * (2 ^ (n - 1)) + ValMSB(bits, pos + 1, n - 1)

\* XOR of two bytes through a 16 x 16 table of nibbles that TLC builds once (no arithmetic on wide words anywhere;
\* constant definitions are evaluated eagerly at start-up, so the table is kept small)
RECURSIVE XorN(_, _, _)
XorN(a, b, n) == IF n = 0 THEN 0 ELSE (((a % 2) + (b % 2)) % 2) + 2 * XorN(a \div 2, b \div 2, n - 1)
XorNibTab == [a \in 0..15 |-> [b \in 0..15 |-> XorN(a, b, 4)]]
XorB(a, b) == 16 * XorNibTab[a \div 16][b \div 16] + XorNibTab[a % 16][b % 16]

\* concatenation of a sequence of sequences
RECURSIVE FlattenFrom(_, _)
FlattenFrom(ss, i) == IF i > Len(ss) THEN <<>> ELSE ss[i] \o FlattenFrom(ss, i + 1)
Flatten(ss) == FlattenFrom(ss, 1)

\* all sequences over S of length exactly n / at most n
RECURSIVE SeqsOfLen(_, _)
SeqsOfLen(S, n) == IF n = 0 THEN {<<>>} ELSE { Append(s, x) : s \in SeqsOfLen(S, n - 1), x \in S }
SeqsUpTo(S, n) == UNION { SeqsOfLen(S, k) : k \in 0..n }

\* a small deterministic pseudo-random stream (x' = 75 x + 74 mod 65537; every product stays below 2^31)
LcgNext(x) == (x * 75 + 74) % 65537
RECURSIVE LcgSeq(_, _)
LcgSeq(x, n) == IF n = 0 THEN <<>> ELSE <<LcgNext(x)>> \o LcgSeq(LcgNext(x), n - 1)
=============================================================================

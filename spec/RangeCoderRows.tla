---------------------------- MODULE RangeCoderRows ----------------------------
(***************************************************************************)
(* C17, binding of RangeCoder.tla to lib/litonlylzma: TLC as an independent *)
(* decoder of what Encode really wrote.                                     *)
(*                                                                         *)
(* harness/cmd/lzmareplay -mode rows encodes EVERY payload of a small       *)
(* family with the working tree's litonlylzma and writes one row per        *)
(* (format, payload):                                                       *)
(*     <<fmt, z, np, rt, rem, xz, wf, p_1 .. p_np, e_1 .. e_m>>             *)
(* payload = p_1 .. p_np followed by z zero bytes; e = the whole encoded    *)
(* file; rt / rem = what litonlylzma.Decode returned for e; xz / wf = what  *)
(* `xz -dc` (one process over the concatenated .xz streams) and the Wuffs   *)
(* decoders (one process) made of e (see rows.go for the codes).            *)
(*                                                                         *)
(* Every row becomes one state (rows are grouped in chunks only so that     *)
(* TLC's workers share them: the successors of a chunk state are its rows;  *)
(* a row's verdict is computed once, when its state is generated).  The     *)
(* invariants are the property:                                             *)
(*   DecodesTo      the specification's decoder (RangeCoder!FileVerdict)    *)
(*                  returns exactly the payload, consumes exactly the       *)
(*                  range-coded bytes and ends with code = 0;               *)
(*   ImplRoundTrip  litonlylzma.Decode returned the payload, nothing left;  *)
(*   IndependentOK  xz and the Wuffs decoder returned the payload.          *)
(* Modelled is not a verdict: a row whose file uses a legal feature that    *)
(* RangeCoder.tla does not decode must be looked at by a human.             *)
(***************************************************************************)
EXTENDS RangeCoder, Json

CONSTANT RowsFile

Rows == JsonDeserialize(RowsFile)

VARIABLES c,    \* chunk of rows (0: none chosen yet)
          k,    \* row (0: none chosen yet)
          v     \* the specification's verdict on row k
vars == <<c, k, v>>

RowPayload(r) == SubSeq(r, 8, 7 + r[3]) \o Zeros(r[2])
RowFile(r)    == SubSeq(r, 8 + r[3], Len(r))
Verdict(r)    == FileVerdict(r[1], RowFile(r), RowPayload(r))

ChunkSize == 64
NChunks == (Len(Rows) + ChunkSize - 1) \div ChunkSize
Last(ch) == IF ch * ChunkSize < Len(Rows) THEN ch * ChunkSize ELSE Len(Rows)

Init == c = 0 /\ k = 0 /\ v = "init"
PickChunk == c = 0 /\ c' \in 1..NChunks /\ UNCHANGED <<k, v>>
PickRow == /\ c > 0 /\ k = 0
           /\ k' \in ((c - 1) * ChunkSize + 1)..Last(c)
           /\ v' = Verdict(Rows[k'])
           /\ UNCHANGED c
Next == PickChunk \/ PickRow
Spec == Init /\ [][Next]_vars

Modelled == v # "unmodelled"
DecodesTo == k > 0 => (v \in {"ok", "unmodelled"} \/ (PrintT(<<"ROW-REJECTED", k, v>>) /\ FALSE))
ImplRoundTrip == k > 0 => (Rows[k][4] = 1 /\ Rows[k][5] = 0)
IndependentOK == k > 0 => (Rows[k][6] \in {1, 2} /\ Rows[k][7] \in {1, 2})

(* Survey (used only after a rejection, to count and list): never false,    *)
(* prints one line per row that any of the invariants rejects.              *)
Survey ==
    k > 0 =>
    LET r == Rows[k] IN
        (v \in {"ok", "unmodelled"} /\ r[4] = 1 /\ r[5] = 0 /\ r[6] \in {1, 2} /\ r[7] \in {1, 2})
        \/ PrintT(<<"ROW-SURVEY", k, v, r[4], r[5], r[6], r[7]>>)
=============================================================================

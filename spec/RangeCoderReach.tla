---------------------------- MODULE RangeCoderReach ----------------------------
(***************************************************************************)
(* C17: which PAYLOADS drive a literal-only LZMA encoder, started in the    *)
(* reset state, into its rare states?  The reference encoder of             *)
(* RangeCoder.tla is run by TLC over every payload (over Alphabet) of       *)
(* length <= FullLen, and beyond that (up to MaxLen) only from states that  *)
(* are about to do something rare (the top byte of low is 0xFF, a carry     *)
(* stands in bit 32 over a small low).  A state in which a rare event has   *)
(* just happened prints its payload (the invariant Report is never false:   *)
(* this is a reachability query whose answers are the payloads).            *)
(*                                                                         *)
(*   exact32      ShiftLow was called with low = 2^32 exactly               *)
(*   carry_pend   a carry was propagated into k >= 1 pending 0xFF bytes     *)
(*   pend         k >= 1 bytes 0xFF were pending at a ShiftLow              *)
(*   eq24 / m24   after a decision range was exactly 2^24 (not normalised)  *)
(*                / exactly 2^24 - 1 (normalised)                           *)
(*   cacheff      the cache byte is 0xFF (set by a carrying ShiftLow)       *)
(*   pend_last    0xFF bytes are still pending when the LAST byte of the    *)
(*                flush is written (the low byte of low is 0xFF)            *)
(* The suffix _flush says the event happened in the five ShiftLow calls of  *)
(* the final flush rather than while coding the last byte.                  *)
(*                                                                         *)
(* Design-level check on the way: for every payload visited, the            *)
(* specification's decoder gives the payload back from the encoder's bytes  *)
(* (consuming all of them, ending with code = 0), and EncInv holds.         *)
(***************************************************************************)
EXTENDS RangeCoder, RangeCoderRare, Json

CONSTANTS Alphabet,    \* the bytes payloads are made of (0..255, or a small set for a deep search)
          MaxLen,      \* longest payload
          FullLen,     \* every payload up to this length is visited
          RtLen        \* the round trip is checked for every payload up to this length
                       \* (and, whatever the length, for every payload that reports an event)

AllBytes == 0..255          \* for the configuration file:  Alphabet <- AllBytes

VARIABLES pay, e, pm, ev
vars == <<pay, e, pm, ev>>

Init == pay = <<>> /\ e = EncInit /\ pm = NoProbs /\ ev = [kinds |-> {}, cp |-> 0, pend |-> 0, rt |-> TRUE]

Events(e0, e1, fl, n) ==
       (IF e1.x32 > e0.x32 THEN {"exact32"} ELSE {})
  \cup (IF fl.x32 > e1.x32 THEN {"exact32_flush"} ELSE {})
  \cup (IF e1.cp > e0.cp THEN {"carry_pend"} ELSE {})
  \cup (IF fl.cp > e1.cp THEN {"carry_pend_flush"} ELSE {})
  \cup (IF e1.mcs > e0.mcs THEN {"pend"} ELSE {})
  \cup (IF fl.mcs > e1.mcs THEN {"pend_flush"} ELSE {})
  \cup (IF e1.eq24 > e0.eq24 /\ n = 1 THEN {"eq24"} ELSE {})     \* common: reported for 1-byte payloads only
  \cup (IF e1.m24 > e0.m24 THEN {"m24"} ELSE {})
  \cup (IF e1.cache = 255 /\ e0.cache # 255 THEN {"cacheff"} ELSE {})
  \cup (IF ShiftLow(ShiftLow(ShiftLow(ShiftLow(e1)))).cs >= 2 THEN {"pend_last"} ELSE {})

(* Inside the directed subtrees single pending bytes and carries into them  *)
(* are the rule, not the exception: only every 16th of those is printed.    *)
Loud(kinds, cp, pend, p) ==
    \/ kinds \cap {"exact32", "exact32_flush", "m24", "cacheff", "eq24", "pend_last"} # {}
    \/ kinds # {} /\ (Len(p) <= 2 \/ cp >= 2 \/ pend >= 2 \/ p[Len(p)] % 16 = 0)

RoundTripOf(p, fl) ==
    LET s == DecodeSegment(fl.out, Len(p)) IN SegmentOK(s) /\ s.out = p

(* Worth extending: the top byte of low is 0xFF (the next ShiftLow adds a    *)
(* pending byte), or low is 2^32 plus very little.                          *)
Promising(x) == x.lh >= 65280 \/ (x.c = 1 /\ x.lh < 256)
Expand == IF Len(pay) < FullLen THEN TRUE ELSE Promising(e)

Next ==
    /\ Len(pay) < MaxLen
    /\ Expand
    /\ \E b \in Alphabet :
         LET r  == EncLiteral(e, pm, Len(pay), IF pay = <<>> THEN 0 ELSE pay[Len(pay)], b)
             fl == EncFlush(r.e)
             p  == Append(pay, b)
             ks == Events(e, r.e, fl, Len(p))
             ld == Loud(ks, fl.cp, fl.mcs - 1, p)
         IN  /\ pay' = p
             /\ e' = r.e
             /\ pm' = r.pm
             /\ ev' = [kinds |-> IF ld THEN ks ELSE {}, cp |-> fl.cp, pend |-> fl.mcs - 1,
                       rt |-> IF Len(p) <= RtLen \/ ld THEN RoundTripOf(p, fl) ELSE TRUE]

Spec == Init /\ [][Next]_vars

RoundTripOK == ev.rt
EncoderOK == EncInv(e) /\ ~EncFlush(e).bad
Report == ev.kinds = {} \/ PrintT(ToJson([kinds |-> ev.kinds, cp |-> ev.cp, pend |-> ev.pend, pay |-> pay]))

---------------------------------------------------------------------------
(* CONFIRMATION of the recorded answers (RangeCoderRare.tla): every entry   *)
(* (kind, payload) is an initial state; the encoder is run over the whole   *)
(* payload and the recorded kind must be among the events that occurred.    *)
AllKinds(x, fl) ==
       (IF x.x32 > 0 THEN {"exact32"} ELSE {})
  \cup (IF fl.x32 > x.x32 THEN {"exact32_flush"} ELSE {})
  \cup (IF x.cp > 0 THEN {"carry_pend"} ELSE {})
  \cup (IF fl.cp > x.cp THEN {"carry_pend_flush"} ELSE {})
  \cup (IF x.mcs > 1 THEN {"pend"} ELSE {})
  \cup (IF fl.mcs > x.mcs THEN {"pend_flush"} ELSE {})
  \cup (IF x.eq24 > 0 THEN {"eq24"} ELSE {})
  \cup (IF x.m24 > 0 THEN {"m24"} ELSE {})
  \cup (IF x.cache = 255 THEN {"cacheff"} ELSE {})
  \cup (IF ShiftLow(ShiftLow(ShiftLow(ShiftLow(x)))).cs >= 2 THEN {"pend_last"} ELSE {})

ConfirmInit ==
    \E i \in 1..Len(RarePayloads) :
        LET p  == RarePayloads[i][2]
            x  == EncLits(EncInit, NoProbs, 0, 0, p)
            fl == EncFlush(x)
        IN  /\ pay = p /\ e = x /\ pm = NoProbs
            /\ ev = [kinds |-> AllKinds(x, fl), cp |-> fl.cp, pend |-> fl.mcs - 1, rt |-> RoundTripOf(p, fl)]
ConfirmSpec == ConfirmInit /\ [][UNCHANGED vars]_vars
Confirmed == \A i \in 1..Len(RarePayloads) : RarePayloads[i][2] = pay => RarePayloads[i][1] \in ev.kinds

ASSUME PrintT(ToJson([boundary_seconds |-> BoundarySeconds, boundary_seconds_small |-> BoundarySecondsSmall]))
=============================================================================

------------------------------ MODULE RacWriter ------------------------------
(***************************************************************************)
(* C13: what rac.Writer accepts through Write calls is what the RAC file   *)
(* holds after Close = nil; failures of the underlying writer / temp file  *)
(* are reported and stay reported.                                         *)
(*                                                                         *)
(* Two layers over the same variables.                                     *)
(*                                                                         *)
(* PROPERTY LAYER  <<accepted, chunks, err, closed>> (+ replies).          *)
(*   accepted : the bytes given to Write so far, over the alphabet         *)
(*              {Z, A, B} (Z = 0x00; only zero-ness and identity matter    *)
(*              for elision and ordering)                                  *)
(*   chunks   : emitted chunks [d |-> DRange size, x |-> explicit bytes];  *)
(*              a chunk stands for x followed by d - Len(x) implicit zeroes*)
(*   How the bytes are cut into chunks is NOT fixed: PNext lets any prefix *)
(*   of what is pending be emitted with any number of trailing zeroes left *)
(*   implicit.  Required (PEmit / CloseOK / Sticky):                       *)
(*     - every emitted chunk continues the accepted stream in order        *)
(*       (Flatten(chunks) is a prefix of accepted; DRanges are contiguous  *)
(*       from 0 by construction of Flatten),                               *)
(*     - after Close = nil, Flatten(chunks) = accepted,                    *)
(*     - once the underlying writer or temp file has returned an error,    *)
(*       the current and EVERY later call returns an error (so Close never *)
(*       returns nil).                                                     *)
(*   The same predicates, as constant-level operators on JSON (RowOK,      *)
(*   StickyOK, RealOK), judge what the real code did (checks/C13.py,       *)
(*   harness/cmd/racwreplay).                                              *)
(*                                                                         *)
(* IMPLEMENTATION-SHAPED LAYER (lib/rac/writer.go as it is): writeBuffer's *)
(*   prev / curr / p with extend, peek, advance, advancePastLeadingZeroes,  *)
(*   compact; writeDChunks; writeCChunks / tryCChunk against an abstract   *)
(*   codec whose compressed size CSize is a monotone function of the bytes *)
(*   and whose Cut returns any prefix on a symbol boundary that fits.      *)
(*   TLC checks Conservation (emitted ++ pending = accepted), BetweenCalls *)
(*   (p = 0 /\ curr = <<>>) and the refinement [][PNext]_pvars.            *)
(*   FIXED = FALSE is the code as it is at the pinned commit: there        *)
(*   Conservation FAILS in CChunkSize mode (advancePastLeadingZeroes eats  *)
(*   zeroes of curr while non-zero bytes remain in prev); the counter-     *)
(*   example is a script for the real code.  FIXED = TRUE is the repaired  *)
(*   behaviour (findings/C13-cchunk-zero-reorder.patch).                   *)
(*   Terminal states are exported as JSON scripts (Export).                *)
(***************************************************************************)
EXTENDS Integers, Sequences, FiniteSets, TLC, Json

CONSTANTS
    MaxLen,     \* bound on the number of payload bytes
    DSizes,     \* DChunkSize values
    CSizesStored, \* CChunkSize values tried with the abstract codec "stored"
    CSizesRle,    \* CChunkSize values tried with the abstract codec "rle"
    CutPolicy,  \* "any" (every prefix that fits), "max", "min", "maxmin"
    FIXED,      \* FALSE: the code as it is; TRUE: the repaired advancePastLeadingZeroes
    MaxFault,   \* fault points 0..MaxFault (0 = no fault)
    AllowEmpty, \* TRUE: Write calls with no bytes are part of the scripts
    Canonical,  \* TRUE: only payloads whose first non-zero byte is A (A and B are interchangeable)
    DoExport    \* TRUE: print every terminal state as a JSON script

Sym == {"Z", "A", "B"}

---------------------------------------------------------------------------
(* Sequences of symbols.                                                   *)

RECURSIVE LeadZ(_)
LeadZ(s) == IF s = <<>> THEN 0 ELSE IF s[1] # "Z" THEN 0 ELSE 1 + LeadZ(Tail(s))

RECURSIVE StripTZ(_)
StripTZ(s) == IF s = <<>> THEN s
              ELSE IF s[Len(s)] = "Z" THEN StripTZ(SubSeq(s, 1, Len(s) - 1)) ELSE s

Zeroes(n) == [i \in 1..n |-> "Z"]

\* a chunk stands for its explicit bytes followed by implicit zeroes
Expand(c) == c.x \o Zeroes(c.d - Len(c.x))

RECURSIVE Flatten(_)
Flatten(cs) == IF cs = <<>> THEN <<>> ELSE Expand(cs[1]) \o Flatten(Tail(cs))

RECURSIVE Concat(_)
Concat(ss) == IF ss = <<>> THEN <<>> ELSE ss[1] \o Concat(Tail(ss))

IsPrefix(s, t) == Len(s) <= Len(t) /\ SubSeq(t, 1, Len(s)) = s

WellFormedChunks(cs) == \A i \in 1..Len(cs) : cs[i].d >= 1 /\ Len(cs[i].x) <= cs[i].d

---------------------------------------------------------------------------
(* The abstract codec.  harness/cmd/racwreplay/modelcodec.go implements    *)
(* exactly these size functions.                                           *)

NonZeroes(s) == Cardinality({i \in 1..Len(s) : s[i] # "Z"})
ZeroRuns(s) == Cardinality({i \in 1..Len(s) : s[i] = "Z" /\ (i = 1 \/ s[i-1] # "Z")})

CSize(codec, s) ==
    IF codec = "stored" THEN Len(s) + 1
    ELSE 1 + NonZeroes(s) + 2 * ZeroRuns(s)

\* smallest CChunkSize at which Cut can always keep at least one byte
MinC(codec) == IF codec = "stored" THEN 2 ELSE 3

\* decoded lengths Cut may return for the encoding of s (called only when
\* CSize(s) > c): every non-empty prefix that fits
Fits(codec, s, c) == {n \in 1..Len(s) : CSize(codec, SubSeq(s, 1, n)) <= c}
SetMax(S) == CHOOSE m \in S : \A t \in S : t <= m
SetMin(S) == CHOOSE m \in S : \A t \in S : m <= t
CutChoices(codec, s, c) ==
    LET F == Fits(codec, s, c) IN
    CASE CutPolicy = "any" -> F
      [] CutPolicy = "max" -> {SetMax(F)}
      [] CutPolicy = "min" -> {SetMin(F)}
      [] OTHER -> {SetMax(F), SetMin(F)}

Modes == {[kind |-> "D", n |-> d, codec |-> "stored"] : d \in DSizes}
         \cup {[kind |-> "C", n |-> c, codec |-> "stored"] : c \in CSizesStored}
         \cup {[kind |-> "C", n |-> c, codec |-> "rle"] : c \in CSizesRle}

\* maxTargetDChunkSize (2 GiB in the code): anything larger than every buffer
MaxT == 64

---------------------------------------------------------------------------
VARIABLES
    mode,       \* chosen in Init
    faultAt,    \* chosen in Init: the faultAt-th call on the underlying writer fails (0: none)
    \* property layer
    accepted, chunks, err, closed, replies,
    \* implementation-shaped layer
    pc,         \* "idle", "D", "Co", "Ci", "done"
    prev, p, curr, eof, target,
    io, io0,    \* calls made on the underlying writer so far / at the start of this API call
    \* observation only (exported)
    calls, cuts, ios, construct,
    \* used by the judging specification JSpec only (constant under Spec)
    item

pvars == <<accepted, chunks, err, closed>>
vars == <<mode, faultAt, accepted, chunks, err, closed, replies, pc, prev, p, curr, eof, target,
          io, io0, calls, cuts, ios, construct>>

Init ==
    /\ mode \in {m \in Modes : m.kind = "C" => m.n >= MinC(m.codec)}
    /\ faultAt \in 0..MaxFault
    /\ accepted = <<>> /\ chunks = <<>> /\ err = FALSE /\ closed = FALSE /\ replies = <<>>
    /\ pc = "idle" /\ prev = <<>> /\ p = 0 /\ curr = <<>> /\ eof = FALSE /\ target = 0
    /\ io = 0 /\ io0 = 0
    /\ calls = <<>> /\ cuts = <<>> /\ ios = <<>> /\ construct = FALSE
    /\ item = <<"none", 0>>

---------------------------------------------------------------------------
(* writeBuffer                                                             *)

Avail == Len(prev) - p
BufLen == Avail + Len(curr)
Pending == SubSeq(prev, p + 1, Len(prev)) \o curr

\* peek(n): <<peek0, peek1>>
Peek(n) ==
    IF n <= Avail THEN <<SubSeq(prev, p + 1, p + n), <<>>>>
    ELSE IF n - Avail <= Len(curr) THEN <<SubSeq(prev, p + 1, Len(prev)), SubSeq(curr, 1, n - Avail)>>
    ELSE <<SubSeq(prev, p + 1, Len(prev)), curr>>

\* advance(n): the new <<p, curr>>
Adv(n) ==
    IF n <= Avail THEN <<p + n, curr>>
    ELSE <<Len(prev), SubSeq(curr, n - Avail + 1, Len(curr))>>

\* advancePastLeadingZeroes on <<p1, c1>>: the new <<p, curr, n, hit>>.
\* As it is: once prev[p:] started with a zero, the leading zeroes of curr are
\* consumed too - even when non-zero bytes of prev are still ahead of them.
AdvPastZ(p1, c1) ==
    LET i == LeadZ(SubSeq(prev, p1 + 1, Len(prev))) IN
    IF i = 0 THEN <<p1, c1, 0, FALSE>>
    ELSE LET p2 == p1 + i
             hit == p2 < Len(prev) /\ LeadZ(c1) > 0
             j == IF FIXED /\ p2 < Len(prev) THEN 0 ELSE LeadZ(c1)
         IN <<p2, SubSeq(c1, j + 1, Len(c1)), i + j, hit>>

---------------------------------------------------------------------------
(* Replies, underlying writer calls, faults.                               *)
(* Base configuration (IndexLocationAtEnd, no padding, no resources): the  *)
(* first chunk costs two calls (magic, chunk), every other chunk one, the  *)
(* index one.                                                              *)

EmitOps == IF chunks = <<>> THEN 2 ELSE 1

\* end of an API call.  Write compacts its buffer whatever write() returned.
Finish(r, pNow, currNow) ==
    /\ replies' = Append(replies, r)
    /\ ios' = Append(ios, io' - io0)
    /\ IF eof
       THEN pc' = "done" /\ prev' = prev /\ p' = pNow /\ curr' = currNow
       ELSE pc' = "idle" /\ prev' = SubSeq(prev, pNow + 1, Len(prev)) \o currNow /\ p' = 0 /\ curr' = <<>>

Fail ==
    /\ err' = TRUE
    /\ io' = faultAt
    /\ Finish("err", p, curr)
    /\ UNCHANGED <<mode, faultAt, accepted, chunks, closed, eof, target, io0, calls, cuts, construct>>

FaultIn(n) == faultAt \in (io + 1)..(io + n)

\* emit one chunk, then continue at `next`
Emit(c, pc2, next, cutsNow, hit) ==
    IF FaultIn(EmitOps) THEN Fail
    ELSE /\ chunks' = Append(chunks, c)
         /\ io' = io + EmitOps
         /\ p' = pc2[1] /\ curr' = pc2[2]
         /\ pc' = next
         /\ cuts' = cutsNow
         /\ construct' = (construct \/ hit)
         /\ UNCHANGED <<mode, faultAt, accepted, err, closed, replies, prev, eof, target, io0, calls, ios>>

---------------------------------------------------------------------------
(* The API calls.                                                          *)

FirstNZisA(s) == \A i \in 1..Len(s) : (s[i] = "B") => \E j \in 1..(i - 1) : s[j] = "A"

Datas == UNION {[1..k -> Sym] : k \in (IF AllowEmpty THEN 0 ELSE 1)..MaxLen}

Write(data) ==
    /\ pc = "idle" /\ ~closed
    /\ Len(accepted) + Len(data) <= MaxLen
    /\ Len(calls) <= MaxLen                   \* bounds the number of empty Writes
    /\ data = <<>> => (IF calls = <<>> THEN TRUE ELSE calls[Len(calls)] # <<>>)
    /\ err => data = <<"A">>                  \* what is written after a failure does not matter
    /\ Canonical => FirstNZisA(accepted \o data)
    /\ calls' = Append(calls, data)
    /\ io0' = io
    /\ IF err
       THEN \* sticky: w.initialize() returns w.err
            /\ replies' = Append(replies, "err") /\ ios' = Append(ios, 0)
            /\ UNCHANGED <<mode, faultAt, accepted, chunks, err, closed, pc, prev, p, curr, eof, target, io, cuts, construct>>
       ELSE /\ accepted' = accepted \o data
            /\ curr' = data                   \* extend
            /\ eof' = FALSE
            /\ pc' = IF mode.kind = "D" THEN "D" ELSE "Co"
            /\ UNCHANGED <<mode, faultAt, chunks, err, closed, replies, prev, p, target, io, cuts, ios, construct>>

Close ==
    /\ pc = "idle" /\ ~closed
    /\ closed' = TRUE
    /\ calls' = calls
    /\ io0' = io
    /\ IF err
       THEN /\ replies' = Append(replies, "err") /\ ios' = Append(ios, 0) /\ pc' = "done"
            /\ UNCHANGED <<mode, faultAt, accepted, chunks, err, prev, p, curr, eof, target, io, cuts, construct>>
       ELSE /\ eof' = TRUE
            /\ pc' = IF mode.kind = "D" THEN "D" ELSE "Co"
            /\ UNCHANGED <<mode, faultAt, accepted, chunks, err, replies, prev, p, curr, target, io, cuts, ios, construct>>

\* write() returned nil: Write returns nil; Close goes on to write the index
\* (one more call on the underlying writer) and returns
ReturnNow ==
    IF eof /\ FaultIn(1) THEN Fail
    ELSE /\ io' = IF eof THEN io + 1 ELSE io
         /\ Finish("ok", p, curr)
         /\ UNCHANGED <<mode, faultAt, accepted, chunks, err, closed, eof, target, io0, calls, cuts, construct>>

\* one iteration of writeDChunks
StepD ==
    /\ pc = "D"
    /\ LET pk == Peek(mode.n)
           dsize == Len(pk[1]) + Len(pk[2])
           s1 == StripTZ(pk[2])
           x == IF s1 = <<>> THEN StripTZ(pk[1]) ELSE pk[1] \o s1
       IN IF dsize = 0 \/ (~eof /\ dsize < mode.n) THEN ReturnNow
          ELSE Emit([d |-> dsize, x |-> x], Adv(dsize), "D", cuts, FALSE)

\* writeCChunks.  pc = "Co": at the head of the outer loop (a new chunk is
\* started with the starting target); pc = "Ci": inside the inner loop with a
\* doubled target.  One step = one call of tryCChunk(target, force).
StepC ==
    /\ pc \in {"Co", "Ci"}
    /\ LET t0 == IF eof THEN MaxT ELSE 2 * mode.n
           tgt == IF pc = "Co" THEN t0 ELSE target
           next == IF 2 * tgt > MaxT THEN MaxT ELSE 2 * tgt
           force == next <= tgt
           pk == Peek(tgt)
           s == pk[1] \o pk[2]
           cs == CSize(mode.codec, s)
       IN IF pc = "Co" /\ (BufLen = 0 \/ (~eof /\ BufLen < t0)) THEN ReturnNow
          ELSE IF cs < mode.n /\ ~force
          THEN \* errInternalShortCSize
               IF BufLen <= tgt THEN ReturnNow
               ELSE /\ target' = next /\ pc' = "Ci"
                    /\ UNCHANGED <<mode, faultAt, accepted, chunks, err, closed, replies, prev, p, curr, eof, io, io0, calls, cuts, ios, construct>>
          ELSE IF cs <= mode.n
          THEN LET a == Adv(Len(s))
                   z == AdvPastZ(a[1], a[2])
               IN Emit([d |-> Len(s) + z[3], x |-> s], <<z[1], z[2]>>, "Co", cuts, z[4])
          ELSE \E dl \in CutChoices(mode.codec, s, mode.n) :
               LET a == Adv(dl)
                   z == AdvPastZ(a[1], a[2])
               IN Emit([d |-> dl + z[3], x |-> SubSeq(s, 1, dl)], <<z[1], z[2]>>, "Co", Append(cuts, dl), z[4])

Done == pc = "done" /\ UNCHANGED vars

Next == /\ (\E data \in Datas : Write(data)) \/ Close \/ StepD \/ StepC \/ Done
        /\ UNCHANGED item

Spec == Init /\ [][Next]_<<vars, item>>

---------------------------------------------------------------------------
(* Property layer as a next-state relation over pvars, and the checks.     *)

PWrite == IsPrefix(accepted, accepted') /\ ~closed /\ ~err /\ UNCHANGED <<chunks, err, closed>>
PEmit == /\ SubSeq(chunks', 1, Len(chunks)) = chunks
         /\ WellFormedChunks(chunks')
         /\ IsPrefix(Flatten(chunks'), accepted)
         /\ UNCHANGED <<accepted, err, closed>>
PClose == closed' = TRUE /\ ~closed /\ UNCHANGED <<accepted, chunks, err>>
PFail == err' = TRUE /\ UNCHANGED <<accepted, chunks, closed>>
PNext == PWrite \/ (Len(chunks') = Len(chunks) + 1 /\ PEmit) \/ PClose \/ PFail

\* the implementation-shaped layer refines the property layer
Refines == [][PNext]_pvars

\* emitted ++ pending = accepted (DESIGN C13); trivially true once a fault fired
Conservation == err \/ (WellFormedChunks(chunks) /\ Flatten(chunks) \o Pending = accepted)

BetweenCalls == pc = "idle" => (p = 0 /\ curr = <<>>)

\* after Close = nil everything was emitted
CloseOK == (pc = "done" /\ replies[Len(replies)] = "ok") => (Flatten(chunks) = accepted /\ ~err)

\* replies: nothing but errors after the first error; errors only after a fault
Sticky == /\ \A i \in 1..Len(replies) : \A j \in i..Len(replies) : replies[i] = "err" => replies[j] = "err"
          /\ (\E i \in 1..Len(replies) : replies[i] = "err") => err
          /\ (err /\ pc \in {"idle", "done"}) => replies[Len(replies)] = "err"

TypeOK == /\ p \in 0..Len(prev)
          /\ pc \in {"idle", "D", "Co", "Ci", "done"}
          /\ io <= (IF faultAt = 0 THEN io ELSE faultAt)

\* VIEW for the checking (not exporting) configurations: what was observed
\* along the way does not influence the future
NoHist == <<mode, faultAt, accepted, chunks, err, closed, pc, prev, p, curr, eof, target, io, io0, construct,
            IF replies = <<>> THEN "none" ELSE replies[Len(replies)],
            Len(calls), (calls # <<>> /\ calls[Len(calls)] = <<>>) >>

\* the known construct was reached (used to show that the FIXED model covers it)
NoConstruct == ~construct

---------------------------------------------------------------------------
(* Export of behaviours.                                                   *)

Script == [kind |-> mode.kind, n |-> mode.n, codec |-> mode.codec, calls |-> calls, cuts |-> cuts,
           pchunks |-> chunks, construct |-> construct, ios |-> ios, replies |-> replies,
           faultat |-> faultAt, conserved |-> (Flatten(chunks) = accepted)]

Export == (DoExport /\ pc = "done") => PrintT(ToJson(Script))

\* Conservation, printing the script of the state that breaks it
ConservationX == Conservation \/ (PrintT(ToJson(Script)) /\ FALSE)

---------------------------------------------------------------------------
(* Judging what the real code did (constant-level, on JSON).               *)
(* scripts.json : the exported scripts (sid = position)                    *)
(* rows.json    : one row per <<script, configuration>> run without fault  *)
(* shapes.json  : de-duplicated fault runs                                 *)
(* real.json    : rows of the real-data runs                               *)

Scripts == JsonDeserialize("scripts.json")
Rows == JsonDeserialize("rows.json")
Shapes == JsonDeserialize("shapes.json")
Reals == JsonDeserialize("real.json")

R(name, ok) == IF ok THEN {} ELSE {name}

PChunks(js) == [i \in 1..Len(js) |-> [d |-> js[i].d, x |-> js[i].x]]

\* a run without fault: every call returns nil; the chunks found in the file
\* by the independent walker expand to the bytes written; rac.Reader returns
\* exactly the bytes written
RowReasons(s, r) ==
    LET bytes == Concat(s.calls)
        n == Len(s.calls)
    IN R("panic", r.panic = "")
       \cup R("reply-count", Len(r.replies) = n + 2)
       \cup R("unexpected-error", \A i \in 1..(n + 1) : i <= Len(r.replies) => r.replies[i] = "ok")
       \cup R("no-file", r.trace # 0)
       \cup (IF r.trace # 0 /\ r.haschunks
             THEN R("chunks-malformed", WellFormedChunks(PChunks(r.chunks)))
                  \cup R("chunks-differ-from-written",
                         WellFormedChunks(PChunks(r.chunks)) => Flatten(PChunks(r.chunks)) = bytes)
             ELSE {})
       \cup (IF r.trace # 0
             THEN R("reader-error", r.readok) \cup R("readback-differs", r.readback = bytes)
             ELSE {})

\* a run with an injected fault.  n calls (Write..., Close, Close); the fault
\* fired during call f (0: it never fired); letters O / E / P (no reply: panic)
StickyReasons(sh) ==
       R("shape", Len(sh.letters) = sh.n)
       \cup R("error-before-any-fault",
              \A i \in 1..sh.n : ((sh.f = 0 \/ i < sh.f) /\ i <= sh.closeidx) => sh.letters[i] = "O")
       \cup R("fault-not-reported", sh.f # 0 => sh.letters[sh.f] = "E")
       \cup R("fault-not-sticky", sh.f # 0 => \A i \in sh.f..sh.n : sh.letters[i] = "E")
       \cup R("close-nil-after-fault", (sh.f # 0 /\ sh.f <= sh.closeidx) => sh.letters[sh.closeidx] = "E")

\* a real-data run without fault
RealReasons(r) ==
    R("panic", r.panic = "")
    \cup R("unexpected-error", r.allok)
    \cup R("no-file", r.trace # 0)
    \cup (IF r.trace # 0
          THEN R("reader-error", r.readok)
               \cup R("readback-length", r.readlen = r.origlen)
               \cup R("readback-differs", r.readsha = r.origsha /\ r.firstdiff = 0 - 1)
          ELSE {})

JItems == ({"row"} \X (1..Len(Rows))) \cup ({"shape"} \X (1..Len(Shapes))) \cup ({"real"} \X (1..Len(Reals)))
JInit == /\ item \in JItems
         /\ mode = [kind |-> "D", n |-> 1, codec |-> "stored"] /\ faultAt = 0
         /\ accepted = <<>> /\ chunks = <<>> /\ err = FALSE /\ closed = FALSE /\ replies = <<>>
         /\ pc = "done" /\ prev = <<>> /\ p = 0 /\ curr = <<>> /\ eof = FALSE /\ target = 0
         /\ io = 0 /\ io0 = 0
         /\ calls = <<>> /\ cuts = <<>> /\ ios = <<>> /\ construct = FALSE
JNext == UNCHANGED <<vars, item>>
JSpec == JInit /\ [][JNext]_<<vars, item>>

Reasons(it) ==
    CASE it[1] = "row" -> RowReasons(Scripts[Rows[it[2]].sid], Rows[it[2]])
      [] it[1] = "shape" -> StickyReasons(Shapes[it[2]])
      [] OTHER -> RealReasons(Reals[it[2]])

\* Evaluated by TLC on every item; a rejected item is printed with the names
\* of the clauses it breaks (the runner treats every REJECT line as a
\* rejection by this specification).
Judge == Reasons(item) = {} \/ PrintT(ToJson([verdict |-> "REJECT", kind |-> item[1], idx |-> item[2], reasons |-> Reasons(item)]))
=============================================================================

----------------------------- MODULE PngStored -----------------------------
(***************************************************************************)
(* C19: the OUTPUT GRAMMAR of an uncompressed PNG, as an acceptor of event *)
(* traces (Mode V) and, with the same actions, as a generator that TLC      *)
(* model-checks on small abstract sizes.                                    *)
(*                                                                         *)
(* Written from the PNG specification (2nd ed., section 5 and 11.2.2/3/5),  *)
(* RFC 1950 (zlib) and RFC 1951 section 3.2.4 (stored blocks); NOT from     *)
(* lib/uncompng.  In particular nothing here says that one IDAT chunk holds *)
(* one stored block or that a Write call holds one chunk: the zlib stream   *)
(* is the CONCATENATION of the IDAT payloads and every zlib element - the   *)
(* 2 header bytes, the 5 bytes of a block header, a block's data, the 4     *)
(* Adler bytes - may be split anywhere across IDAT boundaries.              *)
(*                                                                         *)
(* An event is a record [e |-> kind, v |-> <<ints>>, ok |-> BOOLEAN]         *)
(* produced by harness/cmd/pngreplay (walker.go documents the kinds).  The  *)
(* walker only tokenises and MEASURES the two 32-bit checksums (crc_ok /    *)
(* adler_ok arrive in `ok`: 32-bit values do not fit TLC's integers);       *)
(* everything structural is decided here.                                   *)
(*                                                                         *)
(* One trace = one Encode call:                                             *)
(*   begin write* ret ( sig chunk(IHDR) ihdr chunkend                       *)
(*                      ( chunk(IDAT) (zb | zdata | zend)* chunkend )+      *)
(*                      chunk(IEND) chunkend eof pix )?  end                *)
(* The part in parentheses is absent exactly when the injected Write        *)
(* failure happened (then `ret` must report an error and nothing more is    *)
(* demanded of that call).  Many traces are concatenated; End is the        *)
(* TraceReset action.                                                       *)
(***************************************************************************)
EXTENDS Integers, Sequences, FiniteSets, TLC, Json

CONSTANTS TraceFile,   \* ndjson file with the concatenated traces (trace mode)
          GenMaxDim,   \* generator mode: widths and heights 1..GenMaxDim
          GenMaxLen,   \* generator mode: stored runs and LEN values 1..GenMaxLen
          GenLens,     \* generator mode: chunk lengths
          GenMaxPos,   \* generator mode: state constraint on the file position
          GenWrites    \* generator mode: sizes of Write calls

VARIABLES idx,   \* trace mode: index of the next event (generator mode: constant 1)
          st     \* the acceptor's registers, one record

vars == <<idx, st>>

Trace == ndJsonDeserialize(TraceFile)

---------------------------------------------------------------------------
(* Constants of the formats.                                               *)

PngSignature == <<137, 80, 78, 71, 13, 10, 26, 10>>
TypeIHDR == <<73, 72, 68, 82>>
TypeIDAT == <<73, 68, 65, 84>>
TypeIEND == <<73, 69, 78, 68>>

\* Samples per pixel of a PNG colour type (PNG table 11.1).
Channels(ct) == CASE ct = 0 -> 1 [] ct = 2 -> 3 [] ct = 3 -> 1 [] ct = 4 -> 2 [] ct = 6 -> 4 [] OTHER -> 0
DepthAllowed(ct, d) ==
    CASE ct = 0 -> d \in {1, 2, 4, 8, 16}
      [] ct = 3 -> d \in {1, 2, 4, 8}
      [] ct \in {2, 4, 6} -> d \in {8, 16}
      [] OTHER -> FALSE

\* number of multiples of m in the half-open range [a, b)
Multiples(a, b, m) == ((b + m - 1) \div m) - ((a + m - 1) \div m)

Idle == [ph |-> "idle",
         aw |-> 0, ah |-> 0, adepth |-> 0, act |-> 0, afail |-> 0,   \* what the driver asked for
         wsum |-> 0, nwr |-> 0, wfail |-> FALSE,                     \* Write calls seen
         iw |-> 0, ih |-> 0, rowlen |-> 0, total |-> 0,              \* from IHDR: 1 + row bytes, inflated size
         clen |-> 0, crem |-> 0, pos |-> 0, nidat |-> 0,             \* chunk level (nidat: 1 once an IDAT was seen)
         zs |-> "cmf", cmf |-> 0, bfinal |-> 0, len |-> 0, nlen |-> 0,
         brem |-> 0, nad |-> 0, inf |-> 0]

IsEvent(ev, kind) == ev.e = kind

---------------------------------------------------------------------------
(* The driver's part of a trace.                                           *)

Begin(ev) ==
    /\ IsEvent(ev, "begin")
    /\ st.ph = "idle"
    /\ Len(ev.v) = 8
    /\ LET w == ev.v[1] * 65536 + ev.v[2]
           h == ev.v[3] * 65536 + ev.v[4] IN
       /\ ev.v[1] < 16384 /\ ev.v[3] < 16384          \* keeps every product inside TLC's integers
       /\ w > 0 /\ h > 0                              \* "for every positive width and height"
       /\ st' = [Idle EXCEPT !.ph = "writes", !.aw = w, !.ah = h, !.adepth = ev.v[5],
                             !.act = ev.v[6], !.afail = ev.v[7]]

\* One io.Writer.Write call.  Only successful calls deliver bytes.
WriteCall(ev) ==
    /\ IsEvent(ev, "write")
    /\ st.ph = "writes"
    /\ ~st.wfail                                      \* nothing is written after a failed Write
    /\ LET n == ev.v[1] * 65536 + ev.v[2] IN
       /\ ev.v[1] < 16384
       /\ st' = [st EXCEPT !.nwr = @ + 1,
                           !.wsum = IF ev.ok THEN @ + n ELSE @,
                           !.wfail = ~ev.ok]

\* The value Encode returned.  v = <<error returned, a Write call failed>>.
Return(ev) ==
    /\ IsEvent(ev, "ret")
    /\ st.ph = "writes"
    /\ (ev.v[2] = 1) = st.wfail
    /\ st.wfail => (st.afail > 0 /\ st.nwr = st.afail)   \* the driver's own consistency
    /\ IF st.wfail
       THEN /\ ev.v[1] = 1                             \* a failed Write is reported to the caller
            /\ st' = [st EXCEPT !.ph = "fin"]
       ELSE /\ ev.v[1] = 0                             \* otherwise Encode succeeds ...
            /\ st' = [st EXCEPT !.ph = "sig"]          \* ... and what was written must be a PNG

---------------------------------------------------------------------------
(* PNG level.                                                               *)

Signature(ev) ==
    /\ IsEvent(ev, "sig")
    /\ st.ph = "sig"
    /\ ev.v = PngSignature
    /\ st' = [st EXCEPT !.ph = "needihdr", !.pos = 8]

\* A chunk header.  v = <<t0,t1,t2,t3, length \div 65536, length % 65536>>,
\* ok = the CRC-32 over type+data is the stored one.
\* "every chunk length <= 2^31 - 1":  the high half must be below 2^15.
ChunkLen(ev) == ev.v[5] * 65536 + ev.v[6]
ChunkType(ev) == SubSeq(ev.v, 1, 4)
ChunkCommon(ev) ==
    /\ IsEvent(ev, "chunk")
    /\ Len(ev.v) = 6
    /\ ev.v[5] < 32768 /\ ev.v[6] < 65536
    /\ ev.ok

ChunkIHDR(ev) ==
    /\ ChunkCommon(ev)
    /\ st.ph = "needihdr"
    /\ ChunkType(ev) = TypeIHDR
    /\ ChunkLen(ev) = 13
    /\ st' = [st EXCEPT !.ph = "ihdr", !.clen = 13, !.crem = 13, !.pos = @ + 12 + 13]

Ihdr(ev) ==
    /\ IsEvent(ev, "ihdr")
    /\ st.ph = "ihdr"
    /\ Len(ev.v) = 13
    /\ \A k \in 1..13 : ev.v[k] \in 0..255
    /\ ev.v[1] < 64 /\ ev.v[5] < 64                   \* (PNG allows < 128; 2^30 is what TLC can hold)
    /\ LET w == ((ev.v[1] * 256 + ev.v[2]) * 256 + ev.v[3]) * 256 + ev.v[4]
           h == ((ev.v[5] * 256 + ev.v[6]) * 256 + ev.v[7]) * 256 + ev.v[8]
           d == ev.v[9]
           ct == ev.v[10] IN
       /\ w > 0 /\ h > 0
       /\ DepthAllowed(ct, d)
       /\ ev.v[11] = 0 /\ ev.v[12] = 0 /\ ev.v[13] = 0    \* compression 0, filter 0, not interlaced
       \* "with the same dimensions", and the colour type / depth asked for
       /\ w = st.aw /\ h = st.ah /\ d = st.adepth /\ ct = st.act
       /\ w < 134217728                                    \* 2^27: row bytes stay < 2^30 ...
       /\ LET bits == Channels(ct) * d
              rb == IF bits % 8 = 0 THEN w * (bits \div 8) ELSE (w * bits + 7) \div 8
              rl == 1 + rb IN
          /\ h <= 1073741823 \div rl                       \* ... and so does the inflated size
          /\ st' = [st EXCEPT !.ph = "chunkend", !.crem = 0, !.iw = w, !.ih = h,
                              !.rowlen = rl, !.total = h * rl]

ChunkIDAT(ev) ==
    /\ ChunkCommon(ev)
    /\ st.ph \in {"needidat", "moreidat"}
    /\ ChunkType(ev) = TypeIDAT
    /\ st' = [st EXCEPT !.ph = "idat", !.clen = ChunkLen(ev), !.crem = ChunkLen(ev),
                        !.pos = @ + 12 + ChunkLen(ev), !.nidat = 1]

ChunkIEND(ev) ==
    /\ ChunkCommon(ev)
    /\ st.ph = "moreidat"                   \* at least one IDAT came before
    /\ st.zs = "done"                       \* and the zlib stream is complete
    /\ ChunkType(ev) = TypeIEND
    /\ ChunkLen(ev) = 0
    /\ st' = [st EXCEPT !.ph = "chunkend", !.clen = 0, !.crem = 0, !.pos = @ + 12]

\* End of a chunk's payload: the events consumed exactly the declared length.
ChunkEnd(ev) ==
    /\ IsEvent(ev, "chunkend")
    /\ st.ph \in {"chunkend", "idat"}
    /\ st.crem = 0
    /\ ev.v[1] * 65536 + ev.v[2] = st.clen
    /\ st' = [st EXCEPT !.ph = IF st.ph = "idat" THEN "moreidat"
                                ELSE IF st.nidat = 0 THEN "needidat" ELSE "eof"]

EndOfFile(ev) ==
    /\ IsEvent(ev, "eof")
    /\ st.ph = "eof"
    /\ ev.v[1] = 0                          \* nothing after IEND
    /\ st.pos = st.wsum                     \* the Write calls delivered exactly these bytes
    /\ st' = [st EXCEPT !.ph = "pix"]

---------------------------------------------------------------------------
(* zlib / deflate level: a byte-level automaton over the CONCATENATED IDAT  *)
(* payloads.  st.crem (bytes left in the current IDAT) is the only link to  *)
(* the chunk level, so any element may straddle a chunk boundary.           *)

AfterBlock(s) == IF s.bfinal = 1 THEN [s EXCEPT !.zs = "adler", !.nad = 0]
                                  ELSE [s EXCEPT !.zs = "bhdr"]

ZByteCommon(ev) ==
    /\ IsEvent(ev, "zb")
    /\ st.ph = "idat"
    /\ st.crem > 0
    /\ ev.v[1] \in 0..255

ZCmf(ev) ==
    /\ ZByteCommon(ev) /\ st.zs = "cmf"
    /\ ev.v[1] % 16 = 8                     \* CM = 8 (deflate)
    /\ ev.v[1] \div 16 <= 7                 \* CINFO <= 7 (window <= 32 KiB)
    /\ st' = [st EXCEPT !.crem = @ - 1, !.zs = "flg", !.cmf = ev.v[1]]

ZFlg(ev) ==
    /\ ZByteCommon(ev) /\ st.zs = "flg"
    /\ (st.cmf * 256 + ev.v[1]) % 31 = 0    \* FCHECK
    /\ (ev.v[1] \div 32) % 2 = 0            \* FDICT = 0
    /\ st' = [st EXCEPT !.crem = @ - 1, !.zs = "bhdr", !.cmf = 0]

\* The 3 header bits of a block sit in the low bits of a byte (every stored
\* block ends on a byte boundary); the other 5 bits are skipped by a decoder.
\* BFINAL only on the last block: after a final block the automaton expects
\* the Adler bytes, after a non-final one another block header.
ZBlockHeader(ev) ==
    /\ ZByteCommon(ev) /\ st.zs = "bhdr"
    /\ (ev.v[1] \div 2) % 4 = 0             \* BTYPE = 00
    /\ st' = [st EXCEPT !.crem = @ - 1, !.zs = "len0", !.bfinal = ev.v[1] % 2]

ZLen(ev) ==
    /\ ZByteCommon(ev) /\ st.zs \in {"len0", "len1", "nlen0"}
    /\ st' = [st EXCEPT !.crem = @ - 1,
                        !.zs = CASE st.zs = "len0" -> "len1" [] st.zs = "len1" -> "nlen0" [] st.zs = "nlen0" -> "nlen1",
                        !.len = CASE st.zs = "len0" -> ev.v[1] [] st.zs = "len1" -> @ + 256 * ev.v[1] [] OTHER -> @,
                        !.nlen = IF st.zs = "nlen0" THEN ev.v[1] ELSE @]

ZNlen(ev) ==
    /\ ZByteCommon(ev) /\ st.zs = "nlen1"
    /\ LET nl == st.nlen + 256 * ev.v[1] IN
       /\ st.len <= 65535
       /\ st.len + nl = 65535               \* NLEN is the one's complement of LEN (two 16-bit ints)
       /\ st' = IF st.len = 0
                THEN AfterBlock([st EXCEPT !.crem = @ - 1, !.len = 0, !.nlen = 0, !.brem = 0])
                ELSE [st EXCEPT !.crem = @ - 1, !.len = 0, !.nlen = 0, !.brem = st.len, !.zs = "data"]

\* A run of stored bytes.  v = <<n, nrow, nbad>>: of the n bytes, nrow sit at
\* a row start of the inflated data (the filter byte), nbad of those are not 0.
ZData(ev) ==
    /\ IsEvent(ev, "zdata")
    /\ st.ph = "idat" /\ st.zs = "data"
    /\ LET n == ev.v[1] IN
       /\ n >= 1 /\ n <= st.brem /\ n <= st.crem
       /\ st.inf + n <= st.total            \* never more than height x (1 + row bytes)
       /\ ev.v[2] = Multiples(st.inf, st.inf + n, st.rowlen)   \* the walker looked at the right bytes
       /\ ev.v[3] = 0                       \* every row's filter byte is 0 ("none")
       /\ st' = IF st.brem = n
                THEN AfterBlock([st EXCEPT !.crem = @ - n, !.brem = 0, !.inf = @ + n])
                ELSE [st EXCEPT !.crem = @ - n, !.brem = @ - n, !.inf = @ + n]

ZAdlerByte(ev) ==
    /\ ZByteCommon(ev) /\ st.zs = "adler"
    /\ st' = [st EXCEPT !.crem = @ - 1, !.nad = @ + 1, !.zs = IF st.nad = 3 THEN "adlerchk" ELSE "adler"]

\* After the 4th Adler byte.  ok = Adler-32 of the inflated data matches.
ZEnd(ev) ==
    /\ IsEvent(ev, "zend")
    /\ st.ph = "idat" /\ st.zs = "adlerchk"
    /\ ev.ok
    /\ ev.v[1] * 65536 + ev.v[2] = st.inf
    /\ st.inf = st.total                    \* inflated length = height x (1 + row bytes)
    /\ st' = [st EXCEPT !.zs = "done"]

---------------------------------------------------------------------------
(* The standard decoder's verdict and the end of a trace.                  *)

\* v = <<image/png.Decode succeeded, same dimensions, expected image type,
\* number of differing pixel bytes>>.
Pixels(ev) ==
    /\ IsEvent(ev, "pix")
    /\ st.ph = "pix"
    /\ ev.v = <<1, 1, 1, 0>> /\ ev.ok
    /\ st' = [st EXCEPT !.ph = "fin"]

\* TraceReset
End(ev) ==
    /\ IsEvent(ev, "end")
    /\ st.ph = "fin"
    /\ st' = Idle

---------------------------------------------------------------------------
Init == idx = 1 /\ st = Idle

\* ---- trace mode ----
TraceNext ==
    /\ idx <= Len(Trace)
    /\ idx' = idx + 1
    /\ LET ev == Trace[idx] IN
       \/ Begin(ev) \/ WriteCall(ev) \/ Return(ev) \/ Signature(ev)
       \/ ChunkIHDR(ev) \/ Ihdr(ev) \/ ChunkIDAT(ev) \/ ChunkIEND(ev) \/ ChunkEnd(ev) \/ EndOfFile(ev)
       \/ ZCmf(ev) \/ ZFlg(ev) \/ ZBlockHeader(ev) \/ ZLen(ev) \/ ZNlen(ev) \/ ZData(ev) \/ ZAdlerByte(ev) \/ ZEnd(ev)
       \/ Pixels(ev) \/ End(ev)

TraceSpec == Init /\ [][TraceNext]_vars

\* The acceptor is deterministic, so the state graph of a trace is a chain
\* and its depth is the number of events matched + 1.
TraceAccepted ==
    LET d == TLCGet("stats").diameter IN
    IF d - 1 = Len(Trace) THEN TRUE
    ELSE Print(<<"TRACE-REJECTED-AT", d>>, FALSE)

\* A completely consumed file ends between two traces.
TraceComplete == idx > Len(Trace) => st.ph = "idle"

\* ---- generator mode: the same actions over a small event universe ----
GenBytes == {0, 1, 2, 120, 253, 254, 255}
Hi(n) == n \div 65536
Lo(n) == n % 65536
Bytes4(n) == <<0, 0, n \div 256, n % 256>>
GenDims == 1..GenMaxDim
GenKinds == {<<0, 8>>, <<0, 16>>, <<2, 8>>}        \* <<colour type, depth>>

EvBegin == {[e |-> "begin", v |-> <<0, w, 0, h, k[2], k[1], f, 0>>, ok |-> TRUE] : w \in GenDims, h \in GenDims, k \in GenKinds, f \in {0, 1}}
EvWrite == {[e |-> "write", v |-> <<0, n>>, ok |-> b] : n \in GenWrites, b \in BOOLEAN}
EvRet == {[e |-> "ret", v |-> <<a, b>>, ok |-> TRUE] : a \in {0, 1}, b \in {0, 1}}
EvSig == {[e |-> "sig", v |-> PngSignature, ok |-> TRUE], [e |-> "sig", v |-> <<137, 80, 78, 71, 13, 10, 26, 13>>, ok |-> TRUE]}
EvChunk == {[e |-> "chunk", v |-> t \o <<0, n>>, ok |-> b] : t \in {TypeIHDR, TypeIDAT, TypeIEND}, n \in GenLens, b \in BOOLEAN}
EvIhdr == {[e |-> "ihdr", v |-> Bytes4(w) \o Bytes4(h) \o <<k[2], k[1], 0, 0, il>>, ok |-> TRUE] :
              w \in GenDims, h \in GenDims, k \in GenKinds, il \in {0, 1}}
EvZb == {[e |-> "zb", v |-> <<b>>, ok |-> TRUE] : b \in GenBytes}
EvZdata == {[e |-> "zdata", v |-> <<n, r, bad>>, ok |-> TRUE] : n \in 1..GenMaxLen, r \in 0..GenMaxDim, bad \in {0, 1}}
EvZend == {[e |-> "zend", v |-> <<0, n>>, ok |-> b] : n \in 0..(GenMaxDim * (1 + 3 * GenMaxDim)), b \in BOOLEAN}
EvChunkEnd == {[e |-> "chunkend", v |-> <<0, n>>, ok |-> TRUE] : n \in GenLens}
EvEof == {[e |-> "eof", v |-> <<n>>, ok |-> TRUE] : n \in {0, 1}}
EvPix == {[e |-> "pix", v |-> <<1, 1, 1, m>>, ok |-> (m = 0)] : m \in {0, 1}}
EvEnd == {[e |-> "end", v |-> <<>>, ok |-> TRUE]}

\* Every action is offered every event of its kind (wrong ones included: wrong
\* signature, bad CRC flag, interlaced IHDR, non-zero filter, wrong sizes);
\* the grammar's guards select.  The phase tests in front only spare TLC the
\* enumeration of event kinds that no action could take in that phase.
GBegin == st.ph = "idle" /\ UNCHANGED idx /\ \E ev \in EvBegin : Begin(ev)
GWriteCall == st.ph = "writes" /\ UNCHANGED idx /\ \E ev \in EvWrite : WriteCall(ev)
GReturn == st.ph = "writes" /\ UNCHANGED idx /\ \E ev \in EvRet : Return(ev)
GSignature == st.ph = "sig" /\ UNCHANGED idx /\ \E ev \in EvSig : Signature(ev)
GChunkIHDR == st.ph = "needihdr" /\ UNCHANGED idx /\ \E ev \in EvChunk : ChunkIHDR(ev)
GIhdr == st.ph = "ihdr" /\ UNCHANGED idx /\ \E ev \in EvIhdr : Ihdr(ev)
GChunkIDAT == st.ph \in {"needidat", "moreidat"} /\ UNCHANGED idx /\ \E ev \in EvChunk : ChunkIDAT(ev)
GChunkIEND == st.ph = "moreidat" /\ UNCHANGED idx /\ \E ev \in EvChunk : ChunkIEND(ev)
GChunkEnd == st.ph \in {"chunkend", "idat"} /\ UNCHANGED idx /\ \E ev \in EvChunkEnd : ChunkEnd(ev)
GEndOfFile == st.ph = "eof" /\ UNCHANGED idx /\ \E ev \in EvEof : EndOfFile(ev)
GZCmf == st.ph = "idat" /\ UNCHANGED idx /\ \E ev \in EvZb : ZCmf(ev)
GZFlg == st.ph = "idat" /\ UNCHANGED idx /\ \E ev \in EvZb : ZFlg(ev)
GZBlockHeader == st.ph = "idat" /\ UNCHANGED idx /\ \E ev \in EvZb : ZBlockHeader(ev)
GZLen == st.ph = "idat" /\ UNCHANGED idx /\ \E ev \in EvZb : ZLen(ev)
GZNlen == st.ph = "idat" /\ UNCHANGED idx /\ \E ev \in EvZb : ZNlen(ev)
GZData == st.ph = "idat" /\ UNCHANGED idx /\ \E ev \in EvZdata : ZData(ev)
GZAdlerByte == st.ph = "idat" /\ UNCHANGED idx /\ \E ev \in EvZb : ZAdlerByte(ev)
GZEnd == st.ph = "idat" /\ UNCHANGED idx /\ \E ev \in EvZend : ZEnd(ev)
GPixels == st.ph = "pix" /\ UNCHANGED idx /\ \E ev \in EvPix : Pixels(ev)
GEnd == st.ph = "fin" /\ UNCHANGED idx /\ \E ev \in EvEnd : End(ev)

GenNext ==
    \/ GBegin
    \/ GWriteCall
    \/ GReturn
    \/ GSignature
    \/ GChunkIHDR
    \/ GIhdr
    \/ GChunkIDAT
    \/ GChunkIEND
    \/ GChunkEnd
    \/ GEndOfFile
    \/ GZCmf
    \/ GZFlg
    \/ GZBlockHeader
    \/ GZLen
    \/ GZNlen
    \/ GZData
    \/ GZAdlerByte
    \/ GZEnd
    \/ GPixels
    \/ GEnd

GenSpec == Init /\ [][GenNext]_vars

GenConstraint == st.pos <= GenMaxPos /\ st.wsum <= GenMaxPos /\ st.nwr <= 2 /\ st.len <= GenMaxLen

\* Properties of the grammar itself, checked in generator mode.
GenTypeOK ==
    /\ st.crem \in 0..st.clen
    /\ st.brem \in 0..65535
    /\ st.inf \in 0..st.total
    /\ st.nad \in 0..4
\* the zlib stream can only be declared complete with exactly the inflated size
GenDoneExact == (st.zs = "done") => (st.inf = st.total /\ st.brem = 0 /\ st.bfinal = 1)
\* an accepted image (phase pix reached) has at least one IDAT, a complete
\* zlib stream and its bytes are the bytes written
GenAcceptedShape == (st.ph \in {"pix"}) => (st.nidat >= 1 /\ st.zs = "done" /\ st.pos = st.wsum /\ st.total = st.ah * st.rowlen)
=============================================================================

----------------------------- MODULE JpegRound -----------------------------
(***************************************************************************)
(* C18: the rounding rule of "each coefficient divided by its quantisation *)
(* factor rounded to nearest" (definitions only; used by Trace_Jpeg, the    *)
(* lemmas are checked in JpegRoundLemmas).                                  *)
(*                                                                         *)
(* The package documentation promises no tie rule (the only text is on the  *)
(* unexported `div`: "rounded to the nearest integer, instead of rounded to *)
(* zero"), so on an exact tie (2|c| an odd multiple of q) either neighbour   *)
(* is accepted by Nearest.  RoundHalfAway is what the implementation is      *)
(* observed to do; it is one of the roundings Nearest accepts.              *)
(***************************************************************************)
EXTENDS Integers

Abs(v) == IF v < 0 THEN -v ELSE v
Sgn(v) == IF v < 0 THEN -1 ELSE IF v > 0 THEN 1 ELSE 0

\* d is c/q rounded to a nearest integer  (q > 0):  |c/q - d| <= 1/2
Nearest(c, q, d) == 2 * Abs(c - d * q) <= q

RoundHalfAway(c, q) == Sgn(c) * ((2 * Abs(c) + q) \div (2 * q))
RoundTowardZero(c, q) == Sgn(c) * (Abs(c) \div q)
IsTie(c, q) == (2 * Abs(c)) % (2 * q) = q

\* spot values (vacuity guards): 5/3 -> 2 and not 1; 3/2 is a tie: 1 or 2
ASSUME Nearest(5, 3, 2) /\ ~Nearest(5, 3, 1) /\ ~Nearest(5, 3, 3)
ASSUME IsTie(3, 2) /\ Nearest(3, 2, 1) /\ Nearest(3, 2, 2) /\ ~Nearest(3, 2, 0) /\ ~Nearest(3, 2, 3)
ASSUME IsTie(-3, 2) /\ Nearest(-3, 2, -1) /\ Nearest(-3, 2, -2) /\ RoundHalfAway(-3, 2) = -2
ASSUME RoundHalfAway(-1024, 1) = -1024 /\ RoundHalfAway(1023, 255) = 4 /\ RoundHalfAway(-127, 255) = 0
ASSUME RoundHalfAway(-128, 255) = -1 /\ Nearest(-128, 255, -1) /\ ~Nearest(-128, 255, 0)
=============================================================================

------------------------------ MODULE Adler32 ------------------------------
(***************************************************************************)
(* C07, format model: the Adler-32 checksum of RFC 1950 section 8.2/9.      *)
(*                                                                         *)
(*   s1 = 1 + sum of all bytes               (mod 65521)                   *)
(*   s2 = sum of the s1 values after each byte  (mod 65521)                *)
(*   checksum = s2 * 65536 + s1                                            *)
(*                                                                         *)
(* The 32-bit result does not fit TLC's integers; it is kept as the pair    *)
(* of 16-bit limbs <<s2, s1>>.  TLC (i) checks, for every byte string of    *)
(* the domain, that the running (streaming) definition equals the closed    *)
(* definition by sums and does not depend on where the string is split      *)
(* across update calls, and (ii) exports <<bytes, expected checksum>> cases  *)
(* which the real std/adler32 has to reproduce under every partition        *)
(* (harness/cmd/fmtcases + harness/c/stddrive.c, validated by Trace_Std     *)
(* with Mode = "reference").                                               *)
(***************************************************************************)
EXTENDS Integers, Sequences, TLC, Json, FmtBits

CONSTANTS AdlerMaxLen,      \* byte strings up to this length ...
          AdlerAlphabet     \* ... over this set of byte values

Base == 65521

AInit == <<1, 0>>           \* <<s1, s2>>
AByte(st, b) == LET s1 == (st[1] + b) % Base IN <<s1, (st[2] + s1) % Base>>

\* streaming definition: fold from position i
RECURSIVE AFrom(_, _, _)
AFrom(st, bs, i) == IF i > Len(bs) THEN st ELSE AFrom(AByte(st, bs[i]), bs, i + 1)
AUpdate(st, bs) == AFrom(st, bs, 1)

AdlerLimbs(bs) == LET st == AUpdate(AInit, bs) IN <<st[2], st[1]>>
AdlerHex(bs) == HexLimbs(AdlerLimbs(bs))
AdlerBytesBE(bs) == BytesBE(AdlerLimbs(bs))

\* closed definition (sums first, one reduction at the end; the domain keeps the sums below 2^31)
RECURSIVE SumFrom(_, _)
SumFrom(bs, i) == IF i > Len(bs) THEN 0 ELSE bs[i] + SumFrom(bs, i + 1)
RECURSIVE WSumFrom(_, _)
WSumFrom(bs, i) == IF i > Len(bs) THEN 0 ELSE (Len(bs) - i + 1) * bs[i] + WSumFrom(bs, i + 1)
ClosedLimbs(bs) == <<(Len(bs) + WSumFrom(bs, 1)) % Base, (1 + SumFrom(bs, 1)) % Base>>

\* published test vector: Adler-32("Wikipedia") = 0x11E60398
ASSUME AdlerHex(<<87, 105, 107, 105, 112, 101, 100, 105, 97>>) = "11e60398"
ASSUME AdlerHex(<<>>) = "00000001"

---------------------------------------------------------------------------
VARIABLE x

Inputs == SeqsUpTo(AdlerAlphabet, AdlerMaxLen)
Init == x \in Inputs
Next == UNCHANGED x
Spec == Init /\ [][Next]_x

StreamingEqualsClosed == AdlerLimbs(x) = ClosedLimbs(x)
SplitIndependent == \A k \in 0..Len(x) :
                        AUpdate(AUpdate(AInit, SubSeq(x, 1, k)), SubSeq(x, k + 1, Len(x))) = AUpdate(AInit, x)
\* export (evaluated once per case): printed as a JSON line, decoded by vlib.parse_tlc_prints
Export == PrintT(ToJson([fmt |-> "adler32", bytes |-> x, sum |-> AdlerHex(x)]))
=============================================================================

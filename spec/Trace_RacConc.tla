--------------------------- MODULE Trace_RacConc ---------------------------
(***************************************************************************)
(* C14, Mode V: validation of recorded executions of the real               *)
(* lib/rac/conc_reader.go (hook H2, build tag `verif`) against RacConc.     *)
(*                                                                         *)
(* A recorded execution is ONE SEQUENCE OF EVENTS PER GOROUTINE (client,    *)
(* manager, worker 1..N): no clock orders events of different goroutines.   *)
(* The execution is accepted iff some interleaving of the sequences is a    *)
(* behaviour of RacConc: this module keeps one cursor per goroutine, lets   *)
(* a RacConc action fire only if the events it would emit are exactly the   *)
(* next events of the goroutines taking part in it (a rendezvous consumes   *)
(* the sender's and the receiver's event together), and TLC searches        *)
(* (depth-first) for a state in which every cursor is at the end.           *)
(*                                                                         *)
(* Events are <<name, a, b, owner>> (see findings/hooks/H2-conc-reader.patch *)
(* and harness/cmd/racrreplay/trace.go); call.* / ret.* are logged by the   *)
(* driver around each API call, the rest by the hook after each completed   *)
(* channel operation.  Private steps of the model that complete no channel  *)
(* operation (CCopy, CNextFromDone, empty recycle/drain steps) are silent.  *)
(*                                                                         *)
(* Several traces are validated in one run: Init picks the trace t; TLC     *)
(* register 100+t records acceptance and stops the search for that trace;   *)
(* registers 200+t keep the largest number of events matched (reported for  *)
(* a rejected trace).  Run with -workers 1.                                 *)
(***************************************************************************)
EXTENDS RacConc

CONSTANT Traces   \* <<[client |-> <<ev,...>>, manager |-> <<...>>, workers |-> << <<...>>, ... >>], ...>>

VARIABLES t, ic, im, iw

tvars == <<t, ic, im, iw>>
allvars == <<vars, tvars>>

NT == Len(Traces)
TC == Traces[t].client
TM == Traces[t].manager
TW(w) == Traces[t].workers[w]

HasC(k) == ic + k <= Len(TC)
EvC(k) == TC[ic + k]
HasM == im + 1 <= Len(TM)
EvM == TM[im + 1]
HasW(w) == iw[w] + 1 <= Len(TW(w))
EvW(w) == TW(w)[iw[w] + 1]

Flag(b) == IF b THEN 1 ELSE 0
Last(s) == s[Len(s)]

Matched == ic + im + (LET S[k \in 0..N] == IF k = 0 THEN 0 ELSE S[k - 1] + iw[k] IN S[N])
Total == Len(TC) + Len(TM) + (LET S[k \in 0..N] == IF k = 0 THEN 0 ELSE S[k - 1] + Len(TW(k)) IN S[N])
Accepted == ic = Len(TC) /\ im = Len(TM) /\ \A w \in Workers : iw[w] = Len(TW(w))

TInit ==
  /\ Init
  /\ t \in 1..NT
  /\ ic = 0 /\ im = 0 /\ iw = [w \in Workers |-> 0]
  /\ TLCSet(100 + t, FALSE) /\ TLCSet(200 + t, 0)

AdvC(k) == ic' = ic + k
KeepM == im' = im
KeepW == iw' = iw
AdvM == im' = im + 1
AdvW(w) == iw' = [iw EXCEPT ![w] = @ + 1]

\* the goroutine that received the client's stop / ack in this step logs its receive
Receiver(name) ==
  IF mpc' # mpc
  THEN /\ HasM /\ EvM[1] = "manager.recv." \o name /\ AdvM /\ KeepW
  ELSE \E w \in Workers :
         /\ wpc'[w] # wpc[w]
         /\ HasW(w) /\ EvW(w)[1] = "worker.recv." \o name /\ EvW(w)[4] = w
         /\ AdvW(w) /\ KeepM

TSeek ==
  /\ HasC(2) /\ EvC(1)[1] = "call.seek" /\ EvC(2)[1] = "ret.seek"
  /\ CSeek /\ Last(hist') = <<"seek", EvC(1)[2]>>
  /\ AdvC(2) /\ KeepM /\ KeepW

TSeekRange ==
  /\ HasC(2) /\ EvC(1)[1] = "call.seekrange" /\ EvC(2)[1] = "ret.seekrange"
  /\ CSeekRange /\ Last(hist') = <<"seekrange", EvC(1)[2], EvC(1)[3]>>
  /\ AdvC(2) /\ KeepM /\ KeepW

TRead ==
  /\ HasC(1) /\ EvC(1)[1] = "call.read"
  /\ CRead /\ Last(hist') = <<"read", EvC(1)[2]>>
  /\ IF cpc' = "idle"          \* answered without any channel operation: (0, io.EOF)
     THEN HasC(2) /\ EvC(2)[1] = "ret.read" /\ EvC(2)[2] = 0 /\ EvC(2)[3] = 1 /\ AdvC(2)
     ELSE AdvC(1)
  /\ KeepM /\ KeepW

TClose ==
  /\ HasC(1) /\ EvC(1)[1] = "call.close"
  /\ CClose /\ AdvC(1) /\ KeepM /\ KeepW

TSendStop ==
  /\ HasC(1) /\ EvC(1)[1] = "client.send.stopc" /\ EvC(1)[2] = Flag(ckeep)
  /\ CSendStop /\ AdvC(1) /\ Receiver("stopc")

TRecycleCur ==
  /\ CRecycleCur
  /\ IF HasBuf(cur)
     THEN HasC(1) /\ EvC(1)[1] = "client.send.recyclec" /\ EvC(1)[3] = cur.hi /\ EvC(1)[4] = cur.w /\ AdvC(1)
     ELSE AdvC(0)
  /\ KeepM /\ KeepW

TRecycleDone ==
  /\ CRecycleDone
  /\ IF done = {} THEN AdvC(0)
     ELSE LET x == CHOOSE y \in done : y \notin done' IN
          HasC(1) /\ EvC(1) = <<"client.send.recyclec", x.lo, x.hi, x.w>> /\ AdvC(1)
  /\ KeepM /\ KeepW

TDrainReq ==
  /\ CDrainReq
  /\ IF reqc = <<>> THEN AdvC(0)
     ELSE HasC(1) /\ EvC(1) = <<"client.drain", Head(reqc)[1], Head(reqc)[2], 0>> /\ AdvC(1)
  /\ KeepM /\ KeepW

TDrainRes ==
  /\ CDrainRes
  /\ IF resc = <<>> THEN AdvC(0)
     ELSE LET x == Head(resc) IN
          /\ HasC(2)
          /\ EvC(1) = <<"client.drain", x.lo, x.hi, x.w>>
          /\ EvC(2) = <<"client.send.recyclec", x.lo, x.hi, x.w>>
          /\ AdvC(2)
  /\ KeepM /\ KeepW

TSendAck ==
  /\ HasC(1) /\ EvC(1)[1] = "client.send.ackc"
  /\ CSendAck /\ Receiver("ackc")
  /\ IF cpc' = "idle"          \* the last ack of Close: Close returns
     THEN HasC(2) /\ EvC(2)[1] = "ret.close" /\ AdvC(2)
     ELSE AdvC(1)

TSendRoi ==
  /\ HasC(1) /\ EvC(1) = <<"client.send.roic", pos, lim, 0>>
  /\ HasM /\ EvM = <<"manager.recv.roic", pos, lim, 0>>
  /\ CSendRoi /\ AdvC(1) /\ AdvM /\ KeepW

TLoopReturn ==
  /\ HasC(1) /\ EvC(1) = <<"ret.read", got, Flag(pos >= lim), 0>>
  /\ CLoopReturn /\ AdvC(1) /\ KeepM /\ KeepW

TLoopRecycle ==
  /\ HasC(1) /\ EvC(1)[1] = "client.send.recyclec" /\ EvC(1)[3] = cur.hi /\ EvC(1)[4] = cur.w
  /\ CLoopRecycle /\ AdvC(1) /\ KeepM /\ KeepW

TNextRecv ==
  /\ HasC(1) /\ Len(resc) > 0
  /\ EvC(1) = <<"client.recv.resc", Head(resc).lo, Head(resc).hi, Head(resc).w>>
  /\ CNextRecv /\ AdvC(1) /\ KeepM /\ KeepW

TSilent == (CNextFromDone \/ CCopy) /\ AdvC(0) /\ KeepM /\ KeepW

TMSendReq ==
  /\ HasM /\ EvM = <<"manager.send.reqc", mwork[1], mwork[2], 0>>
  /\ MSendReq /\ AdvM /\ AdvC(0) /\ KeepW

TWorker(w) ==
  /\ HasW(w) /\ EvW(w)[4] = w
  /\ \/ /\ Len(reqc) > 0 /\ EvW(w) = <<"worker.recv.reqc", Head(reqc)[1], Head(reqc)[2], w>>
        /\ WRecvReq(w)
     \/ /\ EvW(w) = <<"worker.send.resc", wout[w].lo, wout[w].hi, w>>
        /\ WSendRes(w)
     \/ /\ EvW(w)[1] = "worker.recv.recyclec"
        /\ WRecvRecycle(w)
  /\ AdvW(w) /\ AdvC(0) /\ KeepM

TNext ==
  /\ ~TLCGet(100 + t)            \* this trace is already accepted: stop searching
  /\ t' = t
  /\ \/ TSeek \/ TSeekRange \/ TRead \/ TClose
     \/ TSendStop \/ TRecycleCur \/ TRecycleDone \/ TDrainReq \/ TDrainRes \/ TSendAck
     \/ TSendRoi \/ TLoopReturn \/ TLoopRecycle \/ TNextRecv \/ TSilent
     \/ TMSendReq
     \/ \E w \in Workers : TWorker(w)

TSpec == TInit /\ [][TNext]_allvars

\* Evaluated in every reached state: bookkeeping of acceptance and progress.
Book ==
  /\ (Accepted /\ ~TLCGet(100 + t)) => TLCSet(100 + t, TRUE)
  /\ (Matched > TLCGet(200 + t)) => TLCSet(200 + t, Matched)

\* The model's own properties must hold along every matched prefix as well.
TraceInv == ByteAtPos /\ ReplyOK /\ NoDoubleOwner /\ DoneKeysDistinct

\* Printed once, at the end: per trace <<accepted, events matched, events total>>.
Report ==
  PrintT(<<"TRACE-REPORT", [i \in 1..NT |-> <<TLCGet(100 + i), TLCGet(200 + i)>>]>>)

=============================================================================

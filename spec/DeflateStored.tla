---------------------------- MODULE DeflateStored ----------------------------
(***************************************************************************)
(* C07, format model: the part of DEFLATE (RFC 1951) that a model checker   *)
(* can own completely - stored blocks (BTYPE 00) and fixed-Huffman blocks    *)
(* (BTYPE 01) that contain literals only - at the level of single bits.     *)
(*                                                                         *)
(* An abstract stream is a sequence of blocks                               *)
(*   [kind : {"stored", "fixed"}, pad : 0..1, data : Seq(0..255)]           *)
(* the last one carrying BFINAL.  Encode turns it into the bit string of    *)
(* RFC 1951 (3.2.3 block header, 3.2.4 stored blocks: skip to the byte      *)
(* boundary - the skipped bits are `pad` repeated, "any bits of input up    *)
(* to the next byte boundary are ignored" -, LEN, NLEN, bytes; 3.2.6 fixed  *)
(* codes, Huffman codes packed most significant bit first), Inflate is the  *)
(* decoder of the same subset written independently as a walk over the      *)
(* bits.  TLC checks Inflate(Encode(s)) = the payload for every stream of   *)
(* the case space (the model agrees with itself: what is exported is what   *)
(* RFC 1951 says the bytes mean) and exports <<file bytes, payload>> for     *)
(* the real std/deflate.  A fixed block in front makes a stored block start *)
(* at every bit offset; empty stored blocks (00 00 FF FF, also as the final *)
(* block and several in a row) and empty fixed blocks are in the space.     *)
(***************************************************************************)
EXTENDS Integers, Sequences, TLC, Json, FmtBits

CONSTANTS MaxBlocks,       \* streams of 1..MaxBlocks blocks
          DataChoices,     \* the byte strings a block may carry (a set of sequences)
          Pads             \* subset of {0, 1}: value of the ignored bits before LEN

\* data sets for the cfg files (cfg syntax has no sequences): 143/144 is the 8-bit/9-bit boundary of the fixed literal codes
DataSmall == { <<>>, <<0>>, <<255, 1>> }
DataMedium == { <<>>, <<0>>, <<255>>, <<1, 128>>, <<143, 144>>, <<127, 0, 255>> }

Blocks == [kind : {"stored", "fixed"}, pad : Pads, data : DataChoices]
\* one representative per meaning: pad only matters for stored blocks
CanonBlocks == { b \in Blocks : b.kind = "fixed" => b.pad = CHOOSE p \in Pads : \A q \in Pads : p <= q }
Streams == UNION { SeqsOfLen(CanonBlocks, n) : n \in 1..MaxBlocks }

Payload(s) == Flatten([i \in 1..Len(s) |-> s[i].data])

---------------------------------------------------------------------------
(* Encoder: abstract stream -> bit string                                  *)

FixedLit(v) == IF v < 144 THEN BitsMSB(48 + v, 8) ELSE BitsMSB(400 + (v - 144), 9)
EndOfBlock == BitsMSB(0, 7)

PadTo8(bits, p) == LET r == Len(bits) % 8 IN IF r = 0 THEN bits ELSE bits \o [i \in 1..(8 - r) |-> p]

EncodeBlock(bits, b, final) ==
    LET hdr == <<(IF final THEN 1 ELSE 0)>> \o BitsLSB(IF b.kind = "stored" THEN 0 ELSE 1, 2)
    IN IF b.kind = "stored"
       THEN PadTo8(bits \o hdr, b.pad) \o BitsLSB(Len(b.data), 16) \o BitsLSB(65535 - Len(b.data), 16)
            \o Flatten([i \in 1..Len(b.data) |-> BitsLSB(b.data[i], 8)])
       ELSE bits \o hdr \o Flatten([i \in 1..Len(b.data) |-> FixedLit(b.data[i])]) \o EndOfBlock

RECURSIVE EncodeFrom(_, _, _)
EncodeFrom(bits, s, i) == IF i > Len(s) THEN bits ELSE EncodeFrom(EncodeBlock(bits, s[i], i = Len(s)), s, i + 1)
EncodeBits(s) == EncodeFrom(<<>>, s, 1)
EncodeBytes(s) == PackLSB(EncodeBits(s))

---------------------------------------------------------------------------
(* Decoder of the same subset: bit string -> [ok, out, used] (used = bytes  *)
(* consumed, the rest of the last byte is dropped as RFC 1950/1952 need).   *)

Res(ok, out, pos, why) == [ok |-> ok, out |-> out, pos |-> pos, why |-> why]
Fail(why) == Res(FALSE, <<>>, 0, why)

\* body of a fixed-Huffman block from bit position pos (= number of bits consumed so far)
RECURSIVE InfSyms(_, _, _)
InfSyms(bits, pos, out) ==
    IF pos + 7 > Len(bits) THEN Fail("truncated")
    ELSE LET v7 == ValMSB(bits, pos, 7)
         IN IF v7 = 0 THEN Res(TRUE, out, pos + 7, "")                               \* 0000000: end of block
            ELSE IF v7 <= 23 THEN Fail("length code 257..279: outside this model")
            ELSE IF pos + 8 > Len(bits) THEN Fail("truncated")
            ELSE LET v8 == ValMSB(bits, pos, 8)
                 IN IF v8 >= 48 /\ v8 <= 191 THEN InfSyms(bits, pos + 8, Append(out, v8 - 48))
                    ELSE IF v8 >= 192 /\ v8 <= 199 THEN Fail("length code 280..287: outside this model")
                    ELSE IF pos + 9 > Len(bits) THEN Fail("truncated")
                    ELSE InfSyms(bits, pos + 9, Append(out, ValMSB(bits, pos, 9) - 400 + 144))

RECURSIVE InfBlocks(_, _, _)
InfBlocks(bits, pos, out) ==
    IF pos + 3 > Len(bits) THEN Fail("truncated")
    ELSE LET final == bits[pos + 1] = 1
             type == ValLSB(bits, pos + 1, 2)
         IN IF type = 0
            THEN LET p == ((pos + 3 + 7) \div 8) * 8
                 IN IF p + 32 > Len(bits) THEN Fail("truncated")
                    ELSE LET len == ValLSB(bits, p, 16)
                             nlen == ValLSB(bits, p + 16, 16)
                             q == p + 32
                         IN IF len + nlen # 65535 THEN Fail("LEN/NLEN mismatch")
                            ELSE IF q + 8 * len > Len(bits) THEN Fail("truncated")
                            ELSE LET data == [i \in 1..len |-> ValLSB(bits, q + 8 * (i - 1), 8)]
                                 IN IF final THEN Res(TRUE, out \o data, q + 8 * len, "")
                                    ELSE InfBlocks(bits, q + 8 * len, out \o data)
            ELSE IF type = 1
            THEN LET r == InfSyms(bits, pos + 3, out)
                 IN IF ~r.ok \/ final THEN r ELSE InfBlocks(bits, r.pos, r.out)
            ELSE Fail("dynamic or reserved block type: outside this model")

Inflate(bytes) == LET r == InfBlocks(BitsOfBytes(bytes), 0, <<>>)
                  IN [ok |-> r.ok, out |-> r.out, used |-> (r.pos + 7) \div 8, why |-> r.why]

\* published example: the empty stream as one final empty stored block / one final empty fixed block
ASSUME EncodeBytes(<<[kind |-> "stored", pad |-> 0, data |-> <<>>]>>) = <<1, 0, 0, 255, 255>>
ASSUME EncodeBytes(<<[kind |-> "fixed", pad |-> 0, data |-> <<>>]>>) = <<3, 0>>
\* "a" as a fixed block: what zlib emits for it (4B 04 00)
ASSUME EncodeBytes(<<[kind |-> "fixed", pad |-> 0, data |-> <<97>>]>>) = <<75, 4, 0>>

---------------------------------------------------------------------------
VARIABLE c

Init == c \in Streams
Next == UNCHANGED c
Spec == Init /\ [][Next]_c

RoundTrip == LET bs == EncodeBytes(c)
                 r == Inflate(bs)
             IN r.ok /\ r.out = Payload(c) /\ r.used = Len(bs)
\* a stream cut anywhere before its end is not a complete stream of the subset (no proper prefix decodes OK)
NoProperPrefixDecodes == LET bs == EncodeBytes(c)
                         IN \A k \in 0..(Len(bs) - 1) : ~Inflate(SubSeq(bs, 1, k)).ok
Desc(s) == [i \in 1..Len(s) |-> [kind |-> s[i].kind, pad |-> s[i].pad, n |-> Len(s[i].data)]]
Export == PrintT(ToJson([fmt |-> "deflate", bytes |-> EncodeBytes(c), out |-> Payload(c), blocks |-> Desc(c)]))
=============================================================================

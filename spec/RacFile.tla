------------------------------ MODULE RacFile ------------------------------
(***************************************************************************)
(* C14, the FILE dimension: the geometry in DSpace of a valid RAC file, as  *)
(* an abstract description that is independent of who wrote the file.       *)
(*                                                                         *)
(* A geometry is a record                                                   *)
(*                                                                         *)
(*   [runs |-> << <<lo, n, size, expls, codec>>, ... >>,                    *)
(*    top  |-> << 0, t1, ..., dsize >>]                                     *)
(*                                                                         *)
(* runs   the Leaf Nodes with a non-empty DRange ("chunks"), in DSpace      *)
(*        order, run-length encoded: n consecutive chunks that start at     *)
(*        DOffset lo, each size bytes long.  Of chunk j of the run (from    *)
(*        0) the first expls[(j % Len(expls)) + 1] bytes are produced by    *)
(*        the Codec and the rest of its DRange are the implicit NUL bytes   *)
(*        of "Decompressing a Leaf Node" (rac-spec.md); expls is a          *)
(*        pattern that repeats along the run (<<e>>: every chunk stores e   *)
(*        bytes).  codec is the Codec of the Branch Node holding the chunk: *)
(*        0 "RAC + Zeroes" (Short 0x00 or Long 7 NUL bytes; it produces no  *)
(*        bytes: expl = 0, "The DRange is filled with NUL bytes"),          *)
(*        1 Zlib, 2 LZ4, 3 Zstandard.                                       *)
(* top    the DOff values of the Root Node's elements with a non-empty      *)
(*        DRange: top-level element j (from 1) covers [top[j], top[j+1]).   *)
(*        Everything below the root is not part of the geometry: no reply   *)
(*        of a reader may depend on it.  The root's split is kept because   *)
(*        it labels the exported calls (which top-level sub-tree a call     *)
(*        starts in), so that coverage of deep indexes is measured, not     *)
(*        assumed.                                                          *)
(*                                                                         *)
(* The description of a file is written by checks/C14.py; the same runs go  *)
(* to the file builder (harness/cmd/racrreplay/build.go), and the file that *)
(* comes out is walked by the independent walker of C13, judged valid by    *)
(* Trace_RacFormat.tla, and its Leaf Nodes <<DRange, bytes produced,        *)
(* Codec>> are compared with this description before the file is used.      *)
(*                                                                         *)
(* Index shape (arity, depth, Root Node at the CFile start or end, CBias,   *)
(* padding, shared resources, empty-DRange elements, Codec Elements) is     *)
(* deliberately NOT here: the property says that replies equal those of an  *)
(* in-memory reader over the decompressed data, whatever the index looks    *)
(* like.                                                                    *)
(***************************************************************************)
EXTENDS Integers, Sequences

CodecZeroes == 0
CodecKinds == 0..3
Beyond == 4                     \* "codec" label of a position at or after DFileSize

RunLo(r) == r[1]
RunN(r) == r[2]
RunSize(r) == r[3]
RunExpl(r, j) == r[4][(j % Len(r[4])) + 1]      \* of chunk j (from 0) of the run
RunCodec(r) == r[5]
RunHi(r) == RunLo(r) + RunN(r) * RunSize(r)

GeoDSize(g) == RunHi(g.runs[Len(g.runs)])
GeoNChunks(g) ==
  LET RECURSIVE Sum(_)
      Sum(k) == IF k = 0 THEN 0 ELSE RunN(g.runs[k]) + Sum(k - 1)
  IN Sum(Len(g.runs))

\* The geometry is well formed: runs are contiguous from 0, chunks are not
\* empty, a Zeroes chunk stores nothing; top is a strictly increasing list of
\* chunk boundaries from 0 to the DFileSize.
RECURSIVE FindIn(_, _, _, _)
FindIn(s, p, a, b) ==            \* the largest k in a..b with s[k][1] <= p, given s[a][1] <= p
  IF a = b THEN a
  ELSE LET m == (a + b + 1) \div 2
       IN IF s[m][1] <= p THEN FindIn(s, p, m, b) ELSE FindIn(s, p, a, m - 1)

RunAt(g, p) == g.runs[FindIn(g.runs, p, 1, Len(g.runs))]     \* for 0 <= p < GeoDSize(g)

\* The chunk that holds DOffset p, 0 <= p < GeoDSize(g): <<lo, hi, expl, codec>>.
ChunkOf(g, p) ==
  LET r == RunAt(g, p)
      j == (p - RunLo(r)) \div RunSize(r)
      lo == RunLo(r) + j * RunSize(r)
  IN <<lo, lo + RunSize(r), RunExpl(r, j), RunCodec(r)>>

IsBoundary(g, p) == p = GeoDSize(g) \/ (p >= 0 /\ p < GeoDSize(g) /\ ChunkOf(g, p)[1] = p)

RECURSIVE TopFind(_, _, _)
TopFind(t, p, k) == IF k = 1 \/ t[k] <= p THEN k ELSE TopFind(t, p, k - 1)
TopAt(g, p) == TopFind(g.top, p, Len(g.top) - 1)            \* for 0 <= p < GeoDSize(g)

WellFormed(g) ==
  /\ Len(g.runs) >= 1
  /\ RunLo(g.runs[1]) = 0
  /\ \A k \in 1..Len(g.runs) :
       LET r == g.runs[k] IN
       /\ RunN(r) >= 1 /\ RunSize(r) >= 1
       /\ Len(r[4]) >= 1
       /\ \A i \in 1..Len(r[4]) : r[4][i] >= 0 /\ r[4][i] <= RunSize(r)
       /\ RunCodec(r) \in CodecKinds
       /\ (RunCodec(r) = CodecZeroes => \A i \in 1..Len(r[4]) : r[4][i] = 0)
       /\ (k < Len(g.runs) => RunLo(g.runs[k + 1]) = RunHi(r))
  /\ Len(g.top) >= 2
  /\ g.top[1] = 0 /\ g.top[Len(g.top)] = GeoDSize(g)
  /\ \A j \in 1..(Len(g.top) - 1) : g.top[j] < g.top[j + 1] /\ IsBoundary(g, g.top[j])
=============================================================================

-------------------------- MODULE JpegRoundLemmas --------------------------
(***************************************************************************)
(* C18: lemmas relating Nearest (the verdict predicate of Trace_Jpeg) to    *)
(* RoundHalfAway, checked by TLC over the whole valid coefficient range      *)
(* -1024..1023 and every factor in LemmaQ (all of 1..255 in the thorough     *)
(* tier): every <<c, q>> is an initial state.                               *)
(***************************************************************************)
EXTENDS JpegRound, FiniteSets

CONSTANTS LemmaQ
VARIABLES lc, lq

LInit == lc \in (-1024)..1023 /\ lq \in LemmaQ
LSpec == LInit /\ [][UNCHANGED <<lc, lq>>]_<<lc, lq>>

\* rounding half away from zero is a nearest rounding
LemmaHalfAwayIsNearest == Nearest(lc, lq, RoundHalfAway(lc, lq))

\* Nearest determines the result except on exact ties, where exactly the two
\* neighbours qualify (window of +-3 around the quotient; farther integers are
\* farther from c/q)
LemmaNearestUnique ==
    LET r == RoundHalfAway(lc, lq)
        D == {d \in (r - 3)..(r + 3) : Nearest(lc, lq, d)} IN
    IF IsTie(lc, lq) THEN D = {r, r - Sgn(lc)}
                     ELSE D = {r}

\* rounding toward zero is rejected whenever it differs from the nearest
\* integer (so a truncating encoder cannot pass)
LemmaTruncRejected ==
    LET z == RoundTowardZero(lc, lq) IN
    (z # RoundHalfAway(lc, lq) /\ ~IsTie(lc, lq)) => ~Nearest(lc, lq, z)

\* The same three lemmas as one constant-level formula (evaluated once, much
\* faster than 2048 * |LemmaQ| initial states; no counterexample state).
HalfAwayIsNearest(c, q) == Nearest(c, q, RoundHalfAway(c, q))
NearestUnique(c, q) ==
    LET r == RoundHalfAway(c, q)
        D == {d \in (r - 3)..(r + 3) : Nearest(c, q, d)} IN
    IF IsTie(c, q) THEN D = {r, r - Sgn(c)} ELSE D = {r}
TruncRejected(c, q) ==
    LET z == RoundTowardZero(c, q) IN
    (z # RoundHalfAway(c, q) /\ ~IsTie(c, q)) => ~Nearest(c, q, z)
LemmaAll == \A c \in (-1024)..1023, q \in LemmaQ :
                HalfAwayIsNearest(c, q) /\ NearestUnique(c, q) /\ TruncRejected(c, q)
QInit == lc = 0 /\ lq = 1
QSpec == QInit /\ [][UNCHANGED <<lc, lq>>]_<<lc, lq>>
=============================================================================

--------------------------- MODULE FlateCutTable ---------------------------
(***************************************************************************)
(* C16, binding of the result specification to the real code (Mode V,      *)
(* table validation as in C06): harness/cmd/cutreplay calls                *)
(* lib/flatecut.Cut and lib/zlibcut.Cut and records integer rows; every    *)
(* row is one state here and FlateCut!Accept is evaluated on it by TLC.     *)
(*                                                                         *)
(* A rejected row is printed as                                            *)
(*    <<"REJECT", row index, sid, limit, writer?, failed clauses>>         *)
(* (with Strict = FALSE the invariant RowJudged is TRUE on every state so   *)
(* that TLC goes through the whole table and lists EVERY rejected row; the  *)
(* runner requires that TLC visited exactly as many distinct states as      *)
(* there are rows).  With Strict = TRUE the invariant is Accept itself and  *)
(* TLC stops at the first rejected row with a counterexample state (used    *)
(* by `--replay` and by the corrupted-table self-test).                    *)
(*                                                                         *)
(* Row layout (written by cutreplay's rowOf):                              *)
(*  1 sid  2 fmt(0 flate,1 zlib)  3 dict  4 valid  5 len  6 total  7 limit *)
(*  8 w: 0 = call without writer, 1 = call with writer, 2 = both calls were *)
(*       made and gave the same observations 9..16 (17, 18 are those of the *)
(*       call with the writer; the other call trivially wrote nothing)      *)
(*  9 panic  10 err  11 eLen  12 dLen  13 decOK  14 trail  15 decLen        *)
(*  16 decPrefix  17 wLen  18 wPrefix                                       *)
(* Rows are spread over Stride chains (i, i + Stride, ...) so that several  *)
(* TLC workers share the table.                                            *)
(***************************************************************************)
EXTENDS FlateCut, Json

CONSTANTS TableFile, Strict, Stride

Table == JsonDeserialize(TableFile)

Row(t, withWriter) ==
    [fmt |-> IF t[2] = 1 THEN "zlib" ELSE "flate", dict |-> t[3] = 1, valid |-> t[4] = 1,
     len |-> t[5], total |-> t[6], limit |-> t[7], w |-> withWriter,
     panic |-> t[9] = 1, err |-> t[10] = 1, eLen |-> t[11], dLen |-> t[12],
     decOK |-> t[13] = 1, trail |-> t[14], decLen |-> t[15], decPrefix |-> t[16] = 1,
     wLen |-> IF withWriter THEN t[17] ELSE 0, wPrefix |-> IF withWriter THEN t[18] = 1 ELSE TRUE]

\* the calls a table row stands for
Calls(t) == CASE t[8] = 0 -> {Row(t, FALSE)}
              [] t[8] = 1 -> {Row(t, TRUE)}
              [] t[8] = 2 -> {Row(t, FALSE), Row(t, TRUE)}

WellFormedRow(t) == Len(t) = 18 /\ t[8] \in {0, 1, 2} /\ \A j \in {2, 3, 4, 9, 10, 13, 16, 18} : t[j] \in {0, 1}

VARIABLE i

Init == i \in 1..Min2(Stride, Len(Table))
Next == i + Stride <= Len(Table) /\ i' = i + Stride
Spec == Init /\ [][Next]_i

RowAccepted == WellFormedRow(Table[i]) /\ \A r \in Calls(Table[i]) : Accept(r)

RowJudged ==
    IF Strict THEN RowAccepted
    ELSE /\ WellFormedRow(Table[i])
         /\ \A r \in Calls(Table[i]) :
               Accept(r) \/ PrintT(<<"REJECT", i, Table[i][1], r.limit, r.w, Failed(r)>>)
=============================================================================

------------------------------ MODULE PngFilter ------------------------------
(***************************************************************************)
(* C07, format model: the five scanline filters of PNG (ISO/IEC 15948 /     *)
(* W3C PNG section 9, "Filtering"), reconstruction direction.               *)
(*                                                                         *)
(*   x = the byte being reconstructed, a = the byte bpp positions to the   *)
(*   left (0 in the first pixel), b = the byte above (0 in the first row), *)
(*   c = the byte above a (0 in the first row or first pixel)              *)
(*                                                                         *)
(*   0 None     Recon(x) = Filt(x)                                         *)
(*   1 Sub      Recon(x) = Filt(x) + Recon(a)                              *)
(*   2 Up       Recon(x) = Filt(x) + Recon(b)                              *)
(*   3 Average  Recon(x) = Filt(x) + floor((Recon(a) + Recon(b)) / 2)      *)
(*   4 Paeth    Recon(x) = Filt(x) + PaethPredictor(Recon(a), Recon(b),    *)
(*                                                   Recon(c))             *)
(*   all modulo 256; the sum in Average is NOT taken modulo 256;           *)
(*   PaethPredictor: p = a + b - c, pa = |p-a|, pb = |p-b|, pc = |p-c|,    *)
(*   a if pa <= pb and pa <= pc, else b if pb <= pc, else c                *)
(*                                                                         *)
(* A case is an image of `w` pixels x Len(fts) rows with bpp bytes per      *)
(* pixel (1: gray 8, 2: gray+alpha 8, 3: RGB 8, 4: RGBA 8), row r filtered  *)
(* with type fts[r], the FILTERED bytes drawn from {0, 1, 127, 128, 255}    *)
(* (so that every wrap-around and every Paeth tie occurs).  Two families:   *)
(* every pair of filter types on 2-row images (the first row has no row     *)
(* above: all five types are seen in that position), and 127-row images     *)
(* whose filter types follow a de Bruijn sequence, so that every triple of  *)
(* consecutive filter types occurs.  TLC reconstructs the rows, checks that *)
(* the encoder-side filter maps them back to the filtered bytes (the two     *)
(* directions are inverse), and exports <<filtered bytes, expected pixels>> *)
(* A third family ("raw" mode) starts from the PIXEL side: the rows are     *)
(* drawn from {0, 2, 4, 126, 128, 130, 255}, where a is often the exact      *)
(* midpoint of b and c (the Paeth tie pb = pc) and a + b is often odd (the   *)
(* Average rounding), and the filtered bytes are computed with FilterRow.    *)
(* for the real std/png, which gets them as a PNG file built around the     *)
(* filtered bytes (harness/cmd/fmtcases).                                   *)
(***************************************************************************)
EXTENDS Integers, Sequences, TLC, Json, FmtBits

CONSTANTS Widths,        \* image widths in pixels, e.g. {1, 2, 3, 4}
          Bpps,          \* bytes per pixel, subset of {1, 2, 3, 4}
          Fills,         \* fill numbers, e.g. {1} or {1, 2, 3}: different pseudo-random contents per shape
          LongFills,     \* fill numbers for the 127-row images ({} = none)
          RawFills,      \* fill numbers for the pixel-side ("raw") 2-row images with Average/Paeth in the second row
          TieModes,      \* subset of {"tieBC", "tieAC"}: 2-row images whose second row is a Paeth tie in every byte
          Seed           \* VERIF_SEED modulo 65521

Alphabet5 == <<0, 1, 127, 128, 255>>
AlphabetRaw == <<0, 2, 4, 126, 128, 130, 255>>
FilterTypes == 0..4

Abs(v) == IF v < 0 THEN 0 - v ELSE v
Paeth(a, b, c) == LET p == a + b - c
                      pa == Abs(p - a)
                      pb == Abs(p - b)
                      pc == Abs(p - c)
                  IN IF pa <= pb /\ pa <= pc THEN a ELSE IF pb <= pc THEN b ELSE c

Predictor(ft, a, b, c) == CASE ft = 0 -> 0
                            [] ft = 1 -> a
                            [] ft = 2 -> b
                            [] ft = 3 -> (a + b) \div 2
                            [] ft = 4 -> Paeth(a, b, c)

\* prior = reconstructed previous row, <<>> for the first row
At(row, i) == IF i >= 1 /\ i <= Len(row) THEN row[i] ELSE 0

RECURSIVE ReconFrom(_, _, _, _, _, _)
ReconFrom(ft, bpp, filt, prior, i, acc) ==
    IF i > Len(filt) THEN acc
    ELSE ReconFrom(ft, bpp, filt, prior, i + 1,
                   Append(acc, (filt[i] + Predictor(ft, At(acc, i - bpp), At(prior, i), At(prior, i - bpp))) % 256))
ReconRow(ft, bpp, filt, prior) == ReconFrom(ft, bpp, filt, prior, 1, <<>>)

\* the encoder's direction: raw row -> filtered row
FilterRow(ft, bpp, raw, prior) ==
    [i \in 1..Len(raw) |-> (raw[i] + 256 - Predictor(ft, At(raw, i - bpp), At(prior, i), At(prior, i - bpp))) % 256]

RECURSIVE ReconRows(_, _, _, _, _)
ReconRows(fts, bpp, filtRows, r, acc) ==
    IF r > Len(fts) THEN acc
    ELSE ReconRows(fts, bpp, filtRows, r + 1,
                   Append(acc, ReconRow(fts[r], bpp, filtRows[r], IF r = 1 THEN <<>> ELSE acc[r - 1])))
ReconImage(fts, bpp, filtRows) == ReconRows(fts, bpp, filtRows, 1, <<>>)

\* the PNG specification's own remark: Paeth returns one of its three arguments; with b = c it is a, with a = c it is b
ASSUME \A a \in {0, 1, 127, 128, 255}, b \in {0, 1, 127, 128, 255}, c \in {0, 1, 127, 128, 255} :
          /\ Paeth(a, b, c) \in {a, b, c}
          /\ Paeth(a, b, b) = a
          /\ Paeth(a, b, a) = b

---------------------------------------------------------------------------
\* every triple of filter types occurs in this sequence (de Bruijn B(5,3), unrolled)
DeBruijn == <<0, 0, 0, 1, 0, 0, 2, 0, 0, 3, 0, 0, 4, 0, 1, 1, 0, 1, 2, 0, 1, 3, 0, 1, 4, 0, 2, 1, 0, 2, 2, 0, 2, 3, 0, 2, 4, 0, 3, 1,
              0, 3, 2, 0, 3, 3, 0, 3, 4, 0, 4, 1, 0, 4, 2, 0, 4, 3, 0, 4, 4, 1, 1, 1, 2, 1, 1, 3, 1, 1, 4, 1, 2, 2, 1, 2, 3, 1, 2, 4,
              1, 3, 2, 1, 3, 3, 1, 3, 4, 1, 4, 2, 1, 4, 3, 1, 4, 4, 2, 2, 2, 3, 2, 2, 4, 2, 3, 3, 2, 3, 4, 2, 4, 3, 2, 4, 4, 3, 3, 3,
              4, 3, 4, 4, 4, 0, 0>>
ASSUME \A t \in [1..3 -> FilterTypes] : \E i \in 1..(Len(DeBruijn) - 2) : \A j \in 1..3 : DeBruijn[i + j - 1] = t[j]

\* rotate so that different long images start with different filter types
Rotated(k) == [i \in 1..Len(DeBruijn) |-> DeBruijn[((i - 1 + 25 * k) % 125) + 1]]

Shapes == { [w |-> w, bpp |-> b, fts |-> <<f1, f2>>, fill |-> k, mode |-> "filt"] : w \in Widths, b \in Bpps, f1 \in FilterTypes, f2 \in FilterTypes, k \in Fills }
          \cup { [w |-> w, bpp |-> b, fts |-> Rotated(k), fill |-> k, mode |-> "filt"] : w \in Widths, b \in Bpps, k \in LongFills }
          \cup { [w |-> w, bpp |-> b, fts |-> <<f1, f2>>, fill |-> k, mode |-> "raw"] : w \in Widths, b \in Bpps, f1 \in FilterTypes, f2 \in {3, 4}, k \in RawFills }
          \cup { [w |-> w, bpp |-> b, fts |-> Rotated(k + 2), fill |-> k, mode |-> "raw"] : w \in Widths, b \in Bpps, k \in RawFills \cap LongFills }
          \cup { [w |-> w, bpp |-> b, fts |-> <<f1, 4>>, fill |-> 0, mode |-> m] : w \in Widths \ {1}, b \in Bpps, f1 \in FilterTypes, m \in TieModes }

\* bytes of a shape (the filtered bytes in "filt" mode, the pixels in "raw" mode): a pseudo-random walk over the alphabet
RandomRows(sh, alphabet) ==
    LET nrow == sh.w * sh.bpp
        s0 == ((Seed % 65521) * 31 + sh.w * 1009 + sh.bpp * 4001 + sh.fill * 9973 + sh.fts[1] * 211 + sh.fts[2] * 307 + Len(alphabet)) % 65537
        rnd == LcgSeq(s0, nrow * Len(sh.fts))
    IN [r \in 1..Len(sh.fts) |-> [i \in 1..nrow |-> alphabet[((rnd[(r - 1) * nrow + i] \div 7) % Len(alphabet)) + 1]]]
\* Paeth ties by construction (pixel k of a channel: above = 6k + 12): with the row below = 6k + 9 every byte after the
\* first pixel has c = (2a + b) / 3, i.e. pa = 6 > pb = pc = 3 (the tie between b and c must go to b); with the row below
\* = 6k every such byte has c = (a + 2b) / 3, i.e. pa = pc = 6 < pb = 12 (the tie between a and c must go to a)
TieRows(sh) == LET n == sh.w * sh.bpp
               IN << [i \in 1..n |-> 6 * ((i - 1) \div sh.bpp) + 12 + ((i - 1) % sh.bpp)],
                     [i \in 1..n |-> 6 * ((i - 1) \div sh.bpp) + (IF sh.mode = "tieBC" THEN 9 ELSE 0) + ((i - 1) % sh.bpp)] >>
PixelRows(sh) == IF sh.mode = "raw" THEN RandomRows(sh, AlphabetRaw) ELSE TieRows(sh)
FilterImage(fts, bpp, rawRows) == [r \in 1..Len(fts) |-> FilterRow(fts[r], bpp, rawRows[r], IF r = 1 THEN <<>> ELSE rawRows[r - 1])]

VARIABLES sh,      \* the shape
          filt,    \* its filtered rows
          recon    \* the reconstructed rows (computed once per case)

Init == /\ sh \in Shapes
        /\ filt = IF sh.mode = "filt" THEN RandomRows(sh, Alphabet5) ELSE FilterImage(sh.fts, sh.bpp, PixelRows(sh))
        /\ recon = ReconImage(sh.fts, sh.bpp, filt)
Next == UNCHANGED <<sh, filt, recon>>
Spec == Init /\ [][Next]_<<sh, filt, recon>>

TypeOK == /\ Len(recon) = Len(sh.fts)
          /\ \A r \in 1..Len(recon) : Len(recon[r]) = sh.w * sh.bpp /\ \A i \in 1..Len(recon[r]) : recon[r][i] \in 0..255
\* in "raw" mode the reconstruction gives the pixels the filtered bytes were computed from
RawRoundTrip == sh.mode # "filt" => recon = PixelRows(sh)
\* the constructed rows really are ties, and the specification resolves them as the PNG text says
TiesAreTies == sh.mode \in {"tieBC", "tieAC"} =>
                 \A i \in (sh.bpp + 1)..(sh.w * sh.bpp) :
                    LET a == recon[2][i - sh.bpp]
                        b == recon[1][i]
                        c == recon[1][i - sh.bpp]
                        pa == Abs(b - c)
                        pb == Abs(a - c)
                        pc == Abs(a + b - 2 * c)
                    IN IF sh.mode = "tieBC" THEN pb = pc /\ pa > pb /\ Paeth(a, b, c) = b
                                            ELSE pa = pc /\ pa < pb /\ Paeth(a, b, c) = a
FilterInverts == \A r \in 1..Len(recon) :
                    FilterRow(sh.fts[r], sh.bpp, recon[r], IF r = 1 THEN <<>> ELSE recon[r - 1]) = filt[r]
Export == PrintT(ToJson([fmt |-> "pngfilter", w |-> sh.w, h |-> Len(sh.fts), bpp |-> sh.bpp, fts |-> sh.fts, fill |-> sh.fill, mode |-> sh.mode,
                         filt |-> Flatten(filt), recon |-> Flatten(recon)]))
=============================================================================

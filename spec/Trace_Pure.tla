----------------------------- MODULE Trace_Pure -----------------------------
(***************************************************************************)
(* C10, frame condition of pure methods on GENERATED PROGRAMS (the std      *)
(* objects are covered by Trace_Std, clause PureLeavesReceiverUnchanged).   *)
(*                                                                         *)
(* TwoObjects!PureIsFrame says a Pure step leaves every variable unchanged. *)
(* The replay driver of the WuffsCore pipeline (lib/wcore.gen_driver_c)     *)
(* snapshots the receiver's bytes and the destination buffer around every   *)
(* call of a method DECLARED pure and records one row per call:             *)
(*   [prog, fn, pure, objchg, bufchg]                                       *)
(* Each row is one initial state; RowOK is the invariant.                   *)
(***************************************************************************)
EXTENDS Integers, Sequences, TLC, Json

CONSTANT RowsFile
Rows == ndJsonDeserialize(RowsFile)

VARIABLE k
Init == k \in 1..Len(Rows)
Next == UNCHANGED k
Spec == Init /\ [][Next]_k

\* a method declared pure changes neither its receiver nor any buffer
RowOK == LET r == Rows[k] IN r.pure => (~r.objchg /\ ~r.bufchg)
=============================================================================

----------------------------- MODULE GzipFrame -----------------------------
(***************************************************************************)
(* C07, format model: the gzip container of RFC 1952 (a file is a series    *)
(* of members) around DEFLATE bodies of DeflateStored's subset.             *)
(*                                                                         *)
(*   ID1 = 31, ID2 = 139, CM = 8, FLG, MTIME (4, little-endian), XFL, OS   *)
(*   [XLEN (2, LE) + XLEN bytes]      if FLG.FEXTRA   (bit 2)              *)
(*   [file name, zero-terminated]     if FLG.FNAME    (bit 3)              *)
(*   [comment, zero-terminated]       if FLG.FCOMMENT (bit 4)              *)
(*   [CRC16 (2, LE) = low 16 bits of the CRC-32 of the header so far]      *)
(*                                    if FLG.FHCRC    (bit 1)              *)
(*   compressed blocks                                                      *)
(*   CRC32 (4, LE) of the uncompressed data;  ISIZE (4, LE) = size mod 2^32*)
(*                                                                         *)
(* FTEXT (bit 0) is a hint.  TLC checks that the independent reader         *)
(* Unframe gives back every member's payload and that CRC16/CRC32/ISIZE     *)
(* are the values of Crc.tla's bitwise CRC-32, and exports the cases:       *)
(* whole file, and per member its length and payload (the Wuffs decoder     *)
(* decodes one member per object; the runner chains the members by the      *)
(* consumed byte count that the real decoder reports).                      *)
(***************************************************************************)
EXTENDS Integers, Sequences, FiniteSets, TLC, Json, CrcDefs

CONSTANTS GMaxBlocks, GPads,
          FlagSets1,       \* flag sets of the first member: a set of subsets of FlagNames
          FlagSets2,       \* flag sets of later members
          GMaxMembers,     \* 1..3
          FieldVariants,   \* subset of {"short", "empty", "long"}: contents of the optional fields
          GDataSet         \* the byte strings a block may carry (cfg: GDataSet <- GDataSmall or GDataAll)

FlagNames == {"FTEXT", "FHCRC", "FEXTRA", "FNAME", "FCOMMENT"}
AllFlagSets == SUBSET FlagNames
FewFlagSets == { {}, {"FNAME"}, {"FHCRC", "FEXTRA", "FCOMMENT"}, FlagNames }
GDataAll == { <<>>, <<0>>, <<255, 1>>, <<143, 144, 128>> }
GDataSmall == { <<>>, <<255, 1>> }

D == INSTANCE DeflateStored WITH MaxBlocks <- GMaxBlocks, DataChoices <- GDataSet, Pads <- GPads, c <- <<>>

Tab32 == FastTabOf(PolyCrc32)            \* evaluated once by TLC
Crc32LE(bs) == Crc32LEWith(Tab32, bs)

Field(which, variant) ==
    CASE variant = "empty" -> <<>>
      [] variant = "short" -> (CASE which = "extra" -> <<65, 80, 2, 0, 1, 2>>        \* one subfield "AP", 2 bytes
                                 [] which = "name" -> <<97, 46, 116, 120, 116>>      \* a.txt
                                 [] which = "comment" -> <<104, 105>>)               \* hi
      [] variant = "long" -> (CASE which = "extra" -> [i \in 1..40 |-> (i * 7) % 256]
                                [] which = "name" -> [i \in 1..33 |-> 97 + (i % 26)]
                                [] which = "comment" -> [i \in 1..19 |-> 200 + i])   \* ISO 8859-1 bytes above 127

Members(fsets) == [flags : fsets, variant : FieldVariants, body : D!Streams]
Files == UNION { { <<m>> : m \in Members(FlagSets1) },
                 IF GMaxMembers >= 2 THEN { <<m1, m2>> : m1 \in Members(FlagSets2), m2 \in Members(FlagSets2) } ELSE {},
                 IF GMaxMembers >= 3 THEN { <<m1, m2, m3>> : m1 \in Members({{}}), m2 \in Members(FlagSets2), m3 \in Members({{"FNAME"}}) } ELSE {} }

FlagByte(fl) == (IF "FTEXT" \in fl THEN 1 ELSE 0) + (IF "FHCRC" \in fl THEN 2 ELSE 0) + (IF "FEXTRA" \in fl THEN 4 ELSE 0)
                + (IF "FNAME" \in fl THEN 8 ELSE 0) + (IF "FCOMMENT" \in fl THEN 16 ELSE 0)

HeaderNoCrc(m) ==
    LET ex == Field("extra", m.variant)
    IN <<31, 139, 8, FlagByte(m.flags), 21, 205, 91, 7, 2, 3>>        \* MTIME 123456789, XFL 2, OS 3 (Unix)
       \o (IF "FEXTRA" \in m.flags THEN <<Len(ex) % 256, Len(ex) \div 256>> \o ex ELSE <<>>)
       \o (IF "FNAME" \in m.flags THEN Field("name", m.variant) \o <<0>> ELSE <<>>)
       \o (IF "FCOMMENT" \in m.flags THEN Field("comment", m.variant) \o <<0>> ELSE <<>>)

Header(m) == LET h == HeaderNoCrc(m)
             IN IF "FHCRC" \in m.flags THEN h \o SubSeq(Crc32LE(h), 1, 2) ELSE h

Trailer(out) == Crc32LE(out) \o <<Len(out) % 256, (Len(out) \div 256) % 256, 0, 0>>

MemberBytes(m) == Header(m) \o D!EncodeBytes(m.body) \o Trailer(D!Payload(m.body))
FileBytes(f) == Flatten([i \in 1..Len(f) |-> MemberBytes(f[i])])

---------------------------------------------------------------------------
(* independent reader: one member starting after offset off                *)

RECURSIVE ZeroAt(_, _)
ZeroAt(bs, i) == IF i > Len(bs) THEN 0 ELSE IF bs[i] = 0 THEN i ELSE ZeroAt(bs, i + 1)   \* index of the first 0 at or after i

ReadMember(bs, off) ==
    IF Len(bs) < off + 10 THEN [ok |-> FALSE, why |-> "truncated"]
    ELSE IF bs[off + 1] # 31 \/ bs[off + 2] # 139 THEN [ok |-> FALSE, why |-> "bad header"]
    ELSE IF bs[off + 3] # 8 THEN [ok |-> FALSE, why |-> "bad compression method"]
    ELSE LET flg == bs[off + 4]
             p0 == off + 10
             p1 == IF (flg \div 4) % 2 = 1 THEN p0 + 2 + bs[p0 + 1] + 256 * bs[p0 + 2] ELSE p0
             p2 == IF (flg \div 8) % 2 = 1 THEN ZeroAt(bs, p1 + 1) ELSE p1
             p3 == IF (flg \div 16) % 2 = 1 THEN ZeroAt(bs, p2 + 1) ELSE p2
             p4 == IF (flg \div 2) % 2 = 1 THEN p3 + 2 ELSE p3
             hcrcOK == (flg \div 2) % 2 = 1 => SubSeq(bs, p3 + 1, p3 + 2) = SubSeq(Crc32LE(SubSeq(bs, off + 1, p3)), 1, 2)
         IN IF flg \div 32 # 0 THEN [ok |-> FALSE, why |-> "reserved flag"]
            ELSE IF p2 = 0 \/ p3 = 0 THEN [ok |-> FALSE, why |-> "truncated"]
            ELSE LET r == D!Inflate(SubSeq(bs, p4 + 1, Len(bs)))
                 IN IF ~r.ok THEN [ok |-> FALSE, why |-> r.why]
                    ELSE IF Len(bs) < p4 + r.used + 8 THEN [ok |-> FALSE, why |-> "truncated"]
                    ELSE [ok |-> TRUE, why |-> "", out |-> r.out, next |-> p4 + r.used + 8, hcrcOK |-> hcrcOK,
                          trailer |-> SubSeq(bs, p4 + r.used + 1, p4 + r.used + 8)]

\* RFC 1952 fixed part of the smallest member: 1f 8b 08 00 <mtime> 02 03, then 03 00 (empty fixed block), CRC 0, ISIZE 0
ASSUME MemberBytes([flags |-> {}, variant |-> "empty", body |-> <<[kind |-> "fixed", pad |-> 0, data |-> <<>>]>>])
         = <<31, 139, 8, 0, 21, 205, 91, 7, 2, 3, 3, 0, 0, 0, 0, 0, 0, 0, 0, 0>>

---------------------------------------------------------------------------
VARIABLES f,     \* the abstract file (sequence of members)
          mb     \* its members' bytes (computed once per case)

Init == f \in Files /\ mb = [i \in 1..Len(f) |-> MemberBytes(f[i])]
Next == UNCHANGED <<f, mb>>
Spec == Init /\ [][Next]_<<f, mb>>

RECURSIVE MembersOK(_, _, _)
MembersOK(bs, off, i) ==
    IF i > Len(f) THEN off = Len(bs)
    ELSE LET r == ReadMember(bs, off)
         IN /\ r.ok /\ r.hcrcOK
            /\ r.out = D!Payload(f[i].body)
            /\ r.trailer = Trailer(r.out)
            /\ r.next = off + Len(mb[i])
            /\ MembersOK(bs, r.next, i + 1)
RoundTrip == MembersOK(Flatten(mb), 0, 1)

Export == PrintT(ToJson([fmt |-> "gzip", bytes |-> Flatten(mb),
                         out |-> Flatten([i \in 1..Len(f) |-> D!Payload(f[i].body)]),
                         members |-> [i \in 1..Len(f) |-> [len |-> Len(mb[i]), out |-> D!Payload(f[i].body),
                                                           flags |-> FlagByte(f[i].flags), variant |-> f[i].variant,
                                                           blocks |-> D!Desc(f[i].body)]]]))
=============================================================================

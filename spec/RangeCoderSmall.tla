---------------------------- MODULE RangeCoderSmall ----------------------------
(***************************************************************************)
(* C17, design level: the carry / pending-byte algorithm of the LZMA range *)
(* encoder (RangeCoder.tla: EncBit, ShiftLow, EncFlush) SCALED DOWN so that *)
(* TLC can visit EVERY reachable encoder state, not only short sequences:   *)
(*     a digit has 2 bits (base 4) instead of 8 (base 256),                 *)
(*     low has 4 digits + a carry bit (9 bits instead of 33),               *)
(*     range has 4 digits (8 bits instead of 32), kTopValue = 4^3,          *)
(*     probabilities have 3 bits; every decision may use ANY probability    *)
(*     in 2..6 (this covers every adaptation rule that keeps them there,    *)
(*     as 31..2017 of 2048 are kept at full scale).                         *)
(* Plain integers suffice at this size; the algorithm is the same text.     *)
(*                                                                         *)
(* InvSpec: all reachable (low, range, cache, cacheSize) - the scaled       *)
(*   EncInv (range normalised by ONE shift; low + range <= 2 * 4^4 - 2 * 4; *)
(*   a cache digit of 3 takes no further carry) and no digit overflow when  *)
(*   bytes are written.  cacheSize is unbounded in principle; the state     *)
(*   constraint stops at MaxCs pending digits.                              *)
(* RtSpec: every decision sequence (bit, p in {2, 4, 6}) up to MaxN from    *)
(*   the reset state: the scaled decoder returns the decisions, consumes    *)
(*   all digits, ends with code = 0.                                        *)
(***************************************************************************)
EXTENDS Integers, Sequences, TLC

CONSTANTS MaxCs, MaxN

B == 4
W == 256          \* B^4
Top == 64         \* B^3
PBits == 8        \* 2^3
Probs == 2..6

VARIABLES low, range, cache, cs, bad, out, hist
vars == <<low, range, cache, cs, bad, out, hist>>

Bound(r, p) == (r \div PBits) * p

\* [low, range, cache, cs, bad, out] after ShiftLow
Shift(s) ==
    LET l32  == s.low % W
        c    == s.low \div W
        emit == l32 < (B - 1) * Top \/ c = 1
    IN  [low |-> (l32 % Top) * B, range |-> s.range,
         cache |-> IF emit THEN l32 \div Top ELSE s.cache,
         cs |-> IF emit THEN 1 ELSE s.cs + 1,
         bad |-> s.bad \/ (emit /\ s.cache + c > B - 1) \/ c > 1,
         out |-> IF emit THEN s.out \o <<(s.cache + c) % B>> \o [i \in 1..(s.cs - 1) |-> (B - 1 + c) % B] ELSE s.out]

Enc(s, p, bit) ==
    LET b  == Bound(s.range, p)
        s1 == IF bit = 0 THEN [s EXCEPT !.range = b] ELSE [s EXCEPT !.low = s.low + b, !.range = s.range - b]
    IN  IF s1.range >= Top THEN s1 ELSE Shift([s1 EXCEPT !.range = s1.range * B])

Flush(s) == Shift(Shift(Shift(Shift(Shift(s)))))

Cur(o) == [low |-> low, range |-> range, cache |-> cache, cs |-> cs, bad |-> bad, out |-> o]

Init == low = 0 /\ range = W - 1 /\ cache = 0 /\ cs = 1 /\ bad = FALSE /\ out = <<>> /\ hist = <<>>

\* ---- every reachable state (the bytes written and the history are not kept)
InvNext ==
    \E p \in Probs, bit \in {0, 1} :
        LET s == Enc(Cur(<<>>), p, bit) IN
        /\ low' = s.low /\ range' = s.range /\ cache' = s.cache /\ cs' = s.cs /\ bad' = s.bad
        /\ UNCHANGED <<out, hist>>
InvSpec == Init /\ [][InvNext]_vars
CsBound == cs <= MaxCs

EncInvSmall ==
    /\ range \in Top..(W - 1)                       \* one shift normalises
    /\ low + range <= 2 * W - 2 * B
    /\ cache = B - 1 => low + range <= W            \* no second carry into a full digit
    /\ ~bad /\ ~Flush(Cur(<<>>)).bad
\* every pending-run length up to MaxCs is really reached (checked by violation in the runner)
NoLongRun == cs < MaxCs

\* ---- bounded round trip
RtNext ==
    /\ Len(hist) < MaxN
    /\ \E p \in {2, 4, 6}, bit \in {0, 1} :
        LET s == Enc(Cur(out), p, bit) IN
        /\ low' = s.low /\ range' = s.range /\ cache' = s.cache /\ cs' = s.cs /\ bad' = s.bad /\ out' = s.out
        /\ hist' = Append(hist, <<bit, p>>)
RtSpec == Init /\ [][RtNext]_vars

\* decoder: d = <<code, range, ip>>
RECURSIVE Dec(_, _, _, _, _, _)
Dec(in, code, r, ip, i, acc) ==
    IF i > Len(hist) THEN [code |-> code, ip |-> ip, bits |-> acc, ok |-> TRUE]
    ELSE LET b   == Bound(r, hist[i][2])
             bit == IF code < b THEN 0 ELSE 1
             c1  == IF bit = 0 THEN code ELSE code - b
             r1  == IF bit = 0 THEN b ELSE r - b
         IN  IF r1 >= Top THEN Dec(in, c1, r1, ip, i + 1, Append(acc, bit))
             ELSE IF ip > Len(in) THEN [code |-> c1, ip |-> ip, bits |-> acc, ok |-> FALSE]
             ELSE Dec(in, (c1 * B + in[ip]) % W, r1 * B, ip + 1, i + 1, Append(acc, bit))
RoundTripSmall ==
    LET o == Flush(Cur(out)).out
        r == Dec(o, o[2] * 64 + o[3] * 16 + o[4] * 4 + o[5], W - 1, 6, 1, <<>>)
    IN  /\ Len(o) >= 5 /\ o[1] = 0
        /\ r.ok /\ r.bits = [i \in 1..Len(hist) |-> hist[i][1]]
        /\ r.ip = Len(o) + 1 /\ r.code = 0
=============================================================================

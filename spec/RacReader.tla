----------------------------- MODULE RacReader -----------------------------
(***************************************************************************)
(* C14, sequential half: what a rac.Reader must answer to any sequence of   *)
(* Seek / SeekRange / Read / Close calls, stated as the answers of an       *)
(* IN-MEMORY READER over the decompressed data:                             *)
(*                                                                         *)
(*   Seek(off, whence)   = bytes.Reader.Seek: new position or an error      *)
(*                         (invalid whence, negative position); "Any Seek   *)
(*                         call, such as Seek(0, io.SeekCurrent), will      *)
(*                         remove the high limit" (doc of SeekRange)        *)
(*   SeekRange(lo, hi)   = "Seek(low, io.SeekStart) and wrapping r in an    *)
(*                         io.LimitedReader whose N is (high - low)";       *)
(*                         "the most recent high limit" applies; "returns   *)
(*                         an error if low > high"                          *)
(*   Read(p)             = min(len(p), limit - pos, dsize - pos) bytes,     *)
(*                         which are the decompressed bytes at pos..;       *)
(*                         both io.EOF conventions are accepted:            *)
(*                         (n > 0, EOF) when the read reaches the end, or   *)
(*                         (n, nil) and then (0, EOF)                       *)
(*   Close               = nil on a reader that has not failed              *)
(*                                                                         *)
(* The state is <<pos, lim, err, closed>> plus DSize (a constant of the     *)
(* file) and the chunk cursor <<cur, dr>>.  The cursor is the               *)
(* implementation-shaped part (reader.go's three states A/B/C and dRange);  *)
(* it never influences an expected reply: it labels every exported call     *)
(* with the state the real reader is in when the call arrives (coverage)    *)
(* and carries the code's documented invariant dr[1] <= pos <= dr[2].       *)
(*                                                                         *)
(* After a call whose expected reply is an error (other than io.EOF) and    *)
(* after Close the replies are unconstrained (kind 0): the property does    *)
(* not say what an in-memory reader "would do" there, the code makes its    *)
(* errors sticky.  Such calls are still made (they must return).            *)
(*                                                                         *)
(* Mode R: TLC enumerates every call sequence of length depth over the      *)
(* alphabet of each configuration in Cfgs; the history variable hist holds  *)
(* the calls made so far, each with its expected reply.  TLC is run with    *)
(* -dump and checks/C14.py takes hist of every state with Len(hist) = depth *)
(* out of the dump (printing one line per state from an invariant costs     *)
(* 1 ms per behaviour).  harness/cmd/racrreplay steps the real rac.Reader   *)
(* through each of these behaviours.                                        *)
(*                                                                         *)
(* Call encoding (JSON arrays of integers, in and out):                     *)
(*   alphabet entry  <<op, a, b>>     op 0 Read(len a)   1 Seek(a, whence b)*)
(*                                    2 SeekRange(a, b)  3 Close            *)
(*   exported call   <<op, a, b, kind, n, at, eof, cur, cod, ins, top>>      *)
(*     kind 0 unconstrained, 1 an error (non-EOF) is expected, 2 success    *)
(*     Read:  n bytes, equal to data[at .. at+n); eof 0 = err must be nil,  *)
(*            1 = nil or io.EOF, 2 = must be io.EOF                         *)
(*     Seek:  at = the position returned;  cur 0/1/2 = cursor A/B/C         *)
(*     cod, ins, top: where in the FILE the call starts (labels, like cur:  *)
(*            they never influence a reply): the Codec of the chunk that    *)
(*            holds pos (RacFile: 0 Zeroes .. 3 Zstandard, 4 = at or after   *)
(*            the end), 1 iff pos is strictly inside that chunk, and the    *)
(*            Root Node element (from 1, 0 = beyond) whose DRange holds pos *)
(*                                                                         *)
(* The file of a configuration is a geometry of RacFile.tla: chunk          *)
(* boundaries, bytes stored per chunk and Codec per chunk are a CONSTANT    *)
(* that this module reads (DSize, the chunk cursor, the labels); who wrote  *)
(* the file - rac.Writer, rac.ChunkWriter or the harness's file builder -   *)
(* and how its index is shaped is not visible here, as the property says.   *)
(***************************************************************************)
EXTENDS Integers, Sequences, FiniteSets, TLC, RacFile

CONSTANT Cfgs         \* << [runs |-> << <<lo, n, size, expls, codec>>, ... >>, top |-> <<0, ..., dsize>>,
                      \*     alpha |-> << <<op, a, b>>, ... >>, depth |-> 4], ... >>
                      \* one per file x alphabet; runs/top = the file's geometry (RacFile.tla);
                      \* depth = length of the exported call sequences;
                      \* written by checks/C14.py into a generated module that EXTENDS this one

NCfg == Len(Cfgs)

Inf == 1073741823          \* "no limit" (maxInt64 in the code); above every offset used
Min(a, b) == IF a < b THEN a ELSE b
Max(a, b) == IF a > b THEN a ELSE b

\* The file of configuration c (a geometry of RacFile.tla).  checks/C14.py
\* compares it with the Leaf Nodes that the independent walker finds in the
\* real file and with the chunk list that rac.ChunkReader reports.
DSize(c) == GeoDSize(Cfgs[c])
Chunk(c, p) == ChunkOf(Cfgs[c], p)       \* <<lo, hi, stored, codec>> of the chunk holding p, 0 <= p < DSize(c)

\* Number of bytes of chunk ch that come out of its decompressor (reader.go
\* "State B"); the rest of its DRange is served as implicit zeroes ("State
\* C").  The Zeroes Codec is implemented as a decompressor that produces the
\* whole DRange (reader.go: zeroesReader), although in the file it stores
\* nothing.
Decompressed(ch) == IF ch[4] = CodecZeroes THEN ch[2] - ch[1] ELSE ch[3]

VARIABLES cfg,      \* which configuration (file + alphabet)
          pos, lim, \* the in-memory reader: position, recorded limit (Inf = none)
          err,      \* a call has already been answered with a non-EOF error
          closed,
          cur, dr,  \* chunk cursor: "A" | "B" | "C", and the window [dr[1], dr[2])
          hist

vars == <<cfg, pos, lim, err, closed, cur, dr, hist>>

Init ==
  /\ cfg \in 1..NCfg
  /\ pos = 0 /\ lim = Inf /\ err = FALSE /\ closed = FALSE
  /\ cur = "A" /\ dr = <<0, 0>>
  /\ hist = <<>>

CurCode == CASE cur = "A" -> 0 [] cur = "B" -> 1 [] cur = "C" -> 2

Free == err \/ closed       \* replies are no longer constrained

\* Where in the file the call starts (labels only): <<cod, ins, top>>.
Loc ==
  IF pos >= DSize(cfg) THEN <<Beyond, 0, 0>>
  ELSE LET ch == Chunk(cfg, pos)
       IN <<ch[4], IF pos > ch[1] THEN 1 ELSE 0, TopAt(Cfgs[cfg], pos)>>

Rec(op, a, b, kind, n, at, eof) ==
  <<op, a, b, IF Free THEN 0 ELSE kind, n, at, eof, CurCode>> \o Loc

\* The cursor after the reader has moved to q without reading (a Seek that
\* changes pos resets to State A; one that does not keeps the loaded chunk).
CursorAfterSeek(q) ==
  IF q # pos THEN cur' = "A" /\ dr' = <<q, q>> ELSE UNCHANGED <<cur, dr>>

\* The cursor after bytes up to (excluding) q have been delivered, q > old pos.
CursorAfterRead(q) ==
  LET ch == Chunk(cfg, q - 1)                \* the chunk the last byte came from
      lo == ch[1]
      hi == ch[2]
  IN IF q = hi THEN cur' = "A" /\ dr' = <<q, q>>          \* chunk exhausted (possibly one call later)
     ELSE IF q < lo + Decompressed(ch) THEN cur' = "B" /\ dr' = <<q, hi>>
     ELSE cur' = "C" /\ dr' = <<q, hi>>

Fail(rec) ==     \* the call is answered with an error; afterwards unconstrained
  /\ hist' = Append(hist, rec)
  /\ err' = TRUE
  /\ UNCHANGED <<cfg, pos, lim, closed, cur, dr>>

Seek(off, wh) ==
  LET base == CASE wh = 0 -> 0 [] wh = 1 -> pos [] wh = 2 -> DSize(cfg) [] OTHER -> 0
      q == base + off
  IN IF wh \notin {0, 1, 2} \/ q < 0
     THEN Fail(Rec(1, off, wh, 1, 0, 0, 0))
     ELSE /\ hist' = Append(hist, Rec(1, off, wh, 2, 0, q, 0))
          /\ pos' = q /\ lim' = Inf
          /\ CursorAfterSeek(q)
          /\ UNCHANGED <<cfg, err, closed>>

SeekRange(lo, hi) ==
  IF lo > hi \/ lo < 0
  THEN Fail(Rec(2, lo, hi, 1, 0, 0, 0))
  ELSE /\ hist' = Append(hist, Rec(2, lo, hi, 2, 0, lo, 0))
       /\ pos' = lo /\ lim' = hi
       /\ CursorAfterSeek(lo)
       /\ UNCHANGED <<cfg, err, closed>>

Read(n) ==
  LET end == Min(lim, DSize(cfg))            \* LimitedReader over the in-memory reader
      cnt == Min(n, Max(0, end - pos))
      eof == IF cnt > 0 THEN (IF pos + cnt >= end THEN 1 ELSE 0)
             ELSE IF pos >= end THEN (IF n = 0 THEN 1 ELSE 2)   \* (0, nil) is allowed only for len(p) = 0
             ELSE 0                                             \* n = 0 before the end: (0, nil)
  IN /\ hist' = Append(hist, Rec(0, n, 0, 2, cnt, pos, eof))
     /\ pos' = pos + cnt
     /\ IF cnt > 0 THEN CursorAfterRead(pos + cnt) ELSE UNCHANGED <<cur, dr>>
     /\ UNCHANGED <<cfg, lim, err, closed>>

Close ==
  /\ hist' = Append(hist, Rec(3, 0, 0, 2, 0, 0, 0))
  /\ closed' = TRUE
  /\ UNCHANGED <<cfg, pos, lim, err, cur, dr>>

Call(x) ==
  CASE x[1] = 0 -> Read(x[2])
    [] x[1] = 1 -> Seek(x[2], x[3])
    [] x[1] = 2 -> SeekRange(x[2], x[3])
    [] x[1] = 3 -> Close

Next ==
  /\ Len(hist) < Cfgs[cfg].depth
  /\ \E i \in 1..Len(Cfgs[cfg].alpha) : Call(Cfgs[cfg].alpha[i])

Spec == Init /\ [][Next]_vars

-----------------------------------------------------------------------------
\* The code's documented invariant on the cursor window, and sanity of the
\* abstract state (properties of this specification).
CursorInv == dr[1] <= pos /\ pos <= dr[2] /\ (cur = "A" => dr[1] = dr[2])
StateInv == pos >= 0 /\ lim >= 0

\* The states whose hist is exported (maximal histories).
Maximal == Len(hist) = Cfgs[cfg].depth

ASSUME \A c \in 1..NCfg : WellFormed(Cfgs[c]) /\ DSize(c) > 0 /\ DSize(c) < Inf
=============================================================================

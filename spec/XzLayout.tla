------------------------------ MODULE XzLayout ------------------------------
(***************************************************************************)
(* C17: the .xz container as a state machine over PARSED FIELDS.            *)
(*                                                                         *)
(* Sources: xz-file-format.txt 1.0.4 (Stream Header 2.1.1, Stream Footer    *)
(* 2.1.2, Stream Padding 2.2, Block Header 3.1, Block Padding 3.3, Check    *)
(* 3.4, Index 4, LZMA2 filter 5.3.1) and the LZMA2 chunk table of           *)
(* LZMA-SDK C/Lzma2Dec.c:                                                   *)
(*   00000000           end of the chunk sequence                           *)
(*   00000001 U U       uncompressed chunk, dictionary reset                *)
(*   00000010 U U       uncompressed chunk, no reset                        *)
(*   100uuuuu U U P P   LZMA chunk, no reset                                *)
(*   101uuuuu U U P P   LZMA chunk, state reset                             *)
(*   110uuuuu U U P P S LZMA chunk, state reset + new properties            *)
(*   111uuuuu U U P P S LZMA chunk, state reset + new properties + dict     *)
(*                      reset                                               *)
(* with U U / uuuuu U U = uncompressed size - 1 (16 / 21 bits) and          *)
(* P P = compressed size - 1 (16 bits).                                     *)
(*                                                                         *)
(* Every action takes an event record `e` (one parsed unit of a file, as    *)
(* produced by the independent walker harness/cmd/lzmareplay/walker.go) and *)
(* is enabled iff that unit is legal at this point of the file.  The same   *)
(* actions are used in two ways:                                            *)
(*   - as a trace ACCEPTOR (spec/trace/Trace_XzLayout.tla): the events of   *)
(*     litonlylzma's Encode output, one action per event;                   *)
(*   - as a GENERATOR (XzLayoutGen.tla): TLC proposes events from a small   *)
(*     universe that contains legal and illegal field values and explores   *)
(*     every file shape the actions admit, checking the format theorems     *)
(*     AlignInv .. DoneInv.  This shows the acceptor is not vacuous (every  *)
(*     action is taken, illegal proposals are refused).                     *)
(*                                                                         *)
(* The specification is at the level of the FORMAT, not of the encoder: it  *)
(* allows several blocks, several streams, stream padding, any legal chunk  *)
(* kind, declared sizes in the block header, any check type.                *)
(***************************************************************************)
EXTENDS Integers, Sequences, FiniteSets, TLC

\* Limits that follow from the field widths of the LZMA2 chunk header.
ChunkUMax == 2097152   \* 2 MiB: 21-bit (size - 1)
ChunkCMax == 65536     \* 64 KiB: 16-bit (size - 1)
RawMax    == 65536     \* uncompressed chunk: 16-bit (size - 1)
RcInit    == 5         \* every LZMA chunk starts with 0x00 + 4 bytes of range-coder code

\* Check IDs with a definition (2.1.1.2); the others are reserved.
CheckTypes == {0, 1, 4, 10}
CheckLen(t) == CASE t = 0 -> 0 [] t = 1 -> 4 [] t = 4 -> 8 [] t = 10 -> 32 [] OTHER -> 64

\* Length of the minimal "multibyte integer" encoding (1.2).
RECURSIVE UvLen(_)
UvLen(v) == IF v < 128 THEN 1 ELSE 1 + UvLen(v \div 128)

PadTo4(n) == (4 - (n % 4)) % 4

VARIABLES
    phase,   \* where in the file we are
    off,     \* offset of the next unparsed byte
    check,   \* Check ID of the current stream (Stream Flags)
    hsize,   \* size of the current block's header
    decl,    \* sizes declared in the current block header: [hc, c, hu, u]
    csum,    \* bytes of Compressed Data of the current block so far
    usum,    \* uncompressed bytes of the current block so far
    level,   \* LZMA2: the least control byte the next LZMA chunk may carry
             \*   224: nothing seen yet, a dictionary reset is required
             \*   192: dictionary was reset by an uncompressed chunk: state reset + properties required
             \*     0: anything goes
    recs,    \* <<unpadded size, uncompressed size>> of the finished blocks of this stream
    istart,  \* offset of the Index Indicator
    irec,    \* number of index records read
    isize,   \* size of the Index (with its CRC32)
    utotal,  \* uncompressed bytes of all finished blocks of all streams
    nstream, \* streams started
    nchunks  \* chunks of the current block so far (statistics; bounds the generator)

xzvars == <<phase, off, check, hsize, decl, csum, usum, level, recs, istart, irec, isize, utotal, nstream, nchunks>>

Phases == {"idle", "stream", "blocks", "chunks", "bpad", "check", "index", "footer", "after", "done"}

XzInit ==
    /\ phase = "stream" /\ off = 0 /\ check = 0 /\ hsize = 0
    /\ decl = [hc |-> FALSE, c |-> 0, hu |-> FALSE, u |-> 0]
    /\ csum = 0 /\ usum = 0 /\ level = 224 /\ recs = <<>> /\ istart = 0 /\ irec = 0 /\ isize = 0
    /\ utotal = 0 /\ nstream = 0 /\ nchunks = 0

XzIdle ==
    /\ phase = "idle" /\ off = 0 /\ check = 0 /\ hsize = 0
    /\ decl = [hc |-> FALSE, c |-> 0, hu |-> FALSE, u |-> 0]
    /\ csum = 0 /\ usum = 0 /\ level = 224 /\ recs = <<>> /\ istart = 0 /\ irec = 0 /\ isize = 0
    /\ utotal = 0 /\ nstream = 0 /\ nchunks = 0

\* The same as actions (used by the trace specification between traces).
XzGoto(ph) ==
    /\ phase' = ph /\ off' = 0 /\ check' = 0 /\ hsize' = 0
    /\ decl' = [hc |-> FALSE, c |-> 0, hu |-> FALSE, u |-> 0]
    /\ csum' = 0 /\ usum' = 0 /\ level' = 224 /\ recs' = <<>> /\ istart' = 0 /\ irec' = 0 /\ isize' = 0
    /\ utotal' = 0 /\ nstream' = 0 /\ nchunks' = 0

Tiles(e) == e.off = off /\ off' = off + e.len

---------------------------------------------------------------------------
(* 2.1.1 Stream Header: magic, Stream Flags (first byte reserved = 0,       *)
(* second byte = Check ID in the low nibble, high nibble reserved = 0),     *)
(* CRC32 of the two flag bytes.                                             *)
SHeader(e) ==
    /\ e.ev = "sheader" /\ phase \in {"stream", "after"} /\ Tiles(e)
    /\ off % 4 = 0                        \* a stream starts 4-aligned (2.2)
    /\ e.len = 12 /\ e.magic /\ e.crc
    /\ e.flag0 = 0 /\ e.flag1 \in CheckTypes
    /\ check' = e.flag1 /\ recs' = <<>> /\ irec' = 0 /\ nstream' = nstream + 1
    /\ phase' = "blocks"
    /\ UNCHANGED <<hsize, decl, csum, usum, level, istart, isize, utotal, nchunks>>

(* 3.1 Block Header.                                                        *)
BHeader(e) ==
    /\ e.ev = "bheader" /\ phase = "blocks" /\ Tiles(e)
    /\ off % 4 = 0
    /\ e.sizebyte \in 1..255 /\ e.len = (e.sizebyte + 1) * 4
    /\ (e.bflags \div 4) % 16 = 0                     \* reserved bits 2..5
    /\ e.nfilt = (e.bflags % 4) + 1
    /\ e.hasc = ((e.bflags \div 64) % 2 = 1)
    /\ e.hasu = (e.bflags \div 128 = 1)
    /\ IF e.hasc THEN ~e.cbig /\ e.csize >= 1 /\ e.clen = UvLen(e.csize) ELSE e.clen = 0
    /\ IF e.hasu THEN ~e.ubig /\ e.ulen = UvLen(e.usize) ELSE e.ulen = 0
    /\ e.otherfids                                    \* non-last filters are Delta/BCJ ids
    /\ e.fid = 33 /\ e.fidlen = 1                     \* last filter: LZMA2
    /\ e.psize = 1 /\ e.dict \in 0..40                \* one property byte: dictionary size code
    /\ e.nfilt = 1 => e.filtlen = 3
    /\ e.padlen >= 0 /\ e.padzero /\ e.crc
    /\ 2 + e.clen + e.ulen + e.filtlen + e.padlen + 4 = e.len
    /\ hsize' = e.len
    /\ decl' = [hc |-> e.hasc, c |-> e.csize, hu |-> e.hasu, u |-> e.usize]
    /\ csum' = 0 /\ usum' = 0 /\ level' = 224 /\ nchunks' = 0
    /\ phase' = "chunks"
    /\ UNCHANGED <<check, recs, istart, irec, isize, utotal, nstream>>

(* 5.3.1 LZMA2 chunks.                                                      *)
RawChunk(e) ==
    /\ e.ctrl \in {1, 2}
    /\ e.ctrl = 2 => level # 224                      \* the first chunk must reset the dictionary
    /\ e.hdrlen = 3 /\ ~e.hasprops
    /\ e.usize \in 1..RawMax /\ e.csize = e.usize
    /\ level' = IF e.ctrl = 1 THEN 192 ELSE level

LzmaProps(p) == [lc |-> p % 9, lp |-> (p \div 9) % 5, pb |-> p \div 45]

LzmaChunk(e) ==
    /\ e.ctrl \in 128..255
    /\ e.ctrl >= level                                \* resets present where they are required
    /\ e.hasprops = (e.ctrl >= 192)
    /\ e.hdrlen = IF e.hasprops THEN 6 ELSE 5
    /\ e.hasprops => /\ e.props < 225
                     /\ LzmaProps(e.props).lc + LzmaProps(e.props).lp <= 4   \* LZMA2's limit
    /\ e.usize \in 1..ChunkUMax
    /\ (e.usize - 1) \div 65536 = e.ctrl % 32         \* the five high size bits live in the control byte
    /\ e.csize \in RcInit..ChunkCMax                    \* the packed-size field has 16 bits (size - 1): a range-coded
                                                      \* segment of more than 65536 bytes cannot be an LZMA chunk.
                                                      \* The field IS the number of range-coded bytes that follow:
                                                      \* the events tile the file (Chunk: e.len = hdrlen + csize), and
                                                      \* RangeCoder!XzChunks decodes exactly csize bytes (nothing left,
                                                      \* code = 0).  An uncompressed chunk may be used for any data of
                                                      \* 1..65536 bytes; the format does not prescribe the choice.
    /\ e.first = 0 /\ ~e.initff                       \* range coder initialisation bytes
    /\ level' = 0

Chunk(e) ==
    /\ e.ev = "chunk" /\ phase = "chunks" /\ Tiles(e)
    /\ (RawChunk(e) \/ LzmaChunk(e))
    /\ e.len = e.hdrlen + e.csize
    /\ csum' = csum + e.len /\ usum' = usum + e.usize /\ nchunks' = nchunks + 1
    /\ UNCHANGED <<phase, check, hsize, decl, recs, istart, irec, isize, utotal, nstream>>

ChunkEnd(e) ==
    /\ e.ev = "cend" /\ phase = "chunks" /\ Tiles(e) /\ e.len = 1
    /\ csum' = csum + 1
    /\ decl.hc => decl.c = csum + 1                   \* 3.1.3 Compressed Size
    /\ decl.hu => decl.u = usum                       \* 3.1.4 Uncompressed Size
    /\ phase' = "bpad"
    /\ UNCHANGED <<check, hsize, decl, usum, level, recs, istart, irec, isize, utotal, nstream, nchunks>>

(* 3.3 Block Padding: 0-3 null bytes making the block a multiple of four.   *)
BPad(e) ==
    /\ e.ev = "bpad" /\ phase = "bpad" /\ Tiles(e)
    /\ e.len = PadTo4(off) /\ e.zero
    /\ phase' = "check"
    /\ UNCHANGED <<check, hsize, decl, csum, usum, level, recs, istart, irec, isize, utotal, nstream, nchunks>>

(* 3.4 Check: size by Check ID; the value is the check of the uncompressed  *)
(* data (computed by the walker over the bytes the block must decode to).   *)
Check(e) ==
    /\ e.ev = "check" /\ phase = "check" /\ Tiles(e)
    /\ e.len = CheckLen(check) /\ e.ok
    /\ recs' = Append(recs, <<hsize + csum + CheckLen(check), usum>>)
    /\ utotal' = utotal + usum
    /\ phase' = "blocks"
    /\ UNCHANGED <<check, hsize, decl, csum, usum, level, istart, irec, isize, nstream, nchunks>>

(* 4. Index.                                                                *)
IHead(e) ==
    /\ e.ev = "ihead" /\ phase = "blocks" /\ Tiles(e)
    /\ off % 4 = 0
    /\ e.indicator = 0
    /\ ~e.nrecbig /\ e.nrec = Len(recs)               \* 4.2 Number of Records
    /\ e.nlen = UvLen(e.nrec) /\ e.len = 1 + e.nlen
    /\ istart' = off /\ irec' = 0
    /\ phase' = "index"
    /\ UNCHANGED <<check, hsize, decl, csum, usum, level, recs, isize, utotal, nstream, nchunks>>

IRec(e) ==
    /\ e.ev = "irec" /\ phase = "index" /\ Tiles(e)
    /\ irec < Len(recs)
    /\ ~e.big
    /\ e.unpadded = recs[irec + 1][1]                 \* 4.3.1 Unpadded Size
    /\ e.uncomp = recs[irec + 1][2]                   \* 4.3.2 Uncompressed Size
    /\ e.unlen = UvLen(e.unpadded) /\ e.uclen = UvLen(e.uncomp)
    /\ e.len = e.unlen + e.uclen
    /\ irec' = irec + 1
    /\ UNCHANGED <<phase, check, hsize, decl, csum, usum, level, recs, istart, isize, utotal, nstream, nchunks>>

IEnd(e) ==
    /\ e.ev = "iend" /\ phase = "index" /\ Tiles(e)
    /\ irec = Len(recs)
    /\ e.padlen = PadTo4(off - istart) /\ e.padzero   \* 4.4 Index Padding
    /\ e.crc /\ e.len = e.padlen + 4                  \* 4.5 CRC32
    /\ isize' = off + e.len - istart
    /\ phase' = "footer"
    /\ UNCHANGED <<check, hsize, decl, csum, usum, level, recs, istart, irec, utotal, nstream, nchunks>>

(* 2.1.2 Stream Footer: CRC32, Backward Size (real size of the Index =       *)
(* (stored + 1) * 4), Stream Flags identical to the header's, magic "YZ".   *)
Footer(e) ==
    /\ e.ev = "footer" /\ phase = "footer" /\ Tiles(e)
    /\ e.len = 12 /\ e.crc /\ e.magic
    /\ ~e.bsizebig /\ (e.bsize + 1) * 4 = isize
    /\ e.flag0 = 0 /\ e.flag1 = check
    /\ phase' = "after"
    /\ UNCHANGED <<check, hsize, decl, csum, usum, level, recs, istart, irec, isize, utotal, nstream, nchunks>>

(* 2.2 Stream Padding: null bytes, a multiple of four.                      *)
SPad(e) ==
    /\ e.ev = "spad" /\ phase = "after" /\ Tiles(e)
    /\ e.len > 0 /\ e.len % 4 = 0
    /\ phase' = "stream"
    /\ UNCHANGED <<check, hsize, decl, csum, usum, level, recs, istart, irec, isize, utotal, nstream, nchunks>>

(* End of file: after a footer or after stream padding.  `flen` is the file *)
(* size, `plen` the number of bytes the file has to decode to.              *)
XzEof(e, flen, plen) ==
    /\ e.ev = "eof" /\ phase \in {"after", "stream"} /\ nstream >= 1
    /\ e.off = off /\ off = flen /\ e.len = 0
    /\ utotal = plen
    /\ phase' = "done"
    /\ UNCHANGED <<off, check, hsize, decl, csum, usum, level, recs, istart, irec, isize, utotal, nstream, nchunks>>

XzStep(e, flen, plen) ==
    \/ SHeader(e) \/ BHeader(e) \/ Chunk(e) \/ ChunkEnd(e) \/ BPad(e) \/ Check(e)
    \/ IHead(e) \/ IRec(e) \/ IEnd(e) \/ Footer(e) \/ SPad(e) \/ XzEof(e, flen, plen)

---------------------------------------------------------------------------
(* Format theorems, checked in generator mode (XzLayoutGen.tla).                               *)

TypeOK ==
    /\ phase \in Phases /\ off \in Nat /\ check \in CheckTypes
    /\ level \in {0, 192, 224} /\ irec \in 0..Len(recs)

\* Blocks, the index, the footer and whole streams are 4-aligned.
AlignInv == phase \in {"blocks", "footer", "after", "stream", "done"} => off % 4 = 0

\* Every index record describes a block that is large enough to exist:
\* header >= 8, at least the end-of-chunks byte, the check.
RecsInv == \A k \in DOMAIN recs : recs[k][1] >= 8 + 1 + CheckLen(check) /\ recs[k][2] >= 0

\* The smallest stream: header 12, empty index 8, footer 12.
DoneInv == phase = "done" => off >= 32

\* Backward Size always points at the Index Indicator.
FooterInv == phase = "after" => isize >= 8 /\ isize % 4 = 0

=============================================================================

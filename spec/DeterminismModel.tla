--------------------------- MODULE DeterminismModel ---------------------------
(***************************************************************************)
(* A closed model of the adversary of C20: a generator that produces its   *)
(* output by walking a Go map.  Go randomises map iteration per process    *)
(* and per map, so the walk picks ANY remaining key next; a generator that *)
(* sorts the keys first (what internal/cgen, cmd/wuffs and cmd/wuffs-c do: *)
(* declaration-order lists for output, maps for look-up only, sort.Strings *)
(* on every enumeration) always picks the least remaining key.             *)
(*                                                                         *)
(* Each run compiles one of the packages in NameSets (a package = the set  *)
(* of names the generator has to emit; names are byte-value sequences, as  *)
(* in the listdir events) and is recorded as [key, sha] with the output    *)
(* sequence itself as the (injective) digest.  Checked by TLC:             *)
(*   Sorting = TRUE :  FunctionalDependence(runs) and ListingsSorted are   *)
(*                     invariants (different packages still give different *)
(*                     outputs: F is not constant);                        *)
(*   Sorting = FALSE:  TLC finds a behaviour in which two runs of one      *)
(*                     package differ (FunctionalDependence violated) and  *)
(*                     one in which a listing is not sorted.               *)
(* So the acceptance predicate of Trace_Determinism is not vacuous, and    *)
(* the first-order form equals the literal "one F explains all runs".      *)
(***************************************************************************)
EXTENDS Integers, Sequences, FiniteSets, TLC

CONSTANTS NameSets,   \* set of packages; a package is a set of names (sequences of byte values)
          Sorting,    \* BOOLEAN
          NRuns       \* number of compilations recorded

INSTANCE Determinism

VARIABLES run,    \* index of the current compilation
          pkg,    \* the package being compiled ({} = none chosen yet)
          todo,   \* names not yet emitted
          out,    \* output so far
          runs    \* recorded [key, sha]

vars == <<run, pkg, todo, out, runs>>

Least(S) == CHOOSE x \in S : \A y \in S \ {x} : LexLess(x, y)

Init == run = 1 /\ pkg = {} /\ todo = {} /\ out = <<>> /\ runs = {}

Start == /\ run <= NRuns /\ pkg = {}
         /\ \E p \in NameSets : pkg' = p /\ todo' = p
         /\ UNCHANGED <<run, out, runs>>

Emit == /\ pkg # {} /\ todo # {}
        /\ \E k \in (IF Sorting THEN {Least(todo)} ELSE todo) :
              out' = Append(out, k) /\ todo' = todo \ {k}
        /\ UNCHANGED <<run, pkg, runs>>

Finish == /\ pkg # {} /\ todo = {}
          /\ runs' = runs \cup {[key |-> pkg, sha |-> out]}
          /\ run' = run + 1 /\ pkg' = {} /\ out' = <<>>
          /\ UNCHANGED todo

Next == Start \/ Emit \/ Finish
Spec == Init /\ [][Next]_vars

\* ---- properties ------------------------------------------------------------

OneFunction == FunctionalDependence(runs)

ListingsSorted == \A r \in runs : StrictlySorted(r.sha)

\* the first-order form is the literal definition
FormsAgree == FunctionalDependence(runs) <=> ExplainedByOneFunction(runs)

\* F is not a constant function: with more than one package there are two
\* recorded runs with different outputs although OneFunction holds.  (Checked
\* as a property that must be VIOLATED, i.e. TLC exhibits such a state.)
NeverTwoOutputs == Cardinality({r.sha : r \in runs}) <= 1

\* LexLess is a strict total order on the names used (a property of the
\* definition, evaluated on the constant universe)
Names == UNION NameSets
LexIsStrictTotalOrder ==
    /\ \A a \in Names : ~LexLess(a, a)
    /\ \A a, b \in Names : a # b => (LexLess(a, b) /\ ~LexLess(b, a)) \/ (LexLess(b, a) /\ ~LexLess(a, b))
    /\ \A a, b, c \in Names : LexLess(a, b) /\ LexLess(b, c) => LexLess(a, c)

ASSUME LexIsStrictTotalOrder

\* ---- constant values for the cfg files (tuples cannot be written in a cfg) ---
\* "a" < "a.w" < "ab" < "b" < "b0": prefixes, a first-difference pair, '.' < letters
NamesSmall == {<<97>>, <<97, 46, 119>>, <<97, 98>>, <<98>>}
PkgsSmall == {{<<97>>, <<97, 98>>, <<98>>}, {<<97>>, <<97, 46, 119>>}}
PkgsLarge == {NamesSmall, {<<97>>, <<97, 98>>, <<98>>}, {<<98>>, <<98, 48>>}, {<<97, 46, 119>>}}
=============================================================================

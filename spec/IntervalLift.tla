---------------------------- MODULE IntervalLift ----------------------------
(***************************************************************************)
(* C06, second layer.  The small-universe table of Interval.tla is lifted  *)
(* by the harness to far-away operand regions (2^31, 2^32, 2^63, 2^64,      *)
(* 2^100 ...) where TLC's 32-bit integers cannot go.  The harness moves     *)
(* operands with a lift and moves the real code's answer back with the      *)
(* inverse; the un-lifted answer is then validated by Interval!RowOK.       *)
(* That is only sound if the exact hull commutes with each lift.  This      *)
(* module states those laws and TLC checks them for every finite operand    *)
(* pair of a small universe and small lift parameters; they are laws about  *)
(* integers (corners of a box; low bits independent of high bits), so they  *)
(* do not depend on the magnitude of the parameter.                        *)
(***************************************************************************)
EXTENDS Interval

CONSTANTS KS, JS, CS, DS   \* small lift parameters to check the laws at
VARIABLES k, j, c, d

Fin == { i \in Universe : AllFinite(i) }
M(i) == i.lo .. i.hi                                   \* members of a finite interval

HullPairs(o, MX, MY) ==
    { Apply(o, p[1], p[2]) : p \in { q \in MX \X MY : Defined(o, q[1], q[2]) } }
Undef(o, MX, MY) == \E a \in MX, b \in MY : ~Defined(o, a, b)

Shift(T, t) == { v + t : v \in T }
Scale(T, e) == { v * Pow2(e) : v \in T }
\* hull of a set as a pair, <<>> when empty
Hull(T) == IF T = {} THEN <<>> ELSE <<SetMin(T), SetMax(T)>>
HShift(h, t) == IF h = <<>> THEN h ELSE <<h[1] + t, h[2] + t>>
HScale(h, e) == IF h = <<>> THEN h ELSE <<h[1] * Pow2(e), h[2] * Pow2(e)>>
HBox(h, e)   == IF h = <<>> THEN h ELSE <<h[1] * Pow2(e), h[2] * Pow2(e) + Pow2(e) - 1>>

\* lifted operand member sets
Tr(i, t)  == (i.lo + t) .. (i.hi + t)
Sc(i, e)  == (i.lo * Pow2(e)) .. (i.hi * Pow2(e))
Box(i, e) == (i.lo * Pow2(e)) .. (i.hi * Pow2(e) + Pow2(e) - 1)

LawTranslate ==
    /\ Hull(HullPairs("add", Tr(x, c), Tr(y, d))) = HShift(Hull(HullPairs("add", M(x), M(y))), c + d)
    /\ Hull(HullPairs("sub", Tr(x, c), Tr(y, d))) = HShift(Hull(HullPairs("sub", M(x), M(y))), c - d)
    /\ Hull(Tr(x, c) \cup Tr(y, c)) = HShift(Hull(M(x) \cup M(y)), c)
    /\ Hull(Tr(x, c) \cap Tr(y, c)) = HShift(Hull(M(x) \cap M(y)), c)

LawScale ==
    /\ Hull(HullPairs("mul", Sc(x, k), Sc(y, j))) = HScale(Hull(HullPairs("mul", M(x), M(y))), k + j)
    /\ Undef("quo", Sc(x, k), Sc(y, k)) = Undef("quo", M(x), M(y))
    /\ ~Undef("quo", M(x), M(y)) =>          \* the result is only looked at when ok
          Hull(HullPairs("quo", Sc(x, k), Sc(y, k))) = Hull(HullPairs("quo", M(x), M(y)))
    \* scaling the DIVIDEND only: exact when every divisor is +-1 or +-2 and the dividend's bounds are even
    \* (the harness uses it to put the dividend at -2^63, 2^63, 2^64 ... against the divisors -1, 1, -2, 2)
    /\ (x.lo % 2 = 0 /\ x.hi % 2 = 0 /\ y.lo >= -2 /\ y.hi <= 2) =>
          /\ Undef("quo", Sc(x, k), M(y)) = Undef("quo", M(x), M(y))
          /\ ~Undef("quo", M(x), M(y)) =>
                Hull(HullPairs("quo", Sc(x, k), M(y))) = HScale(Hull(HullPairs("quo", M(x), M(y))), k)
    /\ Hull(HullPairs("lsh", Sc(x, k), M(y))) = HScale(Hull(HullPairs("lsh", M(x), M(y))), k)
    /\ (y.lo >= 0) =>
          /\ Hull(HullPairs("rsh", Sc(x, k), Tr(y, k))) = Hull(HullPairs("rsh", M(x), M(y)))
          /\ Undef("rsh", Sc(x, k), Tr(y, k)) = Undef("rsh", M(x), M(y))

LawBox ==
    /\ Hull(HullPairs("and", Box(x, k), Box(y, k))) = HBox(Hull(HullPairs("and", M(x), M(y))), k)
    /\ Hull(HullPairs("or",  Box(x, k), Box(y, k))) = HBox(Hull(HullPairs("or",  M(x), M(y))), k)

\* A shift amount that exceeds every operand's bit length gives -1 or 0; the
\* harness uses amounts 64 .. 2^31 (amounts >= 2^32 take a fallback path of the code that computes 2^(2^32) and does not return in minutes, so it is not driven) and the
\* specification's "rshbig" operator states the same thing.
RshBigApply(a) == IF a < 0 THEN -1 ELSE 0
LawRshBig ==
    LET big == 4 + c + 2 IN   \* any amount with 2^amount > B
    (y.lo >= 0) => Hull(HullPairs("rsh", M(x), Tr(y, big))) = Hull({ RshBigApply(a) : a \in M(x) } \cap (IF M(y) = {} THEN {} ELSE {-1, 0}))

\* the decomposition of Interval!SparseExpected against brute force over ALL integers of the scaled intervals
LawSparse ==
    (~IsEmpty(x) /\ ~IsEmpty(y)) =>
        \A o \in {"andsc", "orsc"} :
            LET e == SparseExpected(o, x, y)
                T == { BitOp(o, a, b) : a \in Sc(x, k), b \in Sc(y, k) }
            IN /\ SetMin(T) = e.L * Pow2(k)
               /\ SetMax(T) = e.H * Pow2(k) + e.F * (Pow2(k) - 1)

LInit == /\ x \in Fin /\ y \in Fin /\ op = "laws"
         /\ k \in KS /\ j \in JS /\ c \in { v - 4 : v \in CS } /\ d \in { v - 4 : v \in DS }   \* cfg files cannot hold negative numbers
LNext == UNCHANGED <<x, y, op, k, j, c, d>>
LSpec == LInit /\ [][LNext]_<<x, y, op, k, j, c, d>>
Laws == LawTranslate /\ LawScale /\ LawBox /\ LawRshBig /\ LawSparse
=============================================================================

--------------------------- MODULE Trace_RacChunks ---------------------------
(***************************************************************************)
(* C15: judges what lib/rac DID on hostile files, at property level and    *)
(* not more.  Every line of TraceFile (ndjson, written by                   *)
(* harness/cmd/racireplay and joined by checks/C15.py with the verdict of  *)
(* RacIndex.tla for the same abstract file) is one initial state; the      *)
(* "invariant" Judge evaluates the acceptance predicate on it and prints    *)
(* one VERDICT line for every record that is not accepted.                 *)
(*                                                                         *)
(* A record:                                                               *)
(*   id, n          representative case id, number of identical records    *)
(*   size           claimed size of the file  [hi, lo]  (v = hi*2^24 + lo) *)
(*   sizeint        the same as an integer (all driven sizes are < 2^24)   *)
(*   valid, edsize, zeroes, fdafter, echunks                               *)
(*                  RacIndex.tla's verdict for the abstract file: valid?,  *)
(*                  DFileSize, all codecs Zeroes?, a Codec Element follows  *)
(*                  a non-empty element?, chunk list <<dlo,dhi,clo,chi>>    *)
(*                  (valid = 0 and empty for byte-level cases: unknown)    *)
(*   obs            the recorded run (see racireplay): term, panic, budget, *)
(*                  cycle, dse, dseof, ds, we, walk, seeks, rz, rl, maxcalls, *)
(*                  rcalls, rops                                           *)
(*   d              digests of the first and of the second run             *)
(*                                                                         *)
(* Property (properties.jsonl, C15): opening, walking chunks, seeking and  *)
(* reading terminate within work proportional to the file, never panic,    *)
(* and either fail with an error or yield chunks whose primary compressed  *)
(* range is well-formed and inside the file and whose decompressed ranges  *)
(* are non-empty, ascending, contiguous and end at the reported            *)
(* decompressed size; the same file gives the same result every time.      *)
(* Added by the design: a file that the RAC document's rules call valid     *)
(* yields exactly the specified chunk list.                                *)
(***************************************************************************)
EXTENDS Integers, Sequences, TLC, Json

CONSTANT TraceFile

Recs == ndJsonDeserialize(TraceFile)

\* 48-bit quantities as << hi, lo >>.
Le(a, b) == a[1] < b[1] \/ (a[1] = b[1] /\ a[2] <= b[2])
Lt(a, b) == a[1] < b[1] \/ (a[1] = b[1] /\ a[2] < b[2])
Eq(a, b) == a[1] = b[1] /\ a[2] = b[2]
Zero == << 0, 0 >>
P(v) == << v \div 16777216, v % 16777216 >>

\* An observed chunk: dlo, dhi, clo, chi (two limbs each), TTag.
DLo(c) == << c[1], c[2] >>
DHi(c) == << c[3], c[4] >>
CLo(c) == << c[5], c[6] >>
CHi(c) == << c[7], c[8] >>
Tag(c) == c[9]

DRangeOK(c) == Le(Zero, DLo(c)) /\ Lt(DLo(c), DHi(c))                       \* non-empty
CRangeOK(c, size) == Le(Zero, CLo(c)) /\ Le(CLo(c), CHi(c)) /\ Le(CHi(c), size)   \* low <= high, inside the file

\* The per-chunk clause.  `lenient` exempts the primary range of chunks whose
\* TTag is 0xFD (used only to recognise one known finding, see ExplShape).
ChunkOK(c, size, lenient) == DRangeOK(c) /\ (CRangeOK(c, size) \/ (lenient /\ Tag(c) = 253))

WalkOK(o, size, lenient) ==
    LET w == o.walk IN
    /\ \A k \in 1..Len(w) : ChunkOK(w[k], size, lenient)
    /\ (Len(w) > 0 => Eq(DLo(w[1]), Zero))
    /\ \A k \in 1..(Len(w) - 1) : Eq(DHi(w[k]), DLo(w[k + 1]))           \* ascending and contiguous

\* A complete walk (NextChunk said io.EOF) ends at the reported size.
WalkEndOK(o) ==
    LET w == o.walk IN
    (o.we = 0 /\ o.dse = 0) => IF Len(w) = 0 THEN Eq(o.ds, Zero) ELSE Eq(DHi(w[Len(w)]), o.ds)

\* A file that cannot be opened (DecompressedSize fails) fails the walk too:
\* "either fail with an error or yield chunks ... that end at the reported
\* decompressed size" - without a reported size there is nothing to end at.
OpenOK(o) == o.dse = 1 => (o.we = 1 /\ Len(o.walk) = 0 /\ o.rz.e # 0 /\ o.rl.e # 0)

\* SeekToChunkContaining(pos); NextChunk: an error, io.EOF, or a well-formed chunk.
SeekChunk(s) == SubSeq(s, 5, 13)
SeeksOK(o, size, lenient) ==
    \A k \in 1..Len(o.seeks) : LET s == o.seeks[k] IN
        /\ s[4] \in {0, 1, 2}
        /\ (s[4] = 0 => Len(s) = 13 /\ ChunkOK(SeekChunk(s), size, lenient))

\* Reader.Read to the end: an error, or (ReadEndOK) exactly the reported size.
ReadOK(r, o) ==
    /\ r.e \in {0, 1, 2, 3}                  \* 4 = Read kept returning (0, nil)
    /\ (r.e = 3 => o.budget)                 \* skipped only after the budget was blown
ReadEndOK(r, o) == (r.e = 0 /\ o.dse = 0) => Eq(r.n, o.ds)
EndOK(o) == WalkEndOK(o) /\ ReadEndOK(o.rz, o) /\ ReadEndOK(o.rl, o)

Same(rec) == rec.d[1] = rec.d[2]             \* the same file gives the same result every time

\* A file that the document's rules call valid yields the specified chunks.
ExpChunk(e) == << P(e[1])[1], P(e[1])[2], P(e[2])[1], P(e[2])[2], P(e[3])[1], P(e[3])[2], P(e[4])[1], P(e[4])[2] >>
ValidOK(rec) ==
    LET o == rec.obs  e == rec.echunks IN
    /\ o.dse = 0 /\ Eq(o.ds, P(rec.edsize))
    /\ o.we = 0 /\ Len(o.walk) = Len(e)
    /\ \A k \in 1..Len(e) : SubSeq(o.walk[k], 1, 8) = ExpChunk(e[k])
    /\ \A k \in 1..Len(o.seeks) : LET s == o.seeks[k]  pos == << s[1], s[2] >> IN
          s[3] = 0 =>
            IF Lt(pos, P(rec.edsize))
            THEN /\ s[4] = 0
                 /\ \E j \in 1..Len(e) : /\ Le(P(e[j][1]), pos) /\ Lt(pos, P(e[j][2]))
                                         /\ SubSeq(s, 5, 12) = ExpChunk(e[j])
            ELSE s[4] = 1
    /\ (rec.zeroes = 1 => /\ o.rz.e = 0 /\ o.rz.zero /\ Eq(o.rz.n, P(rec.edsize))
                          /\ o.rl.e = 0 /\ o.rl.zero /\ Eq(o.rl.n, P(rec.edsize)))

\* Work proportional to the file: no public call of the chunk reader makes
\* more than 64 + 8*size calls on the source (a terminating descent loads
\* each node offset at most once), and the readers stay within that per
\* public call and chunk passed.
WorkOK(rec) ==
    LET o == rec.obs  lim == 64 + 8 * rec.sizeint IN
    /\ rec.size[1] = 0
    /\ o.maxcalls <= lim
    /\ o.rcalls \div (o.rops + Len(o.walk) + 2) <= lim

Shape(rec, lenient) ==
    LET o == rec.obs IN
    /\ WalkOK(o, rec.size, lenient) /\ SeeksOK(o, rec.size, lenient)
    /\ ReadOK(o.rz, o) /\ ReadOK(o.rl, o)
    /\ Same(rec)

Terminated(rec) == rec.obs.term /\ ~rec.obs.budget
Accept(rec) ==
    /\ Terminated(rec) /\ ~rec.obs.panic /\ WorkOK(rec)
    /\ Shape(rec, FALSE) /\ OpenOK(rec.obs) /\ EndOK(rec.obs)
    /\ (rec.valid = 1 => ValidOK(rec))

---------------------------------------------------------------------------
(* Known findings (KNOWN_FINDINGS.txt).  The acceptance predicate has six  *)
(* parts (termination+work, panic, shape, open, end, valid-as-specified); a *)
(* record that is not accepted is "known" only if EVERY failing part is    *)
(* explained by the exact construct of a known finding, so that any other  *)
(* violation stays a violation.  Keys names the findings involved.         *)

FailTerm(rec)  == ~(Terminated(rec) /\ WorkOK(rec))
FailPanic(rec) == rec.obs.panic
FailShape(rec) == ~Shape(rec, FALSE)
FailValid(rec) == rec.valid = 1 /\ ~ValidOK(rec)
FailOpen(rec)  == ~OpenOK(rec.obs)
FailEnd(rec)   == ~EndOK(rec.obs)

\* antiloop: a descent through index nodes that refer to themselves or to each
\* other (the document's anti-loop rule is not applied) never ends: the budget
\* of one public call is blown while the source offsets repeat periodically.
ExplTerm(rec) == rec.obs.term /\ rec.obs.budget /\ rec.obs.cycle

\* fdchunk: a Codec Element (TTag 0xFD) with a non-empty DRange is accepted and
\* yielded as a chunk whose primary CRange was never validated: the only
\* malformed ranges in the record belong to chunks with TTag 0xFD.
ExplShape(rec) == Shape(rec, TRUE)

\* fdafter: a valid file in which a Codec Element directly follows an element
\* with a non-empty DRange is rejected with an error.
ExplValidFdAfter(rec) == rec.fdafter = 1 /\ (rec.obs.dse = 1 \/ rec.obs.we = 1)
\* branchchunk: NextChunk hands out an element whose TTag is 0xFE (a branch
\* that follows a leaf sibling) as if it were a leaf chunk.
\* fdchunk again: it hands out an element whose TTag is 0xFD (never a child);
\* in a valid file this happens when the node at the start, which must fail as
\* a root because of that element, is accepted as the root.
HasTagChunk(rec, t) ==
    \/ \E k \in 1..Len(rec.obs.walk) : Tag(rec.obs.walk[k]) = t
    \/ \E k \in 1..Len(rec.obs.seeks) : rec.obs.seeks[k][4] = 0 /\ Tag(SeekChunk(rec.obs.seeks[k])) = t
ExplValid(rec) == ExplValidFdAfter(rec) \/ HasTagChunk(rec, 254) \/ HasTagChunk(rec, 253)

\* shorteof: the source ends before the claimed size; the io.EOF of the source
\* is handed on as it is, so the failed open looks like a clean end: NextChunk
\* "has no more chunks" and Reader.Read is at io.EOF after 0 bytes.
ExplOpen(rec) == rec.obs.dseof /\ Len(rec.obs.walk) = 0
\* shorteof, later: the same while an index node is loaded in the middle of a
\* walk or of a read: the walk / the read ends "cleanly" before the reported
\* decompressed size, in the very call in which the source reported io.EOF.
ExplEnd(rec) ==
    LET o == rec.obs IN
    /\ (~WalkEndOK(o) => o.weofsrc)
    /\ (~ReadEndOK(o.rz, o) => o.rz.eofsrc)
    /\ (~ReadEndOK(o.rl, o) => o.rl.eofsrc)

Explained(rec) ==
    /\ ~FailPanic(rec)
    /\ (FailOpen(rec) => ExplOpen(rec))
    /\ (FailEnd(rec) => ExplEnd(rec))
    /\ (FailTerm(rec) => ExplTerm(rec))
    /\ (FailShape(rec) => ExplShape(rec))
    /\ (FailValid(rec) => ExplValid(rec))

Keys(rec) ==
    << IF FailTerm(rec) THEN "antiloop" ELSE "",
       IF FailOpen(rec) \/ FailEnd(rec) THEN "shorteof" ELSE "",
       IF FailShape(rec) \/ (FailValid(rec) /\ HasTagChunk(rec, 253)) THEN "fdchunk" ELSE "",
       IF FailValid(rec) /\ ~HasTagChunk(rec, 253) /\ ExplValidFdAfter(rec) THEN "fdafter" ELSE "",
       IF FailValid(rec) /\ ~HasTagChunk(rec, 253) /\ ~ExplValidFdAfter(rec) /\ HasTagChunk(rec, 254) THEN "branchchunk" ELSE "" >>

Class(rec) == IF Accept(rec) THEN "ok" ELSE IF Explained(rec) THEN "known" ELSE "bad"

Reasons(rec) ==
    LET o == rec.obs IN
    << IF o.term THEN "" ELSE "no-termination(watchdog)",
       IF o.budget THEN "work-budget-of-one-call-exceeded" ELSE "",
       IF o.panic THEN "panic" ELSE "",
       IF o.term /\ ~o.budget /\ ~WorkOK(rec) THEN "work-not-proportional" ELSE "",
       IF WalkOK(o, rec.size, FALSE) THEN "" ELSE "chunk-walk-malformed",
       IF EndOK(o) THEN "" ELSE "clean-end-before-the-reported-decompressed-size",
       IF OpenOK(o) THEN "" ELSE "open-failed-but-walk-or-read-ended-cleanly",
       IF SeeksOK(o, rec.size, FALSE) THEN "" ELSE "seek-result-malformed",
       IF ReadOK(o.rz, o) /\ ReadOK(o.rl, o) THEN "" ELSE "reader-result",
       IF Same(rec) THEN "" ELSE "two-runs-differ",
       IF FailValid(rec) THEN "valid-file-not-as-specified" ELSE "" >>

VARIABLE i
Init == i \in 1..Len(Recs)
Next == UNCHANGED i
Spec == Init /\ [][Next]_i

\* Always TRUE; prints a line for every record that is not accepted.
Judge ==
    LET rec == Recs[i]  c == Class(rec) IN
    c = "ok" \/ PrintT(ToJson([verdict |-> c, id |-> rec.id, n |-> rec.n, reasons |-> Reasons(rec),
                                 keys |-> IF c = "known" THEN Keys(rec) ELSE << >>]))

ASSUME Len(Recs) > 0
=============================================================================

----------------------------- MODULE IOContract -----------------------------
(***************************************************************************)
(* The contract that every call of a generated Wuffs method must satisfy   *)
(* with respect to its I/O buffers and its returned status (C03, C08,      *)
(* parts of C05/C07/C09), written against doc/note/io-input-output.md and   *)
(* doc/note/statuses.md.                                                    *)
(*                                                                         *)
(* Part 1 (module IOClauses) - clause operators over one call event `e` (as *)
(* logged by harness/c/stddrive.c; see DESIGN.md appendix A.1).  They are   *)
(* used by the trace specifications (Trace_Std.tla) to accept or reject     *)
(* what the real code did.                                                  *)
(*                                                                         *)
(* Part 2 - a small closed model: an ARBITRARY coroutine constrained only   *)
(* by these clauses, composed with the standard caller loop (supply more    *)
(* input on "$short read", more room on "$short write").  TLC checks that   *)
(* the clause set is sufficient for the caller's view of "bounded work":    *)
(* the loop always terminates (no deadlock before Done, and a variant that  *)
(* strictly decreases), and that each clause is needed (see the cfg files   *)
(* with one clause dropped: TLC then finds a non-terminating loop).         *)
(***************************************************************************)
EXTENDS IOClauses

(* ---- Part 2: the closed model ---- *)

CONSTANTS N,        \* input length
          OutMax,   \* the caller gives up after this much output (OUT_LIMIT of the driver)
          Ample,    \* an "ample" destination
          Drop      \* set of clause names the arbitrary coroutine may break (normally {})

VARIABLES supplied, closed, ri, dwi, outTotal, status, done

vars == <<supplied, closed, ri, dwi, outTotal, status, done>>

MInit == /\ supplied \in 0..N /\ closed = (supplied = N) /\ ri = 0
         /\ dwi = 0 /\ outTotal = 0 /\ status = "called" /\ done = FALSE

\* One call of an ARBITRARY coroutine that respects the clauses (except Drop).
\* The destination is an empty ample window on every call (the caller flushes).
Call ==
    /\ ~done /\ status = "called"
    /\ \E nri \in ri..supplied, ndwi \in 0..Ample, st \in {"ok", "note", "err", ShortRead, ShortWrite} :
          LET e == [sri0 |-> ri, swi0 |-> supplied, slen |-> N, scl0 |-> closed, sri1 |-> nri, swi1 |-> supplied,
                    scl1 |-> closed, spos_same |-> TRUE, ssame |-> TRUE,
                    dri0 |-> 0, dwi0 |-> 0, dlen |-> Ample, dri1 |-> 0, dwi1 |-> ndwi, dcl_same |-> TRUE,
                    dpos_same |-> TRUE, dsame |-> TRUE, st |-> st,
                    cls |-> IF st \in {ShortRead, ShortWrite} THEN "susp" ELSE st, internal |-> FALSE, al |-> 0]
          IN /\ Violated(e, Ample) \subseteq Drop
             /\ ri' = nri /\ dwi' = ndwi /\ status' = st
    /\ UNCHANGED <<supplied, closed, outTotal, done>>

\* The caller loop of harness/c/stddrive.c: flush what was written, then react.
Supply ==
    /\ status = ShortRead /\ ~done
    /\ outTotal' = outTotal + dwi /\ dwi' = 0
    /\ IF closed \/ outTotal' >= OutMax      \* (a short read on a closed source is reported by the trace spec)
       THEN done' = TRUE /\ UNCHANGED <<supplied, closed, status>>
       ELSE /\ done' = FALSE
            /\ \/ supplied < N /\ \E k \in 1..(N - supplied) : supplied' = supplied + k /\ closed' \in {supplied' = N, FALSE}
               \/ supplied = N /\ supplied' = supplied /\ closed' = TRUE
            /\ status' = "called"
    /\ UNCHANGED ri

Room ==
    /\ status = ShortWrite /\ ~done
    /\ outTotal' = outTotal + dwi /\ dwi' = 0
    /\ IF outTotal' >= OutMax THEN done' = TRUE /\ status' = status
       ELSE done' = FALSE /\ status' = "called"
    /\ UNCHANGED <<supplied, closed, ri>>

Finish == /\ status \in {"ok", "note", "err"} /\ ~done /\ done' = TRUE
          /\ UNCHANGED <<supplied, closed, ri, dwi, outTotal, status>>

Stay == done /\ UNCHANGED vars      \* terminal stuttering, so that a TLC deadlock means a stuck loop
MNext == Call \/ Supply \/ Room \/ Finish \/ Stay
MSpec == MInit /\ [][MNext]_vars /\ WF_vars(MNext)

\* The caller's loop terminates whatever the coroutine does within the contract.
Terminates == <>done
\* ... because this variant strictly decreases from one call to the next:
Variant == (N - supplied) + (IF closed THEN 0 ELSE 1) + (IF outTotal >= OutMax THEN 0 ELSE OutMax - outTotal)
VariantDecreases == [][(status = "called" /\ status' # "called") \/ done' \/ Variant' < Variant]_vars
MTypeOK == supplied \in 0..N /\ ri \in 0..supplied /\ dwi \in 0..Ample /\ outTotal \in 0..(OutMax + Ample)
=============================================================================

----------------------------- MODULE WuffsLayout -----------------------------
(***************************************************************************)
(* C12 (wuffsfmt half): for every Wuffs source the formatter accepts, its   *)
(* output re-tokenizes to the identical sequence of tokens (numeric         *)
(* literals equal up to digit-grouping underscores and hex case) and        *)
(* comments, parses, and formatting it again changes nothing.               *)
(*                                                                         *)
(*  1. A GENERATIVE MODEL of Wuffs source at token level with a LAYOUT      *)
(*     model on top.  A source is a sequence of token spellings (built from *)
(*     the grammar of lang/parse by set comprehensions, so that TLC         *)
(*     enumerates the sets) plus a layout scheme that decides what goes     *)
(*     between two tokens: nothing, blanks, line breaks where no implicit   *)
(*     semicolon would be inserted, blank lines, comments at line ends and  *)
(*     on their own lines, explicit semicolons, CR LF.  Emit prints every   *)
(*     source as a JSON list of pieces.  Exhaustive part: every operand     *)
(*     shape next to every binary / unary / assignment operator, every      *)
(*     statement and declaration form, every numeric spelling, each under   *)
(*     every scheme (token adjacency pairs and triples in contexts that     *)
(*     parse).  With -simulate: files of several random declarations, one   *)
(*     random scheme per declaration.                                       *)
(*     Pieces are plain strings; the markers <nl> <sp> <tab> <cr> <dq> <sq> *)
(*     <bs> stand for the bytes that are awkward inside TLA+ strings, and   *)
(*     two pseudo tokens steer the layout: "<eos>" (end of statement: a     *)
(*     line break or an explicit semicolon) and "<brk>" (a place where a    *)
(*     line break is customary and changes no token: after "{", "(" or      *)
(*     the "," of a list).                                                  *)
(*     The model only PROPOSES sources.  Whether a source is in the         *)
(*     property's domain is decided by the real tokenizer and parser        *)
(*     (cmd/wuffsfmt's own acceptance test), recorded in the row.           *)
(*                                                                         *)
(*  2. The ACCEPTANCE PREDICATE (Accept) over rows recorded by              *)
(*     harness/cmd/fmtreplay -mode wuffs, which makes the calls             *)
(*     cmd/wuffsfmt makes (token.Tokenize, parse.Parse, render.Render),     *)
(*     then the same calls on the output:                                   *)
(*        r.acc  =>  r.st = "ok"                  (an output is produced)   *)
(*                /\ r.tok2 /\ SameStream(r.a, r.b) (tokens and comments)   *)
(*                /\ r.parse2                     (the output parses)       *)
(*                /\ r.q = "ok" /\ r.p = r.o      (idempotent)              *)
(*     A stream is the reading-order sequence of tokens and comments        *)
(*     (a line's comment after the line's tokens).  Comments are compared   *)
(*     without their trailing blanks (white space); numeric literals by     *)
(*     NumNorm.  Sources that are not accepted carry no obligation; for     *)
(*     those that tokenize, the same relation is evaluated and reported     *)
(*     as an observation outside the property (Observe).                    *)
(***************************************************************************)
EXTENDS Integers, Sequences, FiniteSets, TLC, Json

CONSTANTS Size,      \* generator: 1 = quick universe, 2 = thorough universe
          ExprSchemes, \* generator: the schemes under which the (large) expression universe is laid out
          SimDecls,  \* simulation: declarations per file
          RowsFile   \* validator: JSON file written by the harness

---------------------------------------------------------------------------
(* Vocabulary.                                                             *)

DQ(s) == "<dq>" \o s \o "<dq>"
SQ(s) == "<sq>" \o s \o "<sq>"

Nums == {"0", "7", "42", "1_000", "1234567", "12_34_56_78", "0xFf", "0XAB_cd", "0xdeadBEEF0", "0x_1f",
         "0b1010_1", "0B11", "0x0", "256"}
NumsSmall == {"7", "1_000", "0XAB_cd", "0b1010_1"}
\* every radix prefix (in both cases) with every digit count 1..13: the renderer groups digits in fours (hexadecimal,
\* binary) or sixes (decimal) counted from the right, so every residue of both group lengths occurs
DecD == <<"1", "2", "3", "4", "5", "6", "7", "8", "9", "0", "1", "2", "3">>
HexD == <<"9", "a", "B", "0", "c", "D", "e", "F", "1", "2", "3", "4", "5">>
BinD == <<"1", "0", "1", "1", "0", "1", "0", "0", "1", "1", "1", "0", "1">>
RECURSIVE CatN(_, _)
CatN(ds, n) == IF n = 0 THEN "" ELSE CatN(ds, n - 1) \o ds[n]
SysNums == {CatN(DecD, n) : n \in 1..13}
           \cup {pre \o CatN(HexD, n) : pre \in {"0x", "0X"}, n \in 1..13}
           \cup {pre \o CatN(BinD, n) : pre \in {"0b", "0B"}, n \in 1..13}
TheNums == (IF Size >= 2 THEN Nums ELSE NumsSmall) \cup SysNums

WordOps == {"not", "and", "or", "as"}
TypeWords == {"array", "roarray", "slice", "roslice", "table", "rotable", "ptr", "nptr"}
Closers == {")", "]", "}", "}}"}
Punct == {";", ".", "..", "..=", ",", "!", "?", ":", "(", "[", "{", "{{",
          "=", "=?", "+=", "-=", "*=", "/=", "<<=", ">>=", "&=", "|=", "^=", "%=",
          "~mod+=", "~mod-=", "~mod*=", "~mod<<=", "~sat+=", "~sat-=",
          "+", "-", "*", "/", "<<", ">>", "&", "|", "^", "%",
          "~mod+", "~mod-", "~mod*", "~mod<<", "~sat+", "~sat-",
          "<>", "<", "<=", "==", ">=", ">"} \cup Closers
Strings == {DQ("#bad"), DQ("$short read"), DQ("std/x"), DQ("a < b: a < c; c <= b"), DQ("// not a comment"),
            SQ("a"), SQ("ab") \o "be", SQ("<bs>n"), SQ("//")}
Pseudo == {"<eos>", "<brk>"}

\* Alphanumeric spellings cannot touch each other.
Word(tk) == tk \notin Punct /\ tk \notin Strings /\ tk \notin Pseudo
\* A line break after such a token inserts an implicit semicolon.
Semi(tk) == (Word(tk) /\ tk \notin WordOps /\ tk \notin TypeWords) \/ tk \in Closers \/ tk \in Strings

---------------------------------------------------------------------------
(* Expressions (sets of token sequences).                                  *)

Cat3(a, b, c) == a \o b \o c

Inner == IF Size >= 2 THEN {<<"x">>, <<"7">>, <<"-", "1">>, <<"x", "+", "1">>} ELSE {<<"x">>, <<"-", "1">>}
Atoms == {<<"x">>, <<"7">>, <<"0xFf_0">>, <<DQ("#bad")>>, <<SQ("a")>>, <<SQ("ab") \o "be">>, <<"true">>,
          <<"args", ".", "src">>}
IdentAtoms == {<<"x">>, <<"this", ".", "f">>}
UnOps == {"-", "+", "not"}
Posts == {<<"[">> \o i \o <<"]">> : i \in Inner}
         \cup {Cat3(<<"[">> \o i, <<"..">>, j \o <<"]">>) : i \in Inner, j \in Inner}
         \cup {<<"[", "..", "]">>}
         \cup {<<"[", "..">> \o j \o <<"]">> : j \in Inner}
         \cup {<<"[">> \o i \o <<"..", "]">> : i \in Inner}
         \cup {<<"(", ")">>, <<".", "y">>, <<".", "y", "(", ")">>, <<".", DQ("$short read")>>}
         \cup {<<"(", "a", ":">> \o i \o <<")">> : i \in Inner}
         \cup {Cat3(<<"(", "a", ":">> \o i, <<",", "b", ":">>, j \o <<")">>) : i \in Inner, j \in Inner}
Operands == Atoms
            \cup {<<u>> \o a : u \in UnOps, a \in Atoms}
            \cup {<<"(">> \o e \o <<")">> : e \in Inner}
            \cup {a \o p : a \in IdentAtoms, p \in Posts}
            \cup {<<"-", "-", "1">>, <<"not", "not", "x">>, <<"-", "(", "x", ")">>, <<"+", "x", "[", "0", "]">>}
BinOps == {"+", "-", "*", "/", "<<", ">>", "&", "|", "^", "%", "~mod+", "~mod-", "~mod*", "~mod<<",
           "~sat+", "~sat-", "<>", "<", "<=", "==", ">=", ">", "and", "or"}
AssocOps == {"+", "*", "&", "|", "^", "and", "or"}
Side == IF Size >= 2 THEN {<<"x">>, <<"7">>, <<"-", "y">>, <<"(", "y", ")">>} ELSE {<<"x">>, <<"-", "7">>}
Types == {<<"base", ".", "u8">>, <<"base", ".", "u32", "[", "..=", "7", "]">>, <<"base", ".", "u32", "[", "1", "..=", "0xFF", "]">>,
          <<"array", "[", "4", "]", "base", ".", "u8">>, <<"slice", "base", ".", "u8">>, <<"ptr", "foo">>,
          <<"nptr", "array", "[", "2", "]", "table", "base", ".", "u16">>, <<"roslice", "roarray", "[", "0x10", "]", "base", ".", "u8">>}
Exprs == Operands
         \cup {Cat3(o, <<b>>, s) : o \in Operands, b \in BinOps, s \in Side}
         \cup {Cat3(s, <<b>>, o) : s \in Side, b \in BinOps, o \in Operands}
         \cup {<<"x", b, "y", b, "7">> : b \in AssocOps}
         \cup {Cat3(o, <<"as">>, ty) : o \in {<<"x">>, <<"7">>, <<"(", "x", "+", "1", ")">>, <<"x", "[", "0", "]">>}, ty \in Types}
ExprsSmall == {<<"x">>, <<"-", "1">>, <<"x", "+", "0xFf_0">>, <<"not", "x">>, <<"x", ".", "y", "(", "a", ":", "1", ")">>,
               <<"(", "x", "&", "y", ")", "<>", "0">>, <<"x", "[", "i", "..", "]">>}

---------------------------------------------------------------------------
(* Statements.  eff: "" any function, "?" only in a coroutine, "-" not in a *)
(* coroutine.  var: must come first in a body.                              *)

Body(ss) == <<"{", "<brk>">> \o ss \o <<"}">>
S1(s) == s \o <<"<eos>">>

AssignOps == {"=", "+=", "-=", "*=", "/=", "<<=", ">>=", "&=", "|=", "^=", "%=",
              "~mod+=", "~mod-=", "~mod*=", "~mod<<=", "~sat+=", "~sat-="}
SimpleStmts ==
    {<<"x", op>> \o e : op \in AssignOps, e \in {<<"y">>, <<"-", "1">>, <<"x", "[", "0", "]">>}}
    \cup {<<"x", "[", "0", "]", ".", "y", "=", "7">>, <<"this", ".", "f", "=", "x">>,
          <<"x", ".", "g", "!", "(", ")">>, <<"x", ".", "g", "!", "(", "a", ":", "-", "1", ",", "b", ":", "y", ")">>,
          <<"x", "=", "y", ".", "g", "!", "(", ")">>,
          <<"assert", "x", ">", "0">>,
          <<"assert", "x", "<", "255", "via", DQ("a < b: a < c; c <= b"), "(", "c", ":", "y", ")">>,
          <<"return", "ok">>, <<"return", "-", "1">>, <<"return", "(", "x", ")">>, <<"return", "base", ".", DQ("#bad")>>,
          <<"return", "nothing">>,
          <<"choose", "up", "=", "[", "a", ",", "b", "]">>,
          <<"choose", "up", "=", "[", "<brk>", "a", ",", "<brk>", "b", ",", "<brk>", "]">>}
CoroStmts == {<<"yield", "?", "base", ".", DQ("$short read")>>, <<"x", "=?", "y", ".", "g", "?", "(", ")">>,
              <<"y", ".", "g", "?", "(", "a", ":", "1", ")">>, <<"x", "=", "y", ".", "g", "?", "(", ")">>}

Cond == {<<"x">>, <<"x", "<", "-", "1">>, <<"not", "(", "x", "==", "y", ")">>}
Blk1 == Body(S1(<<"x", "=", "1">>))
Blk0 == <<"{", "<brk>", "}">>
Blk2 == Body(S1(<<"x", "+=", "1">>) \o S1(<<"y", "=", "x">>))
CompoundStmts ==
    {<<"if">> \o c \o Blk1 : c \in Cond}
    \cup {<<"if", ".", "likely">> \o c \o Blk0 : c \in Cond}
    \cup {Cat3(<<"if">> \o c, Blk1, <<"else">> \o Blk2) : c \in Cond}
    \cup {<<"if", "x">> \o Blk1 \o <<"else", "if", "y">> \o Blk0 \o <<"else">> \o Blk1}
    \cup {<<"while">> \o c \o Blk2 : c \in Cond}
    \cup {<<"while", "true">> \o Body(S1(<<"break">>)),
          <<"while", ".", "lp", "true">> \o Body(S1(<<"if", "x">> \o Body(S1(<<"break", ".", "lp">>))) \o S1(<<"continue", ".", "lp">>)) \o <<".", "lp">>,
          <<"while", "x", "<", "7", ",", "<brk>", "inv", "y", ">", "0", ",", "<brk>", "post", "x", ">=", "7", ",", "<brk>">> \o Blk2,
          <<"while", "x", "<", "7", ",", "inv", "y", ">", "0">> \o Blk1,
          <<"while", "true">> \o <<"{{", "<brk>">> \o S1(<<"return", "ok">>) \o <<"}}">>,
          <<"while", ".", "q", "true", ",", "<brk>", "pre", "x", ">", "0", ",", "<brk>">> \o <<"{{", "<brk>">> \o S1(<<"break", ".", "q">>) \o <<"}}", ".", "q">>,
          <<"io_limit", "(", "io", ":", "args", ".", "src", ",", "limit", ":", "4", ")">> \o Blk1,
          <<"io_bind", "(", "io", ":", "r", ",", "data", ":", "x", "[", "i", "..", "j", "]", ",", "history_position", ":", "0", ")">> \o Blk2,
          <<"io_forget_history", "(", "io", ":", "w", ")">> \o Blk0}
NoCoroStmts ==
    {<<"iterate", "(", "d", "=", "x", ")", "(", "length", ":", "4", ",", "advance", ":", "4", ",", "unroll", ":", "2", ")">> \o Blk1,
     <<"iterate", ".", "it", "(", "d", "=", "x", ",", "s", "=", "y", "[", "..", "8", "]", ")", "(", "length", ":", "8", ",", "advance", ":", "1", ",", "unroll", ":", "1", ")", ",", "<brk>", "inv", "x", ">", "0", ",", "<brk>">>
        \o Blk2 \o <<"else", "(", "length", ":", "1", ",", "advance", ":", "1", ",", "unroll", ":", "1", ")">> \o Blk1}
VarStmts == {<<"var", "v", ":">> \o ty : ty \in Types}

---------------------------------------------------------------------------
(* Declarations and files.                                                 *)

FuncHead(e) == <<"pri", "func", "t", ".", "f">> \o (IF e = "" THEN <<>> ELSE <<e>>) \o <<"(", ")">>
Func(e, ss) == FuncHead(e) \o Body(ss) \o <<"<eos>">>

ExprFiles == {Func("!", S1(<<"x", "=">> \o e)) : e \in Exprs}
StmtFiles ==
    {Func("!", S1(s)) : s \in SimpleStmts \cup CompoundStmts \cup NoCoroStmts}
    \cup {Func("?", S1(s)) : s \in CoroStmts \cup SimpleStmts}
    \cup {Func("", S1(<<"return", "0">>))}
    \cup {Func("!", S1(v) \o S1(<<"var", "longer_name", ":", "base", ".", "u8">>) \o S1(<<"v", "=", "1">>)) : v \in VarStmts}
    \cup {Func("!", S1(<<"if">> \o c \o Body(S1(s))) \o S1(<<"return", "ok">>)) : c \in {<<"x">>}, s \in CompoundStmts}
    \cup {Func("!", S1(<<"return">> \o e)) : e \in ExprsSmall}
    \cup {Func("!", S1(<<"if">> \o e \o Blk0)) : e \in ExprsSmall}

Field(n, ty) == <<n, ":">> \o ty
Decls ==
    {S1(<<"use", DQ("std/x")>>), S1(<<"pub", "status", DQ("#bad")>>), S1(<<"pri", "status", DQ("$short read")>>)}
    \cup {S1(<<"pub", "const", "C", ":", "base", ".", "u32", "=", n>>) : n \in TheNums}
    \cup {S1(<<"pri", "const", "LONGER_NAME", ":", "base", ".", "u32", "[", "..=", n, "]", "=", n>>) : n \in NumsSmall}
    \cup {S1(<<"pub", "const", "T", ":", "roarray", "[", "3", "]", "base", ".", "u8", "=", "[", "<brk>", "0x01", ",", "2", ",", "<brk>", "0b11", ",", "<brk>", "]">>),
          S1(<<"pub", "const", "U", ":", "roarray", "[", "2", "]", "roarray", "[", "1", "]", "base", ".", "u8", "=", "[", "[", "1", "]", ",", "[", "0XfF", "]", "]">>),
          S1(<<"pub", "struct", "foo", "?", "implements", "base", ".", "io_transformer", "(", "<brk>">>
             \o Field("a", <<"base", ".", "u8">>) \o <<",", "<brk>">>
             \o Field("longer", <<"array", "[", "4", "]", "base", ".", "u32", "[", "..=", "7", "]">>) \o <<",", "<brk>">>
             \o Field("util", <<"base", ".", "utility">>) \o <<",", "<brk>", ")", "+", "(", "<brk>">>
             \o Field("buf", <<"array", "[", "0x100", "]", "base", ".", "u8">>) \o <<",", "<brk>", ")">>),
          S1(<<"pri", "struct", "bar", "(", "a", ":", "base", ".", "u8", ",", "b", ":", "base", ".", "u8", ")">>),
          S1(<<"pub", "struct", "baz", "(", ")">>),
          <<"pub", "func", "foo", ".", "g", "?", "(", "src", ":", "base", ".", "io_reader", ",", "n", ":", "base", ".", "u32", "[", "..=", "4", "]", ")", "base", ".", "u32">>
             \o Body(S1(<<"var", "c", ":", "base", ".", "u8">>) \o S1(<<"c", "=?", "args", ".", "src", ".", "read_u8", "?", "(", ")">>) \o S1(<<"return", "c", "as", "base", ".", "u32">>)) \o <<"<eos>">>,
          <<"pri", "func", "foo", ".", "h", "(", "a", ":", "base", ".", "u32", ")", ",", "<brk>", "pre", "args", ".", "a", ">", "0", ",", "<brk>", "post", "args", ".", "a", ">", "1", ",", "<brk>">>
             \o Body(S1(<<"return", "nothing">>)) \o <<"<eos>">>,
          <<"pri", "func", "foo", ".", "up", "!", "(", "x", ":", "roslice", "base", ".", "u8", ")", ",", "<brk>", "choosy", ",", "<brk>">>
             \o Blk0 \o <<"<eos>">>,
          <<"pri", "func", "foo", ".", "up_sse", "!", "(", "x", ":", "roslice", "base", ".", "u8", ")", ",", "<brk>", "choose", "cpu_arch", ">=", "x86_sse42", ",", "<brk>">>
             \o Blk0 \o <<"<eos>">>}

DeclFiles == Decls \cup {a \o b : a \in Decls, b \in {S1(<<"pub", "status", DQ("#bad")>>), S1(<<"pub", "const", "C", ":", "base", ".", "u32", "=", "1_0">>)}}
                   \cup {<<>>}

Files == ExprFiles \cup StmtFiles \cup DeclFiles

---------------------------------------------------------------------------
(* Layout.                                                                 *)

Schemes == {"plain", "tight", "wide", "brk", "brkop", "cmtmid", "cmtown", "semi", "oneline", "crlf"}

BreakAfter == {"+", "-", "*", "/", "<<", ">>", "&", "|", "^", "%", "<>", "<", "<=", "==", ">=", ">", "and", "or", "as",
               ",", "(", "[", "=", "+=", ":"}

\* What is written between prev and next (both real tokens).
Sep(sch, i, prev, next) ==
    CASE sch = "tight"  -> IF Word(prev) /\ Word(next) THEN "<sp>" ELSE ""
      [] sch = "wide"   -> IF i % 2 = 0 THEN "<sp><sp>" ELSE "<tab>"
      [] sch = "brk"    -> IF Semi(prev) THEN "<sp>" ELSE "<nl>"
      [] sch = "brkop"  -> IF prev \in BreakAfter /\ i % 2 = 0 THEN "<nl><tab>" ELSE "<sp>"
      [] sch = "cmtmid" -> IF ~Semi(prev) /\ i % 3 = 0 THEN "<sp>// mid " \o prev \o "<sp><sp><nl>" ELSE "<sp>"
      [] sch = "cmtown" -> IF ~Semi(prev) /\ i % 3 = 1 THEN "<nl><sp>// own line<nl><nl>// second<tab><nl>" ELSE "<sp>"
      [] OTHER -> "<sp>"

\* What is written for "<eos>" after prev.
Eos(sch, i, prev) ==
    CASE sch = "wide"    -> "<sp><tab><nl><nl><sp><nl>"
      [] sch = "brkop"   -> "<nl><nl>"
      [] sch = "cmtmid"  -> IF i % 2 = 0 THEN "<sp><sp>// trailing<sp><sp><nl>" ELSE "// glued<nl>"
      [] sch = "cmtown"  -> "<nl>// after<nl><nl><nl>//<nl>"
      [] sch = "semi"    -> IF i % 2 = 0 THEN ";<nl>" ELSE "<sp>;<sp><nl>"
      [] sch = "oneline" -> ";<sp>"
      [] sch = "crlf"    -> "<cr><nl>"
      [] OTHER -> "<nl>"

\* What is written for "<brk>" after prev.
Brk(sch, i, prev) ==
    CASE sch \in {"plain", "tight", "semi", "oneline"} -> IF sch = "tight" THEN "" ELSE "<sp>"
      [] sch = "wide"   -> "<nl><nl><nl>"
      [] sch = "cmtmid" -> "<sp>// at break<nl>"
      [] sch = "cmtown" -> "<nl><tab>// own, indented<nl>"
      [] sch = "crlf"   -> "<cr><nl>"
      [] OTHER -> "<nl>"

Prefix(sch) == CASE sch = "cmtown" -> <<"// head<nl><nl>// head 2<sp><nl>">>
                 [] sch = "wide"   -> <<"<nl><nl><sp>">>
                 [] sch = "cmtmid" -> <<"//<nl>">>
                 [] OTHER -> <<>>
Suffix(sch) == CASE sch = "cmtown" -> <<"<nl>// tail<nl><nl><nl>// tail 2<nl>">>
                 [] sch = "cmtmid" -> <<"// no newline at the end">>
                 [] sch = "wide"   -> <<"<nl><nl>">>
                 [] OTHER -> <<>>

\* pieces of toks[i..], prev = the last real token written ("" at the start),
\* pend = a separator owed before the next real token
RECURSIVE Lay(_, _, _, _, _)
Lay(toks, sch, i, prev, pend) ==
    IF i > Len(toks) THEN (IF pend = "" THEN <<>> ELSE <<pend>>)
    ELSE LET tk == toks[i] IN
         IF tk = "<eos>" THEN Lay(toks, sch, i + 1, "", pend \o Eos(sch, i, prev))
         ELSE IF tk = "<brk>" THEN Lay(toks, sch, i + 1, "", pend \o Brk(sch, i, prev))
         ELSE LET sep == IF prev = "" THEN pend ELSE Sep(sch, i, prev, tk) IN
              (IF sep = "" THEN <<tk>> ELSE <<sep, tk>>) \o Lay(toks, sch, i + 1, tk, "")

Layout(toks, sch) == Prefix(sch) \o Lay(toks, sch, 1, "", "") \o Suffix(sch)

---------------------------------------------------------------------------
VARIABLES file,   \* generator: token sequence / pieces so far (simulation)
          sch,    \* generator: scheme
          n,      \* simulation: declarations so far
          row     \* validator

vars == <<file, sch, n, row>>

\* Exhaustive: every file of the universe under every scheme (initial states).
GenInit == /\ \/ file \in ExprFiles /\ sch \in (ExprSchemes \cap Schemes)
              \/ file \in (StmtFiles \cup DeclFiles) /\ sch \in Schemes
           /\ n = 0 /\ row = 0
GenNext == UNCHANGED vars
Emit == PrintT(ToJson([p |-> Layout(file, sch), sch |-> sch]))

\* Simulation: a file of SimDecls random declarations, each under a random
\* scheme ("file" holds pieces here).
BodyStmts == SimpleStmts \cup CompoundStmts \cup {<<"x", "=">> \o e : e \in Exprs}
SimDeclSet == Decls \cup {Func("!", S1(s) \o S1(u)) : s \in SimpleStmts \cup CompoundStmts, u \in SimpleStmts}
SimInit == file = <<>> /\ sch = "plain" /\ n = 0 /\ row = 0
SimNext ==
    /\ n < SimDecls
    /\ n' = n + 1
    /\ sch' = RandomElement(Schemes)
    /\ LET k == RandomElement(1..4) IN
       \/ /\ k = 1
          /\ file' = file \o Layout(RandomElement(Decls), sch')
       \/ /\ k > 1
          /\ file' = file \o Layout(Func(RandomElement({"!", "?"}),
                                         S1(RandomElement(BodyStmts)) \o S1(RandomElement(BodyStmts)) \o S1(RandomElement(SimpleStmts))), sch')
    /\ UNCHANGED row
SimEmit == n > 0 => PrintT(ToJson([p |-> file, sch |-> "sim"]))

---------------------------------------------------------------------------
(* Acceptance.                                                             *)

Rows == JsonDeserialize(RowsFile)

\* "numeric literals equal up to digit-grouping underscores and hex case"
RECURSIVE NumNormFrom(_, _)
NumNormFrom(c, i) ==
    IF i > Len(c) THEN <<>>
    ELSE IF c[i] = 95 THEN NumNormFrom(c, i + 1)
    ELSE <<(IF c[i] >= 97 /\ c[i] <= 122 THEN c[i] - 32 ELSE c[i])>> \o NumNormFrom(c, i + 1)
NumNorm(c) == NumNormFrom(c, 1)

EntryEq(a, b, i) ==
    /\ a.k[i] = b.k[i]
    /\ IF a.k[i] = 1 THEN NumNorm(a.n[i]) = NumNorm(b.n[i])
       ELSE a.v[i] = b.v[i]          \* tokens; comments without their trailing blanks

SameStream(a, b) == Len(a.k) = Len(b.k) /\ \A i \in 1..Len(a.k) : EntryEq(a, b, i)

MinLen(a, b) == IF Len(a.k) < Len(b.k) THEN Len(a.k) ELSE Len(b.k)
FirstDiff(a, b) == IF \A i \in 1..MinLen(a, b) : EntryEq(a, b, i) THEN MinLen(a, b) + 1
                   ELSE CHOOSE i \in 1..MinLen(a, b) : ~EntryEq(a, b, i) /\ \A j \in 1..(i - 1) : EntryEq(a, b, j)

Clause(r) ==
    IF r.st # "ok" THEN "render-" \o r.st
    ELSE IF ~r.tok2 THEN "output-does-not-tokenize"
    ELSE IF ~SameStream(r.a, r.b) THEN "stream"
    ELSE IF ~r.parse2 THEN "output-does-not-parse"
    ELSE IF r.q # "ok" THEN "second-pass-" \o r.q
    ELSE IF r.p # r.o THEN "idem"
    ELSE "ok"

\* The property: only for sources that the formatter accepts.
Accept(r) == r.acc => Clause(r) = "ok"

\* Outside the property: a source that tokenizes but does not parse; the
\* relation is evaluated all the same (render.Render is a library function)
\* and "the output parses iff the input parses".
Observe(r) == (r.tok /\ ~r.acc /\ r.st = "ok") =>
                 /\ r.tok2 /\ SameStream(r.a, r.b) /\ ~r.parse2 /\ r.q = "ok" /\ r.p = r.o

BlockSize == 200
NBlocks == (Len(Rows) + BlockSize - 1) \div BlockSize

ValInit == row = 0 /\ file = <<>> /\ sch = "lvl0" /\ n = 0
ValNext ==
    /\ UNCHANGED <<file, n>>
    /\ \/ /\ sch = "lvl0" /\ sch' = "lvl1" /\ row' \in 1..NBlocks
       \/ /\ sch = "lvl1" /\ sch' = "lvl2"
          /\ row' \in ((row - 1) * BlockSize + 1)..(IF row * BlockSize < Len(Rows) THEN row * BlockSize ELSE Len(Rows))

Judge == sch = "lvl2" =>
            LET r == Rows[row] IN
            /\ Accept(r) \/ PrintT(ToJson([row |-> row, id |-> r.id, scope |-> "property", verdict |-> Clause(r),
                                            at |-> IF Clause(r) = "stream" THEN FirstDiff(r.a, r.b) ELSE 0]))
            /\ Observe(r) \/ PrintT(ToJson([row |-> row, id |-> r.id, scope |-> "outside", verdict |-> "observation", at |-> 0]))
=============================================================================

------------------------------ MODULE JpegEnc ------------------------------
(***************************************************************************)
(* C18, protocol half: the call protocol of lib/lowleveljpeg's Encoder.     *)
(*                                                                         *)
(*   Reset(w, colorType, width, height, options)   starts a file            *)
(*   Add1 / Add3 / Add6 (w, blocks)                add one MCU ("unit")     *)
(*                                                                         *)
(* The specification says what each call must REPLY and what it may hand   *)
(* to the io.Writer, as a function of the history:                          *)
(*                                                                         *)
(*  - exactly Units(ct, w, h) = ceil(w/8)*ceil(h/8) units (gray, 4:4:4) or  *)
(*    ceil(w/16)*ceil(h/16) units of 6 blocks (4:2:0) are accepted;         *)
(*  - the EOI marker is written by the call that accepts the last unit,     *)
(*    and nothing is written by any later call until the next Reset;        *)
(*  - a call that replies with an error (bad argument, AddN of the wrong    *)
(*    N, invalid block, too many calls, the writer's error) hands no bytes  *)
(*    to the writer that the writer accepts, and makes the encoder refuse   *)
(*    every later AddN with ErrPreviouslyReturnedError until a Reset        *)
(*    succeeds (the package's "previously returned error" discipline);      *)
(*  - a nil receiver is answered ErrNilReceiver and changes nothing.        *)
(*                                                                         *)
(* Where several argument errors apply to one call the package documents   *)
(* no precedence: the specification allows any of the applicable errors     *)
(* (`allowed` is a set).  Names are the package's exported error variables. *)
(*                                                                         *)
(* Binding (Mode R): TLC enumerates every call history of the scenario's    *)
(* depth over the alphabets of the scenarios in ScenFile, prints each maximal *)
(* history with the expectation after every step; harness/cmd/jpegreplay    *)
(* steps the real Encoder through them.                                     *)
(***************************************************************************)
EXTENDS Integers, Sequences, FiniteSets, TLC, Json

CONSTANTS ScenFile,   \* JSON: array of scenarios (alphabets), see below
          DoExport    \* TRUE: print every maximal history as JSON

(* A scenario is a record
     [ resets : sequence of [ct, w, h, quant, wf],
       adds   : sequence of [n, blk, wf],
       bulk   : BOOLEAN,
       depth  : histories of this scenario have exactly this many steps,
       bulkmax : Bulk is offered only when it stands for <= bulkmax calls,
       nilrecv : sequence of method indices into <<"Reset", "Add1", "Add3", "Add6">> ]
   ct is the numeric ColorType (1 gray, 3 4:4:4, 6 4:2:0, anything else is
   invalid); quant is one of "nilopts" (options == nil), "nilq" (options with a
   nil table pointer), "custom" (a valid pair), "zero0"/"zero1" (a pair whose
   first/second table has a zero factor); wf = the io.Writer fails the Write of
   this call; blk is "valid", "invalid" (some element out of range) or "nil". *)
Scen == JsonDeserialize(ScenFile)

ValidCT == {1, 3, 6}
QuantValid(q) == q \in {"nilopts", "nilq", "custom"}

CeilDiv(a, b) == (a + b - 1) \div b

\* The number of units (AddN calls) a w x h image of colour type ct needs.
Units(ct, w, h) ==
    IF ct = 6 THEN CeilDiv(w, 16) * CeilDiv(h, 16)
              ELSE CeilDiv(w, 8) * CeilDiv(h, 8)

ResetArgsOK(a) ==
    /\ a.ct \in ValidCT
    /\ 1 <= a.w /\ a.w <= 65535
    /\ 1 <= a.h /\ a.h <= 65535
    /\ QuantValid(a.quant)

VARIABLES
    sc,        \* scenario index (fixed in Init)
    ct,        \* colour type of the file in progress (0: none yet)
    rem,       \* units still required
    err,       \* an error has been returned since the last successful Reset
    eoi,       \* EOI has been written for the file in progress
    need,      \* ghost: Units of the last successful Reset
    accepted,  \* ghost: units accepted since then
    eoiCount,  \* ghost: EOI markers written since then
    last,      \* ghost: the last step (operation, expectation, error/EOI state before and after)
    hist       \* ghost: the whole history in compact form (export), see Compact

vars == <<sc, ct, rem, err, eoi, need, accepted, eoiCount, last, hist>>

NoStep == [op |-> "init", allowed |-> {}, bytes |-> "none", wasErr |-> FALSE, wasEoi |-> FALSE,
           nowErr |-> FALSE, nowEoi |-> FALSE]

Init ==
    /\ sc \in 1..Len(Scen)
    /\ ct = 0 /\ rem = 0 /\ err = FALSE /\ eoi = FALSE      \* the zero Encoder
    /\ need = 0 /\ accepted = 0 /\ eoiCount = 0
    /\ last = NoStep
    /\ hist = <<>>

\* Compact form of a step for the export (integers only, so that the JSON line
\* needs no escaping): <<kind, idx, allowed-mask, bytes-code, eoiNow, count>>
\*   kind 1 = Reset(Scen[sc].resets[idx]), 2 = AddN(Scen[sc].adds[idx]),
\*        3 = Bulk (count calls of Add<ct>), 4 = nil receiver, method idx of
\*        <<"Reset", "Add1", "Add3", "Add6">>;
\*   allowed-mask = sum of 2^(i-1) over the allowed replies Replies[i].
Replies == <<"nil", "WriterError", "ErrBadArgument", "ErrBadAddNForColorType", "ErrInvalidBlockI16",
             "ErrTooManyAddNCalls", "ErrPreviouslyReturnedError", "ErrNilReceiver">>
RECURSIVE Pow2(_)
Pow2(k) == IF k = 0 THEN 1 ELSE 2 * Pow2(k - 1)
RECURSIVE MaskOf(_, _)
MaskOf(S, i) == IF i > Len(Replies) THEN 0
                ELSE (IF Replies[i] \in S THEN Pow2(i - 1) ELSE 0) + MaskOf(S, i + 1)
BytesCode(b) == CASE b = "none" -> 0 [] b = "some" -> 1 [] b = "any" -> 2
Compact(step) == <<step.kind, step.idx, MaskOf(step.allowed, 1), BytesCode(step.bytes),
                   IF step.eoiNow THEN 1 ELSE 0, step.count>>

\* `bytes`: what the writer receives during the call:
\*   "none"  no byte is accepted by the writer (no Write at all, or the one
\*           that fails);  "some" at least one byte;  "any" zero or more.
\* `eoiNow`: the bytes of this call end with the EOI marker.
Record(step, nct, nrem, nerr, neoi) ==
    /\ ct' = nct /\ rem' = nrem /\ err' = nerr /\ eoi' = neoi
    /\ last' = [op |-> step.op, allowed |-> step.allowed, bytes |-> step.bytes,
                wasErr |-> err, wasEoi |-> eoi, nowErr |-> nerr, nowEoi |-> neoi]
    /\ hist' = Append(hist, Compact(step))

Reset(i) ==
    LET a == Scen[sc].resets[i]
        base == [op |-> "reset", kind |-> 1, idx |-> i, count |-> 1] IN
    IF ~ResetArgsOK(a) THEN
        /\ Record(base @@ [allowed |-> {"ErrBadArgument"}, bytes |-> "none", eoiNow |-> FALSE],
                  ct, rem, TRUE, eoi)
        /\ UNCHANGED <<need, accepted, eoiCount>>
    ELSE IF a.wf THEN
        /\ Record(base @@ [allowed |-> {"WriterError"}, bytes |-> "none", eoiNow |-> FALSE],
                  a.ct, Units(a.ct, a.w, a.h), TRUE, FALSE)
        /\ need' = Units(a.ct, a.w, a.h) /\ accepted' = 0 /\ eoiCount' = 0
    ELSE
        /\ Record(base @@ [allowed |-> {"nil"}, bytes |-> "some", eoiNow |-> FALSE],
                  a.ct, Units(a.ct, a.w, a.h), FALSE, FALSE)
        /\ need' = Units(a.ct, a.w, a.h) /\ accepted' = 0 /\ eoiCount' = 0

\* The argument/protocol errors that apply to AddN(n, blk) in the current state.
AddErrors(n, blk) ==
    IF err THEN {"ErrPreviouslyReturnedError"}
    ELSE (IF n # ct THEN {"ErrBadAddNForColorType"} ELSE {})
         \cup (IF blk = "nil" THEN {"ErrBadArgument"} ELSE {})
         \cup (IF blk = "invalid" THEN {"ErrInvalidBlockI16"} ELSE {})
         \cup (IF rem = 0 THEN {"ErrTooManyAddNCalls"} ELSE {})

AddN(i) ==
    LET a == Scen[sc].adds[i]
        base == [op |-> "add", kind |-> 2, idx |-> i, count |-> 1]
        es   == AddErrors(a.n, a.blk) IN
    IF es # {} THEN
        /\ Record(base @@ [allowed |-> es, bytes |-> "none", eoiNow |-> FALSE], ct, rem, TRUE, eoi)
        /\ UNCHANGED <<need, accepted, eoiCount>>
    ELSE IF a.wf THEN
        /\ Record(base @@ [allowed |-> {"WriterError"}, bytes |-> "none", eoiNow |-> FALSE], ct, rem, TRUE, eoi)
        /\ UNCHANGED <<need, accepted, eoiCount>>
    ELSE
        /\ Record(base @@ [allowed |-> {"nil"}, bytes |-> IF rem = 1 THEN "some" ELSE "any", eoiNow |-> (rem = 1)],
                  ct, rem - 1, FALSE, rem = 1)
        /\ accepted' = accepted + 1
        /\ eoiCount' = eoiCount + (IF rem = 1 THEN 1 ELSE 0)
        /\ UNCHANGED need

\* rem - 1 consecutive AddN(ct, valid blocks) calls, each answered nil, none of
\* which writes EOI: brings a large image to its last unit in one history step.
Bulk ==
    /\ ~err /\ ct \in ValidCT /\ rem > 1 /\ rem - 1 <= Scen[sc].bulkmax
    /\ Record([op |-> "bulk", kind |-> 3, idx |-> ct, count |-> rem - 1, allowed |-> {"nil"}, bytes |-> "any", eoiNow |-> FALSE],
              ct, 1, FALSE, FALSE)
    /\ accepted' = accepted + (rem - 1)
    /\ UNCHANGED <<need, eoiCount>>

\* A method called on a nil *Encoder.
NilRecv(m) ==
    /\ Record([op |-> "nilrecv", kind |-> 4, idx |-> m, count |-> 1, allowed |-> {"ErrNilReceiver"}, bytes |-> "none", eoiNow |-> FALSE],
              ct, rem, err, eoi)
    /\ UNCHANGED <<need, accepted, eoiCount>>

Next ==
    /\ Len(hist) < Scen[sc].depth
    /\ UNCHANGED sc
    /\ \/ \E i \in 1..Len(Scen[sc].resets) : Reset(i)
       \/ \E i \in 1..Len(Scen[sc].adds) : AddN(i)
       \/ Scen[sc].bulk /\ Bulk
       \/ \E j \in 1..Len(Scen[sc].nilrecv) : NilRecv(Scen[sc].nilrecv[j])

Spec == Init /\ [][Next]_vars

---------------------------------------------------------------------------
(* Safety properties of the model itself (checked by TLC in the property    *)
(* configuration; VIEW hides hist so that the state space is the small      *)
(* abstract one).                                                           *)

TypeOK ==
    /\ ct \in 0..255 /\ rem \in Nat /\ err \in BOOLEAN /\ eoi \in BOOLEAN
    /\ need \in Nat /\ accepted \in Nat /\ eoiCount \in Nat

\* Exactly `need` units are accepted: the count is conserved while no error
\* has been returned ...
Conservation == (~err /\ ct \in ValidCT) => (accepted + rem = need)
\* ... EOI is written exactly when the last one has been accepted, and once.
EoiExactlyOnce ==
    /\ eoiCount <= 1
    /\ (ct \in ValidCT) => (eoi <=> eoiCount = 1)
    /\ eoi => (accepted = need /\ rem = 0)
    /\ (~err /\ ct \in ValidCT /\ accepted = need) => eoi
NeverTooMany == accepted <= need

\* Error stickiness: once an error has been returned, an AddN is refused, with
\* nothing written, and the error state persists; only a Reset can clear it.
ErrorSticky ==
    (last.wasErr /\ last.op \in {"add"}) =>
        (last.allowed = {"ErrPreviouslyReturnedError"} /\ last.bytes = "none" /\ last.nowErr)
BulkNeverAfterError == last.op = "bulk" => ~last.wasErr
\* every error reply sets the error state (nil receiver apart: there is no encoder)
ErrorsStick ==
    (last.op \in {"add", "reset"} /\ "nil" \notin last.allowed) => (last.nowErr /\ last.bytes = "none")
\* Nothing is accepted or written after completion.
NothingAfterEoi ==
    (last.wasEoi /\ last.op \in {"add", "bulk"}) => ("nil" \notin last.allowed /\ last.bytes = "none")
\* the reply is always determined up to the documented ambiguity
AllowedNonEmpty == last.op # "init" => last.allowed # {}
NilIffOk == (last.op \in {"add", "reset"} /\ "nil" \in last.allowed) => (last.allowed = {"nil"} /\ ~last.nowErr)

ModelOK == /\ TypeOK /\ Conservation /\ EoiExactlyOnce /\ NeverTooMany /\ ErrorSticky
           /\ BulkNeverAfterError /\ ErrorsStick /\ NothingAfterEoi /\ AllowedNonEmpty /\ NilIffOk

PropView == <<sc, ct, rem, err, eoi, need, accepted, eoiCount, last>>

---------------------------------------------------------------------------
(* Export: every maximal history, one JSON line each.                      *)
Export ==
    (DoExport /\ Len(hist) = Scen[sc].depth) => PrintT(ToJson(<<sc, hist>>))

\* Units spot values from the property text (vacuity guards).
ASSUME Units(1, 1, 1) = 1 /\ Units(3, 9, 8) = 2 /\ Units(6, 17, 16) = 2 /\ Units(6, 16, 16) = 1
ASSUME Units(1, 65535, 65535) = 8192 * 8192 /\ Units(6, 65535, 65535) = 4096 * 4096
=============================================================================

----------------------------- MODULE IOSchedule -----------------------------
(***************************************************************************)
(* The space of buffer schedules and object configurations under which a   *)
(* standard-library decoder is driven (C03, C05, C09), and what a piece     *)
(* list means.  TLC enumerates the class space (export cfg) and checks the  *)
(* unfolding semantics: every unfolding of a piece list is a partition of   *)
(* the input (nothing lost, nothing repeated, closed exactly at the end).   *)
(*                                                                         *)
(* A piece list is a sequence over Nat \cup {Rest}: successive increments    *)
(* offered to the callee when it reports "$short read" (source) or          *)
(* "$short write" (destination); after the list is exhausted its last       *)
(* element repeats; Rest (-1 in the driver, "*" in job files) means         *)
(* everything that is left / an ample amount.                               *)
(***************************************************************************)
EXTENDS Integers, Sequences, FiniteSets, TLC, Json

Rest == 0 - 1

SrcLists == { <<Rest>>, <<1>>, <<2>>, <<3>>, <<7>>, <<4096>>, <<1, 2, 3, 7>>, <<0, 1>> }
DstLists == { <<Rest>>, <<1>>, <<13>>, <<4096>> }
\* token decoders write into a token buffer whose capacity is counted in tokens: 1, 2, 3 sit at and just above the
\* decoders' documented minimum (json 1, cbor 2), where a chain is cut after every token or two
TokDstLists == { <<Rest>>, <<1>>, <<2>>, <<3>>, <<13>> }
SrcModes == {"view", "fresh"}          \* one growing window / a fresh exact-size window holding only unread bytes
DstModes == {"grow", "compact"}        \* one growing window / flushed and compacted after every call
WorkBufs == {"min", "max"}
Closes   == {"end", "late"}            \* closed set with the last piece / only on the next "$short read"
Inits    == {0, 1, 2}                  \* default, ALREADY_ZEROED, LEAVE_INTERNAL_BUFFERS_UNINITIALIZED
Prefills == {0, 165, 255}              \* memory contents before initialize and beyond every write index

Class == [src : SrcLists, srcmode : SrcModes, dst : DstLists, dstmode : DstModes,
          wb : WorkBufs, close : Closes, init : Inits, prefill : Prefills]

\* ALREADY_ZEROED may only be claimed over zeroed memory.
Valid(c) == (c.init = 1) => (c.prefill = 0)
Classes == { c \in Class : Valid(c) }

\* The one-shot class: everything available, ample room.
OneShot(c) == c.src = <<Rest>> /\ c.dst = <<Rest>> /\ c.close = "end"

---------------------------------------------------------------------------
(* Unfolding semantics, checked by TLC for small n.                        *)

PieceAt(p, i) == p[IF i <= Len(p) THEN i ELSE Len(p)]

CONSTANT MaxN
VARIABLES n, plist, close, supplied, isClosed, step, offers

Init == /\ n \in 0..MaxN /\ plist \in SrcLists /\ close \in Closes
        /\ step = 1 /\ offers = <<>>
        /\ LET p == PieceAt(plist, 1) k == IF p = Rest \/ p > n THEN n ELSE p
           IN supplied = k /\ isClosed = (k >= n /\ close = "end")

\* what the driver does on each "$short read"
Supply ==
    /\ ~isClosed
    /\ IF supplied >= n
       THEN supplied' = supplied /\ isClosed' = TRUE /\ step' = step /\ offers' = Append(offers, 0)
       ELSE LET p == PieceAt(plist, step + 1)
                rest == n - supplied
                k0 == IF p = Rest \/ p > rest THEN rest ELSE p
                k == IF k0 = 0 THEN 1 ELSE k0          \* a zero piece still makes progress
            IN /\ supplied' = supplied + k /\ step' = step + 1
               /\ isClosed' = (supplied' >= n /\ close = "end")
               /\ offers' = Append(offers, k)
    /\ UNCHANGED <<n, plist, close>>

Done == isClosed /\ UNCHANGED <<n, plist, close, supplied, isClosed, step, offers>>
Next == Supply \/ Done
Spec == Init /\ [][Next]_<<n, plist, close, supplied, isClosed, step, offers>>

\* never more than the input; closed only when everything was supplied;
\* the number of offers is bounded by n + 2 (bounded work of the caller)
Partition == /\ supplied <= n
             /\ isClosed => supplied = n
             /\ Len(offers) <= n + 2

---------------------------------------------------------------------------
\* Export of the class space for the runner (evaluated once).
ListStr(p) == [i \in 1..Len(p) |-> p[i]]
Export == PrintT(ToJson([classes |-> { [src |-> ListStr(c.src), srcmode |-> c.srcmode, dst |-> ListStr(c.dst),
                                         dstmode |-> c.dstmode, wb |-> c.wb, close |-> c.close, init |-> c.init,
                                         prefill |-> c.prefill] : c \in Classes },
                        tokdst |-> { ListStr(p) : p \in TokDstLists }]))
vars == <<n, plist, close, supplied, isClosed, step, offers>>
ExportSpec == (Export /\ n = 0 /\ plist = <<Rest>> /\ close = "end" /\ supplied = 0 /\ isClosed = TRUE /\ step = 1 /\ offers = <<>>)
              /\ [][UNCHANGED vars]_vars
=============================================================================

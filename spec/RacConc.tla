------------------------------ MODULE RacConc ------------------------------
(***************************************************************************)
(* C14, concurrent half: a model of lib/rac/conc_reader.go with ONE ACTION  *)
(* PER CHANNEL OPERATION.                                                   *)
(*                                                                         *)
(* Processes   client    the API caller, inside Reader.Read ->              *)
(*                       concReader.Read / nextWork / stopAnyWorkInProgress *)
(*                       / recycleBuffers / Close, as the code structures   *)
(*                       them (pc values cXxx below name the code sites)    *)
(*             manager   runRManager                                        *)
(*             worker[w] runRWorker, w \in 1..N                             *)
(* Channels    roic, stopc, ackc   unbuffered: a send and the matching      *)
(*                                 receive are ONE action (rendezvous)      *)
(*             reqc   capacity N        manager -> workers                  *)
(*             resc   capacity 2N       workers -> client                   *)
(*             recyc[w] capacity 2      client -> worker w (buffers)        *)
(* A select statement is the disjunction of its enabled cases; a nil        *)
(* channel (input/output variables of the Go code) disables its case.       *)
(* Code that runs between two channel operations of one goroutine touches   *)
(* only that goroutine's private state and is folded into the action of the *)
(* channel operation that precedes it (MAdvance, WAdvance).                 *)
(*                                                                         *)
(* Positions are measured in UNITS.  Chunk i is [Bounds[i], Bounds[i+1]).   *)
(* A worker buffer holds BUF units (rBufferSize = BUF * unit).              *)
(* Buffers are tokens <<w, k>>, k \in 1..2 (numRBuffersPerWorker).          *)
(*                                                                         *)
(* The model describes the code AS IT IS at the pinned commit.  Three       *)
(* switches select the behaviour of the proposed repairs:                   *)
(*   FIXED1  findings/C14-stale-roi.patch: Manager and Workers forget       *)
(*           their work in progress after a stop with keepWorking = true    *)
(*   FIXED2  findings/C14-limit-change.patch: concReader.seek clears        *)
(*           seekResolved when the limit changes, not only when pos does    *)
(*   FIXED3  findings/C14-sticky-eof.patch: Reader.Read does not store      *)
(*           io.EOF from the concurrent reader as the sticky error          *)
(*                                                                         *)
(* Checked by TLC: no deadlock while the client is inside a call (TLC's     *)
(* deadlock check; the only stuttering action is enabled when the client is *)
(* between calls and has nothing more to do), ByteAtPos, ReplyOK,           *)
(* NoDoubleOwner, NoLostBuffer, AfterClose.                                 *)
(***************************************************************************)
EXTENDS Integers, Sequences, FiniteSets, TLC

CONSTANTS N,          \* number of workers
          Bounds,     \* chunk boundaries in units: <<0, b1, ..., dsize>>
          BUF,        \* buffer capacity in units
          MaxCalls,   \* client scripts have at most this many calls
          ReadLens,   \* Read(n) for n in this set (units; 0 allowed)
          SeekPos,    \* Seek(p, io.SeekStart) for p in this set
          Ranges,     \* SeekRange(r[1], r[2]) for r in this set
          WithClose,  \* BOOLEAN: scripts may call Close
          FIXED1, FIXED2, FIXED3

NC     == Len(Bounds) - 1
DSize  == Bounds[NC + 1]
Workers == 1..N
Min(a, b) == IF a < b THEN a ELSE b
Max(a, b) == IF a > b THEN a ELSE b

NoWork == [lo |-> 0, hi |-> 0, w |-> 0, k |-> 0]
HasBuf(x) == x.w # 0

\* ChunkReader.SeekToChunkContaining(p) followed by NextChunk: index of the
\* chunk containing p, NC+1 when p >= DSize (NextChunk then returns io.EOF).
ChunkAt(p) == IF p >= DSize THEN NC + 1
              ELSE CHOOSE i \in 1..NC : Bounds[i] <= p /\ p < Bounds[i + 1]

VARIABLES
  \* ---- client (Reader + concReader fields) ----
  cpc,        \* code site
  pos, lim,   \* concReader.pos, posLimit
  resolved,   \* seekResolved
  seenRead,
  cur,        \* currWork (its unconsumed part [lo, hi) and buffer token)
  done,       \* completedWorks, as a set of works with distinct lo
  want, got,  \* len(p) still to fill, numRead
  ci,         \* loop counter of stopAnyWorkInProgress
  ckeep,      \* keepWorking argument of stopAnyWorkInProgress
  rerr,       \* Reader.err: "nil", "EOF", "closed"
  ncalls,
  \* ---- manager ----
  mpc, minput, moutput, mroi, mwork, mcur, mkeep,
  \* ---- workers ----
  wpc, winput, woutput, wout, wrange, wfree, wkeep,
  \* ---- channels ----
  reqc, resc, recyc,
  \* ---- ghost: the in-memory reader and verdict flags ----
  gpos, glim, okbytes, okreply,
  hist        \* the client's script so far (hidden by the VIEW)

cvars == <<cpc, pos, lim, resolved, seenRead, cur, done, want, got, ci, ckeep, rerr, ncalls>>
mvars == <<mpc, minput, moutput, mroi, mwork, mcur, mkeep>>
wvars == <<wpc, winput, woutput, wout, wrange, wfree, wkeep>>
chvars == <<reqc, resc, recyc>>
gvars == <<gpos, glim, okbytes, okreply>>
vars == <<cvars, mvars, wvars, chvars, gvars, hist>>
View == <<cvars, mvars, wvars, chvars, gvars>>

Init ==
  /\ cpc = "idle" /\ pos = 0 /\ lim = DSize /\ resolved = FALSE /\ seenRead = FALSE
  /\ cur = NoWork /\ done = {} /\ want = 0 /\ got = 0 /\ ci = 0 /\ ckeep = FALSE
  /\ rerr = "nil" /\ ncalls = 0
  /\ mpc = "sel" /\ minput = TRUE /\ moutput = FALSE /\ mroi = <<0, 0>> /\ mwork = <<0, 0>>
  /\ mcur = 1 /\ mkeep = FALSE
  /\ wpc = [w \in Workers |-> "sel"] /\ winput = [w \in Workers |-> TRUE]
  /\ woutput = [w \in Workers |-> FALSE] /\ wout = [w \in Workers |-> NoWork]
  /\ wrange = [w \in Workers |-> <<0, 0>>] /\ wfree = [w \in Workers |-> {1, 2}]
  /\ wkeep = [w \in Workers |-> FALSE]
  /\ reqc = <<>> /\ resc = <<>> /\ recyc = [w \in Workers |-> {}]
  /\ gpos = 0 /\ glim = DSize /\ okbytes = TRUE /\ okreply = TRUE
  /\ hist = <<>>

-----------------------------------------------------------------------------
(* Manager: private code after a select case (the `for { NextChunk ... }`  *)
(* loop of runRManager).  Returns <<input, output, work, cursor>>.          *)
MAdvance(c, roi) ==
  IF c > NC \/ Bounds[c] >= roi[2]
  THEN <<TRUE, FALSE, <<0, 0>>, Min(c + 1, NC + 1)>>          \* input, output = roic, nil
  ELSE <<FALSE, TRUE, <<Max(Bounds[c], roi[1]), Min(Bounds[c + 1], roi[2])>>, c + 1>>

\* case roi = <-input   (rendezvous with the client's  c.roic <- Range)
MRecvRoi(r) ==
  /\ mpc = "sel" /\ minput
  /\ LET a == MAdvance(ChunkAt(r[1]), r) IN
       /\ mroi' = r
       /\ minput' = a[1] /\ moutput' = a[2] /\ mwork' = a[3] /\ mcur' = a[4]
  /\ UNCHANGED <<mpc, mkeep>>

\* case output <- work
MSendReq ==
  /\ mpc = "sel" /\ moutput /\ Len(reqc) < N
  /\ reqc' = Append(reqc, mwork)
  /\ LET a == MAdvance(mcur, mroi) IN
       minput' = a[1] /\ moutput' = a[2] /\ mwork' = a[3] /\ mcur' = a[4]
  /\ UNCHANGED <<mpc, mroi, mkeep, cvars, wvars, resc, recyc, gvars, hist>>

\* case stop := <-stopc  (rendezvous with the client's  c.stopc <- stopWork)
MRecvStop(keep) ==
  /\ mpc = "sel"
  /\ mpc' = "ack" /\ mkeep' = keep
  /\ UNCHANGED <<minput, moutput, mroi, mwork, mcur>>

\* <-stop.ackc  (rendezvous with the client's  c.ackc <- struct{}{})
MRecvAck ==
  /\ mpc = "ack"
  /\ mpc' = IF mkeep THEN "sel" ELSE "done"
  /\ IF FIXED1 /\ mkeep
     THEN minput' = TRUE /\ moutput' = FALSE /\ mwork' = <<0, 0>>
     ELSE UNCHANGED <<minput, moutput, mwork>>      \* `continue loop` keeps roi/work/mode
  /\ UNCHANGED <<mroi, mcur, mkeep>>

-----------------------------------------------------------------------------
(* Worker: private code after a select case.  Returns                       *)
(* <<input, output, outWork, dRange, free>>.                                *)
WAdvance(w, inp, outp, ow, rng, free) ==
  IF outp THEN <<inp, outp, ow, rng, free>>                  \* sending trumps making new outWork
  ELSE IF rng[1] = rng[2] THEN <<TRUE, outp, ow, rng, free>> \* input = reqc
  ELSE IF free = {} THEN <<inp, outp, ow, rng, free>>        \* wait for a recycled buffer
  ELSE LET k == CHOOSE x \in free : \A y \in free : x <= y
           n == Min(BUF, rng[2] - rng[1])
       IN <<inp, TRUE, [lo |-> rng[1], hi |-> rng[1] + n, w |-> w, k |-> k],
            <<rng[1] + n, rng[2]>>, free \ {k}>>

WSet(w, a) ==
  /\ winput' = [winput EXCEPT ![w] = a[1]]
  /\ woutput' = [woutput EXCEPT ![w] = a[2]]
  /\ wout' = [wout EXCEPT ![w] = a[3]]
  /\ wrange' = [wrange EXCEPT ![w] = a[4]]
  /\ wfree' = [wfree EXCEPT ![w] = a[5]]

\* case inWork := <-input
WRecvReq(w) ==
  /\ wpc[w] = "sel" /\ winput[w] /\ Len(reqc) > 0
  /\ reqc' = Tail(reqc)
  /\ WSet(w, WAdvance(w, FALSE, woutput[w], wout[w], Head(reqc), wfree[w]))
  /\ UNCHANGED <<wpc, wkeep, cvars, mvars, resc, recyc, gvars, hist>>

\* case output <- outWork
WSendRes(w) ==
  /\ wpc[w] = "sel" /\ woutput[w] /\ Len(resc) < 2 * N
  /\ resc' = Append(resc, wout[w])
  /\ WSet(w, WAdvance(w, winput[w], FALSE, NoWork, wrange[w], wfree[w]))
  /\ UNCHANGED <<wpc, wkeep, cvars, mvars, reqc, recyc, gvars, hist>>

\* case recycledBuffer := <-recyclec
WRecvRecycle(w) ==
  /\ wpc[w] = "sel" /\ recyc[w] # {}
  /\ LET k == CHOOSE x \in recyc[w] : \A y \in recyc[w] : x <= y IN
       /\ recyc' = [recyc EXCEPT ![w] = @ \ {k}]
       /\ WSet(w, WAdvance(w, winput[w], woutput[w], wout[w], wrange[w], wfree[w] \cup {k}))
  /\ UNCHANGED <<wpc, wkeep, cvars, mvars, reqc, resc, gvars, hist>>

WRecvStop(w, keep) ==
  /\ wpc[w] = "sel"
  /\ wpc' = [wpc EXCEPT ![w] = "ack"] /\ wkeep' = [wkeep EXCEPT ![w] = keep]
  /\ UNCHANGED <<winput, woutput, wout, wrange, wfree>>

WRecvAck(w) ==
  /\ wpc[w] = "ack"
  /\ wpc' = [wpc EXCEPT ![w] = IF wkeep[w] THEN "sel" ELSE "done"]
  /\ IF FIXED1 /\ wkeep[w]
     THEN /\ winput' = [winput EXCEPT ![w] = TRUE]
          /\ woutput' = [woutput EXCEPT ![w] = FALSE]
          /\ wfree' = [wfree EXCEPT ![w] = IF HasBuf(wout[w]) THEN @ \cup {wout[w].k} ELSE @]
          /\ wout' = [wout EXCEPT ![w] = NoWork]
          /\ wrange' = [wrange EXCEPT ![w] = <<0, 0>>]
     ELSE UNCHANGED <<winput, woutput, wout, wrange, wfree>>
  /\ UNCHANGED wkeep

-----------------------------------------------------------------------------
(* Client.                                                                 *)

\* The in-memory reader's answer to Read(n): count and whether EOF may / must
\* accompany it.
ExpCount(n) == Min(n, Max(0, glim - gpos))
ReadReplyOK(n, cnt, eof) ==
  /\ cnt = ExpCount(n)
  /\ eof => gpos + cnt >= glim                        \* EOF only at the end
  /\ (~eof /\ cnt = 0 /\ n > 0) => FALSE              \* (0, nil) for a non-empty p is wrong
  /\ (~eof /\ cnt = 0 /\ n = 0) => TRUE

Return(n, cnt, eof) ==      \* Reader.Read returns (cnt, eof ? io.EOF : nil)
  /\ cpc' = "idle"
  /\ okreply' = (okreply /\ ReadReplyOK(n, cnt, eof))
  /\ gpos' = gpos + ExpCount(n)
  /\ rerr' = IF eof /\ ~FIXED3 THEN "EOF" ELSE rerr  \* reader.go: r.err = err
  /\ UNCHANGED <<glim, okbytes>>

\* concReader.seek, after whence has been resolved to an absolute p >= 0.
DoSeek(p, newlim, tag) ==
  /\ cpc = "idle" /\ ncalls < MaxCalls /\ rerr # "closed"
  /\ ncalls' = ncalls + 1 /\ hist' = Append(hist, tag)
  /\ gpos' = p /\ glim' = newlim
  /\ IF rerr # "nil"
     THEN /\ okreply' = FALSE                         \* Seek answered with the sticky error
          /\ UNCHANGED <<pos, lim, resolved>>
     ELSE /\ okreply' = okreply
          /\ pos' = p /\ lim' = newlim
          /\ resolved' = IF pos # p \/ (FIXED2 /\ lim # newlim) THEN FALSE ELSE resolved
  /\ UNCHANGED <<cpc, seenRead, cur, done, want, got, ci, ckeep, rerr, okbytes,
                 mvars, wvars, chvars>>

CSeek == \E p \in SeekPos : DoSeek(p, DSize, <<"seek", p>>)
CSeekRange == \E r \in Ranges : DoSeek(r[1], Min(r[2], DSize), <<"seekrange", r[1], r[2]>>)

\* Reader.Read entry up to the first channel operation of concReader.Read.
CRead ==
  \E n \in ReadLens :
    /\ cpc = "idle" /\ ncalls < MaxCalls /\ rerr # "closed"
    /\ ncalls' = ncalls + 1 /\ hist' = Append(hist, <<"read", n>>)
    /\ want' = n /\ got' = 0
    /\ IF rerr # "nil"
       THEN /\ cpc' = "idle" /\ okreply' = (okreply /\ ReadReplyOK(n, 0, rerr = "EOF"))
            /\ gpos' = gpos + ExpCount(n)
            /\ UNCHANGED <<resolved, seenRead, ci, ckeep, rerr>>
       ELSE IF pos >= lim
       THEN /\ Return(n, 0, TRUE) /\ UNCHANGED <<resolved, seenRead, ci, ckeep>>
       ELSE /\ UNCHANGED <<gpos, okreply, rerr>>
            /\ IF ~resolved
               THEN /\ resolved' = TRUE /\ seenRead' = TRUE
                    /\ IF seenRead THEN cpc' = "stop" /\ ci' = 0 /\ ckeep' = TRUE
                                   ELSE cpc' = "roic" /\ UNCHANGED <<ci, ckeep>>
               ELSE cpc' = "loop" /\ UNCHANGED <<resolved, seenRead, ci, ckeep>>
    /\ UNCHANGED <<pos, lim, cur, done, glim, okbytes, mvars, wvars, chvars>>

\* Reader.Close -> concReader.Close -> stopAnyWorkInProgress(false)
CClose ==
  /\ WithClose /\ cpc = "idle" /\ ncalls < MaxCalls /\ rerr # "closed"
  /\ ncalls' = ncalls + 1 /\ hist' = Append(hist, <<"close">>)
  /\ cpc' = "stop" /\ ci' = 0 /\ ckeep' = FALSE
  /\ UNCHANGED <<pos, lim, resolved, seenRead, cur, done, want, got, rerr,
                 mvars, wvars, chvars, gvars>>

\* c.stopc <- stopWork{c.ackc, keepWorking}: rendezvous with the Manager or a Worker
AfterStops == IF ckeep THEN "rec_cur" ELSE "ack"
CSendStop ==
  /\ cpc = "stop"
  /\ \/ MRecvStop(ckeep) /\ UNCHANGED wvars
     \/ \E w \in Workers : WRecvStop(w, ckeep) /\ UNCHANGED mvars
  /\ IF ci + 1 = N + 1 THEN cpc' = AfterStops /\ ci' = 0 ELSE cpc' = cpc /\ ci' = ci + 1
  /\ UNCHANGED <<pos, lim, resolved, seenRead, cur, done, want, got, ckeep, rerr, ncalls,
                 chvars, gvars, hist>>

\* work.recycle(): r.recyclec <- r.buffer  (capacity 2: never blocks, see NoDoubleOwner)
Recycle(x) == recyc' = [recyc EXCEPT ![x.w] = @ \cup {x.k}]

\* recycleBuffers: c.currWork.recycle()
CRecycleCur ==
  /\ cpc = "rec_cur"
  /\ IF HasBuf(cur) THEN Recycle(cur) /\ cur' = NoWork ELSE UNCHANGED <<recyc, cur>>
  /\ cpc' = "rec_done"
  /\ UNCHANGED <<pos, lim, resolved, seenRead, done, want, got, ci, ckeep, rerr, ncalls,
                 mvars, wvars, reqc, resc, gvars, hist>>

\* recycleBuffers: for k, work := range c.completedWorks { work.recycle(); delete }
CRecycleDone ==
  /\ cpc = "rec_done"
  /\ IF done = {}
     THEN cpc' = "drain_req" /\ UNCHANGED <<done, recyc>>
     ELSE \E x \in done : Recycle(x) /\ done' = done \ {x} /\ cpc' = cpc
  /\ UNCHANGED <<pos, lim, resolved, seenRead, cur, want, got, ci, ckeep, rerr, ncalls,
                 mvars, wvars, reqc, resc, gvars, hist>>

\* drainWorkChan(c.reqc): select { case work := <-c: work.recycle(); default: return }
CDrainReq ==
  /\ cpc = "drain_req"
  /\ IF reqc = <<>> THEN cpc' = "drain_res" /\ UNCHANGED reqc
                    ELSE reqc' = Tail(reqc) /\ cpc' = cpc
  /\ UNCHANGED <<pos, lim, resolved, seenRead, cur, done, want, got, ci, ckeep, rerr, ncalls,
                 mvars, wvars, resc, recyc, gvars, hist>>

\* drainWorkChan(c.resc)
CDrainRes ==
  /\ cpc = "drain_res"
  /\ IF resc = <<>> THEN cpc' = "ack" /\ UNCHANGED <<resc, recyc>>
                    ELSE resc' = Tail(resc) /\ Recycle(Head(resc)) /\ cpc' = cpc
  /\ UNCHANGED <<pos, lim, resolved, seenRead, cur, done, want, got, ci, ckeep, rerr, ncalls,
                 mvars, wvars, reqc, gvars, hist>>

\* c.ackc <- struct{}{}: rendezvous with a goroutine waiting in <-stop.ackc
CSendAck ==
  /\ cpc = "ack"
  /\ \/ MRecvAck /\ UNCHANGED wvars
     \/ \E w \in Workers : WRecvAck(w) /\ UNCHANGED mvars
  /\ IF ci + 1 = N + 1
     THEN /\ ci' = 0
          /\ IF ckeep THEN cpc' = "roic" /\ UNCHANGED rerr
                      ELSE cpc' = "idle" /\ rerr' = "closed"      \* Close returns
     ELSE cpc' = cpc /\ ci' = ci + 1 /\ UNCHANGED rerr
  /\ UNCHANGED <<pos, lim, resolved, seenRead, cur, done, want, got, ckeep, ncalls,
                 chvars, gvars, hist>>

\* c.roic <- Range{c.pos, c.posLimit}
CSendRoi ==
  /\ cpc = "roic"
  /\ MRecvRoi(<<pos, lim>>)
  /\ cpc' = "loop"
  /\ UNCHANGED <<pos, lim, resolved, seenRead, cur, done, want, got, ci, ckeep, rerr, ncalls,
                 wvars, chvars, gvars, hist>>

\* The for loop of concReader.Read: decisions that need no channel.
CLoopReturn ==
  /\ cpc = "loop"
  /\ \/ pos >= lim /\ Return(got + want, got, TRUE)
     \/ pos < lim /\ want = 0 /\ Return(got, got, FALSE)
  /\ UNCHANGED <<pos, lim, resolved, seenRead, cur, done, want, got, ci, ckeep, ncalls,
                 mvars, wvars, chvars, hist>>

Exhausted == cur.lo >= cur.hi

\* c.currWork.recycle() inside Read
CLoopRecycle ==
  /\ cpc = "loop" /\ pos < lim /\ want > 0 /\ Exhausted /\ HasBuf(cur)
  /\ Recycle(cur) /\ cur' = NoWork
  /\ UNCHANGED <<cpc, pos, lim, resolved, seenRead, done, want, got, ci, ckeep, rerr, ncalls,
                 mvars, wvars, reqc, resc, gvars, hist>>

\* nextWork: the map lookup succeeds
CNextFromDone ==
  /\ cpc = "loop" /\ pos < lim /\ want > 0 /\ Exhausted /\ ~HasBuf(cur)
  /\ \E x \in done : x.lo = pos /\ cur' = x /\ done' = done \ {x}
  /\ UNCHANGED <<cpc, pos, lim, resolved, seenRead, want, got, ci, ckeep, rerr, ncalls,
                 mvars, wvars, chvars, gvars, hist>>

\* nextWork: work := <-c.resc; c.completedWorks[work.dRange[0]] = work  (overwrites)
CNextRecv ==
  /\ cpc = "loop" /\ pos < lim /\ want > 0 /\ Exhausted /\ ~HasBuf(cur)
  /\ ~\E x \in done : x.lo = pos
  /\ Len(resc) > 0
  /\ resc' = Tail(resc)
  /\ done' = {x \in done : x.lo # Head(resc).lo} \cup {Head(resc)}
  /\ UNCHANGED <<cpc, pos, lim, resolved, seenRead, cur, want, got, ci, ckeep, rerr, ncalls,
                 mvars, wvars, reqc, recyc, gvars, hist>>

\* n := copy(p, c.currWork.buffer[i:j])   (no clipping to posLimit, as in the code)
CCopy ==
  /\ cpc = "loop" /\ pos < lim /\ want > 0 /\ ~Exhausted
  /\ LET n == Min(want, cur.hi - cur.lo) IN
       /\ okbytes' = (okbytes /\ cur.lo = pos)
       /\ pos' = pos + n /\ cur' = [cur EXCEPT !.lo = @ + n]
       /\ want' = want - n /\ got' = got + n
  /\ UNCHANGED <<cpc, lim, resolved, seenRead, done, ci, ckeep, rerr, ncalls,
                 mvars, wvars, chvars, gpos, glim, okreply, hist>>

\* The client is between calls and will make no further call: nothing is
\* required to happen (the only stuttering step; every other lack of an
\* enabled action is a deadlock inside a call, or of a client that could call).
ClientFinished == cpc = "idle" /\ (ncalls = MaxCalls \/ rerr = "closed")
Finished == ClientFinished /\ UNCHANGED vars

Next ==
  \/ CSeek \/ CSeekRange \/ CRead \/ CClose
  \/ CSendStop \/ CRecycleCur \/ CRecycleDone \/ CDrainReq \/ CDrainRes \/ CSendAck
  \/ CSendRoi \/ CLoopReturn \/ CLoopRecycle \/ CNextFromDone \/ CNextRecv \/ CCopy
  \/ MSendReq
  \/ \E w \in Workers : WRecvReq(w) \/ WSendRes(w) \/ WRecvRecycle(w)
  \/ Finished

Spec == Init /\ [][Next]_vars

-----------------------------------------------------------------------------
(* Properties.                                                             *)

\* every byte delivered is the byte at pos
ByteAtPos == okbytes
\* counts and end-of-file behaviour equal the in-memory reader's
ReplyOK == okreply

Holders(w, k) ==
    (IF k \in wfree[w] THEN 1 ELSE 0)
  + (IF wout[w].w = w /\ wout[w].k = k THEN 1 ELSE 0)
  + (IF k \in recyc[w] THEN 1 ELSE 0)
  + (IF cur.w = w /\ cur.k = k THEN 1 ELSE 0)
  + Cardinality({x \in done : x.w = w /\ x.k = k})
  + Cardinality({i \in 1..Len(resc) : resc[i].w = w /\ resc[i].k = k})

\* each buffer has exactly one owner: never two ...
NoDoubleOwner == \A w \in Workers, k \in 1..2 : Holders(w, k) <= 1
\* ... and never none (a buffer that nobody will ever recycle) while its
\* Worker is alive
NoLostBuffer == \A w \in Workers, k \in 1..2 : wpc[w] # "done" => Holders(w, k) >= 1

\* after Close every process has terminated
AfterClose == rerr = "closed" => (mpc = "done" /\ \A w \in Workers : wpc[w] = "done")

\* the map never holds two works with one key
DoneKeysDistinct == \A x, y \in done : x.lo = y.lo => x = y

=============================================================================

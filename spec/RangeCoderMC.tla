----------------------------- MODULE RangeCoderMC -----------------------------
(***************************************************************************)
(* C17, design level: the range coder of RangeCoder.tla decodes what it    *)
(* encodes, for ALL short decision sequences, from the reset state and from *)
(* chosen extreme encoder states:                                           *)
(*   low   at 2^32 - 1, 2^32 - 2, 0xFF000000, 0xFEFFFFFF, 0xFFFF0000,       *)
(*         0x00FFFFFF, 0, and at 2^32 - bound - 1, 2^32 - bound,            *)
(*         2^32 - bound + 1 (so that the first 1-decision makes low         *)
(*         exactly 2^32 - 1, 2^32, 2^32 + 1), with and without a carry      *)
(*         already standing in bit 32;                                      *)
(*   range at 2^24, 2^24 + 1, 2^24 + 2047, 2^25 - 1, 2^25 (-> exactly 2^24  *)
(*         after one decision), 65793 * 2^11 (-> exactly 2^24 - 1), 2^31,   *)
(*         0xFF000000, 2^32 - 1;                                            *)
(*   cache / cacheSize  0x00 / 1, 0xFE / 1, 0xFE / 2, 0xFF / 1, 0xFF / 3,   *)
(*         0x11 / 4  (runs of pending 0xFF bytes);                          *)
(*   probabilities at their extremes 31 and 2017, at 1024 and at 255.       *)
(* Only starts that satisfy the encoder's invariant EncInv are used (the    *)
(* others are not encoder states: TLC shows EncInv is inductive along every *)
(* explored sequence).                                                      *)
(*                                                                         *)
(* A decision sequence uses two adaptive probabilities alternately.  After  *)
(* EVERY prefix the encoder is flushed and the decoder, started in the      *)
(* state that corresponds to the start state, must return exactly the       *)
(* decisions, consume exactly the bytes written and end with code = 0.      *)
(***************************************************************************)
EXTENDS RangeCoder, FiniteSets

CONSTANTS MaxN,       \* longest decision sequence
          Extreme,    \* TRUE: the extreme starts;  FALSE: the reset state only
          Slim        \* TRUE: a sub-family of the extreme starts (quick tier)

VARIABLES e, ps, hist, s0
vars == <<e, ps, hist, s0>>

\* 2^32 - b for a word b with 0 < b < 2^32
Neg(b) == IF b[2] = 0 THEN <<H - b[1], 0>> ELSE <<H - 1 - b[1], H - b[2]>>
Dec(w) == IF w[2] = 0 THEN <<w[1] - 1, H - 1>> ELSE <<w[1], w[2] - 1>>
Inc(w) == IF w[2] = H - 1 THEN <<w[1] + 1, 0>> ELSE <<w[1], w[2] + 1>>

\* <<512, 0>> = 2^25 halves to exactly 2^24 at p = 1024;  <<2056, 2048>> = 65793 * 2^11 gives
\* bound = 65793 * 255 = 2^24 - 1 at p = 255: the two sides of the normalisation threshold.
Ranges == IF Slim THEN { <<256, 0>>, <<256, 1>>, <<511, H - 1>>, <<512, 0>>, <<2056, 2048>>, <<65280, 0>>, <<H - 1, H - 1>> }
          ELSE { <<256, 0>>, <<256, 1>>, <<256, 2047>>, <<511, H - 1>>, <<512, 0>>, <<2056, 2048>>, <<32768, 0>>, <<65280, 0>>, <<H - 1, H - 1>> }
LowsFixed == { <<H - 1, H - 1>>, <<H - 1, H - 2>>, <<65280, 0>>, <<65279, H - 1>>, <<H - 1, 0>>, <<255, H - 1>>, <<0, 0>> }
LowsFor(r, p) == LET n == Neg(Bound(r[1], r[2], p)) IN LowsFixed \cup {n, Dec(n), Inc(n)}
CacheCs == IF Slim THEN { <<0, 1>>, <<254, 2>>, <<255, 1>>, <<17, 4>> }
           ELSE { <<0, 1>>, <<254, 1>>, <<254, 2>>, <<255, 1>>, <<255, 3>>, <<17, 4>> }
ProbPairs == IF Slim THEN { <<1024, 1024>>, <<31, 2017>>, <<2017, 31>>, <<255, 1024>> }
             ELSE { <<1024, 1024>>, <<31, 2017>>, <<2017, 31>>, <<2017, 2017>>, <<31, 31>>, <<255, 1024>> }

MkStart(c, l, r, cc, pp) ==
    [c |-> c, lh |-> l[1], ll |-> l[2], rh |-> r[1], rl |-> r[2], cache |-> cc[1], cs |-> cc[2], p1 |-> pp[1], p2 |-> pp[2]]
EncOf(s) == [EncInit EXCEPT !.c = s.c, !.lh = s.lh, !.ll = s.ll, !.rh = s.rh, !.rl = s.rl, !.cache = s.cache, !.cs = s.cs, !.mcs = s.cs]

ResetStart == MkStart(0, <<0, 0>>, <<H - 1, H - 1>>, <<0, 1>>, <<1024, 1024>>)
Starts ==
    IF ~Extreme THEN {ResetStart}
    ELSE { s \in UNION { { MkStart(c, l, r, cc, pp) : c \in {0, 1}, l \in LowsFor(r, pp[1]), cc \in CacheCs } : r \in Ranges, pp \in ProbPairs } :
             EncInv(EncOf(s)) }

Init == /\ s0 \in Starts
        /\ e = EncOf(s0)
        /\ ps = <<s0.p1, s0.p2>>
        /\ hist = <<>>

Next == /\ Len(hist) < MaxN
        /\ \E bit \in {0, 1} :
             LET i == (Len(hist) % 2) + 1
                 p == ps[i]
             IN  /\ e' = EncBit(e, p, bit)
                 /\ ps' = [ps EXCEPT ![i] = IF bit = 0 THEN PUp(p) ELSE PDown(p)]
                 /\ hist' = Append(hist, bit)
                 /\ UNCHANGED s0

Spec == Init /\ [][Next]_vars

---------------------------------------------------------------------------
(* The decoder state that corresponds to the start state s, given the bytes *)
(* `out` written from s on.  The first cacheSize bytes are the cache byte   *)
(* and the pending 0xFF bytes, as they stand or incremented by one carry;   *)
(* the next four bytes W are the window of `low`:                           *)
(*     code = (carry seen in the output) * 2^32 + W - low.                  *)
StartDec(s, out) ==
    LET k       == s.cs
        plain   == <<s.cache>> \o [i \in 1..(k - 1) |-> 255]
        carried == <<(s.cache + 1) % 256>> \o [i \in 1..(k - 1) |-> 0]
        pre     == SubSeq(out, 1, k)
        ci      == IF pre = plain THEN 0 ELSE IF pre = carried /\ s.cache < 255 THEN 1 ELSE 2
        wh      == out[k + 1] * 256 + out[k + 2]
        wl      == out[k + 3] * 256 + out[k + 4]
        bad     == [ok |-> FALSE, ch |-> 0, cl |-> 0, rh |-> s.rh, rl |-> s.rl, ip |-> k + 5, st |-> "corrupt"]
        mk(w)   == [ok |-> Lt(w[1], w[2], s.rh, s.rl), ch |-> w[1], cl |-> w[2], rh |-> s.rh, rl |-> s.rl, ip |-> k + 5, st |-> "ok"]
    IN  IF Len(out) < k + 4 \/ ci = 2 \/ ci < s.c THEN bad
        ELSE IF ci = s.c THEN (IF Lt(wh, wl, s.lh, s.ll) THEN bad ELSE mk(Sub(wh, wl, s.lh, s.ll)))
        ELSE (IF ~Lt(wh, wl, s.lh, s.ll) THEN bad ELSE mk(Neg(Sub(s.lh, s.ll, wh, wl))))

RECURSIVE DecGen(_, _, _, _, _, _)
DecGen(in, t, q, i, n, acc) ==
    IF i = n \/ ~TOk(t) THEN [t |-> t, bits |-> acc]
    ELSE LET j == (i % 2) + 1
             r == DecNext(in, t, q[j])
         IN  DecGen(in, r, [q EXCEPT ![j] = TProb(r)], i + 1, n, Append(acc, TBit(r)))

RoundTrip ==
    LET out == EncFlush(e).out
        d0  == StartDec(s0, out)
    IN  /\ d0.ok
        /\ LET r == DecGen(out, <<0, 0, d0.ch, d0.cl, d0.rh, d0.rl, d0.ip, TRUE>>, <<s0.p1, s0.p2>>, 0, Len(hist), <<>>)
           IN  /\ TOk(r.t)
               /\ r.bits = hist
               /\ TIp(r.t) = Len(out) + 1       \* every byte consumed, none missing
               /\ TCodeZero(r.t)                \* IsFinishedOK
               /\ r.t[5] >= 256                 \* range normalised

EncoderInv == EncInv(e) /\ ~EncFlush(e).bad
ProbInv == ps[1] \in 31..2017 /\ ps[2] \in 31..2017
\* From the reset state the framing's own view agrees: the first byte written is 0x00.
FirstByteZero == (~Extreme) => EncFlush(e).out[1] = 0

(* Which of the rare events do the starts produce with their very first     *)
(* decision (evaluated once, printed for the evidence)?                     *)
First(s, bit) == EncBit(EncOf(s), s.p1, bit)
Coverage ==
    [starts      |-> Cardinality(Starts),
     exact32     |-> Cardinality({s \in Starts : First(s, 1).x32 = 1}),
     carry_pend  |-> Cardinality({s \in Starts : First(s, 1).cp >= 1}),
     carry_pend2 |-> Cardinality({s \in Starts : First(s, 1).cp >= 2}),
     pend_grows  |-> Cardinality({s \in Starts : First(s, 0).cs > s.cs \/ First(s, 1).cs > s.cs}),
     range_eq24  |-> Cardinality({s \in Starts : First(s, 0).eq24 = 1 \/ First(s, 1).eq24 = 1}),
     range_m24   |-> Cardinality({s \in Starts : First(s, 0).m24 = 1 \/ First(s, 1).m24 = 1})]
ASSUME PrintT(<<"MC-COVERAGE", Coverage>>)
=============================================================================

----------------------------- MODULE XzLayoutGen -----------------------------
(***************************************************************************)
(* C17: XzLayout model-checked on its own, as a GENERATOR of files.         *)
(* See the header of XzLayout.tla.  Nothing here is used by the trace       *)
(* acceptor; the actions explored are XzLayout's, unchanged.                *)
(***************************************************************************)
EXTENDS XzLayout

(* GENERATOR.                                                               *)
(* Proposals: for every kind of event a set of PLAUSIBLE events (every      *)
(* field is well-formed on its own; whether the event is legal HERE depends *)
(* on the state: a 0x02 chunk is fine except as the first one, a declared   *)
(* size is fine iff the chunks add up to it, ...) and a set of DEVIANT      *)
(* events, each a plausible event with one field damaged in a way that is   *)
(* illegal in every state.  GenNext explores everything the plausible       *)
(* proposals admit; DeviantsRefused states that no deviant is ever          *)
(* accepted (this is the mutation test of the acceptor itself).             *)

CONSTANTS GenMaxStreams, GenMaxBlocks, GenMaxChunks, GenMaxOff,
          GenUs,      \* uncompressed sizes of LZMA chunks,      e.g. {1, 2, 65536, 65537, 2097152}
          GenCs,      \* compressed sizes of LZMA chunks,        e.g. {5, 6, 65536}
          GenRaw,     \* sizes of uncompressed chunks,           e.g. {1, 3, 65536}
          GenSb,      \* block header size bytes,                e.g. {2, 3}
          GenDeclC,   \* declared compressed sizes,              e.g. {1, 12, 65548}
          GenDeclU,   \* declared uncompressed sizes,            e.g. {0, 1, 4, 65537}
          GenChecks   \* check ids proposed in stream headers,   a subset of CheckTypes

SHeaderEv(f1) == [ev |-> "sheader", off |-> off, len |-> 12, magic |-> TRUE, crc |-> TRUE, flag0 |-> 0, flag1 |-> f1]
PlSHeader == { SHeaderEv(f1) : f1 \in GenChecks }
DvSHeader == UNION { { [e EXCEPT !.magic = FALSE], [e EXCEPT !.crc = FALSE], [e EXCEPT !.flag0 = 1],
                       [e EXCEPT !.flag1 = 2], [e EXCEPT !.flag1 = 17], [e EXCEPT !.len = 8],
                       [e EXCEPT !.off = @ + 1] } : e \in { SHeaderEv(1), SHeaderEv(10) } }

BHeaderEv(sb, hc, cs, hu, us, dc) ==
    LET cl == IF hc THEN UvLen(cs) ELSE 0
        ul == IF hu THEN UvLen(us) ELSE 0
    IN [ev |-> "bheader", off |-> off, len |-> (sb + 1) * 4, sizebyte |-> sb,
        bflags |-> (IF hc THEN 64 ELSE 0) + (IF hu THEN 128 ELSE 0),
        hasc |-> hc, csize |-> cs, cbig |-> FALSE, clen |-> cl,
        hasu |-> hu, usize |-> us, ubig |-> FALSE, ulen |-> ul,
        nfilt |-> 1, otherfids |-> TRUE, fid |-> 33, fidlen |-> 1, psize |-> 1, dict |-> dc, filtlen |-> 3,
        padlen |-> (sb + 1) * 4 - 9 - cl - ul, padzero |-> TRUE, crc |-> TRUE]
PlBHeader ==
    { BHeaderEv(sb, hc, IF hc THEN cs ELSE 0, hu, IF hu THEN us ELSE 0, dc) :
        sb \in GenSb, hc \in BOOLEAN, cs \in GenDeclC, hu \in BOOLEAN, us \in GenDeclU, dc \in {0, 40} }
DvBHeader == UNION { { [e EXCEPT !.crc = FALSE], [e EXCEPT !.padzero = FALSE], [e EXCEPT !.dict = 41],
                       [e EXCEPT !.fid = 3], [e EXCEPT !.psize = 2], [e EXCEPT !.bflags = @ + 8],
                       [e EXCEPT !.sizebyte = @ + 1], [e EXCEPT !.padlen = @ + 1], [e EXCEPT !.clen = @ + 1],
                       [e EXCEPT !.otherfids = FALSE], [e EXCEPT !.nfilt = 2], [e EXCEPT !.off = @ + 2] }
                     : e \in { BHeaderEv(2, FALSE, 0, FALSE, 0, 0), BHeaderEv(3, TRUE, 65548, TRUE, 65537, 40) } }

ChunkEv(ct, hl, us, cs, pr) ==
    [ev |-> "chunk", off |-> off, len |-> hl + cs, ctrl |-> ct, hdrlen |-> hl, usize |-> us, csize |-> cs,
     hasprops |-> ct >= 192, props |-> pr, first |-> 0, initff |-> FALSE]
PlLzmaChunk ==
    { ChunkEv(b + ((us - 1) \div 65536), IF b >= 192 THEN 6 ELSE 5, us, cs, IF b >= 192 THEN pr ELSE 0) :
        b \in {128, 160, 192, 224}, us \in GenUs, cs \in GenCs, pr \in {93, 0} }
PlRawChunk == { ChunkEv(c, 3, n, n, 0) : c \in {1, 2}, n \in GenRaw }
DvLzmaChunk == UNION { { [e EXCEPT !.first = 1], [e EXCEPT !.initff = TRUE], [e EXCEPT !.csize = 4, !.len = e.hdrlen + 4],
                         [e EXCEPT !.csize = 65537, !.len = e.hdrlen + 65537], [e EXCEPT !.usize = 2097153],
                         [e EXCEPT !.usize = @ + 65536], [e EXCEPT !.len = @ + 1], [e EXCEPT !.hdrlen = @ + 1],
                         [e EXCEPT !.hasprops = ~@], [e EXCEPT !.off = @ + 1] }
                       \cup (IF e.hasprops THEN { [e EXCEPT !.props = 225], [e EXCEPT !.props = 44] } ELSE {})
                       : e \in { ChunkEv(224, 6, 1, 5, 93), ChunkEv(255, 6, 2097152, 65536, 0), ChunkEv(160, 5, 2, 6, 0) } }
DvRawChunk == UNION { { [e EXCEPT !.ctrl = 3], [e EXCEPT !.ctrl = 127], [e EXCEPT !.usize = @ + 1],
                        [e EXCEPT !.usize = 65537, !.csize = 65537, !.len = 65540], [e EXCEPT !.hdrlen = 5],
                        [e EXCEPT !.len = @ - 1] } : e \in { ChunkEv(1, 3, 1, 1, 0), ChunkEv(2, 3, 65536, 65536, 0) } }

PlCEnd == { [ev |-> "cend", off |-> off, len |-> 1] }
DvCEnd == { [ev |-> "cend", off |-> off, len |-> 2], [ev |-> "cend", off |-> off + 1, len |-> 1] }
PlBPad == { [ev |-> "bpad", off |-> off, len |-> PadTo4(off), zero |-> TRUE] }
DvBPad == { [ev |-> "bpad", off |-> off, len |-> PadTo4(off), zero |-> FALSE],
            [ev |-> "bpad", off |-> off, len |-> PadTo4(off) + 4, zero |-> TRUE],
            [ev |-> "bpad", off |-> off, len |-> (PadTo4(off) + 1) % 4, zero |-> TRUE] }
PlCheck == { [ev |-> "check", off |-> off, len |-> CheckLen(check), ok |-> TRUE] }
DvCheck == { [ev |-> "check", off |-> off, len |-> CheckLen(check), ok |-> FALSE],
             [ev |-> "check", off |-> off, len |-> CheckLen(check) + 4, ok |-> TRUE] }
IHeadEv(n) == [ev |-> "ihead", off |-> off, len |-> 1 + UvLen(n), indicator |-> 0, nrec |-> n, nrecbig |-> FALSE, nlen |-> UvLen(n)]
PlIHead == { IHeadEv(Len(recs)) }
DvIHead == { IHeadEv(Len(recs) + 1), [IHeadEv(Len(recs)) EXCEPT !.nlen = 2, !.len = 3],
             [IHeadEv(Len(recs)) EXCEPT !.indicator = 1] }
             \cup (IF Len(recs) > 0 THEN { IHeadEv(Len(recs) - 1) } ELSE {})
IRecEv(a, b) == [ev |-> "irec", off |-> off, len |-> UvLen(a) + UvLen(b), unpadded |-> a, unlen |-> UvLen(a),
                 uncomp |-> b, uclen |-> UvLen(b), big |-> FALSE]
PlIRec == IF irec < Len(recs) THEN { IRecEv(recs[irec + 1][1], recs[irec + 1][2]) } ELSE {}
DvIRec == UNION { { [e EXCEPT !.unpadded = @ + 1], [e EXCEPT !.unpadded = @ - 1], [e EXCEPT !.unpadded = @ + 3],
                    [e EXCEPT !.uncomp = @ + 1], [e EXCEPT !.uclen = @ + 1, !.len = @ + 1],
                    [e EXCEPT !.unlen = @ + 1, !.len = @ + 1], [e EXCEPT !.big = TRUE] } : e \in PlIRec }
          \cup (IF irec >= Len(recs) THEN { IRecEv(17, 0) } ELSE {})      \* one record too many
IEndEv == [ev |-> "iend", off |-> off, len |-> PadTo4(off - istart) + 4, padlen |-> PadTo4(off - istart),
           padzero |-> TRUE, crc |-> TRUE]
PlIEnd == { IEndEv }
DvIEnd == { [IEndEv EXCEPT !.crc = FALSE], [IEndEv EXCEPT !.padzero = FALSE],
            [IEndEv EXCEPT !.padlen = @ + 4, !.len = @ + 4], [IEndEv EXCEPT !.len = @ + 1] }
FooterEv == [ev |-> "footer", off |-> off, len |-> 12, crc |-> TRUE, magic |-> TRUE, bsize |-> (isize \div 4) - 1,
             bsizebig |-> FALSE, flag0 |-> 0, flag1 |-> check]
PlFooter == { FooterEv }
DvFooter == { [FooterEv EXCEPT !.bsize = @ + 1], [FooterEv EXCEPT !.bsize = @ - 1], [FooterEv EXCEPT !.bsize = isize],
              [FooterEv EXCEPT !.bsize = isize \div 4],
              [FooterEv EXCEPT !.crc = FALSE], [FooterEv EXCEPT !.magic = FALSE], [FooterEv EXCEPT !.flag0 = 1],
              [FooterEv EXCEPT !.flag1 = IF check = 1 THEN 4 ELSE 1], [FooterEv EXCEPT !.bsizebig = TRUE] }
PlSPad == { [ev |-> "spad", off |-> off, len |-> l] : l \in {4, 8} }
DvSPad == { [ev |-> "spad", off |-> off, len |-> l] : l \in {0, 1, 2, 6} }
PlEof == { [ev |-> "eof", off |-> off, len |-> 0] }
DvEof == { [ev |-> "eof", off |-> off + 1, len |-> 0] }

Plausible ==
    CASE phase = "stream" -> PlSHeader \cup PlEof
      [] phase = "blocks" -> PlBHeader \cup PlIHead
      [] phase = "chunks" -> PlLzmaChunk \cup PlRawChunk \cup PlCEnd
      [] phase = "bpad"   -> PlBPad
      [] phase = "check"  -> PlCheck
      [] phase = "index"  -> PlIRec \cup PlIEnd
      [] phase = "footer" -> PlFooter
      [] phase = "after"  -> PlSPad \cup PlSHeader \cup PlEof
      [] OTHER -> {}

Deviants ==
    CASE phase = "stream" -> DvSHeader
      [] phase = "blocks" -> DvBHeader \cup DvIHead
      [] phase = "chunks" -> DvLzmaChunk \cup DvRawChunk \cup DvCEnd
      [] phase = "bpad"   -> DvBPad
      [] phase = "check"  -> DvCheck
      [] phase = "index"  -> DvIRec \cup DvIEnd
      [] phase = "footer" -> DvFooter
      [] phase = "after"  -> DvSPad \cup DvSHeader \cup DvEof
      [] OTHER -> {}

\* Events of the wrong kind for the phase are refused too.
WrongKind == (IF phase # "footer" THEN PlFooter ELSE {}) \cup (IF phase # "chunks" THEN PlCEnd ELSE {})
             \cup (IF phase \notin {"stream", "after"} THEN PlEof \cup PlSHeader ELSE {})

\* In generator mode the file/payload sizes are whatever the behaviour built.
GenNext == \E e \in Plausible : XzStep(e, off, utotal)

GenConstraint ==
    /\ nstream <= GenMaxStreams
    /\ Len(recs) <= GenMaxBlocks
    /\ off <= GenMaxOff
    /\ nchunks <= GenMaxChunks

\* `bad` becomes TRUE iff some deviant is accepted somewhere.
VARIABLE bad
DevNext == (\E e \in Deviants \cup WrongKind : XzStep(e, off, utotal)) /\ bad' = TRUE

\* One named action per action of XzLayout, so that TLC's coverage report
\* (-coverage 1) says how often each one was taken.
GSHeader  == (\E e \in Plausible : SHeader(e)) /\ bad' = bad
GBHeader  == (\E e \in Plausible : BHeader(e)) /\ bad' = bad
GChunk    == (\E e \in Plausible : Chunk(e)) /\ bad' = bad
GChunkEnd == (\E e \in Plausible : ChunkEnd(e)) /\ bad' = bad
GBPad     == (\E e \in Plausible : BPad(e)) /\ bad' = bad
GCheck    == (\E e \in Plausible : Check(e)) /\ bad' = bad
GIHead    == (\E e \in Plausible : IHead(e)) /\ bad' = bad
GIRec     == (\E e \in Plausible : IRec(e)) /\ bad' = bad
GIEnd     == (\E e \in Plausible : IEnd(e)) /\ bad' = bad
GFooter   == (\E e \in Plausible : Footer(e)) /\ bad' = bad
GSPad     == (\E e \in Plausible : SPad(e)) /\ bad' = bad
GEof      == (\E e \in Plausible : XzEof(e, off, utotal)) /\ bad' = bad

GenNextAll == GSHeader \/ GBHeader \/ GChunk \/ GChunkEnd \/ GBPad \/ GCheck \/ GIHead \/ GIRec \/ GIEnd
              \/ GFooter \/ GSPad \/ GEof \/ DevNext
GenSpec == XzInit /\ bad = FALSE /\ [][GenNextAll]_<<xzvars, bad>>

DeviantsRefused == ~bad

=============================================================================

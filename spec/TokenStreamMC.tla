---------------------------- MODULE TokenStreamMC ----------------------------
(***************************************************************************)
(* Design-level model check of spec/TokenStream.tla's normal form.         *)
(*                                                                         *)
(* A LOGICAL stream is what a decoder with unbounded buffers would emit,   *)
(* over a small alphabet of values (one of every kind the normal form      *)
(* distinguishes) and either continued bit.  Two families (Family):        *)
(*   "chains"   one additive token of length 0..MaxTotal (the chain that   *)
(*              buffer boundaries cut) between every kind of left and      *)
(*              right neighbour (none, the same value or another value,    *)
(*              continued or not; FullContext = TRUE: every value); only   *)
(*              the middle token is cut;                                   *)
(*   "streams"  every stream of 1..MaxTokens tokens whose lengths sum to   *)
(*              at most MaxTotal.                                          *)
(* A buffer boundary may cut a token whose meaning is additive into up to  *)
(* MaxPieces same-valued pieces (zero-length pieces included: std/json      *)
(* closes a cut line comment with one).  TLC enumerates every logical       *)
(* stream (in two steps - first token, then the rest - so that the workers  *)
(* share the work) and, per stream, EVERY legitimate re-splitting, and      *)
(* checks                                                                   *)
(*   Invariant      Normalise(r) = Normalise(L) for every re-splitting r    *)
(*   Idempotent     Normalise(Normalise(L)) = Normalise(L)                  *)
(*   Canonical      no two neighbours of Normalise(L) are mergeable         *)
(*   Conserves      total length, final continued bit and the sub-sequence  *)
(*                  of non-additive tokens survive normalisation            *)
(*   SameAsDC       the divide-and-conquer form equals the left fold        *)
(*   Discriminates  an ILLEGITIMATE change (cutting a token that is not     *)
(*                  additive, clearing the continued bit inside a cut       *)
(*                  chain, moving a byte across a token boundary, changing  *)
(*                  a value or a continued bit) changes the normal form.    *)
(***************************************************************************)
EXTENDS TokenStream

CONSTANTS Family, MaxTokens, MaxTotal, MaxPieces, FullContext

VARIABLES L,        \* the logical stream (under construction while stage < 2)
          stage,
          mid       \* "chains": the index of the chain token in L (0 for "streams")
vars == <<L, stage, mid>>

\* one value of every kind the normal form tells apart: <<x, a, b>>
VWhite   == <<0, 0, 0>>                         \* plain filler (white space)
VComment == <<0, 0, 2>>                         \* filler with a detail bit (block comment)
VCopy    == <<0, 0, 2 * 2097152 + 515>>         \* string, DEFINITELY_UTF_8 | CHAIN_MUST_BE_UTF_8 | 1:1 copy
VCodePt  == <<0, 0, 3 * 2097152 + 10>>          \* unicode code point U+000A
VTag     == <<0, 731642, 4194304 + 5>>          \* a non-base (std/cbor) token
VExt     == <<1, 1, 2>>                         \* an extended token
Values == {VWhite, VComment, VCopy, VCodePt, VTag, VExt}
\* the model's own statement of what a buffer boundary may cut (TokenStream!Additive must agree, or an invariant fails)
Cuttable == {VWhite, VComment, VCopy}
ValueOf(t) == <<t[1], t[2], t[3]>>

Mk(v, c, n) == <<v[1], v[2], v[3], c, n>>

RECURSIVE SeqsExact(_, _)
\* all sequences of exactly k tokens whose lengths sum to at most `budget`
SeqsExact(k, budget) ==
    IF k = 0 THEN {<<>>}
    ELSE UNION { { <<Mk(v, c, n)>> \o r : v \in Values, c \in {0, 1}, r \in SeqsExact(k - 1, budget - n) } : n \in 0..budget }
\* "chains": <<left neighbour or nothing, the chain token, right neighbour or nothing>>
NeighbourValues(v) == IF FullContext THEN Values ELSE {v, VCodePt}
Neighbours(v) == {<<>>} \cup { <<Mk(w, c, 1)>> : w \in NeighbourValues(v), c \in {0, 1} }
ChainValues == Cuttable

\* ---- legitimate cuts ---------------------------------------------------------------------
RECURSIVE Compositions(_, _)
\* all ways to write n as an ordered sum of exactly k naturals
Compositions(n, k) ==
    IF k = 1 THEN {<<n>>}
    ELSE UNION { { <<first>> \o rest : rest \in Compositions(n - first, k - 1) } : first \in 0..n }

\* continued bits of the pieces before the last: 1 (same chain); for plain filler also 0 (stand-alone pieces)
RECURSIVE BitSeqs(_, _)
BitSeqs(k, bits) == IF k = 0 THEN {<<>>} ELSE { <<b>> \o r : b \in bits, r \in BitSeqs(k - 1, bits) }

Cuts(t) ==
    IF ValueOf(t) \notin Cuttable THEN {<<t>>}
    ELSE UNION { { [i \in 1..k |-> <<t[1], t[2], t[3], IF i = k THEN TCon(t) ELSE cs[i], ls[i]>>]
                   : ls \in Compositions(TLen(t), k), cs \in BitSeqs(k - 1, IF ValueOf(t) = VWhite THEN {0, 1} ELSE {1}) }
                 : k \in 1..MaxPieces }

RECURSIVE ResplitsAll(_)
ResplitsAll(s) == IF Len(s) = 0 THEN {<<>>}
                  ELSE { c \o r : c \in Cuts(s[1]), r \in ResplitsAll(Tail(s)) }
\* "chains": only the chain token (index m) is cut
Resplits(s, m) == IF Family = "streams" THEN ResplitsAll(s)
                  ELSE { SubSeq(s, 1, m - 1) \o c \o SubSeq(s, m + 1, Len(s)) : c \in Cuts(s[m]) }

\* ---- illegitimate changes -----------------------------------------------------------------
\* applied to a stream that is its own normal form, each must be visible in the normal form
ReplaceAt(s, i, piece) == SubSeq(s, 1, i - 1) \o piece \o SubSeq(s, i + 1, Len(s))
IllegitimateSet(s) ==
    LET cutNonAdditive == UNION { { ReplaceAt(s, i, <<Mk(s[i], 1, n), Mk(s[i], TCon(s[i]), TLen(s[i]) - n)>>) : n \in 0..TLen(s[i]) }
                                  : i \in { j \in 1..Len(s) : ValueOf(s[j]) \notin Cuttable } }
        \* an additive token with a detail bit (not plain filler) cut in two WITHOUT the continued bit on the first piece
        cutNoCon == UNION { { ReplaceAt(s, i, <<Mk(s[i], 0, n), Mk(s[i], TCon(s[i]), TLen(s[i]) - n)>>) : n \in 0..TLen(s[i]) }
                            : i \in { j \in 1..Len(s) : ValueOf(s[j]) \in Cuttable \ {VWhite} } }
        \* a byte moved from one token to its right neighbour
        moved == { [s EXCEPT ![i] = Mk(s[i], TCon(s[i]), TLen(s[i]) - 1), ![i + 1] = Mk(s[i + 1], TCon(s[i + 1]), TLen(s[i + 1]) + 1)]
                   : i \in { j \in 1..(Len(s) - 1) : TLen(s[j]) >= 1 } }
        \* a continued bit flipped, a value replaced
        flipped == { [s EXCEPT ![i] = Mk(s[i], 1 - TCon(s[i]), TLen(s[i]))] : i \in 1..Len(s) }
        revalued == UNION { { [s EXCEPT ![i] = Mk(v, TCon(s[i]), TLen(s[i]))] : v \in Values \ {ValueOf(s[i])} } : i \in 1..Len(s) }
    IN cutNonAdditive \cup cutNoCon \cup moved \cup flipped \cup revalued

\* ---- the model ------------------------------------------------------------------------------
Init == L = <<>> /\ stage = 0 /\ mid = 0
\* step 1 fixes the first token (the chain token with its left neighbour for "chains"), step 2 the rest
Step1 == /\ stage = 0 /\ stage' = 1
         /\ IF Family = "streams"
            THEN L' \in SeqsExact(1, MaxTotal)
            ELSE L' \in UNION { { l \o <<Mk(v, c, n)>> : l \in Neighbours(v), c \in {0, 1}, n \in 0..MaxTotal } : v \in ChainValues }
         /\ mid' = IF Family = "streams" THEN 0 ELSE Len(L')
Step2 == /\ stage = 1 /\ stage' = 2 /\ mid' = mid
         /\ IF Family = "streams"
            THEN L' \in UNION { { L \o r : r \in SeqsExact(k, MaxTotal - TotalLen(L)) } : k \in 0..(MaxTokens - 1) }
            ELSE L' \in { L \o r : r \in Neighbours(ValueOf(L[Len(L)])) }
Next == Step1 \/ Step2
Spec == Init /\ [][Next]_vars

N == Normalise(L)
Real == stage = 2                       \* (earlier stages only build the stream)

\* the normal form does not depend on where the buffer boundaries fell (left fold and divide-and-conquer form alike)
Invariant == Real => \A r \in Resplits(L, mid) : Normalise(r) = N /\ NormaliseDC(r) = N
Idempotent == Real => Normalise(N) = N
Canonical == Real => \A i \in 1..(Len(N) - 1) : ~Mergeable(N[i], N[i + 1])
NonAdditive(t) == ValueOf(t) \notin Cuttable
Conserves == Real => /\ TotalLen(N) = TotalLen(L)
                     /\ TCon(N[Len(N)]) = TCon(L[Len(L)])
                     /\ SelectSeq(N, NonAdditive) = SelectSeq(L, NonAdditive)
                     /\ Len(N) <= Len(L)
SameAsDC == Real => NormaliseDC(L) = N
\* only streams that are their own normal form are perturbed: on them an illegitimate change must show
Discriminates == (Real /\ N = L) => \A r \in IllegitimateSet(L) : Normalise(r) # N
=============================================================================

-------------------------------- MODULE Crc --------------------------------
(***************************************************************************)
(* C07, format model (model part; the definitions are in CrcDefs.tla):      *)
(* TLC takes every byte string of the domain as a case, checks that the     *)
(* bit-at-a-time CRC does not depend on where the string is split across    *)
(* update calls, that the register update is linear over GF(2) (the law     *)
(* every table-driven or SIMD implementation relies on), that the derived   *)
(* byte-at-a-time form equals the definition, and exports                   *)
(* <<bytes, expected CRC>> cases which the real std/crc32 / std/crc64 have  *)
(* to reproduce under every partition into update calls                     *)
(* (harness/cmd/fmtcases + harness/c/stddrive.c, Trace_Std Mode="reference").*)
(* cfg: Poly <- PolyCrc32 or Poly <- PolyCrc64.                             *)
(***************************************************************************)
EXTENDS CrcDefs, TLC, Json

CONSTANTS Poly,            \* reflected polynomial, 16-bit limbs, most significant first
          CrcMaxLen,       \* byte strings up to this length ...
          CrcAlphabet,     \* ... over this set of byte values
          CrcName          \* "crc32" or "crc64": goes into the exported cases

PB == PolyBits(Poly)
Tab == FastTabOf(Poly)

\* published check values: CRC("123456789")
Check9 == <<49, 50, 51, 52, 53, 54, 55, 56, 57>>
ASSUME (Poly = PolyCrc32) => (CrcHexOf(Poly, Check9) = "cbf43926")
ASSUME (Poly = PolyCrc64) => (CrcHexOf(Poly, Check9) = "995dc9bbdf1939fa")
ASSUME CrcLimbsOf(Poly, <<>>) = [k \in 1..Len(Poly) |-> 0]

VARIABLE x

Inputs == SeqsUpTo(CrcAlphabet, CrcMaxLen)
Init == x \in Inputs
Next == UNCHANGED x
Spec == Init /\ [][Next]_x

SplitIndependent == \A k \in 0..Len(x) :
                        CUpdate(PB, CUpdate(PB, Ones(PB), SubSeq(x, 1, k)), SubSeq(x, k + 1, Len(x))) = CUpdate(PB, Ones(PB), x)
\* update(r1 XOR r2, zero message) = update(r1, zero message) XOR update(r2, zero message)
Xor(r1, r2) == [i \in DOMAIN r1 |-> r1[i] # r2[i]]
Linear == LET z == [i \in 1..Len(x) |-> 0]
              r1 == CUpdate(PB, Ones(PB), x)
          IN CUpdate(PB, Xor(r1, PB), z) = Xor(CUpdate(PB, r1, z), CUpdate(PB, PB, z))
FastEqualsDef == FastCrcBytesLE(Tab, x) = CrcBytesLEOf(Poly, x)
Export == PrintT(ToJson([fmt |-> CrcName, bytes |-> x, sum |-> CrcHexOf(Poly, x)]))
=============================================================================

----------------------------- MODULE CodecConfig -----------------------------
(***************************************************************************)
(* C07, layer (ii): the configuration space of the reference round trips.   *)
(* For DEFLATE proper, bzip2, LZMA and the image codecs the specification   *)
(* contributes the space of encoder settings and payload classes (this      *)
(* module), the buffer schedules (IOSchedule.tla) and the acceptance        *)
(* condition (Trace_Std.tla, Mode = "reference": OK status, output equal to *)
(* the payload / pixels, checksums equal to the reference), not the codec   *)
(* semantics: the oracle is the reference encoder/decoder.                  *)
(* TLC evaluates the sets once and prints them as JSON; harness/cmd/refenc  *)
(* (and checks/C07.py for the system tools) encode every payload class      *)
(* under every configuration the runner selects.                            *)
(*                                                                         *)
(* Tier = "quick": every family and every value of every single setting     *)
(* occurs, settings are combined sparsely; Tier = "thorough": the full      *)
(* products below.                                                          *)
(***************************************************************************)
EXTENDS Integers, Sequences, FiniteSets, TLC, Json

CONSTANT Tier

Thorough == Tier = "thorough"

PayloadClasses == {"empty", "one", "random", "repetitive", "text", "window", "big"}
\* which classes a configuration is combined with (the expensive ones only with the cheap encoders)
SmallClasses == {"empty", "one", "random", "repetitive", "text"}

HuffmanOnly == 0 - 2
DefaultLevel == 0 - 1
FlateLevels == HuffmanOnly..9

\* ---- DEFLATE family (compress/flate, compress/zlib, compress/gzip) -----
Flate == [family : {"deflate"}, level : FlateLevels, flush : {0, 3}]       \* flush = number of Flush() calls inside the payload
Zlib == [family : {"zlib"}, level : IF Thorough THEN FlateLevels ELSE {HuffmanOnly, DefaultLevel, 0, 1, 9}, dict : {"none", "preset"}]
GzipHeaders == [name : BOOLEAN, comment : BOOLEAN, extra : BOOLEAN]
Gzip == [family : {"gzip"}, level : IF Thorough THEN FlateLevels ELSE {HuffmanOnly, DefaultLevel, 0, 6}, header : GzipHeaders, members : 1..3]
Uniform(h) == h.name = h.comment /\ h.comment = h.extra
GzipSel == { g \in Gzip : (g.members > 1 => Uniform(g.header)) /\ (Thorough \/ g.members = 1 \/ g.level \in {DefaultLevel, 0}) }
\* the system zlib through Python's binding: strategies and window sizes Go's encoder does not have
CZlib == [family : {"czlib"}, level : {1, 6, 9}, strategy : {"default", "filtered", "huffman", "rle", "fixed"}, wbits : {9, 12, 15}, memlevel : {1, 8}]
CZlibSel == { z \in CZlib : Thorough \/ (z.level = 6 /\ z.memlevel = 8) \/ (z.strategy = "default" /\ z.wbits = 15) }

\* ---- LZW (compress/lzw, LSB order as in GIF) ---------------------------
Lzw == [family : {"lzw"}, litwidth : 2..8]

\* ---- bzip2 and xz tools ------------------------------------------------
Bzip2 == [family : {"bzip2"}, level : 1..9]
XzChecks == {"none", "crc32", "crc64", "sha256"}
XzFilters == {"none", "delta1", "delta4", "delta256", "x86", "arm", "armthumb", "arm64", "powerpc", "ia64", "sparc", "riscv"}
Xz == [family : {"xz"}, preset : 0..9, extreme : BOOLEAN, check : XzChecks, filter : XzFilters, blocks : {"one", "many"}]
XzSel == { c \in Xz : \/ (Thorough /\ (c.filter = "none" \/ (c.preset = 6 /\ ~c.extreme /\ c.check = "crc64")))
                      \/ (Thorough /\ c.blocks = "one" /\ ~c.extreme /\ c.preset \in {0, 3} /\ c.check = "crc32")
                      \/ (~Thorough /\ ~c.extreme /\ c.blocks = "one" /\ c.filter = "none" /\ c.check = "crc64")
                      \/ (~Thorough /\ c.preset = 6 /\ ~c.extreme /\ c.blocks = "one" /\ c.filter = "none")
                      \/ (~Thorough /\ c.preset = 2 /\ ~c.extreme /\ c.check = "crc32" /\ c.blocks = "one")
                      \/ (~Thorough /\ c.preset \in {1, 9} /\ c.check = "sha256" /\ c.filter = "none")
                      \* several blocks behind a non-final filter (the filter's look-ahead state at a block boundary)
                      \/ (~Thorough /\ c.preset = 0 /\ ~c.extreme /\ c.check = "crc32" /\ c.blocks = "many" /\ c.filter \in {"x86", "armthumb", "delta4"}) }
Lzma == [family : {"lzma"}, preset : 0..9, extreme : BOOLEAN]
LzmaSel == { c \in Lzma : Thorough \/ ~c.extreme \/ c.preset \in {0, 9} }

\* ---- PNG via image/png (non-interlaced; interlaced files come from the corpus) ----
PngKinds == {"gray8", "gray16", "rgb8", "rgba8", "rgb16", "rgba16", "pal1", "pal2", "pal4", "pal8", "pal8trns"}
PngLevels == {"default", "none", "speed", "best"}
PngSizes == {"1x1", "3x2", "7x5", "33x17", "64x64", "300x200"}
PngContents == {"gradient", "noise", "flat"}
Png == [family : {"png"}, kind : PngKinds, level : PngLevels, size : PngSizes, content : PngContents]
PngSel == { p \in Png : \/ Thorough /\ (p.size # "300x200" \/ p.level = "default")
                        \/ (~Thorough /\ p.level = "default" /\ p.content = "gradient" /\ p.size \in {"1x1", "7x5", "33x17"})
                        \/ (~Thorough /\ p.kind \in {"rgb8", "rgba8", "pal4"} /\ p.content = "noise" /\ p.size \in {"3x2", "64x64"})
                        \/ (~Thorough /\ p.kind \in {"gray8", "rgba16"} /\ p.level = "best" /\ p.content = "gradient" /\ p.size = "300x200")
                        \/ (~Thorough /\ p.kind \in {"rgb8", "pal8trns"} /\ p.level \in {"none", "speed"} /\ p.content = "flat" /\ p.size = "33x17") }

\* ---- GIF via image/gif ---------------------------------------------------
GifPalettes == {2, 4, 16, 256}
GifDisposals == {"none", "background", "previous", "mixed"}
Gif == [family : {"gif"}, colors : GifPalettes, frames : {1, 3}, disposal : GifDisposals, localpal : BOOLEAN, transparent : BOOLEAN,
        size : {"1x1", "7x5", "33x17", "120x90"}]
GifSel == { g \in Gif : /\ (g.frames = 1 => (g.disposal = "none" /\ ~g.localpal))
                        /\ (Thorough \/ (g.size = "7x5" /\ g.frames = 3 /\ g.colors \in {4, 256} /\ g.transparent = g.localpal)
                                     \/ (g.size = "33x17" /\ g.frames = 1 /\ g.transparent = (g.colors = 16))
                                     \/ (g.size = "33x17" /\ g.frames = 3 /\ g.colors \in {2, 16} /\ g.disposal = "mixed")
                                     \/ (g.size \in {"1x1", "120x90"} /\ g.colors = 256 /\ g.disposal \in {"none", "mixed"} /\ g.transparent = g.localpal)) }

\* ---- hashers: lengths chosen around the block sizes of the implementations ----
HashLens == {0, 1, 2, 3, 7, 8, 15, 16, 17, 31, 32, 33, 55, 56, 63, 64, 65, 127, 128, 129, 255, 256, 257, 1023, 4095, 4096, 5551, 5552, 5553,
             11104, 65535, 65536, 70001}
Hashers == {"crc32", "crc64", "adler32", "sha256", "xxhash32", "xxhash64"}
HashRef == [crc32 |-> "hash/crc32 IEEE", crc64 |-> "hash/crc64 ECMA", adler32 |-> "hash/adler32", sha256 |-> "crypto/sha256",
            xxhash32 |-> "one-shot run (partition independence only)", xxhash64 |-> "one-shot run (partition independence only)"]

Configs == Flate \cup Zlib \cup GzipSel \cup CZlibSel \cup Lzw \cup Bzip2 \cup XzSel \cup LzmaSel \cup PngSel \cup GifSel

ClassesFor(c) == IF c.family \in {"png", "gif"} THEN {"image"}
                 ELSE IF c.family \in {"deflate", "zlib", "gzip", "lzw"} THEN PayloadClasses
                 ELSE IF c.family = "bzip2" THEN (IF Thorough THEN PayloadClasses \cup {"huge"} ELSE PayloadClasses)
                 ELSE IF c.family = "czlib" THEN (IF Thorough THEN PayloadClasses ELSE SmallClasses \cup {"window"})
                 ELSE \* xz / lzma: the big classes only for a few presets
                      IF Thorough \/ c.preset \in {0, 6} THEN PayloadClasses ELSE SmallClasses

\* every value of every setting of a family occurs in the selection (so that "quick" drops combinations, not values)
Covers(sel, full) == \A f \in DOMAIN (CHOOSE c \in full : TRUE) : { c[f] : c \in full } = { d[f] : d \in sel }
ASSUME Covers(GzipSel, Gzip) /\ Covers(CZlibSel, CZlib) /\ Covers(XzSel, Xz) /\ Covers(LzmaSel, Lzma) /\ Covers(PngSel, Png)
ASSUME Covers(GifSel, { g \in Gif : g.frames = 3 \/ (g.disposal = "none" /\ ~g.localpal) })

VARIABLE v
Init == v = 0
Next == UNCHANGED v
Spec == Init /\ [][Next]_v
Export == PrintT(ToJson([tier |-> Tier,
                         configs |-> { [cfg |-> c, classes |-> ClassesFor(c)] : c \in Configs },
                         hashers |-> Hashers, hashlens |-> HashLens, hashref |-> HashRef]))
=============================================================================

------------------------------ MODULE Determinism ------------------------------
(***************************************************************************)
(* Determinism of a generator, stated over RECORDED RUNS (C20; C09 reuses  *)
(* the same predicates with <<input, schedule>> as the key).               *)
(*                                                                         *)
(* The generator is an UNKNOWN BUT FIXED function F from a key - for the   *)
(* Wuffs compiler <<package name, ordered list of source file names,       *)
(* digest of the sources>> - to an output digest.  Nothing is said about   *)
(* what F is.  A set of runs, each a record [key, sha] (the environment    *)
(* the run happened in is deliberately NOT part of the key), is explained  *)
(* by one F iff it is functionally dependent on the key.  The module has   *)
(* no constants and no variables: it is the vocabulary shared by           *)
(*   Trace_Determinism.tla (validation of the runs recorded from the real  *)
(*                          tools) and                                     *)
(*   DeterminismModel.tla  (a closed model of a generator that walks a Go  *)
(*                          map with or without sorting).                  *)
(* Digests are opaque strings; TLA+ only compares them for equality.       *)
(***************************************************************************)
EXTENDS Integers, Sequences, FiniteSets

\* ---- one function explains all runs ---------------------------------------

\* The definition, literally: there is a function from keys to digests that
\* every run agrees with.  (Evaluated by TLC only in the closed model, where
\* the function space is small.)
ExplainedByOneFunction(runs) ==
    LET K == {r.key : r \in runs}
        S == {r.sha : r \in runs}
    IN \E F \in [K -> S] : \A r \in runs : F[r.key] = r.sha

\* The equivalent first-order form used on recorded traces.
FunctionalDependence(runs) ==
    \A r1, r2 \in runs : r1.key = r2.key => r1.sha = r2.sha

\* Incremental form: F is the function learnt from the runs seen so far (the
\* first digest seen for each key); a new run <<key, sha>> is explained by the
\* same F iff it does not contradict it.
Contradicts(F, key, sha) == key \in DOMAIN F /\ F[key] # sha

Learn(F, key, sha) ==
    IF key \in DOMAIN F THEN F
    ELSE [k \in DOMAIN F \cup {key} |-> IF k = key THEN sha ELSE F[k]]

\* ---- a directory listing is sorted ---------------------------------------

\* Names arrive as sequences of byte values (TLA+ strings are atomic); the
\* order is Go's sort.Strings order: byte-wise lexicographic, a proper prefix
\* first.
LexLess(a, b) ==
    \E i \in 1 .. (Len(a) + 1) :
        /\ \A j \in 1 .. (i - 1) : j <= Len(b) /\ a[j] = b[j]
        /\ \/ i = Len(a) + 1 /\ i <= Len(b)                   \* a is a proper prefix of b
           \/ i <= Len(a) /\ i <= Len(b) /\ a[i] < b[i]       \* first difference decides

\* strictly increasing: sorted, and no name listed twice
StrictlySorted(codes) ==
    \A i \in 1 .. (Len(codes) - 1) : LexLess(codes[i], codes[i + 1])

\* ---- generated == committed ------------------------------------------------

SameDigest(generated, committed) == generated = committed
=============================================================================

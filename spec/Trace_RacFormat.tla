--------------------------- MODULE Trace_RacFormat ---------------------------
(***************************************************************************)
(* C13, file validity (Mode V).  Every rule of doc/spec/rac-spec.md that a *)
(* RAC file must obey, stated over the events that an independent walker   *)
(* (harness/cmd/racwreplay/walker.go, written from the specification text, *)
(* not from lib/rac/chunk_reader.go) recorded for one produced file:       *)
(*                                                                         *)
(*   size, headmagic   CFileSize; do the first three bytes equal Magic     *)
(*   cands             the Root Node candidates at the CFile start / end   *)
(*   visits            depth-first walk: one record per Branch Node with   *)
(*                     every raw field (Arity twice, Checksum listed and   *)
(*                     recomputed, Reserved bytes, DPtr[], TTag[],         *)
(*                     CodecByte, CPtr[], CLen[], STag[], Version), the    *)
(*                     parent visit, the element index and the Branch      *)
(*                     COffset / CBias / DBias that the walker used        *)
(*   leaves            one record per Leaf Node with a non-empty DRange    *)
(*                                                                         *)
(* The walker judges nothing.  Reasons(t) is the set of names of the       *)
(* rules that trace t breaks; a file is valid iff it is empty.             *)
(*                                                                         *)
(* Section names in comments refer to doc/spec/rac-spec.md.                *)
(***************************************************************************)
EXTENDS Integers, Sequences, FiniteSets, TLC, Json

Traces == JsonDeserialize("traces.json")

R(name, ok) == IF ok THEN {} ELSE {name}

---------------------------------------------------------------------------
(* Field access with the specification's 0-based indices.                  *)

DP(n, a) == n.dptr[a + 1]          \* DPtr[a], a in 0..Arity (DPtr[0] = 0 implicit)
CP(n, a) == n.cptr[a + 1]          \* CPtr[a], a in 0..Arity
TT(n, a) == n.ttag[a + 1]
ST(n, a) == n.stag[a + 1]
CL(n, a) == n.clen[a + 1]
Elems(n) == 0..(n.arity - 1)
DPMax(n) == DP(n, n.arity)
CPMax(n) == CP(n, n.arity)
COffMax(n) == n.cbias + CPMax(n)
NodeSize(arity) == (arity * 16) + 16

IsBranchTag(t) == t = 254                       \* 0xFE
IsCodecElemTag(t) == t = 253                    \* 0xFD
IsReservedTag(t) == t >= 192 /\ t < 253         \* [0xC0 .. 0xFD)
IsLeafTag(t) == ~IsBranchTag(t) /\ ~IsCodecElemTag(t) /\ ~IsReservedTag(t)

MixBit(n) == (n.codecbyte \div 64) % 2 = 1
IsLong(n) == n.codecbyte >= 128
Codec6(n) == n.codecbyte % 64

\* MakeCRange(i)  ("COffs and DOffs, STags and TTags")
MakeCRange(n, i) ==
    IF i >= n.arity THEN <<COffMax(n), COffMax(n)>>
    ELSE LET lo == n.cbias + CP(n, i)
             hi == IF CL(n, i) = 0 THEN COffMax(n)
                   ELSE IF lo + (CL(n, i) * 1024) < COffMax(n) THEN lo + (CL(n, i) * 1024) ELSE COffMax(n)
         IN <<lo, hi>>

---------------------------------------------------------------------------
(* "Branch Node Validation": the node-local rules.                         *)

NodeReasons(n) ==
    R("OUT-OF-MODEL", ~n.clamped)
    \cup R("magic", n.magicok)                                         \* "Magic"
    \cup R("arity", n.arity = n.arity2 /\ n.arity >= 1 /\ n.arity <= 255)  \* "Arity"
    \cup R("no-child-node", \E a \in Elems(n) : IsBranchTag(TT(n, a)) \/ IsLeafTag(TT(n, a)))
    \cup R("checksum", n.cklisted = n.ckcomputed)                      \* "Checksum"
    \cup R("version", n.version = 1)                                   \* "Version"
    \cup R("reserved-not-zero", n.reservedok)                          \* "Reserved (0)"
    \cup R("ttag-reserved", \A a \in Elems(n) : ~IsReservedTag(TT(n, a)))
    \cup R("long-codec-element-missing", IsLong(n) => n.longcodec # "")  \* "Codec"
    \cup R("short-codec-reserved", ~IsLong(n) => Codec6(n) \in 0..3)
    \cup R("dptr-not-sorted", \A a \in Elems(n) : DP(n, a) <= DP(n, a + 1))
    \cup R("codec-element-drange", \A a \in Elems(n) : IsCodecElemTag(TT(n, a)) => DP(n, a) = DP(n, a + 1))
    \cup R("cptr-beyond-cptrmax", \A a \in Elems(n) : ~IsCodecElemTag(TT(n, a)) => CP(n, a) <= CPMax(n))

---------------------------------------------------------------------------
(* "Root Node"                                                             *)

ValidRootAt(t, c, off) ==
    /\ c.walk # 0 /\ c.arity >= 1 /\ c.fits
    /\ LET n == t.visits[c.walk] IN
       /\ n.coff = off /\ n.cbias = 0 /\ n.dbias = 0 /\ n.parent = 0
       /\ NodeReasons(n) = {}
       /\ CPMax(n) = t.size                     \* "its COffMax must equal the CFileSize"

StartCand(t) == t.cands[1]
EndCand(t) == t.cands[2]
StartValid(t) == StartCand(t).where = "start" /\ ValidRootAt(t, StartCand(t), 0)
EndValid(t) == EndCand(t).where = "end" /\ ValidRootAt(t, EndCand(t), t.size - NodeSize(EndCand(t).arity))

\* "first look for a valid Root Node at the CFile start.  If and only if that
\* fails, look at the CFile end."
RootVisit(t) == IF StartValid(t) THEN StartCand(t).walk ELSE IF EndValid(t) THEN EndCand(t).walk ELSE 0

\* why there is no root: the rules the better candidate breaks
NoRootReasons(t) ==
    LET c == IF StartCand(t).walk # 0 THEN StartCand(t) ELSE EndCand(t) IN
    IF c.walk = 0 THEN {"no-parseable-root-candidate"}
    ELSE LET n == t.visits[c.walk] IN
         NodeReasons(n) \cup R("root-cptrmax-not-cfilesize", CPMax(n) = t.size)
         \cup R("root-placement", n.cbias = 0 /\ n.dbias = 0 /\
                (n.coff = 0 \/ n.coff = t.size - NodeSize(n.arity)))

---------------------------------------------------------------------------
(* Parent / child rules ("Branch Node Validation", "Search Within a Branch *)
(* Node").  P is the parent's record, n the child's, a = n.elem.           *)

ChildReasons(P, n) ==
    LET a == n.elem IN
    R("child-elem", a \in Elems(P) /\ IsBranchTag(TT(P, a)))
    \cup (IF a \in Elems(P) THEN
          R("child-coffset", n.coff = P.cbias + CP(P, a))             \* SubBranch COffset = COff[a]
          \cup R("child-cbias", n.cbias = IF ST(P, a) < P.arity THEN P.cbias + CP(P, ST(P, a)) ELSE P.cbias)
          \cup R("child-dbias", n.dbias = P.dbias + DP(P, a))
          \* "It invalid for CRemaining to be less than 4, or to be less than the child's size"
          \cup R("cremaining", LET rem == COffMax(P) - (P.cbias + CP(P, a)) IN
                               rem >= 4 /\ P.peek[a + 1] >= 0 /\ rem >= NodeSize(P.peek[a + 1]))
          \cup R("child-arity-byte", P.peek[a + 1] = n.arity)
          \cup R("child-codec", ~MixBit(P) => (n.codecbyte = P.codecbyte /\ n.longcodec = P.longcodec))
          \cup R("child-version", n.version <= P.version)
          \cup R("child-coffmax", COffMax(n) <= COffMax(P))
          \cup R("child-doffmax", n.dbias + DPMax(n) = P.dbias + DP(P, a + 1))
          \* "In order to rule out infinite loops, at least one of these two conditions must hold"
          \cup R("anti-loop", n.coff < P.coff \/ DPMax(n) < DPMax(P))
          ELSE {})

---------------------------------------------------------------------------
(* Leaf rules.  P is the record of the Branch Node holding the leaf.       *)

CodecKind(P) ==
    IF IsLong(P) THEN (IF P.longcodec = "766d6f64656c00" THEN "model" ELSE IF P.longcodec = "00000000000000" THEN "zeroes" ELSE "long")
    ELSE CASE Codec6(P) = 0 -> "zeroes" [] Codec6(P) = 1 -> "zlib" [] Codec6(P) = 2 -> "lz4" [] Codec6(P) = 3 -> "zstd" [] OTHER -> "reserved"

\* "Common Dictionary Format"
DictReasons(d, which) ==
    IF ~d.present THEN {}
    ELSE R(which \o "-dict-too-short", d.size >= 8)
         \cup R(which \o "-dict-reserved-bits", d.highbits = 0)
         \cup R(which \o "-dict-length", d.dlen + 8 <= d.size)
         \cup R(which \o "-dict-checksum", d.crclisted # "" /\ d.crclisted = d.crccomputed)

LeafReasons(t, P, l) ==
    LET a == l.elem IN
    R("leaf-elem", a \in Elems(P) /\ IsLeafTag(TT(P, a)))
    \cup (IF a \in Elems(P) THEN
          R("leaf-drange", l.dlo = P.dbias + DP(P, a) /\ l.dhi = P.dbias + DP(P, a + 1) /\ l.dlo < l.dhi)
          \cup R("leaf-tags", l.stag = ST(P, a) /\ l.ttag = TT(P, a))
          \cup R("leaf-primary-crange", l.prim = MakeCRange(P, a))
          \cup R("leaf-secondary-crange", l.sec = MakeCRange(P, ST(P, a)))
          \cup R("leaf-tertiary-crange", l.ter = MakeCRange(P, TT(P, a)))
          \cup R("crange-outside-cfile", \A r \in {l.prim, l.sec, l.ter} : 0 <= r[1] /\ r[1] <= r[2] /\ r[2] <= t.size)
          \* an STag / TTag below Arity must lead to CFile bytes, not to the 7 bytes of a Codec Element
          \cup R("stag-names-codec-element", ST(P, a) < P.arity => ~IsCodecElemTag(TT(P, ST(P, a))))
          \cup R("ttag-names-codec-element", TT(P, a) < P.arity => ~IsCodecElemTag(TT(P, TT(P, a))))
          \* "It is invalid to produce more bytes than the DRange size or to consume more bytes than each CRange size."
          \cup R("chunk-does-not-decode", l.decodable => l.decodeok)
          \cup R("chunk-larger-than-drange", l.explicit <= l.dhi - l.dlo)
          \cup (IF CodecKind(P) \in {"zlib", "zstd"}
                THEN DictReasons(l.secdict, "secondary")
                     \cup R("leaf-ttag-not-ff", l.ttag = 255)   \* "The Leaf TTag must be 0xFF."
                ELSE IF CodecKind(P) = "model" \/ (CodecKind(P) = "lz4" /\ l.decodable)
                THEN DictReasons(l.secdict, "secondary") \cup DictReasons(l.terdict, "tertiary")
                ELSE {})
          ELSE {})

---------------------------------------------------------------------------
(* The whole file.                                                         *)

\* the leaves, in walk order, tile [0 .. dsize)
Tiles(ls, dsize) ==
    IF Len(ls) = 0 THEN dsize = 0
    ELSE /\ ls[1].dlo = 0
         /\ ls[Len(ls)].dhi = dsize
         /\ \A k \in 1..(Len(ls) - 1) : ls[k].dhi = ls[k + 1].dlo

Reasons(t) ==
    \* "A RAC file must be at least 32 bytes long, and start with the 3 byte Magic"
    R("file-shorter-than-32", t.size >= 32)
    \cup R("file-magic", t.headmagic)
    \cup R("walker-truncated", ~t.truncated)
    \cup (LET rv == RootVisit(t) IN
          IF rv = 0 THEN {"no-valid-root"} \cup NoRootReasons(t)
          ELSE LET vs == {i \in 1..Len(t.visits) : t.visits[i].root = rv}
                   ls == SelectSeq(t.leaves, LAMBDA l : l.root = rv)
               IN UNION {NodeReasons(t.visits[i]) : i \in vs}
                  \cup UNION {IF t.visits[i].parent = 0 THEN {}
                              ELSE ChildReasons(t.visits[t.visits[i].parent], t.visits[i]) : i \in vs}
                  \cup UNION {LeafReasons(t, t.visits[ls[k].parent], ls[k]) : k \in 1..Len(ls)}
                  \* the Leaf Nodes, in walk order, tile [0 .. DFileSize): nothing
                  \* unreachable, nothing twice ("the DPtrMax also sets the DFileSize")
                  \cup R("leaves-do-not-tile-dspace", Tiles(ls, DPMax(t.visits[rv]))))

VARIABLE ti
Init == ti \in 1..Len(Traces)
Next == UNCHANGED ti
Spec == Init /\ [][Next]_ti

\* Evaluated on every trace; a rejected trace is printed with the rules it breaks.
Judge == Reasons(Traces[ti]) = {} \/ PrintT(ToJson([verdict |-> "REJECT", kind |-> "trace", idx |-> ti, reasons |-> Reasons(Traces[ti])]))

\* The root and DFileSize TLC found (for the runner's cross-check of the rows).
Summary == PrintT(ToJson([verdict |-> "INFO", idx |-> ti, root |-> RootVisit(Traces[ti])]))
=============================================================================

------------------------------ MODULE Trace_Std ------------------------------
(***************************************************************************)
(* Trace validation of what the generated standard library really did      *)
(* (events logged by harness/c/stddrive.c, one per public call) against     *)
(* IOContract's clauses plus the job-level acceptance conditions of         *)
(*   C03 (Mode = "contract"): every call obeys the contract, every job      *)
(*        ends for a legitimate reason, no sanitizer report, no time-out;   *)
(*   C05 (Mode = "split"): chunked runs are prefixes of, and end equal to,  *)
(*        the one-shot run of the same binary on the same input;            *)
(*   C07 (Mode = "reference"): the decoded output equals the reference      *)
(*        payload with an OK status; hashers equal the reference value;     *)
(*   C09 (Mode = "same"): the run equals the run of the same <<input,       *)
(*        schedule>> under the base configuration.                          *)
(* Token decoders (std/json, std/cbor): the events of their calls carry the  *)
(* tokens written ("tk") and the source bytes consumed ("sb") for inputs up  *)
(* to the driver's recording bound, and running summaries for every input;   *)
(* spec/TokenStream.tla says what a well-formed token stream is (clauses     *)
(* Token*, every mode) and when two streams are the same stream cut at       *)
(* different buffer boundaries (NormalFormEqualsOracle, modes split / same). *)
(* Events without token fields (every other decoder) satisfy them vacuously. *)
(* The trace is a concatenation of jobs; a "start" event resets the         *)
(* per-job state (TraceReset idiom).  Instead of disabling an action when   *)
(* a clause fails, the violated clause names are collected in `bad` and     *)
(* the invariant Accepted (bad = {}) is what TLC checks: a rejection names  *)
(* the trace line (l - 1) and the clauses, and the runner can cut the       *)
(* offending job out and validate the rest.                                 *)
(***************************************************************************)
EXTENDS Integers, Sequences, FiniteSets, TLC, Json

CONSTANTS TraceFile, Mode, AmpleDst

INSTANCE IOClauses
TS == INSTANCE TokenStream

Trace == ndJsonDeserialize(TraceFile)

VARIABLES l,      \* next trace line
          s,      \* per-job state
          bad     \* clause names violated by the line just consumed

tvars == <<l, s, bad>>

NoExpect == [present |-> FALSE]
\* token decoders: l0 = trace line of the job's start event, lastCon / lastLen = continued bit and length of the last
\* token written so far, tstack = the open containers (TokenStream!StructWalk)
Fresh == [job |-> -1, phase |-> "idle", inTotal |-> 0, outTotal |-> 0, dead |-> FALSE, calls |-> 0,
          expect |-> NoExpect, kind |-> "", lastSusp |-> "", l0 |-> 0, lastCon |-> 0, lastLen |-> 0, tstack |-> <<>>]

TInit == l = 1 /\ s = Fresh /\ bad = {}

E == Trace[l]
Has(f) == f \in DOMAIN E

\* "maxcalls": the driver gave up after the job's call budget (a bound of the exploration, not of the decoder)
LegitStops == {"status", "done", "too_large", "out_limit", "frame_limit", "init_failed", "maxcalls"}

\* ---- token streams (spec/TokenStream.tla) -----------------------------------
IsTokCall(e) == "twi1" \in DOMAIN e                     \* a decode_tokens call
Recorded(e) == "tk" \in DOMAIN e                        \* ... whose tokens and consumed bytes were logged
\* the structure walk of this call's tokens from the stack the earlier calls left
TokWalk == TS!StructWalk(s.tstack, E.tk)

\* clauses of ONE decode_tokens call
TokCallBad ==
    IF ~IsTokCall(E) THEN {}
    ELSE
    LET err == E.cls = "err"
        \* the driver's running sum of token lengths against the running consumption (every input size).  After an
        \* error the object is dead and nobody needs the tokens of the bytes it had looked at: only "no token beyond
        \* the consumed bytes" is demanded then.
        sums == IF Has("tok_len_sum") /\ Has("in_total") /\ (IF err THEN E.tok_len_sum > E.in_total ELSE E.tok_len_sum # E.in_total)
                THEN {"TokenLengthsPartitionSource"} ELSE {}
        summ == \* unrecorded streams: the driver's summaries
                IF ~Recorded(E) /\ Has("tok_pop_below_zero") /\ E.tok_pop_below_zero THEN {"TokenStructureBalanced"} ELSE {}
    IN sums \cup summ \cup
       (IF ~Recorded(E) THEN {}
        ELSE LET tk == E.tk
                 from == s.inTotal
                 to == E.in_total
                 \* the record itself: the logged bytes are the bytes from `from` to `to`
                 recOk == E.sb0 = from /\ Len(E.sb) = to - from
                 chain == IF err THEN (Len(tk) = 0 \/ (TS!PositionsChain(tk, from, TS!TPos(tk[Len(tk)]) + TS!TLen(tk[Len(tk)]))
                                                       /\ TS!TPos(tk[Len(tk)]) + TS!TLen(tk[Len(tk)]) <= to))
                          ELSE TS!PositionsChain(tk, from, to)
             IN (IF \A i \in 1..Len(tk) : TS!FieldsInRange(tk[i]) /\ TS!CategoryDefined(tk[i]) /\ TS!CodePointValid(tk[i])
                 THEN {} ELSE {"TokenFieldsWellFormed"})
                \cup (IF chain THEN {} ELSE {"TokenLengthsPartitionSource"})
                \cup (IF TS!ExtendedInsideChain(tk, s.lastCon, s.lastLen) THEN {} ELSE {"TokenChainsClosed"})
                \cup (IF TS!NumberUnsplit(tk, s.lastCon) THEN {} ELSE {"TokenNumberUnsplit"})
                \cup (IF TokWalk.ok THEN {} ELSE {"TokenStructureBalanced"})
                \cup (IF ~recOk THEN {"TokenRecordConsistent"}
                      ELSE IF chain /\ ~TS!Utf8NotStraddled(tk, E.sb, from) THEN {"TokenUtf8NotStraddled"} ELSE {}))

\* clauses of the END of a token decoder's job: a finished stream (status ok) has no open chain and no open container
TokEndBad ==
    IF ~Has("tok_last_con") THEN {}
    ELSE IF E.cls # "ok" \/ E.stop # "status" THEN {}
    ELSE (IF TS!ChainClosedAtEnd(E.tok_last_con) /\ TS!ChainClosedAtEnd(s.lastCon) THEN {} ELSE {"TokenChainsClosed"})
         \cup (IF E.tok_depth = 0 /\ TS!StructBalancedAtEnd(s.tstack) THEN {} ELSE {"TokenStructureBalanced"})

\* the tokens a job wrote, call by call, as a sequence of token sequences (lines a..b of the trace)
TokSeqs(a, b) == [i \in 1..(b - a + 1) |-> IF Trace[a + i - 1].k = "call" /\ Recorded(Trace[a + i - 1]) THEN Trace[a + i - 1].tk ELSE <<>>]
JobRecorded(a, b) == \A k \in a..b : (Trace[k].k = "call" /\ IsTokCall(Trace[k])) => Recorded(Trace[k])

\* C05 / C09: the normal form of the run's token stream equals the normal form of the oracle's (the one-shot run of
\* the same binary / the base configuration's run): by hash for every input (the driver maintains the normal form
\* incrementally), and token by token - TokenStream!Normalise evaluated here - when both streams were recorded.
TokOracleBad ==
    LET x == s.expect
        xe == Trace[x.xl]
        nf == TS!NormaliseMany(TokSeqs(s.l0, l - 1))
    IN (IF Has("nf_hash") /\ "nf_hash" \in DOMAIN xe /\ E.nf_hash # xe.nf_hash THEN {"NormalFormEqualsOracle"} ELSE {})
       \cup (IF Has("tok_recorded") /\ E.tok_recorded /\ "otk" \in DOMAIN xe /\ JobRecorded(s.l0, l - 1)
             THEN (IF nf = TS!Normalise(xe.otk) THEN {} ELSE {"NormalFormEqualsOracle"})
                  \* the driver's incremental normaliser and the specification's agree on this stream
                  \cup (IF Has("nf_n") /\ E.nf_n # Len(nf) THEN {"TokenRecordConsistent"} ELSE {})
             ELSE {})

\* ---- clause sets per event kind -------------------------------------------

\* the checked build (hook H3) reports, in every event of a public call, how many of the compiler's claimed ranges
\* failed at run time during that call ("call" events get the clause through Violated)
RangeBad == IF ClaimedRangesHold(E) THEN {} ELSE {"ClaimedRangesHold"}

CallBad ==
    LET base == Violated(E, AmpleDst)
        cont == \* continuity: cumulative counters only grow, the object is not called after an error
                (IF Has("in_total") /\ E.in_total < s.inTotal THEN {"ConsumedMonotone"} ELSE {})
                \cup (IF Has("out_total") /\ E.out_total < s.outTotal THEN {"ProducedMonotone"} ELSE {})
                \cup (IF s.phase # "begun" THEN {"CallOutsideJob"} ELSE {})
        split == \* C05/C07/C09: at every step the cumulative output is a prefix of the oracle's,
                 \* and consumption never exceeds the oracle's when the oracle did not fail
                 IF s.expect.present /\ Mode \in {"split", "reference", "same"}
                 THEN (IF Has("pfx") /\ ~E.pfx THEN {"PrefixOfOracle"} ELSE {})
                      \cup (IF Has("out_total") /\ s.expect.hasOut /\ E.out_total > s.expect.out_total THEN {"ProducedAtMostOracle"} ELSE {})
                      \cup (IF Has("in_total") /\ s.expect.hasIn /\ s.expect.cls # "err" /\ Mode # "reference" /\ E.in_total > s.expect.in_total
                            THEN {"ConsumedAtMostOracle"} ELSE {})
                 ELSE {}
        img == IF Has("dirty_in_frame") /\ ~E.dirty_in_frame THEN {"DirtyRectInsideFrame"} ELSE {}
        tok == IF Has("tok_ok") /\ ~E.tok_ok THEN {"IdxOrdered"} ELSE {}
    IN base \cup cont \cup split \cup img \cup tok \cup TokCallBad

EndBad ==
    LET stop == IF E.stop \in LegitStops THEN {} ELSE {"Stop_" \o E.stop}
        x == s.expect
        \* the driver gave up at a bound of the exploration (call budget, output limit, image too large): no verdict
        inconclusive == E.stop \in {"maxcalls", "out_limit", "too_large", "frame_limit"}
        eq == IF ~x.present \/ Mode = "contract" \/ inconclusive THEN {}
              ELSE IF Mode = "reference"
              THEN \* reference payload: OK (or the documented end-of-data note for image/token flows) and equal output
                   (IF E.cls \notin {"ok", "note"} THEN {"ReferenceDecodesOK"} ELSE {})
                   \cup (IF x.hasOut /\ Has("out_total") /\ (E.out_total # x.out_total \/ ~E.pfx) THEN {"OutputEqualsReference"} ELSE {})
                   \cup (IF x.hasHash /\ Has("out_hash") /\ E.out_hash # x.out_hash THEN {"OutputEqualsReference"} ELSE {})
                   \cup (IF x.hasSum /\ (~Has("sum") \/ E.sum # x.sum) THEN {"ChecksumEqualsReference"} ELSE {})
              ELSE \* split / same: equal status, equal output, equal consumption unless error
                   \* (the consumed count is only compared when the final status is not an error: after an error the
                   \* object is dead and how far a fast path had read ahead is unspecified - the property's own carve-out)
                   (IF E.st # x.st THEN {"FinalStatusEqualsOracle"} ELSE {})
                   \cup (IF x.hasOut /\ Has("out_total") /\ E.out_total # x.out_total THEN {"FinalOutputEqualsOracle"} ELSE {})
                   \cup (IF x.hasHash /\ Has("out_hash") /\ E.out_hash # x.out_hash THEN {"FinalOutputEqualsOracle"} ELSE {})
                   \cup (IF x.cls # "err" /\ Has("in_total") /\ x.hasIn /\ E.in_total # x.in_total THEN {"ConsumedEqualsOracleUnlessError"} ELSE {})
                   \cup (IF x.hasSum /\ (~Has("sum") \/ E.sum # x.sum) THEN {"ChecksumEqualsOracle"} ELSE {})
        hs == IF Has("sum_eq_last") /\ ~E.sum_eq_last THEN {"ChecksumIsPure"} ELSE {}
        ph == IF s.phase # "begun" THEN {"EndOutsideJob"} ELSE {}
        tokx == IF x.present /\ Mode \in {"split", "same"} /\ ~inconclusive /\ Has("nf_hash") THEN TokOracleBad ELSE {}
    IN stop \cup eq \cup hs \cup ph \cup TokEndBad \cup tokx

\* ---- actions, one per event kind -------------------------------------------

Step(k) == l <= Len(Trace) /\ E.k = k /\ l' = l + 1

Start == /\ Step("start")
         /\ s' = [Fresh EXCEPT !.job = E.j, !.l0 = l]
         /\ bad' = IF s.phase \in {"idle", "ended"} THEN {} ELSE {"JobDidNotEnd"}   \* the process died inside the previous job

Expect == /\ Step("expect")
          /\ s' = [s EXCEPT !.expect = [present |-> TRUE, xl |-> l, st |-> E.st, cls |-> E.cls,
                                        hasOut |-> Has("out_total"), out_total |-> IF Has("out_total") THEN E.out_total ELSE 0,
                                        hasHash |-> Has("out_hash"), out_hash |-> IF Has("out_hash") THEN E.out_hash ELSE "",
                                        hasSum |-> Has("sum"), sum |-> IF Has("sum") THEN E.sum ELSE "",
                                        hasIn |-> Has("in_total"), in_total |-> IF Has("in_total") THEN E.in_total ELSE 0]]
          /\ bad' = {}

Begin == /\ Step("begin")
         /\ s' = [s EXCEPT !.phase = "begun", !.kind = E.kind]
         /\ bad' = (IF E.ist = "" THEN {} ELSE {"InitializeSucceeds"}) \cup RangeBad

Call == /\ Step("call")
        /\ bad' = CallBad
        /\ s' = [s EXCEPT !.inTotal = IF Has("in_total") THEN E.in_total ELSE @,
                          !.outTotal = IF Has("out_total") THEN E.out_total ELSE @,
                          !.calls = @ + 1,
                          !.lastCon = IF Recorded(E) /\ Len(E.tk) > 0 THEN TS!TCon(E.tk[Len(E.tk)]) ELSE @,
                          !.lastLen = IF Recorded(E) /\ Len(E.tk) > 0 THEN TS!TLen(E.tk[Len(E.tk)]) ELSE @,
                          !.tstack = IF Recorded(E) THEN TokWalk.stack ELSE @]

HCall == /\ Step("hcall")
         /\ bad' = (IF E.al # 0 THEN {"NoAllocInCall"} ELSE {}) \cup (IF ~E.ssame THEN {"SrcUnchanged"} ELSE {}) \cup RangeBad
         /\ s' = [s EXCEPT !.calls = @ + 1]

Quirk == /\ Step("quirk")
         /\ bad' = (IF E.al # 0 THEN {"NoAllocInCall"} ELSE {}) \cup (IF E.cls = "susp" THEN {"StatusClassLegal"} ELSE {}) \cup RangeBad
         /\ s' = s

Info == /\ l <= Len(Trace) /\ E.k \in {"imgcfg", "framecfg", "frame", "skip"} /\ l' = l + 1
        /\ bad' = {} /\ s' = s

\* C10: the pure methods of the interface were called around the run; the receiver's bytes must not change
Pure == /\ Step("pure")
        /\ bad' = (IF E.objchg THEN {"PureLeavesReceiverUnchanged"} ELSE {}) \cup (IF E.al # 0 THEN {"NoAllocInCall"} ELSE {})
                  \cup RangeBad
        /\ s' = s

End == /\ Step("end")
       /\ bad' = EndBad
       /\ s' = [s EXCEPT !.phase = "ended"]

\* inserted by the runner only after the re-run with a 4x budget timed out too
Timeout == /\ Step("timeout") /\ bad' = {"ReturnsAfterBoundedWork"} /\ s' = [s EXCEPT !.phase = "ended"]
\* inserted by the runner when the driver process died with a sanitizer report
Crash == /\ Step("crash") /\ bad' = {"NoSanitizerReport_" \o E.what} /\ s' = [s EXCEPT !.phase = "ended"]

TNext == Start \/ Expect \/ Begin \/ Call \/ HCall \/ Quirk \/ Info \/ Pure \/ End \/ Timeout \/ Crash
TSpec == TInit /\ [][TNext]_tvars

Accepted == bad = {}
\* every line was consumed (an unknown event kind would stop the walk early)
AllConsumed == TLCGet("stats").diameter - 1 = Len(Trace)
=============================================================================

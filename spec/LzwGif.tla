------------------------------- MODULE LzwGif -------------------------------
(***************************************************************************)
(* C07, format model: the variable-width LZW code stream of GIF (GIF89a     *)
(* appendix F; the same stream compress/lzw calls "LSB order") decoded by   *)
(* the textbook state machine - a dictionary from codes to byte strings -,  *)
(* NOT by the prefix/suffix/length tables real decoders use.                *)
(*                                                                         *)
(*   literal width  lw;  clear = 2^lw;  end = clear + 1;                   *)
(*   codes 0..clear-1 stand for themselves; the first code width is lw + 1 *)
(*   after start or a clear code: dictionary empty, no previous string     *)
(*   code c > end:  entry number c - end if it exists; the entry that is   *)
(*       about to be defined (c - end = number of entries + 1, "KwKwK")    *)
(*       stands for  previous \o <<previous[1]>>;  anything else, or any   *)
(*       such code when there is no previous string, is not a valid stream *)
(*   after every string except the first one since start/clear, while the  *)
(*       dictionary has room (codes < 4096):  new entry = previous \o      *)
(*       <<first byte of this string>>                                     *)
(*   the width grows by one as soon as the next code to be defined is      *)
(*       2^width, up to 12; with 4096 codes defined nothing is added       *)
(*   the end code finishes the stream.                                     *)
(*                                                                         *)
(* A behaviour is one code stream: TLC enumerates every valid stream of up  *)
(* to MaxCodes codes after a fixed Prefix (the alphabet of the next code is *)
(* every code that is valid in the current state, or a representative      *)
(* subset when there are more than BranchCap of them), checks the           *)
(* invariants below in every state, and prints every finished stream with   *)
(* its expected output and its bit-packed bytes (codes packed least         *)
(* significant bit first at the width in force).  The real std/lzw - and,   *)
(* wrapped in a GIF file, std/gif's own copy of the algorithm - must        *)
(* reproduce the expected output (harness/cmd/fmtcases, stddrive).          *)
(* PrefixKind = "fill" first feeds the literal stream that fills the        *)
(* dictionary up to code 4095, so that the few codes that follow run with   *)
(* a full dictionary at width 12.                                           *)
(***************************************************************************)
EXTENDS Integers, Sequences, FiniteSets, TLC, Json, FmtBits

CONSTANTS LW,            \* literal width (2..8)
          MaxCodes,      \* number of enumerated codes, the end code included
          BranchCap,     \* above this many valid codes a representative subset is branched over
          PrefixKind     \* "none" or "fill"

Clear == 2 ^ LW
End == Clear + 1
MaxCode == 4095

VARIABLES tab,       \* dictionary: tab[k] is the string of code End + k
          prev,      \* previous string (<<>> = none: just started or just cleared)
          width,     \* current code width
          codes,     \* the stream so far: sequence of <<code, width>>
          out,       \* decoded output so far
          done,      \* the end code has been read
          n          \* enumerated codes so far (the prefix is not counted)
vars == <<tab, prev, width, codes, out, done, n>>

NextDef == End + Len(tab) + 1          \* the code the next new entry gets

\* the literal stream that fills the dictionary: clear, then literals (k mod 2^LW); every literal after the first adds an entry
FillLen == MaxCode - End + 1           \* literals needed: one that defines nothing, then one per entry
FillCode(k) == IF k = 0 THEN Clear ELSE ((k * k + k \div 3) % Clear)

StringOf(c) == IF c < Clear THEN <<c>>
               ELSE IF c - End <= Len(tab) THEN tab[c - End]
               ELSE prev \o <<prev[1]>>                         \* KwKwK: only reached when c = NextDef and prev # <<>>

ValidCodes == (0..(Clear - 1)) \cup {Clear, End}
              \cup (IF prev = <<>> THEN {} ELSE (End + 1)..(IF NextDef <= MaxCode THEN NextDef ELSE MaxCode))

Representative ==
    LET hi == IF NextDef <= MaxCode THEN NextDef ELSE MaxCode
    IN {0, Clear - 1, Clear, End}
       \cup (IF prev = <<>> THEN {} ELSE {End + 1, hi, hi - 1, (End + 1 + hi) \div 2} \cap ((End + 1)..hi))

Choices == IF Cardinality(ValidCodes) <= BranchCap THEN ValidCodes ELSE Representative

Feed(c) ==
    /\ codes' = Append(codes, <<c, width>>)
    /\ IF c = End
       THEN done' = TRUE /\ UNCHANGED <<tab, prev, width, out>>
       ELSE IF c = Clear
       THEN tab' = <<>> /\ prev' = <<>> /\ width' = LW + 1 /\ UNCHANGED <<out, done>>
       ELSE LET s == StringOf(c)
                grows == prev # <<>> /\ NextDef <= MaxCode
                ntab == IF grows THEN Append(tab, prev \o <<s[1]>>) ELSE tab
            IN /\ tab' = ntab
               /\ prev' = s
               /\ out' = out \o s
               \* the code the next string will define is End + (strings since start/clear); as soon as it needs
               \* one more bit the width grows (GIF's rule; no "early change")
               /\ width' = IF width < 12 /\ End + Len(ntab) + 1 = 2 ^ width THEN width + 1 ELSE width
               /\ UNCHANGED done

Init == /\ tab = <<>> /\ prev = <<>> /\ width = LW + 1 /\ codes = <<>> /\ out = <<>> /\ done = FALSE /\ n = 0

InPrefix == PrefixKind = "fill" /\ Len(codes) <= FillLen
Step == /\ ~done
        /\ IF InPrefix
           THEN Feed(FillCode(Len(codes))) /\ n' = n
           ELSE /\ n < MaxCodes
                /\ \E c \in Choices : (n = MaxCodes - 1 => c = End) /\ Feed(c)
                /\ n' = n + 1
Next == Step \/ (done /\ UNCHANGED vars)
Spec == Init /\ [][Next]_vars

---------------------------------------------------------------------------
TypeOK == /\ width \in (LW + 1)..12
          /\ Len(tab) <= MaxCode - End
          /\ NextDef < 2 ^ width \/ (width = 12 /\ NextDef = MaxCode + 1)     \* every usable code fits the current width
          /\ codes # <<>> => codes[Len(codes)][1] < 2 ^ codes[Len(codes)][2]     \* (codes only grows: the last one is enough)
\* every entry is one byte longer than some earlier string and no entry is empty
EntriesGrow == tab # <<>> => Len(tab[Len(tab)]) >= 2
\* an entry, once defined, never changes until the next clear code (an action property)
EntriesStable == [][tab' = <<>> \/ (Len(tab') >= Len(tab) /\ SubSeq(tab', 1, Len(tab)) = tab)]_vars

\* bit packing of the stream (codes least significant bit first, zero padding in the last byte)
StreamBits == Flatten([i \in 1..Len(codes) |-> BitsLSB(codes[i][1], codes[i][2])])
Export == done => PrintT(ToJson([fmt |-> "lzw", lw |-> LW, prefix |-> PrefixKind,
                                 codes |-> [i \in 1..Len(codes) |-> codes[i][1]],
                                 widths |-> [i \in 1..Len(codes) |-> codes[i][2]],
                                 bytes |-> IF Len(codes) <= 40 THEN PackLSB(StreamBits) ELSE <<>>,
                                 out |-> out]))
=============================================================================

------------------------------ MODULE FlateCut ------------------------------
(***************************************************************************)
(* C16: cutting DEFLATE / zlib data yields a valid stream that decodes to  *)
(* a prefix.                                                               *)
(*                                                                         *)
(* This module is the RESULT specification (part (a)): it says which       *)
(* answers <<encodedLen, decodedLen, error>> of                            *)
(*     Cut(w, encoded, maxEncodedLen)                                      *)
(* are acceptable, and nothing about how they are found.  Which prefix is   *)
(* kept is left open ("It does not necessarily return the largest possible *)
(* decodedLen"), so the specification is nondeterministic: ANY answer that  *)
(* satisfies Accept is allowed.                                            *)
(*                                                                         *)
(* It is used twice:                                                       *)
(*  - FlateCutImpl.tla (part (b)) is an implementation-shaped model of     *)
(*    lib/flatecut's algorithm over small abstract streams; TLC checks     *)
(*    that every answer of that model satisfies Accept, where the          *)
(*    observations (is the output a complete stream? what does it decode   *)
(*    to?) come from the abstract decoder defined below;                   *)
(*  - FlateCutTable.tla evaluates the same Accept on rows recorded from    *)
(*    the real lib/flatecut and lib/zlibcut, where the observations come   *)
(*    from compress/flate and compress/zlib decoding encoded[:encodedLen]  *)
(*    and comparing with the ORIGINAL payload.                             *)
(* The universe of stream SHAPES that the driver realises (part (c)) is in *)
(* FlateCutShapes.tla.                                                     *)
(***************************************************************************)
EXTENDS Integers, Sequences, FiniteSets, TLC

---------------------------------------------------------------------------
(* An observation row (what one call of Cut did):                          *)
(*   fmt      "flate" | "zlib"                                             *)
(*   dict     the zlib stream names a preset dictionary (FDICT)            *)
(*   valid    the input buffer held a complete valid stream of fmt         *)
(*   len      length of the input buffer in bytes                          *)
(*   total    length of the original decompression                         *)
(*   limit    maxEncodedLen                                                *)
(*   w        an io.Writer was supplied                                    *)
(*   panic    the call panicked                                            *)
(*   err      a non-nil error was returned                                 *)
(*   eLen, dLen   the returned lengths                                     *)
(*   decOK    the reference decoder of fmt read encoded[:eLen] to the end  *)
(*            of a complete stream without error (zlib: incl. Adler-32)    *)
(*   trail    bytes of encoded[:eLen] the decoder left unread              *)
(*   decLen   number of bytes it produced                                  *)
(*   decPrefix   those bytes equal ORIGINAL[0 .. decLen)                   *)
(*   wLen     number of bytes the writer received                          *)
(*   wPrefix  those bytes equal ORIGINAL[0 .. wLen)                        *)
(***************************************************************************)

\* "The documented minimum": SmallestValidMaxEncodedLen is "the length in
\* bytes of the smallest valid DEFLATE-encoded data" (2: a final fixed block
\* holding only an end-of-block code) resp. "zlib-encoded data" (8 = 2 + 2 +
\* 4).  A zlib stream with a preset dictionary has a 6 byte header, so its
\* smallest valid form has 12 bytes; below that no valid answer exists.
MinLimit(fmt, dict) == IF fmt = "flate" THEN 2 ELSE IF dict THEN 12 ELSE 8

\* "an encoded length within the limit (and within the buffer)"
WithinLimit(r)  == 0 <= r.eLen /\ r.eLen <= r.limit
WithinBuffer(r) == r.eLen <= r.len
\* "the first that-many bytes of the modified buffer form a complete valid
\*  stream of the same format"
CompleteStream(r) == r.decOK /\ r.trail = 0
\* "whose decompression is exactly the first decodedLen bytes of the original
\*  decompression"
DecodesToPrefix(r) == r.decLen = r.dLen /\ r.decPrefix /\ 0 <= r.dLen /\ r.dLen <= r.total
\* "equals what was written to the optional writer"
WriterAgrees(r) == r.w => (r.wLen = r.dLen /\ r.wPrefix)
\* "and is the whole original when the limit is not smaller than the stream"
WholeWhenRoomy(r) == r.limit >= r.len => r.dLen = r.total
\* errors only below the documented minimum (a valid stream and an adequate
\* limit always have an acceptable answer, e.g. the empty prefix)
ErrorJustified(r) == r.limit < MinLimit(r.fmt, r.dict)

SuccessClauses == {"WithinLimit", "WithinBuffer", "CompleteStream", "DecodesToPrefix", "WriterAgrees", "WholeWhenRoomy"}

Holds(c, r) ==
    CASE c = "WithinLimit"     -> WithinLimit(r)
      [] c = "WithinBuffer"    -> WithinBuffer(r)
      [] c = "CompleteStream"  -> CompleteStream(r)
      [] c = "DecodesToPrefix" -> DecodesToPrefix(r)
      [] c = "WriterAgrees"    -> WriterAgrees(r)
      [] c = "WholeWhenRoomy"  -> WholeWhenRoomy(r)
      [] c = "ErrorJustified"  -> ErrorJustified(r)
      [] c = "NoPanic"         -> ~r.panic

\* The clauses a row is subject to, by its kind.
\* "for arbitrary bytes Cut returns without panicking - with an error, or with
\*  lengths that stay inside the limit and the buffer"
ClausesFor(r) ==
    IF r.panic THEN {"NoPanic"}
    ELSE IF r.valid
         THEN (IF r.err THEN {"ErrorJustified"} ELSE SuccessClauses)
         ELSE (IF r.err THEN {} ELSE {"WithinLimit", "WithinBuffer"})

Failed(r) == { c \in ClausesFor(r) : ~Holds(c, r) }
Accept(r) == Failed(r) = {}

---------------------------------------------------------------------------
(* Abstract streams (used by FlateCutImpl and by the abstract decoder).     *)
(*                                                                         *)
(* A stream is a sequence of blocks                                        *)
(*   [t : "stored"|"fixed"|"dynamic", fin : BOOLEAN, hdr : Nat, eob : Nat, *)
(*    syms : Seq(<<bit cost, decoded length, payload offset>>)]            *)
(* hdr = number of bits between the 3 header bits and the first symbol of a *)
(* Huffman block (0 for fixed, the code-length tables for dynamic); eob =    *)
(* length of that block's end-of-block code.  A stored block's symbols are  *)
(* its bytes, <<8, 1, off>> each; its 3 header bits are followed by padding *)
(* to a byte boundary and 4 bytes LEN/NLEN.  The third component of a       *)
(* symbol is the offset in the ORIGINAL decompression at which its output   *)
(* starts: it gives symbols an identity, so that "decodes to a prefix" is   *)
(* checkable on a modified image.                                          *)
(***************************************************************************)

CeilDiv(a, b) == (a + b - 1) \div b
BytesOf(bits) == CeilDiv(bits, 8)
Min2(a, b) == IF a < b THEN a ELSE b

RECURSIVE SumCost(_)
SumCost(ss) == IF ss = <<>> THEN 0 ELSE Head(ss)[1] + SumCost(Tail(ss))
RECURSIVE SumDlen(_)
SumDlen(ss) == IF ss = <<>> THEN 0 ELSE Head(ss)[2] + SumDlen(Tail(ss))

\* first symbol bit of a block whose final-block bit is at bit p
SymStart(b, p) ==
    IF b.t = "stored" THEN 8 * (BytesOf(p + 3) + 4) ELSE p + 3 + b.hdr
\* bit just after the block
BlockEnd(b, p) ==
    IF b.t = "stored" THEN SymStart(b, p) + 8 * Len(b.syms)
    ELSE SymStart(b, p) + SumCost(b.syms) + b.eob

RECURSIVE StreamEndFrom(_, _)
StreamEndFrom(bs, p) == IF bs = <<>> THEN p ELSE StreamEndFrom(Tail(bs), BlockEnd(Head(bs), p))
StreamBits(S) == StreamEndFrom(S, 0)
StreamLen(S)  == BytesOf(StreamBits(S))

RECURSIVE TotalOf(_)
TotalOf(bs) == IF bs = <<>> THEN 0 ELSE SumDlen(Head(bs).syms) + TotalOf(Tail(bs))

\* Give every symbol its payload offset (input: symbols <<cost, dlen>>).
RECURSIVE AnnSyms(_, _)
AnnSyms(ss, off) == IF ss = <<>> THEN <<>>
                    ELSE << <<Head(ss)[1], Head(ss)[2], off>> >> \o AnnSyms(Tail(ss), off + Head(ss)[2])
RECURSIVE AnnBlocks(_, _)
AnnBlocks(bs, off) == IF bs = <<>> THEN <<>>
                      ELSE << [Head(bs) EXCEPT !.syms = AnnSyms(Head(bs).syms, off)] >>
                           \o AnnBlocks(Tail(bs), off + SumDlen(Head(bs).syms))
Annotate(S) == AnnBlocks(S, 0)

\* A valid stream: at least one block, exactly the last one is final, stored
\* blocks hold whole bytes and at most 65535 of them.
ValidStream(S) ==
    /\ Len(S) >= 1
    /\ \A i \in 1..Len(S) : S[i].fin = (i = Len(S))
    /\ \A i \in 1..Len(S) : S[i].t = "stored" => (Len(S[i].syms) <= 65535 /\ \A j \in 1..Len(S[i].syms) : S[i].syms[j][1] = 8 /\ S[i].syms[j][2] = 1)
    /\ \A i \in 1..Len(S) : S[i].t # "stored" => S[i].eob >= 1

---------------------------------------------------------------------------
(* The abstract decoder: what a DEFLATE decoder would make of an output     *)
(* image.  The image is a sequence of blocks as above, each with the bit     *)
(* position `at` where the producer claims it starts.                       *)
(***************************************************************************)

RECURSIVE Contiguous(_, _)
Contiguous(bs, p) == IF bs = <<>> THEN TRUE
                     ELSE Head(bs).at = p /\ Contiguous(Tail(bs), BlockEnd(Head(bs), p))

ImageDecodes(img) ==
    /\ Len(img) >= 1
    /\ Contiguous(img, 0)                                   \* every block starts where the previous one ends
    /\ \A i \in 1..Len(img) : img[i].fin = (i = Len(img))   \* decoding stops at the first final block, and needs one
    /\ \A i \in 1..Len(img) : img[i].t = "stored" => Len(img[i].syms) <= 65535

RECURSIVE FlatSyms(_)
FlatSyms(bs) == IF bs = <<>> THEN <<>> ELSE Head(bs).syms \o FlatSyms(Tail(bs))

\* The decoded bytes are ORIGINAL[0 .. n) iff the symbols' outputs tile it.
RECURSIVE Tiles(_, _)
Tiles(ss, off) == IF ss = <<>> THEN TRUE ELSE Head(ss)[3] = off /\ Tiles(Tail(ss), off + Head(ss)[2])

\* The observation row of an abstract answer res = [err, eLen, dLen, img] for
\* the (annotated) stream S and a limit.  The writer receives what a decoder
\* makes of encoded[:eLen] (lib/flatecut re-decodes), so wLen/wPrefix repeat
\* decLen/decPrefix.
ObserveAbstract(S, limit, res) ==
    LET ok   == ~res.err /\ ImageDecodes(res.img)
        bits == IF ok THEN StreamBits(res.img) ELSE 0
        fits == ok /\ BytesOf(bits) <= res.eLen          \* the decoder does not run out of bytes
        syms == IF ok THEN FlatSyms(res.img) ELSE <<>>
    IN [fmt |-> "flate", dict |-> FALSE, valid |-> TRUE,
        len |-> StreamLen(S), total |-> TotalOf(S), limit |-> limit, w |-> TRUE,
        panic |-> FALSE, err |-> res.err, eLen |-> res.eLen, dLen |-> res.dLen,
        decOK |-> fits, trail |-> IF fits THEN res.eLen - BytesOf(bits) ELSE 0,
        decLen |-> SumDlen(syms), decPrefix |-> Tiles(syms, 0),
        wLen |-> SumDlen(syms), wPrefix |-> Tiles(syms, 0)]
=============================================================================

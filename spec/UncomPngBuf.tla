---------------------------- MODULE UncomPngBuf ----------------------------
(***************************************************************************)
(* C19: the implementation-shaped automaton of lib/uncompng's fixed buffer, *)
(* stepped per flush.  It is NOT the acceptance criterion (that is          *)
(* PngStored.tla); it is used                                               *)
(*   (a) to model-check the buffer discipline itself (no flush emits more   *)
(*       than the buffer holds, the running Adler state in the buffer's     *)
(*       last 4 bytes is never overwritten before the final flush, every    *)
(*       inflated byte is emitted exactly once and in order), and           *)
(*   (b) to let TLC compute, per <<bytes per pixel, depth>>, the SET of     *)
(*       (width, height) classes in which a row, a pixel or the trailer     *)
(*       straddles a flush; every terminal state prints its class key and   *)
(*       the predicted Write sizes as JSON; the check picks representatives *)
(*       of every class and encodes them for real.                          *)
(*                                                                         *)
(* Read off lib/uncompng/uncompng.go:                                       *)
(*   buf [65536]byte; ejMax = len(buf) - 8 = 0xFFF8;                        *)
(*   first Write:  signature+IHDR (0x21 bytes), IDAT length+type at 0x21,   *)
(*                 zlib header at 0x29, block header at 0x2B, data from     *)
(*                 eiFirst = 0x30;                                          *)
(*   later Writes: IDAT length+type at 0, block header at 8, data from      *)
(*                 eiLater = 0x0D;                                          *)
(*   a unit (the filter byte, or one pixel of 1/2/3/4/6/8 output bytes) is  *)
(*   appended at ej after `if ej + size > ejMax { flush; ej = eiLater }`;   *)
(*   non-final flush: CRC at buf[ej..ej+4), Write(buf[:ej+4]);              *)
(*   final flush: Adler at buf[ej..ej+4), CRC at buf[ej+4..ej+8), then the  *)
(*   12-byte IEND is appended if ej + 8 + 12 <= len(buf), else written by a *)
(*   separate Write; the running Adler-32 lives in buf[len-4 .. len).       *)
(***************************************************************************)
EXTENDS Integers, Sequences, FiniteSets, TLC, Json

CONSTANTS BufSize,    \* 65536 (a small value gives an exhaustively explorable abstract instance)
          EiFirst,    \* 48
          EiLater,    \* 13
          Mode,       \* "grid": every (w, h) of WS x HS;  "targets": sizes aimed at the flush points
          WS, HS,     \* widths / heights (see Init)
          K, D,       \* targets: inflated sizes C1 + k*C2 + d, k in 0..K, d in -D..D
          Export      \* TRUE: terminal states print their record as JSON

EjMax == BufSize - 8
C1 == EjMax - EiFirst         \* data capacity of the first block
C2 == EjMax - EiLater         \* data capacity of a later block

\* <<output bytes per pixel, input bytes per pixel, depth, uncompng.ColorType>>
Configs == { <<1, 1, 8, 1>>, <<2, 2, 16, 1>>, <<3, 4, 8, 2>>, <<4, 4, 8, 3>>, <<6, 8, 16, 2>>, <<8, 8, 16, 3>> }

VARIABLES pc,      \* the configuration tuple
          w, h,
          y, u,    \* next unit: row y, unit u (0 = the filter byte, k = pixel k-1); y = h: all emitted
          ej,      \* fill index
          first,   \* TRUE until the first Write (the code's test buf[4] == 0x0D)
          done,
          emitted, \* inflated bytes handed to the writer so far
          hist,    \* one record per flush
          writes   \* sizes of the Write calls

vars == <<pc, w, h, y, u, ej, first, done, emitted, hist, writes>>

Out == pc[1]
RowLen == 1 + w * Out
Off(uu) == IF uu = 0 THEN 0 ELSE 1 + (uu - 1) * Out      \* bytes of a row before unit uu
Min(a, b) == IF a < b THEN a ELSE b

\* Greedy filling, exactly the code's per-unit test in closed form: from
\* <<yy, uu>> with `space` free bytes, the position reached when the next unit
\* does not fit (or everything is consumed).
Partial(uu, space) ==            \* inside a row that does not fit completely
    IF uu = 0 THEN (IF space >= 1 THEN 1 + ((space - 1) \div Out) ELSE 0)
    ELSE uu + (space \div Out)

Fill(yy, uu, space) ==
    LET remRow == RowLen - Off(uu) IN
    IF remRow > space
    THEN <<yy, Partial(uu, space)>>
    ELSE LET k == Min(h - yy - 1, (space - remRow) \div RowLen)
             y2 == yy + 1 + k
             sp2 == space - remRow - k * RowLen IN
         IF y2 = h THEN <<h, 0>> ELSE <<y2, Partial(0, sp2)>>

Pos(yy, uu) == yy * RowLen + Off(uu)      \* inflated offset of unit <<yy, uu>>

---------------------------------------------------------------------------
Targets == { C1 + k * C2 + d : k \in 0..K, d \in (-D)..D }

Candidates(c) ==
    IF Mode = "grid" THEN WS \X HS
    ELSE { p \in { <<((t \div hh) - 1) \div c[1], hh>> : hh \in HS, t \in Targets } : p[1] >= 1 }
         \cup { p \in { <<ww, (t \div (1 + ww * c[1])) + dd>> : ww \in WS, t \in Targets, dd \in {0, 1} } : p[2] >= 1 }

Init ==
    /\ pc \in Configs
    /\ \E p \in Candidates(pc) : w = p[1] /\ h = p[2]
    /\ y = 0 /\ u = 0
    /\ ej = EiFirst
    /\ first = TRUE /\ done = FALSE
    /\ emitted = 0
    /\ hist = <<>> /\ writes = <<>>

Ei == IF first THEN EiFirst ELSE EiLater

Kind(uu) == IF uu = 0 THEN "rowstart" ELSE IF uu = 1 THEN "afterfilter" ELSE "midrow"

\* One flush: fill as far as the code would, then hand the buffer to the writer.
Flush ==
    /\ ~done
    /\ LET p == Fill(y, u, EjMax - ej)
           n == Pos(p[1], p[2]) - Pos(y, u)
           ej2 == ej + n
           final == p[1] = h IN
       /\ y' = p[1] /\ u' = p[2]
       /\ emitted' = emitted + n
       /\ hist' = Append(hist, [blk |-> ej2 - Ei, from |-> emitted, ejend |-> ej2, isfirst |-> first, final |-> final,
                                kind |-> IF final THEN "end" ELSE Kind(p[2]), slack |-> EjMax - ej2])
       /\ IF ~final
          THEN /\ writes' = Append(writes, ej2 + 4)
               /\ ej' = EiLater
               /\ first' = FALSE
               /\ done' = FALSE
          ELSE /\ writes' = IF ej2 + 8 + 12 > BufSize THEN writes \o <<ej2 + 8, 12>> ELSE Append(writes, ej2 + 8 + 12)
               /\ ej' = ej2
               /\ first' = first
               /\ done' = TRUE
    /\ UNCHANGED <<pc, w, h>>

Next == Flush
Spec == Init /\ [][Next]_vars

---------------------------------------------------------------------------
(* Invariants of the buffer discipline.                                    *)

\* the emitted byte count per flush never exceeds the buffer
WritesFit == \A k \in 1..Len(writes) : writes[k] >= 1 /\ writes[k] <= BufSize

\* a block's data never reaches into the 8 trailing bytes, so that the CRC of
\* a non-final flush (and the Adler copy of the final one) stays below the
\* running Adler state kept in buf[BufSize-4 ..)
AdlerStateSafe == \A k \in 1..Len(hist) : hist[k].ejend <= EjMax /\ hist[k].ejend + 4 <= BufSize - 4

\* LEN of every stored block fits 16 bits
BlockLenFits == \A k \in 1..Len(hist) : hist[k].blk >= 0 /\ hist[k].blk <= 65535

\* every inflated byte exactly once, in order: the flushes are contiguous, the
\* cursor <<y, u>> always sits at the inflated offset emitted so far, and the
\* end is height x (1 + row bytes)
InOrder ==
    /\ emitted = Pos(y, u)
    /\ \A k \in 1..Len(hist) : hist[k].from = (IF k = 1 THEN 0 ELSE hist[k - 1].from + hist[k - 1].blk)
    /\ done => (emitted = h * RowLen /\ y = h)

\* only the last block is final; every flush but a final one of an image that
\* fits makes progress
Shape ==
    /\ \A k \in 1..Len(hist) : hist[k].final = (done /\ k = Len(hist))
    /\ \A k \in 1..Len(hist) : hist[k].isfirst = (k = 1)
    /\ \A k \in 1..Len(hist) : hist[k].blk > 0
    /\ \A k \in 1..Len(hist) : ~hist[k].final => hist[k].slack < (IF hist[k].kind = "rowstart" THEN 1 ELSE Out)

---------------------------------------------------------------------------
(* Classification and export.                                               *)

Cap(v, m) == IF v > m THEN m ELSE v
SepIEND == Len(writes) >= 2 /\ writes[Len(writes)] = 12 /\ hist[Len(hist)].ejend + 8 + 12 > BufSize

\* The class of a finished run: how many flushes; where the first and the last
\* non-final flush cut (before a row, between filter byte and first pixel,
\* between pixels) and how many bytes were left over (a pixel would have
\* straddled); whether the final block is still in the first-chunk layout;
\* how close the final fill index is to the limit (<= 12 below: IEND does not
\* fit) and whether the final block is tiny.
Key ==
    LET n == Len(hist)
        f == hist[n]
        cut(k) == <<hist[k].kind, hist[k].slack>> IN
    <<Out, Cap(n, 4),
      IF n >= 2 THEN cut(1) ELSE <<"none", 0>>,
      IF n >= 3 THEN cut(n - 1) ELSE <<"none", 0>>,
      f.isfirst, SepIEND, Cap(f.slack, 16), Cap(f.blk, 2 * Out + 2)>>

Record == [w |-> w, h |-> h, out |-> Out, inb |-> pc[2], depth |-> pc[3], ct |-> pc[4],
           key |-> Key, writes |-> writes, nflush |-> Len(hist),
           straddle |-> Len(hist) >= 2 \/ hist[Len(hist)].slack <= 16]

Exported == (done /\ Export) => PrintT(ToJson(Record))
=============================================================================

------------------------------ MODULE CLexical ------------------------------
(***************************************************************************)
(* C12 (indenter half): lib/dumbindent changes only white space, is         *)
(* idempotent and terminates on every C-like text whose string, character,  *)
(* raw-string and comment delimiters are all terminated.                    *)
(*                                                                         *)
(* This module is three things.                                            *)
(*                                                                         *)
(*  1. The LEXICAL MACHINE of C-like text (Step, Lex, Closed).  It is the   *)
(*     definition of the property's precondition "all delimiters are        *)
(*     terminated".  It is the lexical model that lib/dumbindent documents  *)
(*     ("strings, comments and preprocessor directives"): code, // comment, *)
(*     slash-star comment, "cooked" and 'cooked' literals with backslash    *)
(*     escapes, `raw` back-tick strings that may span lines, and            *)
(*     #directive lines continued by a trailing backslash.  Where a C       *)
(*     compiler and the documented model would disagree about the lexical   *)
(*     structure, the text is OUTSIDE the precondition (mode "Dead"):       *)
(*       - a cooked literal that is still open at the end of its line       *)
(*         (C: error, or a spliced line; dumbindent: literal ends there);   *)
(*       - inside a directive: a literal or slash-star comment that is      *)
(*         still open where the directive's logical line ends (C: the       *)
(*         comment goes on; dumbindent: directives are opaque lines);       *)
(*       - a '#' that is preceded on its line only by blanks and comments   *)
(*         (C: a directive; dumbindent: code).                              *)
(*     There is no backslash-newline splicing outside directives.           *)
(*                                                                         *)
(*  2. A GENERATOR (GenInit/GenNext): texts are grown one byte at a time    *)
(*     from the per-mode alphabets of a profile (Alpha); TLC enumerates      *)
(*     every text up to the profile's length bound and the invariant Emit   *)
(*     prints every lexically closed one as JSON (with `k`: does the text   *)
(*     contain the construct of the known finding, see KnownConstruct).     *)
(*     With -simulate the same actions give long random texts.              *)
(*                                                                         *)
(*  3. The ACCEPTANCE PREDICATE (Accept) and a validator (ValInit/ValNext): *)
(*     the harness harness/cmd/fmtreplay gives every emitted text to the    *)
(*     real dumbindent.FormatBytes for {2 spaces, 4 spaces, tabs} (under a  *)
(*     watchdog) and records what came back, and what came back when the    *)
(*     output was formatted again; every recorded row is an initial state   *)
(*     here and Judge evaluates the property on it:                         *)
(*        Closed(t)                                  (precondition)         *)
(*        status = "ok"                              (terminates)           *)
(*        StripLines(out) = StripLines(t)            (only white space)     *)
(*        out2 = out                                 (idempotent)           *)
(*     Rejected rows are printed as JSON (Judge stays TRUE so that TLC      *)
(*     judges every row in one run).                                        *)
(*                                                                         *)
(* Texts are sequences of byte values.                                      *)
(***************************************************************************)
EXTENDS Integers, Sequences, FiniteSets, TLC, Json

CONSTANTS LenCmt, LenCmt2, LenStr, LenPP, LenPPB, LenNest, LenAll,
                     \* generator: longest text per alphabet profile (0: skip the profile)
          RowsFile   \* validator: JSON file written by the harness

NL == 10
TAB == 9
SP == 32
DQUOTE == 34
HASH == 35
SQUOTE == 39
LPAREN == 40
RPAREN == 41
STAR == 42
SLASH == 47
SEMI == 59
EQ == 61
BSLASH == 92
BTICK == 96
LETTER == 120
LBRACE == 123
RBRACE == 125

Sigma == {SLASH, STAR, DQUOTE, SQUOTE, BSLASH, BTICK, LPAREN, RPAREN, LBRACE, RBRACE,
          HASH, EQ, SEMI, LETTER, SP, TAB, NL}

IsBlank(c) == c = SP \/ c = TAB

---------------------------------------------------------------------------
(* 1. The lexical machine.                                                 *)
(*                                                                         *)
(* m    mode                                                               *)
(* ls   what the current line holds so far: "b" only blanks, "c" only       *)
(*      blanks and comments, "o" something else                            *)
(* bs   (directives) the last non-blank byte of the physical line is '\'    *)
(* ml   the currently open comment / raw string already contains a newline  *)
(* mlc  a comment / raw string that contains a newline was closed on the    *)
(*      current line                                                       *)
(* kn   the known construct occurred (see KnownConstruct)                   *)
(* cl   (directives) the current line is a continuation line and holds       *)
(*      only blanks so far                                                  *)
(* acb  the directive ended with a blank continuation line and only blank    *)
(*      lines followed so far                                               *)
(* kn2  the second known construct occurred (see KnownConstruct2)            *)

S0 == [m |-> "Code", ls |-> "b", bs |-> FALSE, ml |-> FALSE, mlc |-> FALSE, kn |-> FALSE,
       cl |-> FALSE, acb |-> FALSE, kn2 |-> FALSE]

NewLine(s) == [s EXCEPT !.m = "Code", !.ls = "b", !.bs = FALSE, !.ml = FALSE, !.mlc = FALSE]

CodeStep(s, c) ==
    CASE c = SLASH  -> [s EXCEPT !.m = "Slash"]
      [] c = DQUOTE -> [s EXCEPT !.m = "DQ", !.ls = "o"]
      [] c = SQUOTE -> [s EXCEPT !.m = "SQ", !.ls = "o"]
      [] c = BTICK  -> [s EXCEPT !.m = "Raw", !.ls = "o", !.ml = FALSE, !.kn = s.kn \/ s.mlc]
      [] c = HASH   -> IF s.ls = "b" THEN [s EXCEPT !.m = "PP", !.ls = "o", !.bs = FALSE]
                       ELSE IF s.ls = "c" THEN [s EXCEPT !.m = "Dead"]
                       ELSE [s EXCEPT !.m = "Code"]
      [] c = NL     -> NewLine(s)
      [] IsBlank(c) -> [s EXCEPT !.m = "Code"]
      [] OTHER      -> [s EXCEPT !.m = "Code", !.ls = "o"]

\* The end of a directive's physical line.
PPNewLine(s, contMode) == IF s.bs THEN [s EXCEPT !.m = contMode, !.bs = FALSE, !.cl = TRUE] ELSE NewLine(s)

PPStep(s, c) ==
    CASE c = SLASH  -> [s EXCEPT !.m = "PPSlash", !.bs = FALSE]
      [] c = DQUOTE -> [s EXCEPT !.m = "PPDQ", !.bs = FALSE]
      [] c = SQUOTE -> [s EXCEPT !.m = "PPSQ", !.bs = FALSE]
      [] c = BSLASH -> [s EXCEPT !.m = "PP", !.bs = TRUE]
      [] c = NL     -> PPNewLine(s, "PP")
      [] IsBlank(c) -> [s EXCEPT !.m = "PP"]
      [] OTHER      -> [s EXCEPT !.m = "PP", !.bs = FALSE]

Step0(s, c) ==
    CASE s.m = "Code"  -> CodeStep(s, c)
      [] s.m = "Slash" ->
            IF c = SLASH THEN [s EXCEPT !.m = "LC"]
            ELSE IF c = STAR THEN [s EXCEPT !.m = "BC", !.ml = FALSE, !.kn = s.kn \/ s.mlc]
            ELSE CodeStep([s EXCEPT !.m = "Code", !.ls = "o"], c)
      [] s.m = "LC"    -> IF c = NL THEN NewLine(s) ELSE s
      [] s.m \in {"BC", "BCStar"} ->
            IF c = NL THEN [s EXCEPT !.m = "BC", !.ml = TRUE, !.mlc = FALSE, !.ls = "b"]
            ELSE IF c = STAR THEN [s EXCEPT !.m = "BCStar"]
            ELSE IF c = SLASH /\ s.m = "BCStar"
                 THEN [s EXCEPT !.m = "Code", !.mlc = s.mlc \/ s.ml, !.ml = FALSE,
                                !.ls = IF s.ls = "o" THEN "o" ELSE "c"]
            ELSE [s EXCEPT !.m = "BC"]
      [] s.m = "DQ"    -> IF c = DQUOTE THEN [s EXCEPT !.m = "Code"]
                          ELSE IF c = BSLASH THEN [s EXCEPT !.m = "DQEsc"]
                          ELSE IF c = NL THEN [s EXCEPT !.m = "Dead"] ELSE s
      [] s.m = "DQEsc" -> IF c = NL THEN [s EXCEPT !.m = "Dead"] ELSE [s EXCEPT !.m = "DQ"]
      [] s.m = "SQ"    -> IF c = SQUOTE THEN [s EXCEPT !.m = "Code"]
                          ELSE IF c = BSLASH THEN [s EXCEPT !.m = "SQEsc"]
                          ELSE IF c = NL THEN [s EXCEPT !.m = "Dead"] ELSE s
      [] s.m = "SQEsc" -> IF c = NL THEN [s EXCEPT !.m = "Dead"] ELSE [s EXCEPT !.m = "SQ"]
      [] s.m = "Raw"   -> IF c = BTICK THEN [s EXCEPT !.m = "Code", !.mlc = s.mlc \/ s.ml, !.ml = FALSE]
                          ELSE IF c = NL THEN [s EXCEPT !.ml = TRUE, !.mlc = FALSE] ELSE s
      [] s.m = "PP"    -> PPStep(s, c)
      [] s.m = "PPSlash" ->
            IF c = SLASH THEN [s EXCEPT !.m = "PPLC"]
            ELSE IF c = STAR THEN [s EXCEPT !.m = "PPBC"]
            ELSE PPStep([s EXCEPT !.m = "PP"], c)
      [] s.m = "PPLC"  -> IF c = NL THEN PPNewLine(s, "PPLC")
                          ELSE IF c = BSLASH THEN [s EXCEPT !.bs = TRUE]
                          ELSE IF IsBlank(c) THEN s ELSE [s EXCEPT !.bs = FALSE]
      [] s.m \in {"PPBC", "PPBCStar"} ->
            IF c = NL THEN (IF s.bs THEN [s EXCEPT !.m = "PPBC", !.bs = FALSE] ELSE [s EXCEPT !.m = "Dead"])
            ELSE IF c = STAR THEN [s EXCEPT !.m = "PPBCStar", !.bs = FALSE]
            ELSE IF c = SLASH /\ s.m = "PPBCStar" THEN [s EXCEPT !.m = "PP", !.bs = FALSE]
            ELSE IF c = BSLASH THEN [s EXCEPT !.m = "PPBC", !.bs = TRUE]
            ELSE IF IsBlank(c) THEN [s EXCEPT !.m = "PPBC"]
            ELSE [s EXCEPT !.m = "PPBC", !.bs = FALSE]
      [] s.m = "PPDQ"    -> IF c = DQUOTE THEN [s EXCEPT !.m = "PP", !.bs = FALSE]
                            ELSE IF c = BSLASH THEN [s EXCEPT !.m = "PPDQEsc"]
                            ELSE IF c = NL THEN [s EXCEPT !.m = "Dead"] ELSE s
      [] s.m = "PPDQEsc" -> IF c = NL THEN [s EXCEPT !.m = "Dead"] ELSE [s EXCEPT !.m = "PPDQ"]
      [] s.m = "PPSQ"    -> IF c = SQUOTE THEN [s EXCEPT !.m = "PP", !.bs = FALSE]
                            ELSE IF c = BSLASH THEN [s EXCEPT !.m = "PPSQEsc"]
                            ELSE IF c = NL THEN [s EXCEPT !.m = "Dead"] ELSE s
      [] s.m = "PPSQEsc" -> IF c = NL THEN [s EXCEPT !.m = "Dead"] ELSE [s EXCEPT !.m = "PPSQ"]
      [] OTHER -> [s EXCEPT !.m = "Dead"]

PPModes == {"PP", "PPSlash", "PPLC", "PPBC", "PPBCStar", "PPDQ", "PPDQEsc", "PPSQ", "PPSQEsc"}

\* The machine proper is Step0; Step also keeps the book-keeping for the second
\* known construct (cl, acb, kn2), which has no influence on the modes.
Step(s, c) ==
    LET r == Step0(s, c) IN
    IF s.m \in PPModes THEN
        IF c = NL THEN (IF r.m = "Code" THEN [r EXCEPT !.acb = s.cl, !.cl = FALSE] ELSE r)
        ELSE IF IsBlank(c) THEN r
        ELSE [r EXCEPT !.cl = FALSE]
    ELSE IF s.m = "Code" /\ s.acb /\ c # NL /\ ~IsBlank(c) THEN
        [r EXCEPT !.acb = FALSE, !.kn2 = s.kn2 \/ c # HASH]
    ELSE r

ClosedModes == {"Code", "Slash", "LC", "PP", "PPSlash", "PPLC"}

RECURSIVE LexFrom(_, _, _)
LexFrom(s, t, i) == IF i > Len(t) THEN s ELSE LexFrom(Step(s, t[i]), t, i + 1)
Lex(t) == LexFrom(S0, t, 1)

\* The precondition of the property.
Closed(t) == (\A i \in 1..Len(t) : t[i] \in 0..255) /\ Lex(t).m \in ClosedModes

\* The construct of the known finding (KNOWN_FINDINGS.txt, key
\* dumbindent-second-raw-after-multiline-close): on the line on which a
\* slash-star comment or raw string that spans more than one line is closed,
\* another slash-star comment or raw string is opened.
KnownConstruct(t) == Lex(t).kn

\* The construct of the second known finding (key
\* dumbindent-directive-continuation-survives-blank-lines): a directive whose
\* last line ends in a backslash is followed by one or more blank lines (which
\* end the directive) and then by a line that does not start with '#'.
\* FormatBytes still takes that line for a part of the directive.
KnownConstruct2(t) == Lex(t).kn2

\* Fewest further bytes that can close the text.
Need(m) == CASE m \in ClosedModes -> 0
             [] m \in {"BCStar", "DQ", "SQ", "Raw", "PPBCStar", "PPDQ", "PPSQ"} -> 1
             [] m \in {"BC", "DQEsc", "SQEsc", "PPBC", "PPDQEsc", "PPSQEsc"} -> 2
             [] OTHER -> 1000

---------------------------------------------------------------------------
(* "its output equals the input after stripping each line's leading and     *)
(* trailing blanks and trailing blank lines".  A text is a sequence of      *)
(* lines separated by NL; StripLines is the sequence of stripped lines      *)
(* without the empty ones at either end.  (Blank lines at the START are     *)
(* dropped too: FormatBytes deliberately trims them, they are white space,  *)
(* and the property's title is "change only white space".)                  *)

RECURSIVE FirstNL(_, _)
FirstNL(t, i) == IF i > Len(t) THEN 0 ELSE IF t[i] = NL THEN i ELSE FirstNL(t, i + 1)

RECURSIVE SplitLines(_)
SplitLines(t) == LET i == FirstNL(t, 1) IN
                 IF i = 0 THEN <<t>>
                 ELSE <<SubSeq(t, 1, i - 1)>> \o SplitLines(SubSeq(t, i + 1, Len(t)))

RECURSIVE LStripFrom(_, _)
LStripFrom(l, i) == IF i > Len(l) THEN i ELSE IF IsBlank(l[i]) THEN LStripFrom(l, i + 1) ELSE i
RECURSIVE RStripFrom(_, _)
RStripFrom(l, j) == IF j < 1 THEN j ELSE IF IsBlank(l[j]) THEN RStripFrom(l, j - 1) ELSE j
StripLine(l) == SubSeq(l, LStripFrom(l, 1), RStripFrom(l, Len(l)))

RECURSIVE DropTrailingEmpty(_)
DropTrailingEmpty(ls) == IF ls # <<>> /\ ls[Len(ls)] = <<>> THEN DropTrailingEmpty(SubSeq(ls, 1, Len(ls) - 1)) ELSE ls
RECURSIVE DropLeadingEmpty(_)
DropLeadingEmpty(ls) == IF ls # <<>> /\ ls[1] = <<>> THEN DropLeadingEmpty(Tail(ls)) ELSE ls

StripLines(t) == LET ls == SplitLines(t) IN
                 DropLeadingEmpty(DropTrailingEmpty([i \in 1..Len(ls) |-> StripLine(ls[i])]))

---------------------------------------------------------------------------
(* 2. The generator.                                                       *)

Class(m) == CASE m \in {"Code", "Slash"} -> "code"
              [] m = "LC" -> "lc"
              [] m \in {"BC", "BCStar"} -> "bc"
              [] m \in {"DQ", "SQ"} -> "str"
              [] m \in {"DQEsc", "SQEsc"} -> "esc"
              [] m = "Raw" -> "raw"
              [] m \in {"PP", "PPSlash"} -> "pp"
              [] m = "PPLC" -> "pplc"
              [] m \in {"PPBC", "PPBCStar"} -> "ppbc"
              [] m \in {"PPDQ", "PPSQ"} -> "ppstr"
              [] m \in {"PPDQEsc", "PPSQEsc"} -> "ppesc"
              [] OTHER -> "none"

\* Alphabet profiles.  Each is small enough for exhaustive enumeration to the
\* length the runner asks for and aims at one family of interactions; "all"
\* is the full alphabet in every mode.
ProfileNames == {"cmt", "cmt2", "str", "pp", "ppb", "nest", "all"}
MaxLenOf(p) == CASE p = "cmt" -> LenCmt [] p = "cmt2" -> LenCmt2 [] p = "str" -> LenStr
                 [] p = "pp" -> LenPP [] p = "ppb" -> LenPPB [] p = "nest" -> LenNest [] p = "all" -> LenAll

Alpha(Profile, cls) ==
    CASE Profile = "all" -> Sigma
      [] Profile = "cmt" ->      \* comments, raw strings, line structure
            (CASE cls = "code" -> {SLASH, STAR, BTICK, NL, SP}
               [] cls = "lc"   -> {STAR, BTICK, NL}
               [] cls = "bc"   -> {STAR, SLASH, BTICK, NL}
               [] cls = "raw"  -> {BTICK, SLASH, STAR, NL}
               [] OTHER -> {})
      [] Profile = "cmt2" ->     \* the same with opaque bytes, braces and quotes inside
            (CASE cls = "code" -> {SLASH, STAR, BTICK, NL, SP, LETTER, LBRACE}
               [] cls = "lc"   -> {LETTER, BTICK, DQUOTE, NL}
               [] cls = "bc"   -> {STAR, SLASH, LETTER, DQUOTE, NL, SP}
               [] cls = "raw"  -> {BTICK, SLASH, LETTER, SQUOTE, NL, SP}
               [] OTHER -> {})
      [] Profile = "str" ->      \* cooked literals and escapes next to comments
            (CASE cls = "code" -> {DQUOTE, SQUOTE, BSLASH, SLASH, STAR, NL, SP, LBRACE}
               [] cls = "lc"   -> {DQUOTE, BSLASH, NL}
               [] cls = "bc"   -> {DQUOTE, SQUOTE, STAR, SLASH, NL}
               [] cls = "str"  -> {DQUOTE, SQUOTE, BSLASH, SLASH, STAR, LBRACE, SP}
               [] cls = "esc"  -> {DQUOTE, SQUOTE, BSLASH, LETTER}
               [] OTHER -> {})
      [] Profile = "pp" ->       \* directives and continuation lines
            (CASE cls = "code" -> {HASH, BSLASH, NL, SP, LETTER, SLASH, DQUOTE, LBRACE}
               [] cls = "lc"   -> {BSLASH, HASH, NL}
               [] cls = "str"  -> {DQUOTE, BSLASH, HASH}
               [] cls = "esc"  -> {DQUOTE, BSLASH}
               [] cls = "pp"   -> {BSLASH, NL, SP, LETTER, SLASH, STAR, DQUOTE, LBRACE, BTICK}
               [] cls = "pplc" -> {BSLASH, NL, SP, DQUOTE, BTICK}
               [] cls = "ppbc" -> {BSLASH, NL, STAR, SLASH, DQUOTE}
               [] cls = "ppstr" -> {DQUOTE, BSLASH, LETTER}
               [] cls = "ppesc" -> {DQUOTE, BSLASH}
               [] OTHER -> {})
      [] Profile = "ppb" ->      \* directive continuations, blank lines, raw strings and comments after them
            (CASE cls = "code" -> {HASH, BSLASH, NL, BTICK}
               [] cls = "raw"  -> {BTICK, NL}
               [] cls = "pp"   -> {BSLASH, NL, SP}
               [] OTHER -> {})
      [] Profile = "nest" ->     \* braces, parentheses, hanging lines, blanks
            (CASE cls = "code" -> {LBRACE, RBRACE, LPAREN, RPAREN, EQ, BSLASH, NL, SP, TAB, LETTER}
               [] OTHER -> {})
      [] OTHER -> {}

VARIABLES text,   \* generator: the text so far
          st,     \* generator: Lex(text)
          prof,   \* generator: the alphabet profile of this behaviour
          row     \* validator: index into Rows

vars == <<text, st, prof, row>>

GenInit == text = <<>> /\ st = S0 /\ row = 0 /\ prof \in {p \in ProfileNames : MaxLenOf(p) > 0}

GenNext ==
    /\ Len(text) < MaxLenOf(prof)
    /\ \E c \in Alpha(prof, Class(st.m)) :
          LET s2 == Step(st, c) IN
          /\ Need(s2.m) <= MaxLenOf(prof) - Len(text) - 1
          /\ st' = s2
          /\ text' = Append(text, c)
    /\ UNCHANGED <<row, prof>>

GenSpec == GenInit /\ [][GenNext]_vars

\* StripLines as one byte sequence: every line followed by NL.
RECURSIVE Flatten(_)
Flatten(ls) == IF ls = <<>> THEN <<>> ELSE ls[1] \o <<NL>> \o Flatten(Tail(ls))

\* Printed for every closed text; always TRUE.  e is the expectation that the
\* harness compares every output with (after stripping the output's lines).
Emit == (Len(text) > 0 /\ st.m \in ClosedModes) =>
            PrintT(ToJson([t |-> text, k |-> st.kn, k2 |-> st.kn2, e |-> Flatten(StripLines(text))]))

\* The generator's incremental state is the machine's state (checked by TLC
\* in the same runs): Emit prints exactly the texts that satisfy Closed.
GenConsistent == st = Lex(text)

---------------------------------------------------------------------------
(* 3. Acceptance of what the real code did.                                *)
(*                                                                         *)
(* A row:  [t |-> text, r |-> << [s |-> status of FormatBytes(t), o |-> out, *)
(* q |-> status of FormatBytes(out), p |-> out2] : one per option >>]; a      *)
(* status is "ok", "hang" (no result within the budget), "runaway" (the       *)
(* process outgrew any possible output), "panic", or "skipped" (after an      *)
(* earlier option of the same text did not end "ok").                        *)

Rows == JsonDeserialize(RowsFile)

Clause(e, a) ==
    IF a.s # "ok" THEN a.s
    ELSE IF StripLines(a.o) # e THEN "strip"
    ELSE IF a.q # "ok" THEN "re-" \o a.q
    ELSE IF a.p # a.o THEN "idem"
    ELSE "ok"

Verdict(r) == IF ~Closed(r.t) THEN <<"not-closed">>
              ELSE LET e == StripLines(r.t) IN [i \in 1..Len(r.r) |-> Clause(e, r.r[i])]

AllOk(v) == \A i \in 1..Len(v) : v[i] = "ok"
Accept(r) == AllOk(Verdict(r))

\* TLC evaluates initial states and the successors of one state in a single
\* thread; two levels (block heads, then the rows of a block) spread the rows
\* over the workers.  row = 0: root; lvl = 1: row is a block; lvl = 2: a row.
BlockSize == 500
NBlocks == (Len(Rows) + BlockSize - 1) \div BlockSize

ValInit == row = 0 /\ text = <<>> /\ st = [S0 EXCEPT !.m = "lvl0"] /\ prof = "none"
ValNext ==
    /\ text' = text /\ prof' = prof
    /\ \/ /\ st.m = "lvl0"
          /\ st' = [st EXCEPT !.m = "lvl1"]
          /\ row' \in 1..NBlocks
       \/ /\ st.m = "lvl1"
          /\ st' = [st EXCEPT !.m = "lvl2"]
          /\ row' \in ((row - 1) * BlockSize + 1)..(IF row * BlockSize < Len(Rows) THEN row * BlockSize ELSE Len(Rows))
ValSpec == ValInit /\ [][ValNext]_vars

Judge == st.m = "lvl2" =>
            LET r == Rows[row]
                v == Verdict(r) IN
            AllOk(v) \/ PrintT(ToJson([row |-> row, known |-> KnownConstruct(r.t), known2 |-> KnownConstruct2(r.t), verdict |-> v]))
=============================================================================

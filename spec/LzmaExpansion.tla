---------------------------- MODULE LzmaExpansion ----------------------------
(***************************************************************************)
(* C17, last clause: "for arbitrary input bytes Decode returns              *)
(* data-plus-error without panicking and with output no larger than a fixed *)
(* multiple of the input size".                                             *)
(*                                                                         *)
(* The multiple M is DERIVED here from the format, not measured.            *)
(*                                                                         *)
(* A literal-only LZMA stream codes every output byte with 9 binary         *)
(* decisions (1 is-match bit that must be 0, 8 literal bits).  A decision   *)
(* with adaptive probability p (11-bit, "probability that the bit is 0")    *)
(* replaces the range-coder width w by                                      *)
(*     bit 0:  (w >> 11) * p            <=  w * p / 2048                    *)
(*     bit 1:  w - (w >> 11) * p        <   w * (2048 - p) / 2048 + p       *)
(* and the decoder reads ONE input byte exactly when w has dropped below    *)
(* 2^24 (then w := w << 8).  The probability update                         *)
(*     bit 0:  p := p + ((2048 - p) >> 5)      bit 1:  p := p - (p >> 5)    *)
(* keeps p inside PMin..PMax = 31..2017 for ever (lemma ProbClamp, model-   *)
(* checked below over ALL reachable p).  Hence every decision multiplies w  *)
(* by at most 2017/2048 + 2^-13 < 2018/2048 (w >= 2^24 absorbs the "+ p").  *)
(* Since w stays in [2^24, 2^32), 9*M consecutive decisions without reading *)
(* an input byte are impossible as soon as (2018/2048)^(9*M) < 2^-8         *)
(* (lemma Window, evaluated by TLC in integer arithmetic with upward        *)
(* rounding).  So: every M output bytes cost at least one input byte of     *)
(* range-coder data, on top of the >= 18 (.lzma) or >= 11 per chunk (.xz)   *)
(* header/initialisation bytes, which produce nothing; an uncompressed XZ   *)
(* chunk produces fewer bytes than it occupies.  Therefore                  *)
(*     |output| <= M * |input|      with M = 42                             *)
(* for EVERY input, valid or not (the bound does not use the declared       *)
(* sizes at all).                                                           *)
(*                                                                         *)
(* The table of real Decode calls (harness/cmd/lzmareplay -mode total) is   *)
(* validated row by row: each row is an initial state, RowOK the invariant. *)
(***************************************************************************)
EXTENDS Integers, Sequences, TLC, Json

CONSTANT RowsFile

M == 42
PMin == 31
PMax == 2017

---------------------------------------------------------------------------
(* Lemma ProbClamp: model-check the probability update rule.                *)
VARIABLES p, k
ProbInit == p = 1024 /\ k = 0
ProbNext == /\ \/ p' = p + ((2048 - p) \div 32)
               \/ p' = p - (p \div 32)
            /\ UNCHANGED k
ProbSpec == ProbInit /\ [][ProbNext]_<<p, k>>
ProbClamp == p \in PMin..PMax

(* Lemma Window: 9*M decisions shrink the width by more than a factor 2^8.  *)
(* Fixed point arithmetic, scale 2^20, rounded UP after every step.         *)
RECURSIVE Shrink(_, _)
Shrink(w, n) == IF n = 0 THEN w ELSE Shrink(((w * (PMax + 1)) \div 2048) + 1, n - 1)
Window == Shrink(1048576, 9 * M) < 1048576 \div 256
ASSUME Window
\* ... and M is not needlessly large: 9*(M-4) decisions would not suffice
\* even with exact rounding down (so the bound is within 10% of tight).
RECURSIVE ShrinkDown(_, _)
ShrinkDown(w, n) == IF n = 0 THEN w ELSE ShrinkDown((w * PMax) \div 2048, n - 1)
ASSUME ShrinkDown(1048576, 9 * (M - 4)) > 1048576 \div 256

---------------------------------------------------------------------------
(* Table validation.  Row = [fmt, inlen, outlen, panicked, err, remlen,     *)
(* kind, ms] as written by the harness.                                     *)
Rows == JsonDeserialize(RowsFile)

RowOK(r) ==
    /\ r[4] = 0                     \* no panic
    /\ r[3] <= M * r[2]             \* |output| <= M * |input|

RowInit == k \in 1..Len(Rows) /\ p = 1024
RowNext == UNCHANGED <<p, k>>
RowSpec == RowInit /\ [][RowNext]_<<p, k>>
RowInv == RowOK(Rows[k])
=============================================================================

----------------------------- MODULE RangeCoderRare -----------------------------
(***************************************************************************)
(* C17: payloads that drive the reference encoder of RangeCoder.tla, from   *)
(* the reset state, into its rare states - DERIVED, not chosen: this is the *)
(* answer of the reachability query RangeCoderReach (every payload of       *)
(* length <= 2, directed search up to length 4, every payload of length     *)
(* <= 6 over a six-byte alphabet), reduced by the selection                 *)
(* rule in checks/C17.py (select_rare).  The thorough tier re-derives the   *)
(* list and refuses to run with a stale one; the quick tier re-confirms     *)
(* every entry against the encoder (RangeCoderReach!ConfirmSpec) and then   *)
(* uses the payloads and the boundary set of second bytes.                  *)
(*                                                                         *)
(* What short payloads reach (measured by TLC):                             *)
(*   low = 2^32 exactly at a ShiftLow    in the flush: 30 payloads of       *)
(*        length 2 (first byte 0x02..0x1F, second 0xBE); while coding: 240  *)
(*        payloads of length 3 (those followed by 0x00..0x07)               *)
(*   a carry into one pending 0xFF       in the flush: 127 payloads of      *)
(*        length 2 (even first byte >= 2, second 0x01); while coding:       *)
(*        length 4                                                          *)
(*   a carry into two pending 0xFF       length 4 (in the flush)            *)
(*   two pending 0xFF                    length 4                           *)
(*   range = 2^24 exactly after a decision   254 of the 256 payloads of     *)
(*        length 1 (not rare at all)                                        *)
(*   0xFF pending when the last byte of the flush is written                *)
(*        length 3 (e.g. 03 00 03; found by the deep search over the        *)
(*        alphabet {00, 01, 02, 03, 80, FF}, every payload up to length 6)  *)
(*   range = 2^24 - 1, cache byte 0xFF   not found by either search         *)
(***************************************************************************)
EXTENDS Integers, Sequences

RarePayloads == <<
    <<"exact32_flush", <<2, 190>>>>,
    <<"exact32_flush", <<3, 190>>>>,
    <<"exact32_flush", <<4, 190>>>>,
    <<"exact32_flush", <<5, 190>>>>,
    <<"exact32_flush", <<6, 190>>>>,
    <<"exact32_flush", <<7, 190>>>>,
    <<"exact32_flush", <<8, 190>>>>,
    <<"exact32_flush", <<9, 190>>>>,
    <<"exact32_flush", <<10, 190>>>>,
    <<"exact32_flush", <<11, 190>>>>,
    <<"exact32_flush", <<12, 190>>>>,
    <<"exact32_flush", <<13, 190>>>>,
    <<"exact32_flush", <<14, 190>>>>,
    <<"exact32_flush", <<15, 190>>>>,
    <<"exact32_flush", <<16, 190>>>>,
    <<"exact32_flush", <<17, 190>>>>,
    <<"exact32_flush", <<18, 190>>>>,
    <<"exact32_flush", <<19, 190>>>>,
    <<"exact32_flush", <<20, 190>>>>,
    <<"exact32_flush", <<21, 190>>>>,
    <<"exact32_flush", <<22, 190>>>>,
    <<"exact32_flush", <<23, 190>>>>,
    <<"exact32_flush", <<24, 190>>>>,
    <<"exact32_flush", <<25, 190>>>>,
    <<"exact32_flush", <<26, 190>>>>,
    <<"exact32_flush", <<27, 190>>>>,
    <<"exact32_flush", <<28, 190>>>>,
    <<"exact32_flush", <<29, 190>>>>,
    <<"exact32_flush", <<30, 190>>>>,
    <<"exact32_flush", <<31, 190>>>>,
    <<"exact32", <<2, 190, 0>>>>,
    <<"exact32", <<2, 190, 7>>>>,
    <<"exact32", <<3, 190, 0>>>>,
    <<"exact32", <<3, 190, 7>>>>,
    <<"exact32", <<4, 190, 0>>>>,
    <<"exact32", <<4, 190, 7>>>>,
    <<"exact32", <<5, 190, 0>>>>,
    <<"exact32", <<5, 190, 7>>>>,
    <<"exact32", <<6, 190, 0>>>>,
    <<"exact32", <<6, 190, 7>>>>,
    <<"exact32", <<7, 190, 0>>>>,
    <<"exact32", <<7, 190, 7>>>>,
    <<"exact32", <<8, 190, 0>>>>,
    <<"exact32", <<8, 190, 7>>>>,
    <<"exact32", <<9, 190, 0>>>>,
    <<"exact32", <<9, 190, 7>>>>,
    <<"exact32", <<10, 190, 0>>>>,
    <<"exact32", <<10, 190, 7>>>>,
    <<"exact32", <<11, 190, 0>>>>,
    <<"exact32", <<11, 190, 7>>>>,
    <<"exact32", <<12, 190, 0>>>>,
    <<"exact32", <<12, 190, 7>>>>,
    <<"exact32", <<13, 190, 0>>>>,
    <<"exact32", <<13, 190, 7>>>>,
    <<"exact32", <<14, 190, 0>>>>,
    <<"exact32", <<14, 190, 7>>>>,
    <<"exact32", <<15, 190, 0>>>>,
    <<"exact32", <<15, 190, 7>>>>,
    <<"exact32", <<16, 190, 0>>>>,
    <<"exact32", <<16, 190, 7>>>>,
    <<"exact32", <<17, 190, 0>>>>,
    <<"exact32", <<17, 190, 7>>>>,
    <<"exact32", <<18, 190, 0>>>>,
    <<"exact32", <<18, 190, 7>>>>,
    <<"exact32", <<19, 190, 0>>>>,
    <<"exact32", <<19, 190, 7>>>>,
    <<"exact32", <<20, 190, 0>>>>,
    <<"exact32", <<20, 190, 7>>>>,
    <<"exact32", <<21, 190, 0>>>>,
    <<"exact32", <<21, 190, 7>>>>,
    <<"exact32", <<22, 190, 0>>>>,
    <<"exact32", <<22, 190, 7>>>>,
    <<"exact32", <<23, 190, 0>>>>,
    <<"exact32", <<23, 190, 7>>>>,
    <<"exact32", <<24, 190, 0>>>>,
    <<"exact32", <<24, 190, 7>>>>,
    <<"exact32", <<25, 190, 0>>>>,
    <<"exact32", <<25, 190, 7>>>>,
    <<"exact32", <<26, 190, 0>>>>,
    <<"exact32", <<26, 190, 7>>>>,
    <<"exact32", <<27, 190, 0>>>>,
    <<"exact32", <<27, 190, 7>>>>,
    <<"exact32", <<28, 190, 0>>>>,
    <<"exact32", <<28, 190, 7>>>>,
    <<"exact32", <<29, 190, 0>>>>,
    <<"exact32", <<29, 190, 7>>>>,
    <<"exact32", <<30, 190, 0>>>>,
    <<"exact32", <<30, 190, 7>>>>,
    <<"exact32", <<31, 190, 0>>>>,
    <<"exact32", <<31, 190, 7>>>>,
    <<"carry_pend_flush", <<2, 1>>>>,
    <<"carry_pend_flush", <<4, 1>>>>,
    <<"carry_pend_flush", <<6, 1>>>>,
    <<"carry_pend_flush", <<8, 1>>>>,
    <<"carry_pend_flush", <<10, 1>>>>,
    <<"carry_pend_flush", <<12, 1>>>>,
    <<"carry_pend_flush", <<14, 1>>>>,
    <<"carry_pend_flush", <<252, 1>>>>,
    <<"carry_pend_flush", <<254, 1>>>>,
    <<"carry_pend_flush", <<2, 68, 2, 1>>>>,
    <<"carry_pend_flush", <<2, 68, 2, 2>>>>,
    <<"carry_pend_flush", <<2, 68, 2, 3>>>>,
    <<"carry_pend_flush", <<2, 68, 2, 4>>>>,
    <<"carry_pend_flush", <<2, 68, 2, 5>>>>,
    <<"carry_pend_flush", <<2, 68, 2, 6>>>>,
    <<"carry_pend", <<2, 0, 128>>>>,
    <<"carry_pend", <<2, 1, 0>>>>,
    <<"carry_pend", <<2, 1, 128>>>>,
    <<"carry_pend", <<128, 0, 128>>>>,
    <<"carry_pend", <<128, 1, 0>>>>,
    <<"carry_pend", <<128, 1, 128>>>>,
    <<"pend_flush", <<2>>>>,
    <<"pend_flush", <<4>>>>,
    <<"pend_flush", <<6>>>>,
    <<"pend_flush", <<0, 20>>>>,
    <<"pend_flush", <<0, 90>>>>,
    <<"pend_flush", <<0, 124>>>>,
    <<"pend_flush", <<0, 128>>>>,
    <<"pend_flush", <<1, 20>>>>,
    <<"pend_flush", <<1, 90>>>>,
    <<"pend_flush", <<1, 92>>>>,
    <<"pend", <<2, 68, 2, 0>>>>,
    <<"pend", <<2, 68, 2, 1>>>>,
    <<"pend", <<2, 68, 2, 2>>>>,
    <<"pend", <<2, 68, 2, 3>>>>,
    <<"pend", <<2, 68, 2, 4>>>>,
    <<"pend", <<2, 68, 2, 5>>>>,
    <<"eq24", <<2>>>>,
    <<"eq24", <<3>>>>,
    <<"pend_last", <<3, 0, 3>>>>,
    <<"pend_last", <<3, 1, 3>>>>,
    <<"pend_last", <<0, 1, 0, 2, 0, 2>>>>,
    <<"pend_last", <<0, 1, 0, 2, 0, 3>>>>,
    <<"pend_last", <<0, 1, 0, 3, 0, 2>>>>,
    <<"pend_last", <<0, 1, 0, 3, 0, 3>>>>
>>

(* Second bytes b for which some 2-byte payload (a, b) shows any of the     *)
(* events above, plus the bit-pattern boundaries 0x55 0x7F 0xAA 0xFE 0xFF.  *)
BoundarySeconds == {0, 1, 7, 20, 68, 72, 76, 80, 85, 90, 92, 96, 100, 104, 124, 127, 128, 170, 190, 223, 254, 255}
(* The subset used for the (expensive) zero-padded .xz rows of the quick    *)
(* tier: the exact-2^32 byte, the carry-into-pending byte, one pending-run  *)
(* byte and the extremes.                                                   *)
BoundarySecondsSmall == {0, 1, 68, 128, 190, 255}
=============================================================================

----------------------------- MODULE IOClauses -----------------------------
(***************************************************************************)
(* Clause operators of the I/O contract over one recorded call event `e`   *)
(* (a record as logged by harness/c/stddrive.c; DESIGN.md appendix A.1).   *)
(* Written against doc/note/io-input-output.md and doc/note/statuses.md.   *)
(* Used by Trace_Std.tla / Trace_Proto.tla to accept or reject what the     *)
(* real code did, and by IOContract.tla's closed model.                     *)
(***************************************************************************)
EXTENDS Integers, FiniteSets, Sequences, TLC

ShortRead  == "$base: short read"
ShortWrite == "$base: short write"
ShortWorkbuf == "$base: short workbuf"

HasSrc(e) == "sri0" \in DOMAIN e
HasDst(e) == "dri0" \in DOMAIN e

\* 0 <= ri <= wi <= len on every I/O buffer after the call
IdxOrdered(e) ==
    /\ HasSrc(e) => (0 <= e.sri1 /\ e.sri1 <= e.swi1 /\ e.swi1 <= e.slen)
    /\ HasDst(e) => (0 <= e.dri1 /\ e.dri1 <= e.dwi1 /\ e.dwi1 <= e.dlen)

\* the source's read index never moves backwards
SrcRiMonotone(e) == HasSrc(e) => e.sri1 >= e.sri0
\* the destination's write index never moves backwards
DstWiMonotone(e) == HasDst(e) => e.dwi1 >= e.dwi0
\* the callee is a reader of src: wi, closed, pos and the bytes are the caller's
SrcUnchanged(e) == HasSrc(e) => (e.swi1 = e.swi0 /\ e.scl1 = e.scl0 /\ e.spos_same /\ e.ssame)
\* destination bytes written before the call are unchanged; ri, pos, closed are the caller's
DstPrefixUnchanged(e) == HasDst(e) => e.dsame
DstRiUnchanged(e) == HasDst(e) => (e.dri1 = e.dri0 /\ e.dpos_same /\ e.dcl_same)

StatusClassLegal(e) == e.cls \in {"ok", "note", "susp", "err"}
NoInternalError(e) == ~e.internal

\* never a short read on a closed, fully-supplied input
ShortReadJustified(e) == (HasSrc(e) /\ e.st = ShortRead) => ~e.scl0
\* never a short write with no byte written into an empty ample destination
ShortWriteJustified(e, ample) ==
    (HasDst(e) /\ e.st = ShortWrite) => ~(e.dwi0 = 0 /\ e.dlen >= ample /\ e.dwi1 = e.dwi0)
\* a short read / write is only returned by calls that have such a buffer
SuspensionHasBuffer(e) == /\ (e.st = ShortRead => HasSrc(e))
                          /\ (e.st = ShortWrite => (HasDst(e) \/ "twi1" \in DOMAIN e))

NoAllocInCall(e) == e.al = 0

\* C01 on std (hook H3, the "checked build"): during the call no run-time assertion of a range that the compiler
\* derived at compile time (the MBounds of an index, slice bound, non-modular arithmetic result, conversion,
\* divisor, shift amount, argument, stored or returned value) failed.  Events of the other builds carry no
\* "range_viol" field and satisfy the clause vacuously.
ClaimedRangesHold(e) == ("range_viol" \in DOMAIN e) => (e.range_viol = 0)

ClauseNames == {"IdxOrdered", "SrcRiMonotone", "DstWiMonotone", "SrcUnchanged", "DstPrefixUnchanged",
                "DstRiUnchanged", "StatusClassLegal", "NoInternalError", "ShortReadJustified",
                "ShortWriteJustified", "SuspensionHasBuffer", "NoAllocInCall", "ClaimedRangesHold"}

Holds(name, e, ample) ==
    CASE name = "IdxOrdered" -> IdxOrdered(e)
      [] name = "SrcRiMonotone" -> SrcRiMonotone(e)
      [] name = "DstWiMonotone" -> DstWiMonotone(e)
      [] name = "SrcUnchanged" -> SrcUnchanged(e)
      [] name = "DstPrefixUnchanged" -> DstPrefixUnchanged(e)
      [] name = "DstRiUnchanged" -> DstRiUnchanged(e)
      [] name = "StatusClassLegal" -> StatusClassLegal(e)
      [] name = "NoInternalError" -> NoInternalError(e)
      [] name = "ShortReadJustified" -> ShortReadJustified(e)
      [] name = "ShortWriteJustified" -> ShortWriteJustified(e, ample)
      [] name = "SuspensionHasBuffer" -> SuspensionHasBuffer(e)
      [] name = "NoAllocInCall" -> NoAllocInCall(e)
      [] name = "ClaimedRangesHold" -> ClaimedRangesHold(e)

Violated(e, ample) == { c \in ClauseNames : ~Holds(c, e, ample) }

=============================================================================

--------------------------- MODULE FlateCutShapes ---------------------------
(***************************************************************************)
(* C16 part (c): the universe of stream SHAPES that the driver             *)
(* (harness/cmd/cutreplay) realises as concrete DEFLATE / zlib streams,     *)
(* and the limit CLASSES each shape obliges the driver to reach.            *)
(*                                                                         *)
(* Two families:                                                           *)
(*  gen = "bw": a sequence of 1..MaxLen block kinds written by the          *)
(*    hand-written bit-writer (the last block is the final one):            *)
(*      S0 stored, length 0 (as a sync-flush marker, or Go's terminator)   *)
(*      S  stored with data                                                *)
(*      F0 fixed Huffman, empty (zlib's partial-flush marker / final block)*)
(*      F  fixed Huffman with literals and copies                          *)
(*      D0 dynamic Huffman, empty, literal tree = only the end code         *)
(*      D  dynamic Huffman, complete trees                                 *)
(*      D1 dynamic, distance tree = one code of one bit (degenerate)       *)
(*      DL dynamic, 15-bit codes, the end-of-block code among them          *)
(*      DZ dynamic, literals only, "one distance code of zero bits"         *)
(*  gen = "go": compress/flate resp. compress/zlib at a level (0..9,        *)
(*    10 = HuffmanOnly), fed 1..3 payload segments of a class, with a       *)
(*    Flush() pattern (none | between the segments | after every segment).  *)
(* zlib shapes may carry a preset dictionary.                              *)
(*                                                                         *)
(* A limit class <<i, where>> says in which block (i = 0: the whole stream  *)
(* fits) and where in it maxEncodedLen falls:                              *)
(*   0 limit = length, 1 limit > length, 2 the block's header does not fit, *)
(*   3 the header fits but no symbol (plus end-of-block code) does,         *)
(*   4 some symbols fit, 5 as 4 but a symbol that fits is dropped to leave  *)
(*   room for the end-of-block code.                                       *)
(* Every limit from the minimum to length + 2 is tried anyway; the classes  *)
(* are what the runner reports as reached / not reached.                   *)
(*                                                                         *)
(* TLC enumerates <<shape, class>> as initial states and writes the shapes  *)
(* (with their classes) to ExportFile.                                     *)
(***************************************************************************)
EXTENDS Integers, Sequences, FiniteSets, TLC, Json, SequencesExt

CONSTANTS MaxLen,      \* bw: number of blocks
          MaxDictLen,  \* bw with preset dictionary: number of blocks
          Levels,      \* go: compression levels
          MaxSegs,     \* go: number of segments
          ExportFile

Kinds == {"S0", "S", "F0", "F", "D0", "D", "D1", "DL", "DZ"}
SegClasses == {"text", "short", "rand", "rep", "empty"}
Flushes == {"none", "between", "all"}

SeqsFromTo(A, lo, hi) == UNION { [1..n -> A] : n \in lo..hi }

Where(kind) ==
    CASE kind = "S0" -> {2}
      [] kind = "S"  -> {2, 3, 4}
      [] kind \in {"F0", "D0"} -> {2, 3}
      [] OTHER -> {2, 3, 4, 5}

BwClasses(ks) == { c \in (1..Len(ks)) \X (2..5) : c[2] \in Where(ks[c[1]]) }
Fits == { <<0, 0>>, <<0, 1>> }

BwShapes ==
    { [gen |-> "bw", fmt |-> f, dict |-> FALSE, kinds |-> ks, level |-> 0, segs |-> <<>>, flush |-> "none",
       classes |-> BwClasses(ks) \cup Fits] : f \in {"flate", "zlib"}, ks \in SeqsFromTo(Kinds, 1, MaxLen) }
    \cup
    { [gen |-> "bw", fmt |-> "zlib", dict |-> TRUE, kinds |-> ks, level |-> 0, segs |-> <<>>, flush |-> "none",
       classes |-> BwClasses(ks) \cup Fits] : ks \in SeqsFromTo(Kinds, 1, MaxDictLen) }

\* Which blocks compress/flate makes of the segments is decided by the
\* encoder; the obligations of a "go" shape are therefore position-free.
GoClasses == { <<1, wh>> : wh \in 2..5 } \cup Fits

FmtDict == { <<"flate", FALSE>>, <<"zlib", FALSE>>, <<"zlib", TRUE>> }

GoShapes ==
    { [gen |-> "go", fmt |-> fd[1], dict |-> fd[2], kinds |-> <<>>, level |-> l, segs |-> sg, flush |-> fl,
       classes |-> GoClasses] : fd \in FmtDict, l \in Levels, sg \in SeqsFromTo(SegClasses, 1, MaxSegs), fl \in Flushes }

Shapes == BwShapes \cup GoShapes

ShapeSeq == SetToSeq(Shapes)

ASSUME ExportFile = "none" \/ JsonSerialize(ExportFile, ShapeSeq)

VARIABLES sh, cl

Init == sh \in Shapes /\ cl \in sh.classes
Next == UNCHANGED <<sh, cl>>
Spec == Init /\ [][Next]_<<sh, cl>>

\* Every shape ends in a final block and names only known kinds / classes.
ShapeOK ==
    /\ sh.gen = "bw" => (Len(sh.kinds) \in 1..MaxLen /\ \A j \in 1..Len(sh.kinds) : sh.kinds[j] \in Kinds)
    /\ sh.gen = "go" => (Len(sh.segs) \in 1..MaxSegs /\ sh.level \in Levels)
    /\ sh.dict => sh.fmt = "zlib"
    /\ cl[1] \in 0..MaxLen /\ cl[2] \in 0..5
=============================================================================

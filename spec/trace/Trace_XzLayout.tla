--------------------------- MODULE Trace_XzLayout ---------------------------
(***************************************************************************)
(* C17, Mode V: the events that the independent walker parsed out of        *)
(* litonlylzma's Encode output are validated against XzLayout / LzmaAlone.  *)
(*                                                                         *)
(* trace.ndjson holds many traces one after the other.  Each starts with a  *)
(* "reset" event (format, payload length, file length, Encode's outcome)    *)
(* and ends with an "eof" event that also carries the terminal conditions   *)
(* of the property, observed on the real code by the harness:               *)
(*   rt    = "ok"  iff  Decode(Encode(x)) returned x without error          *)
(*   rem   = length of the remaining-source slice Decode returned           *)
(*   xz    = "ok"  iff  `xz -dc --format=...` accepted the file and wrote x *)
(*           ("xz_unavailable" when the tool is not installed)              *)
(*   wuffs = "ok"  iff  the Wuffs std/lzma resp. std/xz decoder (C freshly  *)
(*           generated from the working tree) accepted the file and wrote x *)
(*                                                                         *)
(* A trace is accepted iff every event is matched by an action (IsEvent     *)
(* idiom); the whole file is accepted iff the behaviour reaches the last    *)
(* event: TraceAccepted, a POSTCONDITION on TLC's diameter.  The state      *)
(* graph is a single path, so the diameter is the length of the matched     *)
(* prefix + 1; on rejection it names the first unmatched event.             *)
(***************************************************************************)
EXTENDS XzLayout, LzmaAlone, Json

CONSTANT TraceFile

Trace == ndJsonDeserialize(TraceFile)

VARIABLES i,      \* index of the next event
          fmt,    \* "xz" / "lzma" / "none"
          plen,   \* payload length of the current trace
          flen    \* length of the encoded file of the current trace

tvars == <<i, fmt, plen, flen>>

TraceInit == i = 1 /\ fmt = "none" /\ plen = 0 /\ flen = 0 /\ XzIdle /\ LzIdle

IsEvent(name) == i <= Len(Trace) /\ Trace[i].ev = name /\ i' = i + 1

\* The terminal conditions of the property (first sentence of C17).
TerminalOK(e) ==
    /\ e.rt = "ok" /\ e.rem = 0
    /\ e.xz \in {"ok", "xz_unavailable"}
    /\ e.wuffs = "ok"

\* Between traces: the previous one must be complete.
TraceReset ==
    /\ IsEvent("reset")
    /\ \/ fmt = "none"
       \/ fmt = "xz" /\ phase = "done"
       \/ fmt = "lzma" /\ lphase = "done"
    /\ LET e == Trace[i] IN
        /\ e.encode = "ok"                    \* Encode must not fail or panic
        /\ fmt' = e.fmt /\ plen' = e.plen /\ flen' = e.flen
        /\ IF e.fmt = "xz" THEN XzGoto("stream") /\ LzGoto("idle") ELSE XzGoto("idle") /\ LzGoto("header")

XzEvents == {"sheader", "bheader", "chunk", "cend", "bpad", "check", "ihead", "irec", "iend", "footer", "spad"}

TraceXz ==
    /\ fmt = "xz"
    /\ \E n \in XzEvents : IsEvent(n)
    /\ XzStep(Trace[i], flen, plen)
    /\ UNCHANGED <<fmt, plen, flen, lzvars>>

TraceLz ==
    /\ fmt = "lzma"
    /\ (IsEvent("lheader") \/ IsEvent("lpayload"))
    /\ LzStep(Trace[i], flen, plen)
    /\ UNCHANGED <<fmt, plen, flen, xzvars>>

TraceEof ==
    /\ IsEvent("eof")
    /\ TerminalOK(Trace[i])
    /\ \/ fmt = "xz" /\ XzEof(Trace[i], flen, plen) /\ UNCHANGED lzvars
       \/ fmt = "lzma" /\ LEof(Trace[i], flen) /\ UNCHANGED xzvars
    /\ UNCHANGED <<fmt, plen, flen>>

TraceNext == TraceReset \/ TraceXz \/ TraceLz \/ TraceEof

TraceSpec == TraceInit /\ [][TraceNext]_<<tvars, xzvars, lzvars>>

\* Nothing but the reset of the next trace may follow a finished trace, and
\* the file must not end in the middle of one.
Complete == i = Len(Trace) + 1 => (fmt = "none" \/ (fmt = "xz" /\ phase = "done") \/ (fmt = "lzma" /\ lphase = "done"))

TraceAccepted ==
    LET d == TLCGet("stats").diameter IN
    IF d - 1 = Len(Trace) THEN TRUE
    ELSE Print(<<"TRACE-REJECTED matched", d - 1, "of", Len(Trace), "next", Trace[d]>>, FALSE)
=============================================================================

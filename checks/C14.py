"""C14 - RAC random access equals slicing the full decode, single-threaded or concurrent.

Mode R + V (DESIGN.md section 5, C14):

 * spec/RacReader.tla     the in-memory reader that a rac.Reader must equal; TLC enumerates every
                          call sequence of length 4 (quick) / 5 (thorough) over per-file alphabets
                          and exports it with the expected reply of every call;
 * spec/RacFile.tla       the FILE dimension: the geometry of a valid RAC file in DSpace (chunk
                          boundaries, bytes stored per chunk, Codec per chunk, the Root Node's split)
                          as the constant RacReader reads.  Files come from rac.Writer + raczlib, from
                          rac.ChunkWriter (> 65025 chunks) and from a builder of structurally diverse
                          valid files (harness/cmd/racrreplay/build.go: Zeroes / Zlib / LZ4 / Zstandard
                          chunks mixed in one file, index trees of arity 1-3 and depth 3-4, Root Node at
                          the start or the end, padding, CBiasing sub-trees, shared dictionaries,
                          empty-DRange elements, Codec Elements, Long Codecs, mixed Leaf/Branch
                          siblings).  Every built file is walked by the independent walker of C13
                          (cmd/racwreplay) and judged by Trace_RacFormat.tla before it is used, and its
                          Leaf Nodes must equal the description;
 * spec/RacConc.tla       conc_reader.go, one action per channel operation; TLC checks deadlock
                          freedom inside calls, ByteAtPos, ReplyOK, buffer ownership, AfterClose;
                          the unchanged code's defects come out as counterexamples, the FIXEDn
                          constants select the behaviour of findings/C14-*.patch;
 * spec/Trace_RacConc.tla per-goroutine event logs of the real code (hook H2, if the tree has it)
                          must be an interleaving that RacConc allows;
 * harness/cmd/racrreplay drives the real rac.Reader: every exported script with Concurrency 0,
                          a seeded sample (+ every model counterexample) with Concurrency 1, 2, 4
                          built with -race, watchdog, goroutine-leak check, sequential oracle.
"""
import json, os, re, subprocess, threading, time, itertools
from concurrent.futures import ThreadPoolExecutor
import vlib
from vlib import ToolingError

META = {
    "level": "model_checking",
    "technique": "TLA+ specifications RacReader (in-memory reader oracle over a file geometry, RacFile), RacConc (conc_reader.go, one action per channel operation) and Trace_RacConc, checked by TLC; bound to lib/rac by replay of every TLC-exported call sequence on the real Reader (Concurrency 0, and 1/2/4 under -race with watchdog, leak check, oracle) and by validation of per-goroutine event logs (hook H2) against RacConc",
    "text": "Every call sequence of length 4 (quick) / 5 (thorough) over per-file alphabets (offsets at chunk boundaries +-1, 0, dsize +-1, negatives; buffer lengths 0, 1, chunk-1, chunk, chunk+1, all; all whences; SeekRange incl. low > high) on files of 1-5 chunks, implicit zero tails, an all-zero chunk, multi-level indexes and chunks larger than the worker buffer (rac.Writer), a 66000-chunk three-level index (rac.ChunkWriter) and structurally diverse valid files laid out from abstract descriptions (Zeroes-codec chunks between / after / next to Zlib chunks, LZ4 and Zstandard chunks, 3-5 level indexes of arity 1-3 with the Root Node at the start and at the end, >= 3 top-level branches, mixed Leaf/Branch siblings, CBiasing sub-trees, padding, shared dictionaries, empty-DRange and Codec elements, a Long Codec; each validated by the independent walker + Trace_RacFormat.tla; alphabets include positions strictly inside Zeroes chunks and in the 2nd/3rd top-level sub-tree) is exported by TLC with the in-memory reader's reply and replayed on the real rac.Reader; RacConc is model-checked exhaustively for N=1 (and N=2 at smaller bounds) for deadlock inside a call, byte-at-pos, reply, buffer ownership and termination after Close; the real concurrent reader is replayed under -race on a seeded sample plus every model counterexample and, with hook H2, its channel-level event logs are accepted by the model.",
    "note": "Trusted: TLC, the JSON transport, harness/cmd/racrreplay (drives and compares with the transported expectation only), Go's race detector and runtime.NumGoroutine. Real schedules are sampled (seeded perturbation), only the model explores all interleavings. Valid files only (hostile files are C15): from rac.Writer+raczlib, rac.ChunkWriter and the harness's file builder (a fixed list of file classes; the file geometry is the constant of spec/RacFile.tla); CloseWithoutWaiting is not driven.",
}

KEY_STALE = "stale-state-after-stop"
KEY_RAISE = "limit-raised-without-move"
KEY_LOWER = "limit-lowered-without-move"
KEY_EOF = "sticky-eof-concurrent"
KEY_STALEWORK = "stale-work-served-after-stop"     # same root cause and patch as KEY_STALE; timing dependent
FINDINGS = os.path.join(vlib.VERIF, "findings")
WITNESS = {KEY_STALE: "C14-stale-roi.json", KEY_RAISE: "C14-limit-raise.json",
           KEY_LOWER: "C14-limit-lower.json", KEY_EOF: "C14-sticky-eof.json"}
RBUF = 65536


# ----------------------------------------------------------------------------- small helpers
def tla(v):
    if isinstance(v, bool):
        return "TRUE" if v else "FALSE"
    if isinstance(v, int):
        return str(v)
    if isinstance(v, str):
        return '"%s"' % v
    if isinstance(v, (list, tuple)):
        return "<<" + ", ".join(tla(x) for x in v) + ">>"
    if isinstance(v, dict):
        return "[" + ", ".join("%s |-> %s" % (k, tla(x)) for k, x in v.items()) + "]"
    raise ValueError(repr(v))


def tset(vs):
    return "{" + ", ".join(tla(x) for x in vs) + "}"


def untla(text):
    """A TLA+ value made of tuples, strings and integers -> Python lists."""
    return json.loads(text.replace("<<", "[").replace(">>", "]"))


def last_hist(out):
    """The value of `hist` in the last state of a TLC error trace."""
    i = out.rfind("/\\ hist = ")
    if i < 0:
        return None
    rest = out[i + len("/\\ hist = "):]
    m = re.search(r"\n(/\\ |\n|State |\d+ states)", rest)
    val = rest[:m.start()] if m else rest
    return untla(" ".join(val.split()))


def fmt_call(c):
    op = c[0]
    if op == 0:
        return "Read(%d)" % c[1]
    if op == 1:
        return "Seek(%d,%s)" % (c[1], {0: "Start", 1: "Current", 2: "End"}.get(c[2], "whence=%d" % c[2]))
    if op == 2:
        return "SeekRange(%d,%d)" % (c[1], c[2])
    return "Close"


def fmt_script(h):
    return "; ".join(fmt_call(c) for c in h)


# ----------------------------------------------------------------------------- files
def file_descs(ctx):
    s = ctx.seed
    fs = [
        {"id": "c1", "size": 7, "dchunk": 8, "zmode": 0, "index_start": False, "seed": s * 10 + 1},
        {"id": "c2", "size": 8, "dchunk": 4, "zmode": 1, "index_start": False, "seed": s * 10 + 2},
        {"id": "c3", "size": 11, "dchunk": 4, "zmode": 1, "index_start": True, "seed": s * 10 + 3},
        {"id": "c5", "size": 20, "dchunk": 4, "zmode": 2, "index_start": False, "seed": s * 10 + 4},
        {"id": "ml", "size": 900, "dchunk": 3, "zmode": 1, "index_start": False, "seed": s * 10 + 5},
        {"id": "m4", "size": 40000, "dchunk": 100, "zmode": 1, "index_start": False, "seed": s * 10 + 6},
        {"id": "b3", "size": 3 * 98304, "dchunk": 98304, "zmode": 0, "index_start": False, "seed": s * 10 + 7},
        {"id": "b2", "size": 2 * 262144 + 70000, "dchunk": 262144, "zmode": 1, "index_start": True, "seed": s * 10 + 8},
    ]
    if ctx.tier == "thorough":
        fs += [
            {"id": "c4", "size": 14, "dchunk": 4, "zmode": 2, "index_start": True, "seed": s * 10 + 9},
            {"id": "mk", "size": 2600, "dchunk": 5, "zmode": 2, "index_start": True, "seed": s * 10 + 10},
        ]
    return fs


def explicit_rule(k, size, z):
    """RacReader!Explicit (k = 0-based chunk index): cross-checked against the real data."""
    if z == 0:
        return size
    if z >= 2 and k % 5 == 3:
        return 0
    if k % 3 == 1:
        return size // 2
    if k % 3 == 2 and size > 1:
        return size - 1
    return size


# ----------------------------------------------------------------------------- the file dimension
def N(*e, **kw):
    """A Branch Node of a built file's index (see harness/cmd/racrreplay/build.go)."""
    d = {"e": list(e)}
    d.update(kw)
    return d


def built_descs(ctx):
    """Structurally diverse valid files.  runs = [n, size, explicit, codec] (codec 0 Zeroes, 1 Zlib,
    2 LZ4, 3 Zstandard); tree = the index, Leaf Nodes by chunk number."""
    s = ctx.seed
    fs = []

    def F(fid, runs, tree, **kw):
        d = {"id": fid, "kind": "built", "seed": s * 100 + len(fs) + 11, "runs": runs, "tree": tree}
        d.update(kw)
        fs.append(d)
    # a Zeroes chunk between two Zlib chunks; Leaf and Branch siblings; Root Node at the end
    F("z1", [[1, 8, 8, 1], [1, 8, 0, 0], [1, 8, 5, 1]], N(0, N(1), 2, hdr=True))
    # two adjacent Zeroes chunks, a Zeroes chunk last (Long Codec, Codec Element), an empty Leaf element,
    # four top-level branches; Root Node at the start
    F("z2", [[1, 4, 4, 1], [1, 6, 0, 0], [1, 3, 0, 0], [1, 5, 2, 1], [1, 7, 0, 0]],
      N(N(0), N(1, 2), "eleaf", N(3), N("ecodec", 4, long=True), pre=True))
    # three levels, arity 1-3, three top-level branches, padding to 16; Root Node at the end
    F("d3", [[1, 3, 3, 1], [1, 4, 2, 1], [1, 5, 5, 1], [1, 3, 0, 1], [2, 4, 4, 1], [1, 6, 3, 1], [1, 3, 3, 1], [1, 5, 5, 1], [1, 4, 4, 1],
             [1, 3, 1, 1], [1, 6, 6, 1]],
      N(N(N(0, 1), N(2, 3)), N(N(4, 5), N(6, 7, 8)), N(N(9), N(10, 11)), hdr=True), page=16)
    # three levels, Leaf and Branch siblings at two levels, a shared dictionary; Root Node at the start
    F("d3s", [[1, 4, 4, 1], [1, 3, 3, 1], [1, 5, 2, 1], [1, 4, 4, 1], [1, 3, 3, 1], [1, 6, 6, 1], [1, 4, 0, 1], [1, 5, 5, 1], [1, 3, 2, 1], [1, 4, 4, 1]],
      N(0, N(N(1, 2), 3, N(4, 5)), N(6, N("res", 7, 8)), 9, pre=True))
    # four levels with chains of arity-1 nodes (legal only with the Root Node at the end), three top-level branches
    F("d4", [[1, 3, 3, 1], [1, 4, 4, 1], [1, 5, 2, 1], [1, 3, 3, 1], [1, 4, 4, 1], [1, 6, 6, 1], [1, 3, 0, 1], [1, 5, 5, 1], [1, 4, 3, 1]],
      N(N(N(N(0, 1)), N(N(2), N(3, 4))), N(N(N(5, 6), 7)), N(N(N(8))), hdr=True))
    # four levels, binary, empty Branch / Leaf elements, a Codec Element in a Short Codec node, two Zeroes
    # chunks at the fourth level of the second top-level branch, padding to 64; Root Node at the start
    F("d4s", [[10, 3, 3, 1], [2, 4, 0, 0], [2, 5, 4, 1], [2, 3, 3, 1]],
      N(N(N(N(0, 1), N(2, "ebranch", 3)), N(N(4, 5), "eleaf", N(6, 7))),
        N(N(N(8, 9), N(10, 11)), "ecodec", N(N(12, 13), N(14, 15))), pre=True), page=64)
    # concatenation (rac-spec.md, third example): three RAC files, each a CBiasing child of a new Root Node at
    # the end: non-zero CBias and DBias; the first one starts the CFile with its own (now obsolete) root; the
    # second one is itself a concatenation (a CBiasing child inside a CBiasing child: the biases add up)
    F("cb", [[1, 11, 11, 1], [1, 11, 11, 1], [1, 13, 13, 1], [1, 6, 6, 1], [1, 5, 2, 1], [1, 4, 4, 1], [1, 9, 0, 0]],
      N(N("res", 0, 1, 2, bias=True, pre=True), N(3, N(4, 5, bias=True, pre=True), bias=True, pre=False, hdr=True), N(6, bias=True, pre=True)))
    # a Zeroes chunk of several worker buffers between two Zlib chunks larger than a buffer
    F("zb", [[1, 70000, 70000, 1], [1, 200000, 0, 0], [1, 70000, 40000, 1]], N(N(0), N(1), N(2), hdr=True))
    # all four Short Codecs in one file
    F("lz", [[1, 9, 9, 1], [1, 8, 8, 2], [1, 6, 3, 2], [1, 7, 7, 3], [1, 8, 4, 3], [1, 5, 0, 0]], N(N(0), N(1, 2), N(3, 4), N(5), hdr=True))
    # the repository's own index builder beyond two levels: 66000 chunks = 259 + 2 + 1 Branch Nodes
    fs.append({"id": "big", "kind": "chunkwriter", "seed": s * 100 + 1, "runs": [[40000, 2, 2, 1], [26000, 3, 1, 1]], "index_start": False})
    # two seeded random members of the structural space per run (Root Node at the start / at the end)
    rr = __import__("random").Random(ctx.seed * 7919 + 17)
    fs.append(random_desc(rr, "rs", s * 100 + 3, True))
    fs.append(random_desc(rr, "re", s * 100 + 4, False))
    if ctx.tier == "thorough":
        fs.append(random_desc(rr, "rs2", s * 100 + 5, True))
        fs.append(random_desc(rr, "re2", s * 100 + 6, False))
        # five levels of arity 1-2; Root Node at the end
        F("d5", [[6, 3, 3, 1], [1, 4, 0, 0], [5, 3, 2, 1]],
          N(N(N(N(N(0, 1), N(2)), N(N(3))), N(N(N(4, 5)))), N(N(N(N(6), N(7, 8)))), N(N(N(N(9)), N(N(10, 11)))), hdr=True), page=32)
        fs.append({"id": "bigs", "kind": "chunkwriter", "seed": s * 100 + 2, "runs": [[65026, 3, 3, 1], [300, 2, 1, 1]], "index_start": True, "page": 4096})
    return fs


def random_desc(rng, fid, seed, pre):
    """A seeded random member of the structural space: an index of 3-4 levels with arity 1-3 (at least two
    children with data per node when the Root Node is at the start: the format's anti-loop rule), Leaf and
    Branch siblings, Zlib and Zeroes nodes, implicit zero tails, empty elements, shared dictionaries."""
    while True:
        runs = []

        def leaf(codec):
            size = rng.choice([1, 2, 3, 4, 5, 7])
            runs.append([1, size, 0 if codec == 0 else rng.choice([size, size, size, size // 2, 0, size - 1]), codec])
            return len(runs) - 1

        def node(depth):
            codec = rng.choice([1, 1, 1, 0])
            els = ["res"] if codec == 1 and rng.random() < 0.2 else []
            for _ in range(rng.randint(2 if pre else 1, 3)):
                if depth > 1 and rng.random() < (0.8 if depth > 2 else 0.5):
                    els.append(node(depth - 1))
                else:
                    els.append(leaf(codec))
                if rng.random() < 0.12:
                    els.append(rng.choice(["eleaf", "ebranch"]))
            return N(*els)

        def depth_of(n):
            return 1 + max([depth_of(e) for e in n["e"] if isinstance(e, dict)] or [0])
        root = node(rng.choice([3, 4]))
        tops = sum(1 for e in root["e"] if isinstance(e, (dict, int)))
        if depth_of(root) >= 3 and 6 <= len(runs) <= 20 and tops >= 2:
            break
    root["pre" if pre else "hdr"] = True
    return {"id": fid, "kind": "built", "seed": seed, "runs": runs, "tree": root, "page": rng.choice([0, 0, 16])}


def desc_chunks(d):
    """The chunk list <<lo, hi, explicit, codec>> a file description stands for."""
    out = []
    if d.get("kind"):
        p = 0
        for n, size, expl, codec in d["runs"]:
            for _ in range(n):
                out.append((p, p + size, expl, codec))
                p += size
        return out
    for k, lo in enumerate(range(0, d["size"], d["dchunk"])):
        hi = min(lo + d["dchunk"], d["size"])
        out.append((lo, hi, explicit_rule(k, hi - lo, d["zmode"]), 1))
    return out


def geo_runs(chunks):
    """RacFile.tla runs <<lo, n, size, expls, codec>>: consecutive chunks of equal size and Codec are one run;
    expls is the shortest pattern of stored-byte counts that repeats along the run."""
    runs = []
    for lo, hi, e, c in chunks:
        if runs and runs[-1][2] == hi - lo and runs[-1][4] == c:
            runs[-1][1] += 1
            runs[-1][3].append(e)
        else:
            runs.append([lo, 1, hi - lo, [e], c])
    for r in runs:
        es = r[3]
        for p in range(1, len(es) + 1):
            if all(es[i] == es[i % p] for i in range(len(es))):
                r[3] = es[:p]
                break
            if p >= 64:         # not periodic: a run per chunk would be simpler, but keep it exact
                break
    return runs


def root_top(b):
    """The Root Node's DOff values, read from the file's bytes as rac-spec.md says to look for the root
    (start first, then end).  Used for labels (coverage of top-level sub-trees) only."""
    def node_at(off, ar):
        size = 16 * ar + 16
        if ar == 0 or off < 0 or off + size > len(b):
            return None
        nb = b[off:off + size]
        if nb[:3] != b"\x72\xC3\x63" or nb[-1] != ar or int.from_bytes(nb[size - 8:size - 2], "little") != len(b):
            return None
        return [0] + [int.from_bytes(nb[8 * i:8 * i + 6], "little") for i in range(1, ar + 1)]
    dp = node_at(0, b[3]) or node_at(len(b) - (16 * b[-1] + 16), b[-1])
    if dp is None:
        raise ToolingError("no Root Node found at either end of a file")
    return sorted(set(dp))


def validate_files(ctx, binw, descs, finfo, pool):
    """Every built file is walked by the independent walker (cmd/racwreplay, written from rac-spec.md) and
    the events are judged by Trace_RacFormat.tla: a rejected file is a bug of the builder.  The Leaf Nodes
    found must equal the description.  Returns {fid: {"depth", "nodes", "top"}}."""
    built = [d for d in descs if d.get("kind") == "built"]
    wdir = ctx.subdir("walk")

    def walk(d):
        outp = os.path.join(wdir, d["id"] + ".json")
        r = ctx.run([binw, "-mode", "walk", "-in", finfo[d["id"]]["path"], "-out", outp], timeout=600)
        if r.returncode != 0:
            raise ToolingError("racwreplay -mode walk failed on %s: %s" % (d["id"], r.stderr[-2000:]))
        return json.load(open(outp))["traces"][0]
    traces = list(pool.map(walk, built))
    res = ctx.tlc("Trace_RacFormat", cfg="trace.cfg", data={
        "trace.cfg": "SPECIFICATION Spec\nINVARIANTS Judge Summary\nCHECK_DEADLOCK FALSE\n",
        "traces.json": json.dumps(traces)}, timeout=1500, workers=2, label="Trace_RacFormat (built files)")
    if res["error"] or not res["finished"] or res["violated"] or res["distinct"] != len(traces):
        raise ToolingError("Trace_RacFormat did not judge the built files:\n" + res["out"][-3000:])
    roots = {}
    for o in vlib.parse_tlc_prints(res["out"]):
        if isinstance(o, dict) and o.get("verdict") == "REJECT":
            d = built[o["idx"] - 1]
            raise ToolingError("the file builder produced an INVALID file %s (%s): Trace_RacFormat rejects it: %s" % (
                d["id"], json.dumps(d["tree"]), o["reasons"]))
        if isinstance(o, dict) and o.get("verdict") == "INFO":
            roots[o["idx"]] = o["root"]
    out = {}
    for i, (d, t) in enumerate(zip(built, traces)):
        rv = roots.get(i + 1, 0)
        if not rv:
            raise ToolingError("no valid Root Node in built file %s" % d["id"])
        codec_of = {v["v"]: (0 if (v["codecbyte"] & 0x80 and v["longcodec"] == "00000000000000") else
                             (v["codecbyte"] & 0x3F) if not v["codecbyte"] & 0x80 else -1) for v in t["visits"]}
        got = [(l["dlo"], l["dhi"], l["explicit"] if l["decodable"] else None, codec_of[l["parent"]]) for l in t["leaves"] if l["root"] == rv]
        want = desc_chunks(d)
        same = len(got) == len(want) and all(g[0] == w[0] and g[1] == w[1] and g[3] == w[3] and g[2] in (None, w[2]) for g, w in zip(got, want))
        if not same:
            raise ToolingError("built file %s: the independent walker finds Leaf Nodes %s, the description says %s" % (d["id"], got[:20], want[:20]))
        depth = {}
        for v in t["visits"]:
            if v["root"] == rv:
                depth[v["v"]] = 1 if v["parent"] == 0 else depth[v["parent"]] + 1
        rn = t["visits"][rv - 1]
        out[d["id"]] = {"cranges": [l["prim"] + l["sec"] + l["ter"] for l in t["leaves"] if l["root"] == rv],
                        "depth": max(depth.values()), "nodes": len(depth), "top": sorted(set(rn["dptr"])),
                        "root_at": "start" if rn["coff"] == 0 else "end", "arity_root": rn["arity"],
                        "cbias_nonzero": sum(1 for v in t["visits"] if v["root"] == rv and v["cbias"] != 0),
                        "dbias_nonzero": sum(1 for v in t["visits"] if v["root"] == rv and v["dbias"] != 0),
                        "max_arity": max(v["arity"] for v in t["visits"] if v["root"] == rv)}
    return out


def geo_alphabet(chunks, top):
    """The rule of the design on an arbitrary geometry: offsets/limits at chunk boundaries +-1 and strictly
    inside (first chunks, last chunks, every Zeroes chunk and its neighbours, the first chunks of the 2nd-4th
    top-level element), 0, dsize +-1, negatives; lengths 0, 1, chunk-1, chunk, chunk+1 for the chunk sizes
    there, all; every whence (and invalid ones); SeekRange over the offsets incl. low > high."""
    d = chunks[-1][1]
    nch = len(chunks)
    at = {c[0]: i for i, c in enumerate(chunks)}
    zero = [i for i, c in enumerate(chunks) if c[3] == 0]
    sel = {0, 1, 2, nch - 2, nch - 1}
    if nch > 256:
        sel |= {254, 255, 256}
    for i in zero[:6] + zero[-2:]:
        sel |= {i - 1, i, i + 1}
    deep = []                  # (chunk, top-level element from 1): the first two chunks of the 2nd-4th element
    for j in range(1, min(len(top) - 1, 4)):
        i = at[top[j]]
        sel |= {i - 1, i, i + 1}
        deep += [(i, j + 1)] + ([(i + 1, j + 1)] if i + 1 < nch and chunks[i + 1][0] < top[j + 1] else [])
    sel = sorted(i for i in sel if 0 <= i < nch)
    many = nch > 5000          # a Read of everything is 10^5 chunk set-ups: the lengths stay below ~600 chunks
    offs = set()
    for i in sel:
        lo, hi = chunks[i][0], chunks[i][1]
        offs |= {lo - 1, lo, lo + 1, (lo + hi) // 2, hi - 1, hi, hi + 1}
    size0 = chunks[0][1] - chunks[0][0]
    offs |= {0, d - 1, d, d + 1, -1, -2, -d, d + size0}
    offs = sorted(offs)
    sizes = sorted({chunks[i][1] - chunks[i][0] for i in sel})
    sizes = sizes[:3] + sizes[-2:]
    lens = {0, 1, min(5 * size0, d + 1)}
    for sz in sizes:
        lens |= {max(sz - 1, 0), sz, sz + 1}
    lens |= {511, 1300} if many else {d + 1}
    lens = sorted(lens)
    # positions strictly inside a Zeroes chunk that another chunk follows / inside a chunk below the 2nd.. top-level element
    def inside(i):
        lo, hi = chunks[i][0], chunks[i][1]
        return sorted({lo + 1, (lo + hi) // 2, hi - 1} - {lo, hi}) if hi - lo >= 2 else []
    zin = [(p, chunks[i][1], 0) for i in zero if i + 1 < nch for p in inside(i)]
    din = [(p, chunks[i][1], t) for i, t in deep for p in inside(i)]
    reads = [[0, n, 0] for n in lens]
    seeks0 = [[1, o, 0] for o in offs]
    sizeL = chunks[-1][1] - chunks[-1][0]
    seeks12 = [[1, x, 1] for x in (-size0 - 1, -1, 0, 1, size0)] + [[1, x, 2] for x in (-d - 1, -d, -sizeL, -sizeL + 1, -1, 0, 1)]
    bad = [[1, 0, 3], [1, 1, -1]]
    ranges = [[2, lo, hi] for lo in offs for hi in offs]
    return {"reads": reads, "seeks0": seeks0, "seeks12": seeks12, "bad": bad, "ranges": ranges, "close": [[3, 0, 0]],
            "chunk": size0, "maxchunk": max(sizes), "minchunk": min(sizes), "d": d, "special": zin or din, "special_kind": "zeroes" if zin else "deep"}


def draw_geo_alphabet(rng, fa, size):
    """A sub-alphabet of `size` calls for a built file: one call of each essential kind - among them a Seek
    to a position strictly inside the file's special chunk (a Zeroes chunk that another chunk follows, else
    a chunk in the 2nd.. top-level sub-tree), a Read long enough to cross the end of any chunk from there,
    and a SeekRange that starts inside it and ends beyond it - then draws from the whole rule."""
    d = fa["d"]
    small = [c for c in fa["reads"] if 0 < c[1] <= max(1, fa["minchunk"] - 1)]
    big = [c for c in fa["reads"] if c[1] >= fa["maxchunk"] + 1] or [fa["reads"][-1]]
    good = [c for c in fa["ranges"] if 0 <= c[1] <= c[2]]
    sp = fa["special"]
    # the Seek goes into the first special region (a Zeroes chunk / the 2nd top-level sub-tree), the SeekRange
    # starts in a later one when there is one (the 3rd.. top-level sub-tree)
    first = [x for x in sp if x[2] == min(y[2] for y in sp)]
    later = [x for x in sp if x[2] >= 3] or sp
    p = rng.choice(first)[0] if sp else rng.choice([c[1] for c in fa["seeks0"] if 0 < c[1] < d])
    end_of = {q: hi for q, hi, _ in later}
    across = [c for c in fa["ranges"] if c[1] in end_of and end_of[c[1]] < c[2] < d] \
        or [c for c in fa["ranges"] if c[1] in end_of and end_of[c[1]] < c[2]] \
        or [c for c in fa["ranges"] if 0 <= c[1] < c[2] < d] or good
    essential = [
        rng.choice(big),
        [1, p, 0],                                                    # io.SeekStart, strictly inside the special chunk
        rng.choice(small or fa["reads"]),
        rng.choice(across),                                           # a limit below the size, starting inside
        rng.choice([c for c in fa["seeks12"] if c[2] == 2]),          # io.SeekEnd
        fa["close"][0],
        rng.choice([c for c in fa["seeks12"] if c[2] == 1]),          # io.SeekCurrent
        rng.choice(good),
    ]
    pick = []
    for c in essential[:max(1, size - 1)]:
        if c not in pick:
            pick.append(c)
    everything = fa["reads"] + fa["seeks0"] * 2 + fa["seeks12"] * 3 + fa["bad"] * 2 + good * 2 + fa["ranges"]
    guard = 0
    while len(pick) < size and guard < 1000:
        c = rng.choice(everything)
        guard += 1
        if c not in pick:
            pick.append(c)
    return pick


def full_alphabet(bounds):
    """The rule of the design: offsets/limits from chunk boundaries +-1, 0, dsize +-1, negatives;
    buffer lengths {0, 1, chunk-1, chunk, chunk+1, all}; every whence (and invalid ones)."""
    d = bounds[-1]
    nch = len(bounds) - 1
    chunk = bounds[1] - bounds[0]
    idx = {0, 1, 2, nch - 1, nch}
    if nch > 256:
        idx |= {255, 256}
    sel = sorted({bounds[i] for i in idx if 0 <= i <= nch})
    offs = set()
    for b in sel:
        offs |= {b - 1, b, b + 1}
    offs |= {0, d - 1, d, d + 1, -1, -2, -d, d + chunk}
    offs = sorted(offs)
    lens = sorted({0, 1, max(chunk - 1, 0), chunk, chunk + 1, d + 1, min(5 * chunk, d + 1)})
    reads = [[0, n, 0] for n in lens]
    seeks0 = [[1, o, 0] for o in offs]
    seeks12 = [[1, x, 1] for x in (-chunk - 1, -1, 0, 1, chunk)] + [[1, x, 2] for x in (-d - 1, -d, -chunk, -1, 0, 1)]
    bad = [[1, 0, 3], [1, 1, -1]]
    ranges = [[2, lo, hi] for lo in offs for hi in offs]
    return {"reads": reads, "seeks0": seeks0, "seeks12": seeks12, "bad": bad, "ranges": ranges, "close": [[3, 0, 0]],
            "chunk": chunk, "d": d}


def draw_alphabet(rng, fa, size):
    """A sub-alphabet of `size` calls: one call of each essential kind (in this order of priority),
    the last slot(s) drawn from the whole rule (invalid whence, low > high, negative offsets, ...)."""
    d, chunk = fa["d"], fa["chunk"]
    small = [c for c in fa["reads"] if 0 < c[1] <= max(1, chunk - 1)]
    big = [c for c in fa["reads"] if c[1] >= chunk]
    limited = [c for c in fa["ranges"] if 0 <= c[1] < c[2] < d] or [c for c in fa["ranges"] if 0 <= c[1] < c[2]]
    good = [c for c in fa["ranges"] if 0 <= c[1] <= c[2]]
    essential = [
        rng.choice(small or fa["reads"]),
        rng.choice(big or fa["reads"]),
        rng.choice(limited),                                          # a limit below the size
        rng.choice([c for c in fa["seeks0"] if 0 <= c[1] <= d]),      # io.SeekStart
        rng.choice([c for c in fa["seeks12"] if c[2] == 2]),          # io.SeekEnd
        fa["close"][0],
        rng.choice([c for c in fa["seeks12"] if c[2] == 1]),          # io.SeekCurrent
        rng.choice(good),
    ]
    pick = []
    for c in essential[:max(1, size - 1)]:
        if c not in pick:
            pick.append(c)
    everything = fa["reads"] + fa["seeks0"] * 2 + fa["seeks12"] * 3 + fa["bad"] * 2 + good * 2 + fa["ranges"]
    guard = 0
    while len(pick) < size and guard < 1000:
        c = rng.choice(everything)
        guard += 1
        if c not in pick:
            pick.append(c)
    return pick


# ----------------------------------------------------------------------------- RacConc model runs
CONC_INVS = "ByteAtPos ReplyOK NoDoubleOwner NoLostBuffer AfterClose DoneKeysDistinct"


def conc_model(ctx, name, n, bounds, buf, maxcalls, readlens, seekpos, ranges, fixed, timeout=1500, workers=None, invs=CONC_INVS, deadlock=True):
    mod = "MC_" + name
    data = {
        mod + ".tla": "---- MODULE %s ----\nEXTENDS RacConc\nmc_Bounds == %s\nmc_Ranges == %s\n====\n" % (
            mod, tla(bounds), tset([list(r) for r in ranges])),
        mod + ".cfg": ("SPECIFICATION Spec\nCONSTANTS\n  N = %d\n  Bounds <- mc_Bounds\n  BUF = %d\n  MaxCalls = %d\n"
                       "  ReadLens = %s\n  SeekPos = %s\n  Ranges <- mc_Ranges\n  WithClose = TRUE\n"
                       "  FIXED1 = %s\n  FIXED2 = %s\n  FIXED3 = %s\nVIEW View\nINVARIANTS %s\n") % (
            n, buf, maxcalls, tset(readlens), tset(seekpos), tla(fixed[0]), tla(fixed[1]), tla(fixed[2]), invs),
    }
    res = ctx.tlc(mod, cfg=mod + ".cfg", data=data, timeout=timeout, workers=workers or 3, heap="3g",
                  extra=["-noGenerateSpecTE"], label="RacConc " + name, deadlock=None if deadlock else False)
    if res["error"]:
        raise ToolingError("TLC error in RacConc %s:\n%s" % (name, res["error"]))
    res["hist"] = last_hist(res["out"]) if (res["violated"] or res["deadlock"]) else None
    return res


def units_to_calls(hist, unit):
    """A RacConc client script (units) -> alphabet entries of RacReader (bytes)."""
    calls = []
    for c in hist:
        if c[0] == "read":
            calls.append([0, c[1] * unit, 0])
        elif c[0] == "seek":
            calls.append([1, c[1] * unit, 0])
        elif c[0] == "seekrange":
            calls.append([2, c[1] * unit, c[2] * unit])
        else:
            calls.append([3, 0, 0])
    return calls


def file_coverage(scripts, fgeo):
    """Per file, from the labels RacReader.tla attaches to every exported call (Codec of the chunk that holds
    pos, strictly inside it or not, top-level element): how often the expected-successful calls start where the
    file classes need them to."""
    import bisect
    keys = ("reads_delivering_bytes", "reads_from_a_zeroes_chunk", "reads_from_strictly_inside_a_zeroes_chunk_across_its_end",
            "reads_from_strictly_inside_a_zeroes_chunk_across_its_end_fresh_cursor", "reads_across_a_chunk_boundary_from_strictly_inside",
            "reads_delivering_bytes_from_top_level_element_2", "reads_delivering_bytes_from_top_level_element_3_or_later",
            "reads_from_lz4_or_zstandard_chunks", "seeks_landing_strictly_inside_a_zeroes_chunk")
    cov = {fid: dict.fromkeys(keys, 0) for fid in fgeo}
    los = {fid: [c[0] for c in g["chunks"]] for fid, g in fgeo.items()}
    for s in scripts:
        k, ch, lo = cov[s["f"]], fgeo[s["f"]]["chunks"], los[s["f"]]
        d = ch[-1][1]
        for c in s["h"]:
            if c[3] != 2:
                continue
            if c[0] in (1, 2) and 0 <= c[5] < d:
                i = bisect.bisect_right(lo, c[5]) - 1
                if ch[i][3] == 0 and c[5] > ch[i][0]:
                    k["seeks_landing_strictly_inside_a_zeroes_chunk"] += 1
            if c[0] != 0 or c[4] <= 0:
                continue
            k["reads_delivering_bytes"] += 1
            hi = ch[bisect.bisect_right(lo, c[5]) - 1][1]
            if c[8] == 0:
                k["reads_from_a_zeroes_chunk"] += 1
            if c[9] == 1 and c[5] + c[4] > hi:
                k["reads_across_a_chunk_boundary_from_strictly_inside"] += 1
                if c[8] == 0:
                    k["reads_from_strictly_inside_a_zeroes_chunk_across_its_end"] += 1
                    if c[7] == 0:
                        k["reads_from_strictly_inside_a_zeroes_chunk_across_its_end_fresh_cursor"] += 1
            if c[8] in (2, 3):
                k["reads_from_lz4_or_zstandard_chunks"] += 1
            if c[10] == 2:
                k["reads_delivering_bytes_from_top_level_element_2"] += 1
            if c[10] >= 3:
                k["reads_delivering_bytes_from_top_level_element_3_or_later"] += 1
    return cov


# ----------------------------------------------------------------------------- RacReader export
def export_scripts(ctx, cfgs, label):
    """cfgs: list of dict(file, fdesc, alpha, depth).  One TLC run with -dump; the
    behaviours are the hist values of the maximal states.  Returns [{"f", "h"}]."""
    mod = "MC_RR_" + label
    recs = [{"runs": c["geo"]["runs"], "top": c["geo"]["top"], "alpha": c["alpha"], "depth": c["depth"]} for c in cfgs]
    data = {
        mod + ".tla": "---- MODULE %s ----\nEXTENDS RacReader\nmc_Cfgs == %s\n====\n" % (mod, tla(recs)),
        mod + ".cfg": "SPECIFICATION Spec\nCONSTANTS\n  Cfgs <- mc_Cfgs\nINVARIANTS CursorInv StateInv\nCHECK_DEADLOCK FALSE\n",
    }
    res = ctx.tlc(mod, cfg=mod + ".cfg", data=data, timeout=3000, workers=3, heap="4g",
                  extra=["-noGenerateSpecTE", "-dump", "states.dump"], label="RacReader " + label)
    if res["error"] or res["violated"]:
        raise ToolingError("RacReader export %s failed (%s):\n%s" % (label, res["violated"], (res["error"] or res["out"])[-3000:]))
    out = []
    text = open(os.path.join(res["dir"], "states.dump")).read()
    for block in text.split("\n\n"):
        if "hist = " not in block:
            continue
        vals = {}
        for part in block.split("\n/\\ ")[1:]:
            k, v = part.split(" = ", 1)
            vals[k.strip()] = v
        c = cfgs[int(vals["cfg"]) - 1]
        h = untla(" ".join(vals["hist"].split()))
        if len(h) == c["depth"]:
            out.append({"f": c["file"], "h": h})
    os.unlink(os.path.join(res["dir"], "states.dump"))
    want = sum(len(c["alpha"]) ** c["depth"] for c in cfgs)
    if len(out) != want:
        raise ToolingError("RacReader export %s: %d histories, expected %d" % (label, len(out), want))
    return out


# ----------------------------------------------------------------------------- harness runs
ENCODED = {}        # json(file description) -> path of the file's bytes, once racrreplay has built it in this run


def run_harness(ctx, binp, job, scripts, name, timeout=3000, env=None):
    d = ctx.subdir("jobs")
    sp = os.path.join(d, name + ".ndjson")
    with open(sp, "w") as f:
        for s in scripts:
            f.write(json.dumps(s, separators=(",", ":")) + "\n")
    job = dict(job)
    if scripts:         # only the files these scripts run on; their bytes as built once at the start of the run
        used = {x["f"] for x in scripts}
        job["files"] = [dict(f, encoded_path=ENCODED[json.dumps(f, sort_keys=True)]) if json.dumps(f, sort_keys=True) in ENCODED else f
                        for f in job["files"] if f["id"] in used]
    job["scripts_path"] = sp
    jp = os.path.join(d, name + ".job.json")
    op = os.path.join(d, name + ".out.json")
    json.dump(job, open(jp, "w"))
    e = {"GORACE": "halt_on_error=1 exitcode=66"}
    if env:
        e.update(env)
    r = ctx.run([binp, "-job", jp, "-out", op], timeout=timeout, env=e)
    cur = None
    for line in r.stderr.splitlines():
        if line.startswith("S "):
            cur = line.split()
    if r.returncode != 0 or not os.path.exists(op):
        err = r.stderr if len(r.stderr) < 40000 else r.stderr[:20000] + "\n[...]\n" + r.stderr[-20000:]
        m = re.search(r"^(fatal error:.*|panic:.*|WARNING: DATA RACE.*|race: .*|runtime: .*)$", r.stderr, re.M)
        return {"crash": True, "rc": r.returncode, "stderr": err, "headline": m.group(1) if m else "", "current": cur, "failures": [], "traces": []}
    res = json.load(open(op))
    res["crash"] = False
    return res


def shadow(h, bounds, nworkers):
    """Client-side bookkeeping of the UNCHANGED concReader along a script with the specification's
    replies: for each call, which known construct it would enter.
       reresolve  - Read has to stop the pipeline and send a new region of interest
       stale      - ... while >= 2 buffer-sized works of the old region are still outstanding
       raised     - Read needs bytes beyond the region sent, after the limit was raised without moving
       lowered    - Read may copy beyond a limit lowered without moving
       after_eof  - a Read has already returned io.EOF (Reader.err = io.EOF)"""
    d = bounds[-1]
    pos, lim, resolved, seen, roi, eof, tracked = 0, d, False, False, None, False, True
    ev_oldpos = 0
    out = []
    for c in h:
        ev = {"after_eof": eof}
        if not tracked or c[3] != 2:
            tracked = False
            ev["untracked"] = True
            out.append(ev)
            continue
        if c[0] == 0:
            n = c[1]
            if pos >= lim:
                eof = True
            else:
                if not resolved:
                    if seen:
                        ev["reresolve"] = True
                        # works of the old region the client has not consumed yet
                        k = 0
                        for i in range(len(bounds) - 1):
                            lo, hi = max(bounds[i], roi[0]), min(bounds[i + 1], roi[1])
                            if lo < hi and hi > ev_oldpos:
                                k += (hi - lo + RBUF - 1) // RBUF
                                if k >= 2:
                                    break
                        if k >= 2:
                            ev["stale"] = True
                    roi, resolved, seen = (pos, lim), True, True
                else:
                    if lim > roi[1] and pos + n > roi[1]:
                        ev["raised"] = True
                    if lim < roi[1] and pos + n > lim:
                        ev["lowered"] = True
                pos += c[4]
                if pos >= lim:
                    eof = True
        elif c[0] in (1, 2):
            newlim = d if c[0] == 1 else min(c[2], d)
            if c[5] != pos:
                ev_oldpos = pos
                pos, resolved = c[5], False
            lim = newlim
        out.append(ev)
    return out


def classify(f, bounds, active):
    """Attribute a failure on a concurrent reader to a known finding (or None)."""
    if f["conc"] < 2:
        return None
    h = f["script"]
    i = f["call"]
    sh = shadow(h, bounds, f["conc"])
    ev = sh[i] if i < len(sh) else {}
    rep = f.get("replies") or []
    earlier_eof = any(r["err"] == "EOF" for r in rep[:i])
    if f["kind"] == "hang":
        if i < len(h) and h[i][0] == 0:
            if ev.get("reresolve") and f.get("site") in ("concReader.Read/chan send", "concReader.nextWork/chan receive") and active[KEY_STALE]:
                return KEY_STALE
            if ev.get("raised") and f.get("site") == "concReader.nextWork/chan receive" and active[KEY_RAISE]:
                return KEY_RAISE
            # stale works parked in completedWorks starve a worker later in the script as well
            if f.get("site") == "concReader.nextWork/chan receive" and active[KEY_STALE] and any(e.get("reresolve") for e in sh[:i + 1]):
                return KEY_STALE
        return None
    if f["kind"] in ("mismatch", "oracle") and i < len(rep):
        r = rep[i]
        if active[KEY_EOF] and earlier_eof and r["err"] == "EOF":
            return KEY_EOF
        if active[KEY_LOWER] and i < len(h) and h[i][0] == 0 and ev.get("lowered") and r["n"] > h[i][4]:
            return KEY_LOWER
        # a stale work (right bytes, but cut for the OLD region of interest) served after a re-resolve
        if active[KEY_STALE] and i < len(h) and h[i][0] == 0 and r["n"] > h[i][4] and r["data"] < 0 \
                and any(e.get("reresolve") for e in sh[:i + 1]):
            return KEY_STALEWORK
    return None


# ----------------------------------------------------------------------------- witnesses
def witness_scripts():
    """key -> (file description, concurrency, script) from the committed witness files."""
    out = {}
    for key, fn in WITNESS.items():
        rep = json.load(open(os.path.join(FINDINGS, fn)))["replay"]
        out[key] = (rep["file"], rep["conc"], rep["script"])
    return out


def detect_active(ctx, racep, base_job, pool):
    """Run the committed witness of every known finding (Concurrency 2, under -race); a finding is
    active on this tree iff its witness still fails.  Failing witnesses are reported (KNOWN-FINDING)."""
    wit = witness_scripts()
    active = {k: False for k in WITNESS}

    def run_witness(key):
        fd, conc, h = wit[key]
        r = run_harness(ctx, racep, dict(base_job, files=[fd], conc=[conc]), [{"id": 900000 + list(wit).index(key), "f": fd["id"], "h": h}],
                        "wit-" + key, timeout=900)
        return key, r

    wres, wbounds = {}, {}
    for key, r in pool.map(run_witness, list(wit)):
        wres[key] = r
        if r["crash"]:
            raise ToolingError("witness run %s crashed: %s" % (key, r["stderr"][-2000:]))
        active[key] = bool(r["failures"])
        wbounds[key] = [0] + [c[1] for c in r["files"][wit[key][0]["id"]]["chunks"]]
    for key in wit:
        for f in wres[key]["failures"]:
            k2 = classify(f, wbounds[key], active)
            if k2 != key:
                ctx.log("witness %s failed differently than recorded: %s" % (key, f["what"]))
            report_failure(ctx, f, wit[key][0], wbounds[key], active, "witness " + WITNESS[key])
    return active


def fdesc_str(d):
    if d.get("kind"):
        ch = desc_chunks(d)
        names = {0: "Zeroes", 1: "Zlib", 2: "LZ4", 3: "Zstandard"}
        shown = ", ".join("[%d..%d) %s%s" % (lo, hi, names[c], "" if e == hi - lo or c == 0 else " %d stored" % e) for lo, hi, e, c in ch[:12])
        return "%s, %d chunks: %s%s; index %s" % ("built by the harness" if d["kind"] == "built" else "written by rac.ChunkWriter", len(ch), shown,
                                                  ", ..." if len(ch) > 12 else "", json.dumps(d.get("tree", "as rac.ChunkWriter makes it")).replace('"e": ', "")[:400])
    return "%d bytes, rac.Writer DChunkSize %d" % (d["size"], d["dchunk"])


def report_failure(ctx, f, fdesc, bounds, active, origin):
    key = classify(f, bounds, active)
    what = "%s on rac.Reader{Concurrency: %d}, file %s (%s): %s  -> %s%s" % (
        f["kind"].upper(), f["conc"], f["file"], fdesc_str(fdesc), fmt_script(f["script"]),
        f["what"], (" [blocked at %s]" % f["site"]) if f.get("site") else "")
    rep = {"file": fdesc, "conc": f["conc"], "script": f["script"], "failing_call": f["call"], "kind": f["kind"],
           "what": f["what"], "site": f.get("site"), "other_goroutines": f.get("sites"), "replies": f.get("replies"),
           "oracle_replies": f.get("oracle"), "stack": (f.get("stack") or "")[:6000], "origin": origin,
           "call_encoding": "[op(0 Read,1 Seek,2 SeekRange,3 Close), a, b, kind(0 free,1 error,2 ok), n, at, eof(0 nil,1 either,2 EOF), cursor, codec at pos, strictly inside a chunk, top-level element]"}
    if key:
        rep["key"] = key
    return ctx.violation(what, rep)


# ----------------------------------------------------------------------------- trace validation
def validate_traces(ctx, paths, allbounds, fixed, corrupt_rng=None, pool=None):
    """Group recorded traces by (file, conc), one TLC run per group (in parallel).  Returns
    (accepted, rejected list, selftest).  With corrupt_rng: one payload scalar of one trace is
    corrupted in an extra copy, which TLC must reject (selftest = ("done", rejected?, ...))."""
    groups = {}
    for p in paths:
        t = json.load(open(p))
        if t.get("problem") or len(t["workers"]) != t["conc"] or any(not w for w in t["workers"]) or not t["manager"]:
            continue
        groups.setdefault((t["file"], t["conc"]), []).append((p, t))
    selftest = None
    jobs = []
    for gi, ((fid, conc), lst) in enumerate(sorted(groups.items())):
        items = list(lst[:40])
        if corrupt_rng is not None and selftest is None:
            p, t = items[0]
            t2 = json.loads(json.dumps(t))
            cands = [i for i, e in enumerate(t2["manager"]) if e[0] == "manager.send.reqc"]
            if cands:
                i = corrupt_rng.choice(cands)
                t2["manager"][i][2] += 1        # one payload scalar off by one
                items.append(("<corrupted copy of %s: manager event %d hi+1>" % (os.path.basename(p), i), t2))
                selftest = (gi, len(items) - 1)
        trs, reads, seeks, ranges, maxcalls = [], set(), set(), set(), 1
        for p, t in items:
            calls = 0
            for e in t["client"]:
                if e[0] == "call.read":
                    reads.add(e[1])
                elif e[0] == "call.seek":
                    seeks.add(e[1])
                elif e[0] == "call.seekrange":
                    ranges.add((e[1], e[2]))
                if e[0].startswith("call."):
                    calls += 1
            maxcalls = max(maxcalls, calls)
            trs.append({"client": t["client"], "manager": t["manager"], "workers": t["workers"]})
        bounds = allbounds[fid]
        mod = "MC_TR_%d" % gi
        data = {
            mod + ".tla": "---- MODULE %s ----\nEXTENDS Trace_RacConc\nmc_Bounds == %s\nmc_Ranges == %s\nmc_Traces == %s\n====\n" % (
                mod, tla(bounds), tset([list(r) for r in sorted(ranges)]), tla(trs)),
            mod + ".cfg": ("SPECIFICATION TSpec\nCONSTANTS\n  N = %d\n  Bounds <- mc_Bounds\n  BUF = %d\n  MaxCalls = %d\n  ReadLens = %s\n"
                           "  SeekPos = %s\n  Ranges <- mc_Ranges\n  WithClose = TRUE\n  FIXED1 = %s\n  FIXED2 = %s\n  FIXED3 = %s\n"
                           "  Traces <- mc_Traces\nINVARIANTS Book TraceInv\nPOSTCONDITION Report\nCHECK_DEADLOCK FALSE\n") % (
                conc, RBUF, maxcalls, tset(sorted(reads)), tset(sorted(seeks)), tla(fixed[0]), tla(fixed[1]), tla(fixed[2])),
        }
        jobs.append((gi, fid, conc, items, mod, data))

    def one(job):
        gi, fid, conc, items, mod, data = job
        for budget in (1500, 6000):      # (a loaded machine: one more try with four times the budget before giving up)
            try:
                return job, ctx.tlc(mod, cfg=mod + ".cfg", data=data, timeout=budget, workers=1, dfs=True, heap="2g", extra=["-noGenerateSpecTE"],
                                    label="Trace_RacConc %s conc=%d (%d traces)" % (fid, conc, len(items)))
            except ToolingError as e:
                if "timeout" not in str(e) or budget == 6000:
                    raise

    results = list(pool.map(one, jobs)) if pool else [one(j) for j in jobs]
    accepted, rejected = 0, []
    for (gi, fid, conc, items, mod, data), res in results:
        flat = " ".join(res["out"].split())
        i = flat.find('"TRACE-REPORT",')
        if res["error"] or i < 0:
            raise ToolingError("Trace_RacConc run failed:\n" + (res["error"] or res["out"][-3000:]))
        j = flat.index("<<", i)
        k, depth_ = j, 0
        while True:           # the balanced <<...>> value that follows the tag
            if flat.startswith("<<", k):
                depth_ += 1
                k += 2
            elif flat.startswith(">>", k):
                depth_ -= 1
                k += 2
                if depth_ == 0:
                    break
            else:
                k += 1
        rep = untla(flat[j:k].replace("TRUE", "true").replace("FALSE", "false"))
        for k, (ok, matched) in enumerate(rep):
            p, t = items[k]
            total = len(t["client"]) + len(t["manager"]) + sum(len(w) for w in t["workers"])
            if selftest == (gi, k):
                selftest = ("done", not ok, p, matched, total)
                continue
            if ok and not res["violated"]:
                accepted += 1
            else:
                rejected.append({"trace": p, "matched_events": matched, "total_events": total, "file": fid, "conc": conc,
                                 "script": t["script"], "model_invariant": res["violated"], "events": t})
    return accepted, rejected, selftest


# ----------------------------------------------------------------------------- main
def run(ctx, only_replay=None):
    thorough = ctx.tier == "thorough"
    rng = ctx.rng
    t0 = time.time()
    hook = False
    hv = os.path.join(vlib.REPO, "lib", "rac", "conc_reader_verif.go")
    if os.path.exists(hv) and "VerifHook" in open(hv).read():
        hook = True
    tags = "verif racverifhook" if hook else "verif"

    # builds in the background (the -race build is the slow one)
    pool = ThreadPoolExecutor(max_workers=8)
    ctx.harness_dir()
    fut_plain = pool.submit(ctx.go_build, "./cmd/racrreplay", "racrreplay", tags, False)
    fut_race = pool.submit(ctx.go_build, "./cmd/racrreplay", "racrreplay_race", tags, True)
    fut_walk = pool.submit(ctx.go_build, "./cmd/racwreplay", "racwreplay", "verif", False)

    fdescs = {f["id"]: f for f in file_descs(ctx) + built_descs(ctx)}

    # ---------------------------------------------------------------- 1. RacConc: the model of the code as it is
    # geometry: (name, unit bytes, real file, bounds in units, BUF in units)
    G1 = ("g1", 100, "m4", list(range(0, 7)), 2)            # chunks smaller than a buffer (m4: 100-byte chunks)
    G2 = ("g2", 32768, "b3", [0, 3, 6, 9], 2)               # chunk = 1.5 buffers (b3)
    G3 = ("g3", 65536, "b2", [0, 4, 8, 9], 1)               # chunk = 4 buffers (b2; last chunk is partial: 70000 bytes ~ 1 unit)
    G1B = ("g1b", 25, "m4", list(range(0, 25, 4)), 8)       # m4 again at a finer unit: a work is 4 units long
    cex_scripts = []        # (file, [alphabet calls], origin)
    model_findings = []

    def isolate(name, geo, n, maxcalls, rl, sp, rg, unfixed, expect, invs=CONC_INVS, deadlock=True):
        """The model with exactly one repair switched off must show the defect ..."""
        fixed = [True, True, True]
        fixed[unfixed] = False
        res = conc_model(ctx, name, n, geo[3], geo[4], maxcalls, rl, sp, rg, fixed, invs=invs, deadlock=deadlock)
        what = "deadlock" if res["deadlock"] else res["violated"]
        if not what or what not in expect:
            raise ToolingError("RacConc (%s, FIXED%d = FALSE) no longer shows the known defect: got %s" % (name, unfixed + 1, what))
        ctx.log("RacConc %s with FIXED%d=FALSE: %s after %d distinct states, script %s" % (name, unfixed + 1, what, res["distinct"], res["hist"]))
        model_findings.append({"model": name, "unfixed": "FIXED%d" % (unfixed + 1), "result": what, "script_units": res["hist"],
                               "distinct_states": res["distinct"]})
        cex_scripts.append((geo[2], units_to_calls(res["hist"], geo[1]), "RacConc counterexample %s/FIXED%d" % (name, unfixed + 1)))

    futs = []
    futs.append(pool.submit(isolate, "stale_g1", G1, 1, 4, [1], [3], [], 0, ("deadlock",)))
    futs.append(pool.submit(isolate, "stale_g3", G3, 1, 3, [1], [0, 4], [], 0, ("deadlock",)))
    # a stale work of the old region, delivered after the ack, is served under the key of a fresh one
    # and reaches beyond the new limit (file c2: two chunks of 4 bytes)
    futs.append(pool.submit(isolate, "stalework_c2", ("c2", 1, "c2", [0, 4, 8], 8), 1, 4, [3, 4], [], [(3, 7)], 0, ("ReplyOK",), "ReplyOK", False))
    futs.append(pool.submit(isolate, "raise_g1", G1, 1, 4, [1, 2], [0], [(0, 2), (1, 4)], 1, ("deadlock",)))
    futs.append(pool.submit(isolate, "lower_g1b", G1B, 1, 3, [1, 2], [0], [(1, 2)], 1, ("ReplyOK",)))
    futs.append(pool.submit(isolate, "eof_g1", G1, 1, 3, [2], [0], [(0, 2)], 2, ("ReplyOK",)))

    # ... and with all repairs on it satisfies every property, exhaustively.
    def fixed_model(name, geo, n, maxcalls, rl, sp, rg, timeout=2400, workers=None):
        res = conc_model(ctx, name, n, geo[3], geo[4], maxcalls, rl, sp, rg, [True, True, True], timeout=timeout, workers=workers)
        if res["violated"] or res["deadlock"]:
            raise ToolingError("RacConc with FIXED1..3 (the proposed repairs) violates %s, script %s:\n%s" % (
                res["violated"] or "deadlock-freedom", res["hist"], res["out"][-2500:]))
        ctx.log("RacConc %s all FIXED: clean, %d distinct states, depth %s, %.0fs" % (name, res["distinct"], res["diameter"], res["wall_s"]))
        return res

    R1 = [(0, 2), (1, 3), (1, 6), (2, 4)]
    futs.append(pool.submit(fixed_model, "fixed_n1_g1", G1, 1, 4, [1, 2, 6], [0, 1, 3], R1))
    futs.append(pool.submit(fixed_model, "fixed_n1_g2", G2, 1, 4 if thorough else 3, [0, 1, 2, 9], [0, 1, 4], [(1, 2), (0, 3), (2, 7)]))
    futs.append(pool.submit(fixed_model, "fixed_n1_g3", G3, 1, 4 if thorough else 3, [1, 5], [0, 4, 8], [(1, 6)]))
    if thorough:
        futs.append(pool.submit(fixed_model, "fixed_n2_g1", ("g1", 100, "m4", list(range(0, 6)), 2), 2, 4, [1, 5], [0, 3], [(0, 2), (1, 4)], 6000, 8))
        futs.append(pool.submit(fixed_model, "fixed_n2_g3", ("g3", 65536, "b2", [0, 4, 8], 1), 2, 3, [1], [0, 4], [(1, 6)], 6000, 6))
    else:
        futs.append(pool.submit(fixed_model, "fixed_n2_g1", ("g1", 100, "m4", list(range(0, 6)), 2), 2, 3, [1], [3], []))

    # ---------------------------------------------------------------- 2. the files and their geometry
    binp = fut_plain.result()
    info = run_harness(ctx, binp, {"seed": ctx.seed, "files": list(fdescs.values()), "conc": [], "dump_dir": ctx.subdir("files")}, [], "files")
    if info["crash"]:
        raise ToolingError("racrreplay could not build the RAC files:\n" + info["stderr"])
    finfo = info["files"]
    for d in fdescs.values():
        ENCODED[json.dumps(d, sort_keys=True)] = finfo[d["id"]]["path"]
    # built files: valid (independent walker + Trace_RacFormat.tla) and equal to their description
    shape = validate_files(ctx, fut_walk.result(), list(fdescs.values()), finfo, pool)
    bounds, fgeo = {}, {}
    for fid, d in fdescs.items():
        fi = finfo[fid]
        chunks = desc_chunks(d)
        top = root_top(open(fi["path"], "rb").read())
        if fid in shape and shape[fid]["top"] != top:
            raise ToolingError("file %s: Root Node DOffs %s (walker) / %s (bytes)" % (fid, shape[fid]["top"], top))
        listed = [(c[0], c[1], e, k) for c, e, k in zip(fi["chunks"], fi["explicit"], fi["codecs"])]
        if fid in shape and not fi["cr_err"] and listed == chunks:
            # the three CRanges of every chunk, as the specification's MakeCRange gives them (walker)
            wcr = shape[fid].pop("cranges")
            k = next((i for i, (a, b) in enumerate(zip(fi["cranges"], wcr)) if list(a) != list(b)), None)
            if k is not None:
                ctx.violation("file %s (%s), valid by Trace_RacFormat.tla: rac.ChunkReader reports chunk %d %s with CPrimary/CSecondary/CTertiary %s, "
                              "rac-spec.md's MakeCRange gives %s" % (fid, fdesc_str(d), k, listed[k][:2], fi["cranges"][k], wcr[k]),
                              {"kind": "chunklist", "file": d, "cranges_listed": fi["cranges"][:200], "cranges_expected": wcr[:200]})
        shape.get(fid, {}).pop("cranges", None)
        if fi["cr_err"] or listed != chunks:
            k = next((i for i, (a, b) in enumerate(zip(listed, chunks)) if a != b), min(len(listed), len(chunks)))
            what = "rac.ChunkReader.NextChunk %s: chunk %d is %s, the file has %s (DRange, bytes stored, Codec; %d chunks listed, %d in the file)" % (
                ("fails with %r after %d chunks" % (fi["cr_err"], len(listed))) if fi["cr_err"] else "lists other chunks than the file has",
                k, listed[k] if k < len(listed) else None, chunks[k] if k < len(chunks) else None, len(listed), len(chunks))
            if d.get("kind") == "built":
                # the file is valid and is what the description says (walker + TLC): the list is wrong
                ctx.violation("file %s (%s), valid by Trace_RacFormat.tla: %s" % (fid, fdesc_str(d), what),
                              {"kind": "chunklist", "file": d, "listed": listed[:200], "expected": chunks[:200], "cr_err": fi["cr_err"]})
            elif ctx.violations:
                ctx.log("file %s (written by the repository's writer): %s" % (fid, what))
            else:
                raise ToolingError("file %s: %s" % (fid, what))
        bounds[fid] = [0] + [c[1] for c in chunks]
        fgeo[fid] = {"chunks": chunks, "runs": geo_runs(chunks), "top": top}
    nzero = sum(1 for g in fgeo.values() for c in g["chunks"] if c[2] < c[1] - c[0])
    nzc = sum(1 for g in fgeo.values() for c in g["chunks"] if c[3] == 0)
    ctx.log("files: " + ", ".join("%s=%d chunks/%dB" % (k, len(v["chunks"]), v["dsize"]) for k, v in sorted(finfo.items()))
            + "; chunks with implicit zero tails: %d, Zeroes-codec chunks: %d; hook H2 in tree: %s" % (nzero, nzc, hook))
    ctx.log("built files judged valid by Trace_RacFormat.tla and equal to their description: " + ", ".join(
        "%s(depth %d, %d nodes, max arity %d, root at %s with %d elements%s%s)" % (
            k, v["depth"], v["nodes"], v["max_arity"], v["root_at"], len(v["top"]) - 1,
            ", CBias" if v["cbias_nonzero"] else "", ", page %d" % fdescs[k]["page"] if fdescs[k].get("page") else "") for k, v in sorted(shape.items())))

    # ---------------------------------------------------------------- 3. RacReader: export the behaviours
    for f in futs:
        f.result()
    depth = 5 if thorough else 4
    draws = 3 if thorough else 1
    asizes = {"c1": 8, "c2": 8, "c3": 9, "c4": 8, "c5": 9, "ml": 7, "m4": 7, "mk": 7, "b3": 6, "b2": 6,
              "z1": 8, "z2": 8, "d3": 7, "d3s": 7, "d4": 7, "d4s": 6, "cb": 7, "zb": 6, "lz": 6, "big": 6, "d5": 6, "bigs": 5,
              "rs": 6, "re": 6, "rs2": 6, "re2": 6}
    if thorough:
        asizes.update({"c3": 8, "c5": 8, "z1": 7, "z2": 7, "d3": 6, "d3s": 6, "d4": 6, "cb": 6})
    cfgs = []
    special = {}
    for fid in sorted(fdescs):
        if fdescs[fid].get("kind"):
            fa = geo_alphabet(fgeo[fid]["chunks"], fgeo[fid]["top"])
            draw = draw_geo_alphabet
            special[fid] = fa["special_kind"] if fa["special"] else None
        else:
            fa = full_alphabet(bounds[fid])
            draw = draw_alphabet
        for _ in range(min(draws, 2) if fdescs[fid].get("kind") else draws):
            cfgs.append({"file": fid, "geo": fgeo[fid], "alpha": draw(rng, fa, asizes[fid]), "depth": depth, "origin": "alphabet"})
    # the client scripts of the RacConc configurations, in bytes, on the matching real files
    for geo, rl, sp, rg in ((G1, [1, 2, 6], [0, 1, 3], R1[:2]), (G2, [1, 2, 9], [0, 4], [(1, 2)]), (G3, [1, 5], [0, 4], [(1, 6)])):
        u = geo[1]
        alpha = [[0, n * u, 0] for n in rl] + [[1, p * u, 0] for p in sp] + [[2, a * u, b * u] for a, b in rg] + [[3, 0, 0]]
        cfgs.append({"file": geo[2], "geo": fgeo[geo[2]], "alpha": alpha,
                     "depth": 4 if len(alpha) <= 8 else 3, "origin": "RacConc client scripts " + geo[0]})
    for fid, calls, origin in cex_scripts:
        alpha = []
        for c in calls:
            if c not in alpha:
                alpha.append(c)
        cfgs.append({"file": fid, "geo": fgeo[fid], "alpha": alpha, "depth": len(calls),
                     "origin": origin, "exact": calls})
    # split into a few TLC runs
    nruns = 6 if thorough else 3
    parts = [[] for _ in range(nruns)]
    order = sorted(range(len(cfgs)), key=lambda i: -(len(cfgs[i]["alpha"]) ** cfgs[i]["depth"]))
    loads = [0] * nruns
    for i in order:
        k = loads.index(min(loads))
        parts[k].append(cfgs[i])
        loads[k] += len(cfgs[i]["alpha"]) ** cfgs[i]["depth"]
    efuts = [pool.submit(export_scripts, ctx, p, str(k)) for k, p in enumerate(parts) if p]
    scripts = []
    cex_ids = []
    for k, fu in enumerate(efuts):
        got = fu.result()
        # recover which cfg each script came from to mark the exact counterexample scripts
        for s in got:
            s["id"] = len(scripts)
            scripts.append(s)
    exact = [(c["file"], c["exact"], c["origin"]) for c in cfgs if c.get("exact")]
    by_key = {}
    for s in scripts:
        by_key.setdefault((s["f"], json.dumps([c[:3] for c in s["h"]])), s)
    for fid, calls, origin in exact:
        s = by_key.get((fid, json.dumps(calls)))
        if s is None:
            raise ToolingError("counterexample script %s not among the exported behaviours" % calls)
        cex_ids.append((s["id"], origin))
    ctx.log("RacReader: %d behaviours of length <= %d exported over %d configurations (%.0fs since start)" % (
        len(scripts), depth, len(cfgs), time.time() - t0))

    # the model's labels: did the exported behaviours reach the places the new file classes are there for?
    fcov = file_coverage(scripts, fgeo)
    tot = {k: sum(v[k] for v in fcov.values()) for k in next(iter(fcov.values()))}
    ctx.log("file coverage of the exported calls (RacReader labels): %s" % tot)
    if not tot["reads_from_strictly_inside_a_zeroes_chunk_across_its_end_fresh_cursor"]:
        raise ToolingError("no exported behaviour seeks into the middle of a Zeroes chunk and reads across its end")
    # files whose alphabet is built around the 2nd / 3rd.. top-level sub-tree (draw_geo_alphabet: a Seek into the
    # former, a SeekRange into the latter): the Reads that follow them must show up with those labels
    deep3 = []
    for fid in special:
        ntop = len(fgeo[fid]["top"]) - 1
        if special[fid] != "deep" or ntop < 2:
            continue
        if not fcov[fid]["reads_delivering_bytes_from_top_level_element_2"]:
            raise ToolingError("file %s: no exported Read starts in the 2nd top-level sub-tree" % fid)
        if ntop >= 3 and not fcov[fid]["reads_delivering_bytes_from_top_level_element_3_or_later"]:
            raise ToolingError("file %s: no exported Read starts in the 3rd.. top-level sub-tree" % fid)
        if (shape[fid]["depth"] if fid in shape else 3 if len(fgeo[fid]["chunks"]) > 65025 else 2) >= 3:
            deep3.append(fid)
    if not any(fid in shape and shape[fid]["root_at"] == "start" for fid in deep3) or not any(fid in shape and shape[fid]["root_at"] == "end" for fid in deep3):
        raise ToolingError("no >= 3 level index with the Root Node at the start / at the end is read beyond its first top-level sub-tree: %s" % deep3)

    # ---------------------------------------------------------------- 4. sequential replay: every behaviour
    seq = run_harness(ctx, binp, {"seed": ctx.seed, "files": list(fdescs.values()), "conc": [0], "par": min(vlib.NCPU, 12)}, scripts, "seq", timeout=3000)
    if seq["crash"]:
        ctx.violation("racrreplay crashed while replaying on the sequential reader (a panic in lib/rac):\n" + seq["stderr"][-3000:],
                      {"stderr": seq["stderr"], "current": seq["current"]})
        raise ToolingError("sequential replay crashed")
    active = {k: False for k in WITNESS}
    seq_sigs = {}
    for f in seq["failures"]:
        sig = (f["kind"], f["file"], re.sub(r"\d+", "#", f["what"])[:60])
        seq_sigs[sig] = seq_sigs.get(sig, 0) + 1
        if seq_sigs[sig] <= 2 and len(ctx.violations) < 12:
            report_failure(ctx, f, fdescs[f["file"]], bounds[f["file"]], active, "sequential replay")
    if seq.get("aborted"):
        raise ToolingError("the sequential replay was stopped at a call into lib/rac that does not return (reported above); %d of %d scripts had run" % (
            seq["scripts_run"], len(scripts)))
    ctx.log("sequential: %d scripts, %d calls (%d compared, %d bytes compared), %d failures; calls per op@cursor: %s" % (
        seq["scripts_run"], seq["calls_run"], seq["calls_checked"], seq["bytes_checked"], len(seq["failures"]), seq["cursor_states"]))

    # ---------------------------------------------------------------- 5. concurrent replay under -race
    racep = fut_race.result()
    base_job = {"seed": ctx.seed, "files": list(fdescs.values()), "budget_ms": 1500 if thorough else 1000, "grace_ms": 2000, "perturb": 1}
    # 5a. the witnesses of the known findings decide which findings are still active
    active = detect_active(ctx, racep, base_job, pool)
    ctx.log("known findings still reproducing on this tree: %s" % {k: v for k, v in active.items()})
    fixed_flags = [not active[KEY_STALE], not (active[KEY_RAISE] or active[KEY_LOWER]), not active[KEY_EOF]]

    # 5b. the sample: every model counterexample, then seeded picks; scripts that would enter the exact
    # construct of a still-active hanging finding are not run (they only burn watchdog time)
    def avoid(s, conc):
        if conc < 2:
            return False
        for ev in shadow(s["h"], bounds[s["f"]], conc):
            if active[KEY_STALE] and ev.get("stale"):
                return True
            if active[KEY_RAISE] and ev.get("raised"):
                return True
        return False

    def completes(s):
        """not cut short by a still-active non-hanging finding either"""
        for ev, c in zip(shadow(s["h"], bounds[s["f"]], 2), s["h"]):
            if (active[KEY_EOF] and ev.get("after_eof")) or (active[KEY_LOWER] and ev.get("lowered")):
                return False
        return True

    per_conc = 2500 if thorough else 260
    concs = [1, 2, 4]
    chosen = {c: [] for c in concs}
    skipped_known = 0
    pool_ids = list(range(len(scripts)))
    bigfiles = {"m4", "ml", "b3", "b2", "mk"}

    def fgroup(fid):
        return "built" if fdescs[fid].get("kind") else "big" if fid in bigfiles else "small"
    for c in concs:
        rng.shuffle(pool_ids)
        # quotas: a third on the built files (file dimension), a third on rac.Writer files with many / large
        # chunks, a third on the 1-5 chunk files; in each, half of the slots are reserved for scripts that run
        # to their end on this tree
        quota = {(b, full): per_conc // 6 for b in ("built", "big", "small") for full in (True, False)}
        for i in pool_ids:
            if not any(quota.values()):
                break
            s = scripts[i]
            b = fgroup(s["f"])
            if not quota[(b, True)] and not quota[(b, False)]:
                continue
            if avoid(s, c):
                skipped_known += 1
                continue
            full = completes(s)
            if full and quota[(b, True)]:
                quota[(b, True)] -= 1
            elif quota[(b, False)]:
                quota[(b, False)] -= 1
            else:
                continue
            chosen[c].append(s)
    # "seek storms": long histories of position-changing seeks, each followed by a one-byte Read, on the files with many
    # chunks - every Seek stops a pipeline that is still decompressing ahead, so the workers' cancel paths (buffers of
    # results not yet sent, stale requests) are taken dozens of times by the same Reader; expectations are exact (Seek
    # returns the position, a one-byte Read inside the file returns that byte).  (Seeded change C14-m5: a buffer lost
    # on every cancelled result - a Worker is out of buffers after two.)
    storm = []
    if not (active[KEY_STALE] or active[KEY_RAISE]):
        for fid in ("m4", "b3", "ml"):
            if fid not in bounds:
                continue
            dsz = bounds[fid][-1]
            for k in range(12 if thorough else 3):
                h = []
                for _ in range(40):
                    pos = rng.randrange(0, max(1, dsz - 1))
                    h.append([1, pos, 0, 2, 0, pos, 0, 0])
                    h.append([0, 1, 0, 2, 1, pos, 0, 0])
                storm.append({"id": 800000 + len(storm), "f": fid, "h": h})
        for c in (2, 4):
            chosen[c] += storm
    # every counterexample of the model: always with Concurrency 2, with 1 and 4 unless it is the
    # exact construct of a still-active hanging finding
    cex_runs = []
    for sid, origin in cex_ids:
        for c in concs:
            if c == 2 or not avoid(scripts[sid], c):
                cex_runs.append((c, [scripts[sid]]))
    nshards = 8 if thorough else 6
    shards = []
    for c in concs:
        lst = sorted(chosen[c], key=lambda x: x["f"])      # a shard builds only the files of its scripts
        per = (len(lst) + (nshards // len(concs)) - 1) // max(1, nshards // len(concs))
        for k in range(0, len(lst), max(1, per)):
            shards.append((c, lst[k:k + per]))
    shards += cex_runs

    def run_shard(arg):
        k, (c, lst) = arg
        return c, lst, run_harness(ctx, racep, dict(base_job, conc=[c], seed=ctx.seed * 1000 + k), lst, "conc-%d-%d" % (c, k),
                                   timeout=6000, env={"GOMAXPROCS": str([2, 4, 8, 1, 16, 3][k % 6])})

    conc_runs = conc_calls = leakchecks = unconfirmed = 0
    conc_fail = 0
    by_conc = {}
    seen_sigs = {}
    for c, lst, r in pool.map(run_shard, list(enumerate(shards))):
        if r["crash"]:
            cur = r["current"]
            sid = int(cur[1]) if cur else None
            s = next((x for x in lst if x["id"] == sid), None)
            race = "DATA RACE" in r["stderr"]
            if not race and not (re.search(r"^panic:", r["stderr"], re.M) and "wuffs/lib/rac" in r["stderr"]):
                # e.g. "runtime: failed to create new OS thread" on an overloaded machine: not a verdict
                raise ToolingError("racrreplay died (rc %s, %s) without a race report or a panic in lib/rac, while running %s:\n%s" % (
                    r["rc"], r.get("headline"), fmt_script(s["h"]) if s else "?", r["stderr"][:3000]))
            what = ("DATA RACE reported by the Go race detector" if race else "the process died (rc %s: %s)" % (r["rc"], r.get("headline"))) + \
                   " while running on rac.Reader{Concurrency: %d}: %s\n%s" % (c, fmt_script(s["h"]) if s else "?", r["stderr"][:2500])
            ctx.violation(what, {"file": fdescs[s["f"]] if s else None, "conc": c, "script": s["h"] if s else None,
                                 "kind": "race" if race else "crash", "stderr": r["stderr"]})
            conc_fail += 1
            continue
        conc_runs += r["scripts_run"]
        conc_calls += r["calls_run"]
        leakchecks += r["goroutine_checks"]
        unconfirmed += r["hangs_unconfirmed"]
        by_conc[c] = by_conc.get(c, 0) + r["scripts_run"]
        for f in r["failures"]:
            conc_fail += 1
            sig = (f["kind"], f.get("site"), re.sub(r"\d+", "#", f["what"])[:60], classify(f, bounds[f["file"]], active))
            seen_sigs[sig] = seen_sigs.get(sig, 0) + 1
            if seen_sigs[sig] <= 3:          # three witnesses per kind of failure are enough
                report_failure(ctx, f, fdescs[f["file"]], bounds[f["file"]], active, "concurrent replay")
    ctx.log("concurrent (-race): %d script runs %s, %d calls, %d goroutine-leak checks, %d failures (%d scripts avoided as exact known constructs, %d unconfirmed slow calls)" % (
        conc_runs, by_conc, conc_calls, leakchecks, conc_fail, skipped_known, unconfirmed))

    # ---------------------------------------------------------------- 6. trace validation (hook H2)
    traces_ok = 0
    trace_note = "hook H2 (findings/hooks/H2-conc-reader.patch) is not in this tree: channel-level trace validation skipped"
    selftest = None
    if hook:
        ntr = 400 if thorough else 36
        import bisect

        def works(s):       # buffer-sized pieces of chunks the script's Reads consume
            b, k = bounds[s["f"]], 0
            for x in s["h"]:
                if x[0] == 0 and x[4] > 0:
                    i, j = bisect.bisect_right(b, x[5]) - 1, bisect.bisect_left(b, x[5] + x[4])
                    k += sum((min(b[m + 1], x[5] + x[4]) - max(b[m], x[5]) + RBUF - 1) // RBUF for m in range(i, j))
            return k
        # (the search for an interleaving grows steeply with the number of works and workers)
        cand = [s for c in (2, 4) for s in chosen[c] if completes(s) and all(x[3] == 2 for x in s["h"])
                and len(bounds[s["f"]]) <= 1000 and (thorough or works(s) <= 12)]
        rng.shuffle(cand)
        tdir = ctx.subdir("traces")
        if thorough:
            tr_scripts = cand[:ntr]
        else:
            # one TLC run per (file, Concurrency): three rac.Writer files and three built files per seed
            have = sorted({s["f"] for s in cand})
            legacy = [f for f in have if not fdescs[f].get("kind")]
            built = [f for f in have if fdescs[f].get("kind")]
            tr_files = rng.sample(legacy, min(3, len(legacy))) + rng.sample(built, min(3, len(built)))
            tr_scripts = []
            for f in tr_files:
                tr_scripts += [s for s in cand if s["f"] == f][:ntr // 6]
        halves = [tr_scripts[0::2], tr_scripts[1::2]]

        def run_tr(arg):
            k, lst = arg
            return run_harness(ctx, racep, dict(base_job, conc=[2 if k == 0 else 4], trace_dir=os.path.join(tdir, str(k)), perturb=1,
                                                seed=ctx.seed * 77 + k), lst, "trace-%d" % k, timeout=3000)
        paths = []
        for r in pool.map(run_tr, list(enumerate(halves))):
            if r["crash"]:
                raise ToolingError("trace-mode run crashed:\n" + r["stderr"][-2000:])
            paths += r["traces"]
            for f in r["failures"]:
                report_failure(ctx, f, fdescs[f["file"]], bounds[f["file"]], active, "trace-mode replay")
        traces_ok, rejected, selftest = validate_traces(ctx, paths, bounds, fixed_flags, corrupt_rng=rng, pool=pool)
        for rj in rejected[:5]:
            ctx.violation("the channel operations recorded from conc_reader.go (Concurrency %d, file %s, script %s) are not an interleaving that "
                          "RacConc (FIXED=%s) allows: %d of %d events matched%s" % (
                              rj["conc"], rj["file"], fmt_script(rj["script"]), fixed_flags, rj["matched_events"], rj["total_events"],
                              ("; model invariant %s violated on the way" % rj["model_invariant"]) if rj["model_invariant"] else ""),
                          {"kind": "trace-rejected", "file": fdescs[rj["file"]], "conc": rj["conc"], "script": rj["script"],
                           "matched_events": rj["matched_events"], "events": rj["events"], "fixed_flags": fixed_flags})
        if not selftest or selftest[0] != "done" or not selftest[1]:
            raise ToolingError("self-test of the trace validation failed: a corrupted trace was not rejected (%s)" % (selftest,))
        trace_note = "%d per-goroutine event logs (files %s) accepted by Trace_RacConc (FIXED=%s), %d rejected; self-test: %s rejected after %d of %d events" % (
            traces_ok, sorted({s["f"] for s in tr_scripts}), fixed_flags, len(rejected), selftest[2], selftest[3], selftest[4])
    ctx.log(trace_note)

    # ---------------------------------------------------------------- evidence
    nontrivial = len({(s["f"], json.dumps([c[:3] for c in s["h"]])) for s in scripts
                      if sum(1 for c in s["h"] if c[0] == 0 and c[4] > 0) >= 1 and any(c[0] in (1, 2) and c[3] == 2 for c in s["h"])})
    samples = []
    for s in rng.sample(scripts, min(4, len(scripts))):
        samples.append({"file": s["f"], "calls": fmt_script(s["h"]), "with_expected_replies": s["h"]})
    samples += model_findings[:3]
    ctx.evidence("model_checking", {
        "states": sum(t["distinct"] for t in ctx.tlc_stats),
        "transitions": sum(t["generated"] for t in ctx.tlc_stats),
        "traces_validated_against_impl": seq["scripts_run"] + conc_runs + traces_ok,
        "samples": samples,
        "evaluations": seq["scripts_run"] + conc_runs,
        "distinct_nontrivial": nontrivial,
        "rule": "on each file (rac.Writer files, a rac.ChunkWriter file, built files of the classes listed under files): every call sequence of length %d over a per-file alphabet of %s calls (one call of each essential kind plus draws, per seed, from the full rule: offsets at chunk "
                "boundaries +-1/0/dsize+-1/negatives, lengths 0/1/chunk-1/chunk/chunk+1/all, all whences, SeekRange pairs) plus the RacConc "
                "client scripts and counterexamples, exported by TLC from RacReader.tla with expected replies; non-trivial = distinct scripts "
                "that deliver bytes in some Read and contain a successful Seek/SeekRange" % (depth, "6-9"),
        "exhaustive": True,
        "sequential_scripts": seq["scripts_run"], "sequential_calls": seq["calls_run"], "sequential_calls_compared": seq["calls_checked"],
        "bytes_compared": seq["bytes_checked"], "calls_per_op_and_cursor_state": seq["cursor_states"],
        "files": {k: dict({"written_by": {"": "rac.Writer + raczlib", "built": "harness file builder (racrreplay/build.go)", "chunkwriter": "rac.ChunkWriter"}[fdescs[k].get("kind", "")],
                           "chunks": len(fgeo[k]["chunks"]), "dsize": v["dsize"], "csize": v["csize"],
                           "chunks_with_implicit_zero_tail": sum(1 for c in fgeo[k]["chunks"] if c[3] != 0 and c[2] < c[1] - c[0]),
                           "zeroes_codec_chunks": sum(1 for c in fgeo[k]["chunks"] if c[3] == 0),
                           "codecs": sorted({c[3] for c in fgeo[k]["chunks"]}),
                           "root_node_elements_with_data": len(fgeo[k]["top"]) - 1,
                           "scripts": sum(1 for s in scripts if s["f"] == k),
                           "coverage_from_model_labels": fcov[k]},
                          **({"validated": "independent walker + Trace_RacFormat.tla; Leaf Nodes equal the description; rac.ChunkReader list equal",
                              "index": shape[k], "tree": json.dumps(fdescs[k]["tree"]).replace('"e": ', "")} if k in shape else {}))
                  for k, v in finfo.items()},
        "file_coverage_totals": tot,
        "concurrent_script_runs_under_race": conc_runs, "concurrent_runs_by_concurrency": by_conc, "concurrent_calls": conc_calls,
        "goroutine_leak_checks": leakchecks, "scripts_avoided_exact_known_construct": skipped_known,
        "slow_calls_not_confirmed_as_hangs": unconfirmed,
        "racconc_model_findings": model_findings,
        "known_findings_active_on_this_tree": active,
        "hook_H2_present": hook, "trace_validation": trace_note, "traces_accepted": traces_ok,
    }, assumptions=[
        "valid RAC files only (hostile files are C15): written by rac.Writer + raczlib (DChunkSize mode), by rac.ChunkWriter (> 65025 chunks), and laid out by the harness's builder from abstract descriptions (each one judged valid by the independent walker + Trace_RacFormat.tla first); the structural space is sampled by a fixed list of file classes, not enumerated",
        "the walker has no LZ4 / Zstandard decoder: for those chunks file structure, DRanges and Codec are validated, the stored byte count is taken from the description",
        "files written by the repository's own writers are not re-validated here (C13 does that)",
        "the concurrent reader is exercised under sampled real schedules (seeded perturbation in the shared io.ReaderAt, between calls, and in hook H2 when present); all interleavings are explored only in RacConc",
        "RacConc abstracts I/O and codec errors away (valid files, in-memory source) and is exhaustive for N=1 (N=2 at smaller bounds); Concurrency 4 is replayed, not model-checked",
        "a hang is a call that does not return within the watchdog budget and again within 4x the budget on a second run",
        "replies after a returned non-EOF error and after Close are not compared (the calls are still made and must return)",
    ])
    pool.shutdown(wait=False)


def replay(ctx, path):
    rep = json.load(open(path))
    rep = rep.get("replay", rep)
    fdesc, h, conc = rep.get("file"), rep.get("script"), rep.get("conc")
    if rep.get("kind") == "chunklist" and fdesc:
        binp = ctx.go_build("./cmd/racrreplay", "racrreplay", "verif", False)
        r = run_harness(ctx, binp, {"seed": ctx.seed, "files": [fdesc], "conc": []}, [], "files")
        if r["crash"]:
            raise ToolingError("racrreplay could not build the file:\n" + r["stderr"])
        fi = r["files"][fdesc["id"]]
        listed = [(c[0], c[1], e, k) for c, e, k in zip(fi["chunks"], fi["explicit"], fi["codecs"])]
        want = desc_chunks(fdesc)
        print("file %s: rac.ChunkReader lists %s%s" % (fdesc_str(fdesc), listed[:40], (" then fails with %r" % fi["cr_err"]) if fi["cr_err"] else ""))
        if fi["cr_err"] or listed != want:
            ctx.violation("rac.ChunkReader.NextChunk does not list the chunks of the valid file %s (%s): %s%s, the file has %s" % (
                fdesc["id"], fdesc_str(fdesc), listed[:40], (" then error %r" % fi["cr_err"]) if fi["cr_err"] else "", want[:40]), rep)
        elif rep.get("cranges_expected") and [list(x) for x in fi["cranges"][:200]] != [list(x) for x in rep["cranges_expected"]]:
            ctx.violation("rac.ChunkReader reports other CRanges for the chunks of the valid file %s (%s) than MakeCRange of rac-spec.md gives: %s, expected %s" % (
                fdesc["id"], fdesc_str(fdesc), fi["cranges"][:40], rep["cranges_expected"][:40]), rep)
        else:
            print("the chunk list equals the description: not reproduced on this tree")
        return
    if not fdesc or h is None:
        print(json.dumps(rep, indent=1)[:4000])
        raise ToolingError("this replay file does not name a file and a script; re-run `bin/check C14 <tier>`")
    print("replaying on rac.Reader{Concurrency: %d}, file %s: %s" % (conc, fdesc, fmt_script(h)))
    hv = os.path.join(vlib.REPO, "lib", "rac", "conc_reader_verif.go")
    tags = "verif racverifhook" if os.path.exists(hv) and "VerifHook" in open(hv).read() else "verif"
    racep = ctx.go_build("./cmd/racrreplay", "racrreplay_race", tags, True)
    base_job = {"seed": ctx.seed, "budget_ms": 1500, "grace_ms": 2000, "perturb": 1}
    pool = ThreadPoolExecutor(max_workers=4)
    is_witness = any(os.path.abspath(path) == os.path.join(FINDINGS, fn) for fn in WITNESS.values())
    active = detect_active(ctx, racep, base_job, pool)
    if is_witness:
        return          # detect_active has just replayed and reported it
    # timing-dependent failures: a few differently perturbed runs
    for k in range(5 if rep.get("kind") in ("hang", "mismatch", "oracle", "leak", "race", "crash") else 1):
        r = run_harness(ctx, racep, dict(base_job, files=[fdesc], conc=[conc], seed=ctx.seed + 1000 * k), [{"id": 1, "f": fdesc["id"], "h": h}],
                        "replay%d" % k, timeout=900)
        if r["crash"]:
            ctx.violation("process died / data race while replaying:\n" + r["stderr"][:3000], dict(rep, stderr=r["stderr"]))
            return
        bounds = [0] + [c[1] for c in desc_chunks(fdesc)]
        for f in r["failures"]:
            report_failure(ctx, f, fdesc, bounds, active, "replay of " + path)
        if r["failures"]:
            return
    print("the script ran to its end with every reply as expected: not reproduced on this tree")

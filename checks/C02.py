"""C02 - every compile-time fact, assertion and loop invariant is true at run time.

Mode S: the fact list the bounds checker holds before every statement (hook H1),
every assert and every loop pre/inv/post condition is evaluated by TLC, in ideal
integer arithmetic, in every reachable state of every accepted program under
spec/WuffsCore.tla - including states reached after suspensions, where the
environment changed the buffers.  The axioms of lang/check/axioms.md are
translated to spec/Axioms (generated) and checked by TLC on a small integer box
and by Apalache for all integers."""
import os, re, json
import wcorepipe
from vlib import ToolingError, REPO

META = {
    "level": "model_checking",
    "technique": "TLC evaluates the checker's exported fact list (hook H1), asserts and loop conditions in every reachable state of every accepted program under WuffsCore.tla; axioms.md is translated to TLA+ and checked by TLC (small box), proved for all integers by the TLA+ proof system (tlapm) and, in the thorough tier, by Apalache",
    "text": "Every fact the checker holds at a statement is an invariant of that program point in the model: TLC visits all executions of the bounded domain (inputs, histories, suspension schedules) and evaluates each fact with ideal integers whenever the statement is reached. The 20 axioms are checked as integer theorems independently of the code that applies them.",
    "note": "Trusted: the TLA+ semantics, the H1 hook (a one-line observer), TLC/Apalache. Facts using constructs outside the interpreted fragment are counted as uninterpreted and not claimed.",
}


def axioms_to_tla(text):
    """axioms.md lists axioms as  `conclusion: premise; premise`  inside a code
    block; variables are single letters.  Returns [(name, conclusion, [premises])]."""
    res = []
    for line in text.splitlines():
        m = re.match(r"^- `([^`]+)`\s*$", line.strip())
        if not m:
            continue
        body = m.group(1).strip().strip('"')
        if ":" not in body:
            continue
        concl, prem = body.split(":", 1)
        prems = [p.strip() for p in prem.split(";") if p.strip()]
        res.append((body, concl.strip(), prems))
    return res


def tla_expr(e):
    e = e.replace("<>", "#").replace("==", "=")
    e = re.sub(r"\band\b", "/\\\\", e)
    return e


def check_axioms(ctx):
    path = os.path.join(REPO, "lang", "check", "axioms.md")
    axs = axioms_to_tla(open(path).read())
    if len(axs) < 10:
        raise ToolingError("could not read the axiom listing (%d axioms found)" % len(axs))
    vars_ = sorted({v for (_, c, ps) in axs for v in re.findall(r"\b[a-z][0-9]?\b", c + " " + " ".join(ps))})
    mod = ["---- MODULE Axioms ----", "\\* GENERATED from lang/check/axioms.md by checks/C02.py: each axiom as premises => conclusion", "EXTENDS Integers",
           "CONSTANT Box", "VARIABLES " + ", ".join(vars_), "Init == " + " /\\ ".join("%s \\in Box" % v for v in vars_),
           "Next == UNCHANGED <<%s>>" % ", ".join(vars_), "Spec == Init /\\ [][Next]_<<%s>>" % ", ".join(vars_)]
    names = []
    for i, (body, c, ps) in enumerate(axs):
        nm = "Axiom%02d" % (i + 1)
        names.append(nm)
        prem = " /\\ ".join("(%s)" % tla_expr(p) for p in ps) if ps else "TRUE"
        mod.append("\\* %s" % body)
        mod.append("%s == (%s) => (%s)" % (nm, prem, tla_expr(c)))
    mod.append("====")
    text = "\n".join(mod) + "\n"
    # each axiom mentions at most 3-4 variables; check per axiom with only its variables free
    results = []
    for i, (body, c, ps) in enumerate(axs):
        vs = sorted(set(re.findall(r"\b[a-z][0-9]?\b", c + " " + " ".join(ps))))
        nm = "Ax"
        m2 = ["---- MODULE AxiomOne ----", "EXTENDS Integers", "VARIABLES " + ", ".join(vs),
              "Init == " + " /\\ ".join("%s \\in (0 - 7)..7" % v for v in vs), "Next == UNCHANGED <<%s>>" % ", ".join(vs),
              "Spec == Init /\\ [][Next]_<<%s>>" % ", ".join(vs),
              "Ax == (%s) => (%s)" % (" /\\ ".join("(%s)" % tla_expr(p) for p in ps) if ps else "TRUE", tla_expr(c)), "===="]
        res = ctx.tlc("AxiomOne", cfg="a.cfg", data={"AxiomOne.tla": "\n".join(m2) + "\n", "a.cfg": "SPECIFICATION Spec\nINVARIANT Ax\nCHECK_DEADLOCK FALSE\n"},
                      workers=2, timeout=600, label="axiom %d" % (i + 1))
        if res["error"]:
            raise ToolingError("TLC error on axiom %r:\n%s" % (body, res["error"][-1500:]))
        results.append((body, res["violated"] is None, res["distinct"], res["out"][-1200:] if res["violated"] else ""))
    # thorough: all integers, by Apalache (symbolic; one module, one invariant per axiom, length 0)
    apa = {"ran": False, "proved": 0, "note": ""}
    if ctx.tier == "thorough":
        import shutil as _sh, subprocess as _sp, os as _os
        if _sh.which("apalache-mc") is None:
            apa["note"] = "apalache-mc not found"
        else:
            d = ctx.subdir("apalache")
            for i, (body, c, ps) in enumerate(axs):
                vs = sorted(set(re.findall(r"\b[a-z][0-9]?\b", c + " " + " ".join(ps))))
                m3 = ["---- MODULE AxA%02d ----" % i, "EXTENDS Integers", "VARIABLES"]
                m3.append(",\n".join("  \\* @type: Int;\n  %s" % v for v in vs))
                m3 += ["Init == " + " /\\ ".join("%s \\in Int" % v for v in vs), "Next == UNCHANGED <<%s>>" % ", ".join(vs),
                       "Ax == (%s) => (%s)" % (" /\\ ".join("(%s)" % tla_expr(p) for p in ps) if ps else "TRUE", tla_expr(c)), "===="]
                fn = _os.path.join(d, "AxA%02d.tla" % i)
                open(fn, "w").write("\n".join(m3) + "\n")
                try:
                    r = _sp.run(["apalache-mc", "check", "--length=0", "--inv=Ax", "--out-dir=" + _os.path.join(d, "out%d" % i), fn],
                                capture_output=True, text=True, timeout=300, cwd=d)
                except _sp.TimeoutExpired:
                    apa["note"] += " timeout on axiom %d;" % (i + 1)
                    continue
                apa["ran"] = True
                out = r.stdout + r.stderr
                if "The outcome is: NoError" in out:
                    apa["proved"] += 1
                elif "The outcome is: Error" in out or "violat" in out.lower():
                    results[i] = (body, False, results[i][2], "Apalache refutes the axiom over the integers:\n" + out[-1500:])
                else:
                    apa["note"] += " axiom %d: unexpected apalache output;" % (i + 1)
    check_axioms.apalache = apa
    # every tier: an independent PROOF over all integers by the TLA+ proof system (tlapm; SMT / Zenon / Isabelle back
    # ends): one theorem per axiom, `\\A vars \\in Int : premises => conclusion`, OBVIOUS.  A failed proof is not a
    # refutation (TLC's box and Apalache refute); it is recorded and, if TLC found nothing either, left inconclusive.
    tl = {"ran": False, "obligations": 0, "proved": 0, "note": ""}
    import shutil as _sh2, subprocess as _sp2
    if _sh2.which("tlapm") is None:
        tl["note"] = "tlapm not found"
    else:
        d = ctx.subdir("tlapm")
        L = ["---- MODULE AxiomsProof ----", "EXTENDS Integers"]
        for i, (body, c, ps) in enumerate(axs):
            vs = sorted(set(re.findall(r"\b[a-z][0-9]?\b", c + " " + " ".join(ps))))
            prem = " /\\ ".join("(%s)" % tla_expr(p) for p in ps) if ps else "TRUE"
            L += ["\\* %s" % body, "THEOREM Ax%02d == \\A %s \\in Int : (%s) => (%s)" % (i + 1, ", ".join(vs), prem, tla_expr(c)), "OBVIOUS"]
        L.append("====")
        open(os.path.join(d, "AxiomsProof.tla"), "w").write("\n".join(L) + "\n")
        try:
            r = _sp2.run(["tlapm", "--threads", "8", "AxiomsProof.tla"], capture_output=True, text=True, timeout=900, cwd=d)
            out = r.stdout + r.stderr
            tl["ran"] = True
            tl["obligations"] = len(axs)
            m = re.search(r"All (\d+) obligations? proved", out)
            if m:
                tl["proved"] = int(m.group(1))
            else:
                m2 = re.search(r"(\d+)/(\d+) obligations? failed", out)
                tl["proved"] = (int(m2.group(2)) - int(m2.group(1))) if m2 else 0
                tl["note"] = "tlapm did not prove every axiom: " + out[-600:].replace("\n", " | ")
        except _sp2.TimeoutExpired:
            tl["note"] = "tlapm timed out"
    check_axioms.tlapm = tl
    return axs, results, text


def run(ctx):
    b, viols, hists, stats, st = wcorepipe.model_check(ctx, "C02", "ideal", "split", ["FactsTrue"], {"fact"})
    wcorepipe.report_model_violations(ctx, "C02", viols)
    axs, results, text = check_axioms(ctx)
    for body, ok, n, tail in results:
        if not ok:
            ctx.violation("axiom `%s` of lang/check/axioms.md is not a theorem over the integers (TLC counterexample in -7..7):\n%s" % (body, tail),
                          {"key": "axiom:" + body, "axiom": body, "tlc": tail})
    nfacts = sum(len(n["fx"]) for p in b.progs for n in p["nodes"] if n.get("hf"))
    nstm = sum(1 for p in b.progs for n in p["nodes"] if n.get("hf"))
    cov = wcorepipe.coverage_common(ctx, b, stats, st)
    cov["traces_validated_against_impl"] = 0
    cov["statements_with_fact_snapshots"] = nstm
    cov["facts_exported"] = nfacts
    cov["axioms_checked"] = len(results)
    cov["axioms"] = [r[0] for r in results]
    cov["axioms_apalache_all_integers"] = getattr(check_axioms, "apalache", {})
    cov["axioms_tlapm_proof_all_integers"] = getattr(check_axioms, "tlapm", {})
    cov["samples"] = [{"program": p["name"], "origin": p["origin"],
                       "facts": [wcorepipe.describe_node(p, f) for n in p["nodes"] if n.get("hf") for f in n["fx"]][:8]} for p in b.progs[:5]]
    cov["model_violations_found"] = len(viols)
    cov["exhaustive"] = True
    ctx.evidence("model_checking", cov, assumptions=[
        "facts are evaluated under the TLA+ semantics (ideal integers); a fact whose evaluation needs a construct outside the fragment is not claimed",
        "axioms are checked exhaustively on -7..7 in the quick tier (Apalache for all integers in the thorough tier when available)",
    ])


def replay(ctx, path):
    print(json.dumps(json.load(open(path))["replay"], indent=1)[:6000])

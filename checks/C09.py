"""C09 - results depend only on the input, not on memory garbage, init flags or CPU paths.

Mode V: spec/Determinism.tla states it as functional dependence (a decoder is
an unknown but FIXED function of <<input, schedule>>; the configuration is a
variable the observable behaviour must not depend on).  The driver runs every
<<input, schedule>> under a base configuration and under varied configurations
(initialize flags, prior memory contents incl. the leftovers of a previous
decode of another file, destination/work-buffer prefill, CPU-specific code
disabled at compile time); TLC validates the recorded traces with
spec/Trace_Std.tla (Mode = "same"): every varied run must end with the base
run's status, output and consumed count, and be a prefix of it at every call.
Token decoders (std/json, std/cbor): besides the raw token hash, the recorded
token streams are compared by TLC in the normal form of spec/TokenStream.tla
(clause NormalFormEqualsOracle) and checked for well-formedness under every
configuration; generated JSON / CBOR documents (lib/tokgen.py) are added."""
import json, os, random, shutil
import stdbuild, stdtrace, stdinputs, tokgen
from vlib import ToolingError, VERIF

META = {
    "level": "exploration",
    "technique": "trace validation by TLC (Trace_Std.tla, Mode same): runs of the freshly generated std C on one <<input, schedule>> under varied initialize flags, memory prefills, object reuse after another decode and CPU-arch-disabled builds must all equal the base configuration's run",
    "text": "Differential runs of the same generated C under every configuration axis the property names; the acceptance predicate (same status, same output, same consumed count, prefix at every call) is evaluated by TLC on the recorded traces. Inputs: corpus + seeded mutants; SIMD twins are reached through inputs long enough for the vector loops with sampled tail lengths 0..63. The documented JPEG exception is built in: CPU on/off is compared for std/jpeg on unmutated (encoder-produced) files only.",
    "note": "Token decoders: the token stream of every configuration is compared with the base configuration's by TLC (normal form of spec/TokenStream.tla, token by token up to 16 KiB of source, by hash above) and must be well-formed. Trusted: gcc honouring WUFFS_CONFIG__AVOID_CPU_ARCH, the driver's hashes. Reading a never-written internal buffer is detected only if it changes the output for one of the prefills (0x00, 0xA5, 0xFF, leftovers of another decode).",
}

VARIANTS = [
    # (name, build, job fields, needs_prior)
    ("init=leave,A5", "plain", {"init": 2, "prefill": "A5"}, False),
    ("init=leave,FF", "plain", {"init": 2, "prefill": "FF"}, False),
    ("init=already_zeroed", "plain", {"init": 1, "prefill": "00"}, False),
    ("init=default,FF", "plain", {"init": 0, "prefill": "FF"}, False),
    ("reuse,init=leave", "plain", {"init": 2, "prefill": "5A"}, True),
    ("reuse,init=default", "plain", {"init": 0, "prefill": "00"}, True),
    ("nocpu", "plain_nocpu", {"init": 0, "prefill": "00"}, False),
    ("nocpu,init=leave,FF", "plain_nocpu", {"init": 2, "prefill": "FF"}, False),
]


def run(ctx):
    thorough = ctx.tier == "thorough"
    rng = ctx.rng
    tools = stdbuild.build_tools(ctx)
    root = stdbuild.gen_std(ctx, tools)
    res = stdbuild.compile_many(ctx, root, "stddrive.c", ["plain", "plain_nocpu"])
    exes = {}
    for v, (exe, log) in res.items():
        if exe is None:
            raise ToolingError("generated std C does not compile (%s):\n%s" % (v, log[-3000:]))
        exes[v] = exe
    maxsize = (1 << 20) if thorough else (64 << 10)
    corp = stdinputs.corpus(max_size=maxsize)
    bydec = {}
    for (p, dec, extra) in corp:
        bydec.setdefault(dec, []).append(p)
    mdir = ctx.subdir("c09-in")
    inputs = [(p, dec, extra, "corpus") for (p, dec, extra) in corp]
    for (p, dec, extra) in corp:
        data = open(p, "rb").read()
        for i in range(3 if thorough else (1 if rng.random() < 0.5 else 0)):
            kind = rng.choice(stdinputs.MUT_KINDS)
            mp = os.path.join(mdir, "%s.%s%d" % (os.path.basename(p), kind, i))
            open(mp, "wb").write(stdinputs.mutate(data, rng, kind))
            inputs.append((mp, dec, extra, "mutant:" + kind))
    # token decoders: generated JSON / CBOR documents and mutants (own random stream: the other jobs stay as they were)
    trng = random.Random(ctx.seed * 7919 + 9)
    tokdocs = tokgen.write_docs(ctx.subdir("c09-tokdocs"), trng, 16 if thorough else 8, 12 if thorough else 6, mutants=1, large=thorough)
    # spec-shaped inputs that the corpus and random mutation do not contain:
    #  - baseline JPEGs (written with lib/lowleveljpeg, quantisation factors 1) whose blocks have a single non-zero AC
    #    coefficient at each of the 63 positions, or one non-zero row / column: every "all other coefficients are zero"
    #    shortcut of an inverse DCT is taken, in the SIMD and in the portable variant (encoder-produced, small
    #    coefficients: inside the documented agreement range);
    #  - DEFLATE streams with degenerate Huffman trees (one one-bit distance code, none at all), valid ones and ones that
    #    use the unassigned code: the reaction to the unassigned code may not depend on what a table slot held before.
    jr = ctx.go_build("./cmd/jpegreplay")
    cr = ctx.go_build("./cmd/cutreplay")
    sdir, ddir = os.path.join(mdir, "sparse"), os.path.join(mdir, "degenerate")
    r1 = ctx.run([jr, "sparse", sdir], timeout=300)
    r2 = ctx.run([cr, "-degenerate", ddir], timeout=300)
    if r1.returncode != 0 or r2.returncode != 0:
        raise ToolingError("input generators failed: %s %s" % (r1.stderr[-500:], r2.stderr[-500:]))
    for fn in sorted(os.listdir(sdir)):
        inputs.append((os.path.join(sdir, fn), "jpeg", {}, "corpus"))       # (encoder-produced: compared across CPU variants too)
        bydec.setdefault("jpeg", []).append(os.path.join(sdir, fn))
    for fn in sorted(os.listdir(ddir)):
        if fn.endswith(".deflate"):
            inputs.append((os.path.join(ddir, fn), "deflate", {}, "degenerate"))
            bydec.setdefault("deflate", []).append(os.path.join(ddir, fn))
    # hasher inputs: long enough for the SIMD loops, every tail class sampled
    big = open(os.path.join(stdbuild.REPO, "test", "data", "pi.txt"), "rb").read() if os.path.exists(os.path.join(stdbuild.REPO, "test", "data", "pi.txt")) else bytes(range(256)) * 64
    tails = list(range(64)) if thorough else rng.sample(range(64), 12)
    for t in tails:
        L = rng.choice((64, 256, 4096, 8192)) + t
        hp = os.path.join(mdir, "hash-%d.bin" % L)
        open(hp, "wb").write(big[:L])
        for h in stdinputs.HASHERS:
            inputs.append((hp, h, {"parts": rng.choice(("*", "%d,*" % rng.randrange(1, 40), "1000"))}, "hasher"))
    inputs += tokdocs

    jobs = {"plain": [], "plain_nocpu": []}
    meta = {}
    base_of = {}
    jid = 0
    nvar = 8 if thorough else 3
    for (p, dec, extra, origin) in inputs:
        n = os.path.getsize(p)
        scheds = [{"src": "*", "dst": "*"}]
        if stdinputs.KIND.get(dec) != "hasher":
            piece = rng.choice([q for q in (7, 64, 4096) if n // q <= 300] or [4096])
            scheds.append({"src": str(piece), "dst": rng.choice(("*", "4096", "64")) if n < 20000 else "*",
                           "dstmode": rng.choice(("grow", "compact")), "srcmode": rng.choice(("view", "fresh"))})
        if stdinputs.KIND.get(dec) == "token" and n <= 1500:
            # a token buffer of 1..3 tokens under small source pieces: every token lands in freshly prefilled buffer memory
            cap = trng.choice([c for c in (1, 2, 3) if c >= tokgen.TOKEN_CAP_MIN[dec]])
            scheds.append({"src": trng.choice(("1", "3")), "dst": str(cap), "srcmode": trng.choice(("view", "fresh"))})
        for sc in scheds:
            jid += 1
            bj = {"id": jid, "dec": dec, "in": p, "init": 0, "prefill": "00", "budget_ms": 60000, "maxcalls": 100000}
            bj.update(extra)
            bj.update(sc)
            jobs["plain"].append(bj)
            meta[jid] = {"input": p, "dec": dec, "origin": origin, "schedule": sc, "variant": "base"}
            bid = jid
            picks = VARIANTS if (origin == "degenerate" or "/sparse/" in p) else rng.sample(VARIANTS, min(nvar, len(VARIANTS)))
            for (vn, build, fields, needs_prior) in picks:
                if build == "plain_nocpu" and dec == "jpeg" and origin != "corpus":
                    continue      # the documented exception: only encoder-produced JPEGs must agree across IDCT variants
                vj = dict(bj)
                jid += 1
                vj["id"] = jid
                vj.update(fields)
                if needs_prior:
                    others = [q for q in bydec.get(dec, []) if q != p]
                    if not others:
                        continue
                    vj["prior"] = rng.choice(others)
                jobs[build].append(vj)
                meta[jid] = {"input": p, "dec": dec, "origin": origin, "schedule": sc, "variant": vn, "prior": vj.get("prior")}
                base_of[jid] = bid
    ctx.log("jobs: %d (default build) + %d (CPU-arch code disabled)" % (len(jobs["plain"]), len(jobs["plain_nocpu"])))
    ev = {}
    for build in ("plain", "plain_nocpu"):
        ev.update(stdtrace.run_jobs(ctx, exes[build], jobs[build], sanitizer=False))
    traces = []
    alljobs = {int(j["id"]): j for b in jobs.values() for j in b}
    ncmp = 0
    for jid_, bid in sorted(base_of.items()):
        evs = ev.get(jid_, [])
        be = stdtrace.end_event(ev.get(bid, []))
        if be is None or not evs:
            continue
        if be.get("stop") not in ("status", "done"):
            continue      # the base run hit a bound of the exploration: nothing to compare with
        if stdinputs.KIND.get(meta[jid_]["dec"]) == "token":
            # same schedule, so the raw token hash (out_hash) must be equal too; "otk" lets TLC compare the normal forms itself
            x = stdtrace.token_expect(be, ev.get(bid, []), fields=("st", "cls", "out_total", "out_hash", "in_total", "nf_hash"))
        else:
            x = stdtrace.expect_from(be)
        x["j"] = jid_
        traces.append((jid_, [evs[0], x] + evs[1:] if evs[0].get("k") == "start" else evs))
        ncmp += 1
    nev, rej = stdtrace.validate(ctx, traces, "same", "C09")
    for r in rej:
        m = meta.get(r["job"], {})
        be = stdtrace.end_event(ev.get(base_of.get(r["job"]), []))
        saved = None
        if m.get("input") and os.path.exists(m["input"]):
            d = os.path.join(VERIF, "replays", "inputs")
            os.makedirs(d, exist_ok=True)
            saved = os.path.join(d, "C09-%s-%d-%s" % (ctx.tier, ctx.seed, os.path.basename(m["input"])))
            shutil.copy(m["input"], saved)
        what = "std/%s: configuration `%s` changes the result: clauses %s; input %s [%s], schedule %s\n  varied run: %s\n  base run:   %s" % (
            m.get("dec"), m.get("variant"), r["clauses"], os.path.basename(m.get("input", "?")), m.get("origin"), json.dumps(m.get("schedule")),
            _short(r["event"]), be)
        ctx.violation(what, {"key": "%s:%s:%s" % (m.get("dec"), m.get("variant"), os.path.basename(m.get("input", "?")).split(".")[0]),
                             "decoder": m.get("dec"), "variant": m.get("variant"), "input_saved": saved, "clauses": r["clauses"],
                             "event": r["event"], "base_end": be, "job": stdtrace.job_line(dict(alljobs.get(r["job"], {}), **({"in": saved} if saved else {})))})
    distinct = {(m["dec"], os.path.basename(m["input"]), json.dumps(m["schedule"], sort_keys=True), m["variant"]) for k, m in meta.items() if k in base_of}
    per_variant = {}
    for k in base_of:
        per_variant[meta[k]["variant"]] = per_variant.get(meta[k]["variant"], 0) + 1
    ctx.evidence("exploration", {
        "evaluations": ncmp,
        "distinct_nontrivial": len(distinct),
        "rule": "one evaluation = one varied-configuration run compared (by TLC, Trace_Std Mode same) with the base run of the same <<input, schedule>>; "
                "distinct = distinct (decoder, input, schedule, variant); inputs = corpus + seeded mutants + hasher inputs with sampled SIMD tail lengths",
        "samples": [{"decoder": meta[k]["dec"], "input": os.path.basename(meta[k]["input"]), "variant": meta[k]["variant"], "schedule": meta[k]["schedule"],
                     "prior": os.path.basename(meta[k].get("prior") or "") or None} for k in list(base_of)[:: max(1, len(base_of) // 6)][:6]],
        "runs_per_variant": per_variant,
        "traces_validated_against_impl": ncmp,
        "events_validated_by_tlc": nev,
        "token_streams": dict(stdtrace.token_stats({k: v for k, v in ev.items() if k in base_of}), generated_documents=len(tokdocs)),
        "builds": ["gcc -O2", "gcc -O2 -DWUFFS_CONFIG__AVOID_CPU_ARCH"],
        "states": sum(t["distinct"] for t in ctx.tlc_stats),
        "transitions": sum(t["generated"] for t in ctx.tlc_stats),
    }, assumptions=[
        "a dependence on uninitialised memory is visible only if one of the prefills changes the observable result",
        "std/jpeg: SIMD vs portable IDCT compared on unmutated files only (documented exception)",
    ])



def _short(ev):
    """An event for a message: the recorded token / byte arrays are elided (the replay file keeps them)."""
    return {k: (v if not (isinstance(v, list) and len(v) > 12) else v[:12] + ["... %d more" % (len(v) - 12)]) for k, v in ev.items() if k != "stderr_tail"}

def replay(ctx, path):
    print(json.dumps(json.load(open(path))["replay"], indent=1)[:6000])

"""C01 - accepted Wuffs programs never go out of bounds, overflow or deref null.

Mode S: the checker's claims about every accepted program (hand corpus, seeded
near-miss mutants, generated programs) are exported with the program's checked
AST and TLC model-checks the program under the TLA+ semantics spec/WuffsCore.tla
for all inputs x call histories x suspension schedules of a bounded domain, with
the safety monitor (NoFault) and the exported ranges (ClaimedRanges) as
invariants."""
import random, threading
import wcorepipe, wwide
from vlib import ToolingError

META = {
    "level": "model_checking",
    "technique": "TLC (and, for full-width operands, Apalache) model-checks every accepted program (corpus + near-miss mutants + generated) under the TLA+ operational semantics WuffsCore.tla with the safety monitor and the compiler's exported MBounds as invariants (static claims exported through a verif-tagged exporter)",
    "text": "For each accepted program TLC explores every argument choice, every history of <= 2-3 public calls, every input of the bounded domain and every suspension schedule; in every reachable state the monitor (index, slice, overflow, conversion, store, division, shift, recursion, argument refinement) and the checker's claimed range of every evaluated expression are checked. Exhaustive inside the bounds, nothing outside them.",
    "note": "Trusted: the TLA+ semantics (written from the language documentation), the mechanical AST exporter, TLC, Apalache. Under TLC values stay below 2^30 (8/16-bit types free, 32/64-bit only inside the window); the full-width part (lib/wwide.py: straight-line operator programs with operands at 2^31/2^32/2^63/2^64, every claimed range an Apalache invariant over all operand pairs, with a falsified-claim negative control) covers the arithmetic operators only; programs outside the interpreted core language are counted, not checked. For std itself (60k lines, outside the model's reach) the same claims are asserted at run time by the checked build of hook H3, which runs under C03 (evidence/C03.json, coverage.checked_build): MBounds are not asserted inside loop conditions (they hold on entry only; index and slice bounds are), I/O built-in pre-conditions and null pointers are left to the sanitizers.",
}


def run(ctx):
    # full width (DESIGN 3): the claimed ranges of operator-grid programs whose operands sit at 2^31, 2^32, 2^63, 2^64,
    # decided for ALL operand pairs by Apalache (unbounded integers) - TLC's 32-bit integers cannot hold them.
    # It runs beside the TLC part.
    wexport = ctx.go_build("./cmd/wexport", tags="verif")
    wprogs = wwide.wide_programs(random.Random(ctx.seed), per_op=2 if ctx.tier == "quick" else 8)
    box = {}

    def wide():
        try:
            box["r"] = wwide.run(ctx, wexport, wprogs, par=4 if ctx.tier == "quick" else 6, batch=12)
        except BaseException as e:
            box["e"] = e
    th = threading.Thread(target=wide)
    th.start()
    try:
        b, viols, hists, stats, st = wcorepipe.model_check(ctx, "C01", "ideal", "oneshot" if ctx.tier == "quick" else "split", ["NoFault", "ClaimedRanges"], {"viol", "range"})
    finally:
        th.join()
    if "e" in box:
        raise box["e"]
    wcorepipe.report_model_violations(ctx, "C01", viols)
    wstats, wref = box["r"]
    ctx.log("full-width: %s" % wstats)
    for r in wref:
        ctx.violation("C01: accepted program `%s` function %s: a range the checker claims (or the return type) is refuted at full width by Apalache\n--- source ---\n%s\n--- counterexample ---\n%s" % (
            r["program"], r["function"], r["source"], r["counterexample"][:1500]),
            {"key": "wide:%s:%s" % (r["program"], r["function"]), "program": r["program"], "source": r["source"], "module": r["module"],
             "counterexample": r["counterexample"], "claims": r["claims"], "params": r["params"]})
    cov = wcorepipe.coverage_common(ctx, b, stats, st)
    cov["full_width_apalache"] = wstats
    cov["traces_validated_against_impl"] = 0
    cov["samples"] = [{"program": p["name"], "origin": p["origin"], "functions": [f["name"] + f["eff"] for f in p["funcs"]],
                       "inputs": p["inputs"][:3]} for p in b.progs[:6]]
    cov["model_violations_found"] = len(viols)
    cov["exhaustive"] = True
    ctx.evidence("model_checking", cov, assumptions=[
        "the verdict is a static claim refuted (or not) under the TLA+ semantics; it is not replayed on the C here (C04 binds the semantics to the generated C)",
        "bounded: argument choices, call depth, input length and alphabet as listed in coverage.bounds",
    ])


def replay(ctx, path):
    import json
    print(json.dumps(json.load(open(path))["replay"], indent=1)[:6000])

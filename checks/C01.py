"""C01 - accepted Wuffs programs never go out of bounds, overflow or deref null.

Mode S: the checker's claims about every accepted program (hand corpus, seeded
near-miss mutants, generated programs) are exported with the program's checked
AST and TLC model-checks the program under the TLA+ semantics spec/WuffsCore.tla
for all inputs x call histories x suspension schedules of a bounded domain, with
the safety monitor (NoFault) and the exported ranges (ClaimedRanges) as
invariants."""
import wcorepipe
from vlib import ToolingError

META = {
    "level": "model_checking",
    "technique": "TLC model-checks every accepted program (corpus + near-miss mutants + generated) under the TLA+ operational semantics WuffsCore.tla with the safety monitor and the compiler's exported MBounds as invariants (static claims exported through a verif-tagged exporter)",
    "text": "For each accepted program TLC explores every argument choice, every history of <= 2-3 public calls, every input of the bounded domain and every suspension schedule; in every reachable state the monitor (index, slice, overflow, conversion, store, division, shift, recursion, argument refinement) and the checker's claimed range of every evaluated expression are checked. Exhaustive inside the bounds, nothing outside them.",
    "note": "Trusted: the TLA+ semantics (written from the language documentation), the mechanical AST exporter, TLC. Values stay below 2^30 (8/16-bit types free, 32/64-bit only inside the window); programs outside the interpreted core language are counted, not checked. For std itself (60k lines, outside the model's reach) the same claims are asserted at run time by the checked build of hook H3, which runs under C03 (evidence/C03.json, coverage.checked_build): MBounds are not asserted inside loop conditions (they hold on entry only; index and slice bounds are), I/O built-in pre-conditions and null pointers are left to the sanitizers.",
}


def run(ctx):
    b, viols, hists, stats, st = wcorepipe.model_check(ctx, "C01", "ideal", "oneshot" if ctx.tier == "quick" else "split", ["NoFault", "ClaimedRanges"], {"viol", "range"})
    wcorepipe.report_model_violations(ctx, "C01", viols)
    cov = wcorepipe.coverage_common(ctx, b, stats, st)
    cov["traces_validated_against_impl"] = 0
    cov["samples"] = [{"program": p["name"], "origin": p["origin"], "functions": [f["name"] + f["eff"] for f in p["funcs"]],
                       "inputs": p["inputs"][:3]} for p in b.progs[:6]]
    cov["model_violations_found"] = len(viols)
    cov["exhaustive"] = True
    ctx.evidence("model_checking", cov, assumptions=[
        "the verdict is a static claim refuted (or not) under the TLA+ semantics; it is not replayed on the C here (C04 binds the semantics to the generated C)",
        "bounded: argument choices, call depth, input length and alphabet as listed in coverage.bounds",
    ])


def replay(ctx, path):
    import json
    print(json.dumps(json.load(open(path))["replay"], indent=1)[:6000])

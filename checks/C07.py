"""C07 - standard-library codecs agree with independent implementations on valid data.

Two layers (DESIGN.md, section C07).

(i) Format models that TLC owns (model checking of small formats).
    spec/Adler32.tla, Crc.tla (+CrcDefs), DeflateStored.tla, ZlibFrame.tla,
    GzipFrame.tla, LzwGif.tla, PngFilter.tla define the formats from their
    specifications (RFC 1950/1951/1952, GIF89a appendix F, PNG section 9) as
    TLA+; TLC checks each model against itself (decoder(encoder(x)) = x,
    split independence, published check values) over its whole bounded case
    space and prints every case with the EXPECTED output.  harness/cmd/fmtcases
    writes the concrete files (TLC's bytes; LZW codes bit-packed / wrapped in a
    GIF; PNG filter bytes zlib-compressed and wrapped in PNG chunks), the freshly
    generated C of std/ decodes them under harness/c/stddrive.c, and TLC
    validates the recorded traces against spec/Trace_Std.tla with
    Mode = "reference": final status OK (or the documented end-of-data note of
    the image call sequence), output byte-equal to TLC's expectation (prefix at
    every call), checksum equal to TLC's value under every partition into
    update calls.

(ii) Reference round trips (exploration).  spec/CodecConfig.tla defines the
    space of encoder settings x payload classes; harness/cmd/refenc encodes with
    Go's flate/zlib/gzip/lzw/png/gif, this file runs the system bzip2 / xz
    tools and the system zlib; Wuffs decodes under one-shot and IOSchedule.tla
    schedules; the acceptance condition is the same Trace_Std predicate with
    the payload (pixels converted to BGRA_NONPREMUL on the Go side) as oracle.
    Hashers: update-call partitions against hash/crc32, hash/crc64,
    hash/adler32, crypto/sha256; xxhash32/64 against their own one-shot value.
"""
import concurrent.futures, hashlib, json, os, shutil, subprocess, time
from vlib import ToolingError, VERIF, REPO, parse_tlc_prints, NCPU
import stdbuild, stdtrace, stdinputs

META = {
    "level": "exploration",
    "technique": "TLA+ format models (Adler-32, CRC-32/64, stored/fixed DEFLATE, zlib and gzip framing, GIF-LZW, PNG filters) model-checked by TLC, "
                 "their exported cases replayed into the generated C of std/ and the recorded call traces validated by TLC against Trace_Std.tla "
                 "(Mode=reference); reference-encoder round trips over the CodecConfig.tla configuration space under IOSchedule.tla schedules, "
                 "validated by the same trace specification",
    "text": "Small formats are model-checked: TLC enumerates every case of the bounded spaces (all byte strings up to 3-5 bytes for the checksums, "
            "all block sequences of stored/fixed DEFLATE with zlib/gzip framing incl. multi-member and FHCRC/FEXTRA/FNAME/FCOMMENT, all valid GIF-LZW code "
            "sequences up to 5-6 codes incl. KwKwK, clear, width growth and a full dictionary, all pairs/triples of PNG filter types at widths 1-4 x bpp 1-4), "
            "computes the expected output from the format definition and Wuffs must reproduce it. DEFLATE proper, bzip2, LZMA/XZ, PNG and GIF as a whole are "
            "covered by exploration: payload classes x encoder settings of Go's encoders, bzip2, xz and zlib, decoded by Wuffs under one-shot and split "
            "schedules; hashers under update-call partitions against Go's hash packages.",
    "note": "Trusted: TLC, the TLA+ format models (cross-checked against Go's decoders: a disagreement is a tooling error), harness/c/stddrive.c "
            "(memcmp against the oracle file, pixel-buffer hashes), Go's encoders/decoders and the bzip2/xz/zlib tools as references. 16-bit PNG samples are "
            "compared after reduction to 8 bits (high byte). xxhash32/64 have no reference implementation here: only partition independence is checked.",
}

TOOLDIRS = ["/root/miniconda/bin", "/usr/bin", "/bin", "/usr/local/bin"]


# ------------------------------------------------------------------ builds

def build(ctx, want=("plain", "plain_nocpu", "zdict")):
    tools = stdbuild.build_tools(ctx)
    root = stdbuild.gen_std(ctx, tools)
    exes = {}

    def one(v):
        if v == "zdict":
            src = os.path.join(VERIF, "harness", "cmd", "refenc", "cdriver", "zdictdrive.c")
            return stdbuild.compile_driver(ctx, root, src, "plain", out="zdictdrive-plain", extra=["-I", os.path.join(VERIF, "harness", "c")])
        return stdbuild.compile_driver(ctx, root, "stddrive.c", v)
    with concurrent.futures.ThreadPoolExecutor(max_workers=len(want)) as ex:
        futs = {v: ex.submit(one, v) for v in want}
        for v, f in futs.items():
            exe, log = f.result()
            if exe is None:
                raise ToolingError("generated std C / driver does not compile (%s):\n%s" % (v, log[-3000:]))
            exes[v] = exe
    return exes


# ------------------------------------------------------ layer (i): TLC models

def model_runs(ctx):
    t = ctx.tier == "thorough"
    seed = ctx.seed % 65521
    A4, A5 = "{0, 1, 128, 255}", "{0, 1, 127, 128, 255}"
    runs = []

    def add(label, module, fmts, consts, invs, props=(), workers=2):
        cfg = "SPECIFICATION Spec\nCONSTANTS\n" + "".join("  %s\n" % c for c in consts) + "INVARIANTS " + " ".join(invs) + "\n"
        if props:
            cfg += "PROPERTIES " + " ".join(props) + "\n"
        cfg += "CHECK_DEADLOCK FALSE\n"
        runs.append({"label": label, "module": module, "fmts": set(fmts), "cfg": cfg, "workers": workers})

    add("Adler32", "Adler32", ["adler32"], ["AdlerMaxLen = %d" % (4 if t else 3), "AdlerAlphabet = %s" % (A5 if t else A4)],
        ["StreamingEqualsClosed", "SplitIndependent", "Export"])
    add("Crc32", "Crc", ["crc32"], ["Poly <- PolyCrc32", "CrcMaxLen = %d" % (4 if t else 3), "CrcAlphabet = %s" % (A5 if t else A4), 'CrcName = "crc32"'],
        ["SplitIndependent", "Linear", "FastEqualsDef", "Export"], workers=4 if t else 2)
    add("Crc64", "Crc", ["crc64"], ["Poly <- PolyCrc64", "CrcMaxLen = %d" % (4 if t else 3), "CrcAlphabet = %s" % A4, 'CrcName = "crc64"'],
        ["SplitIndependent", "Linear", "FastEqualsDef", "Export"], workers=4 if t else 2)
    if t:
        add("DeflateStored/3 blocks", "DeflateStored", ["deflate"], ["MaxBlocks = 3", "DataChoices <- DataSmall", "Pads = {0, 1}"],
            ["RoundTrip", "NoProperPrefixDecodes", "Export"], workers=4)
        add("DeflateStored/medium data", "DeflateStored", ["deflate"], ["MaxBlocks = 2", "DataChoices <- DataMedium", "Pads = {0, 1}"],
            ["RoundTrip", "NoProperPrefixDecodes", "Export"], workers=4)
        add("ZlibFrame", "ZlibFrame", ["zlib"], ["ZMaxBlocks = 2", "ZPads = {0}", "CInfos = {0, 4, 7}", "FLevels = {0, 1, 2, 3}", "Dicts <- DictsSome"],
            ["RoundTrip", "Export"], workers=4)
        add("GzipFrame/flags", "GzipFrame", ["gzip"], ["GMaxBlocks = 1", "GPads = {0}", "FlagSets1 <- AllFlagSets", "FlagSets2 = {{}, {\"FTEXT\", \"FHCRC\", \"FEXTRA\", \"FNAME\", \"FCOMMENT\"}}",
                                                     "GMaxMembers = 2", 'FieldVariants = {"empty", "long"}', "GDataSet <- GDataAll"], ["RoundTrip", "Export"], workers=4)
        add("GzipFrame/3 members", "GzipFrame", ["gzip"], ["GMaxBlocks = 1", "GPads = {0, 1}", "FlagSets1 <- FewFlagSets", "FlagSets2 <- FewFlagSets",
                                                         "GMaxMembers = 3", 'FieldVariants = {"short"}', "GDataSet <- GDataSmall"], ["RoundTrip", "Export"], workers=4)
    else:
        add("DeflateStored", "DeflateStored", ["deflate"], ["MaxBlocks = 2", "DataChoices <- DataSmall", "Pads = {0, 1}"],
            ["RoundTrip", "NoProperPrefixDecodes", "Export"])
        add("ZlibFrame", "ZlibFrame", ["zlib"], ["ZMaxBlocks = 1", "ZPads = {0}", "CInfos = {0, 7}", "FLevels = {0, 2}", "Dicts <- DictsSome"], ["RoundTrip", "Export"])
        add("GzipFrame", "GzipFrame", ["gzip"], ["GMaxBlocks = 1", "GPads = {0}", "FlagSets1 <- AllFlagSets", "FlagSets2 = {{}, {\"FTEXT\", \"FHCRC\", \"FEXTRA\", \"FNAME\", \"FCOMMENT\"}}",
                                               "GMaxMembers = 2", 'FieldVariants = {"short"}', "GDataSet <- GDataSmall"], ["RoundTrip", "Export"], workers=3)
    lz = [(2, 6, 64, "none"), (3, 4, 64, "none"), (4, 3, 64, "none"), (2, 3, 16, "fill"), (3, 2, 16, "fill"), (8, 2, 16, "fill")] if t else \
         [(2, 5, 64, "none"), (3, 3, 64, "none"), (2, 2, 16, "fill")]
    for lw, mc, cap, pk in lz:
        add("LzwGif lw=%d codes<=%d %s" % (lw, mc, pk), "LzwGif", ["lzw"], ["LW = %d" % lw, "MaxCodes = %d" % mc, "BranchCap = %d" % cap, 'PrefixKind = "%s"' % pk],
            ["TypeOK", "EntriesGrow", "Export"], props=["EntriesStable"], workers=4 if t else 2)
    add("PngFilter", "PngFilter", ["pngfilter"], ["Widths = %s" % ("{1, 2, 3, 4, 5}" if t else "{1, 2, 3, 4}"), "Bpps = {1, 2, 3, 4}", "Fills = %s" % ("{1, 2, 3}" if t else "{1}"),
                                                 "LongFills = %s" % ("{1, 2, 3}" if t else "{1}"), "RawFills = %s" % ("{1, 2, 3}" if t else "{1}"),
                                                 'TieModes = {"tieBC", "tieAC"}', "Seed = %d" % seed],
        ["TypeOK", "FilterInverts", "RawRoundTrip", "TiesAreTies", "Export"], workers=4 if t else 2)
    return runs


def run_models(ctx):
    runs = model_runs(ctx)

    def one(r):
        res = ctx.tlc(r["module"], cfg="m.cfg", data={"m.cfg": r["cfg"]}, workers=r["workers"], timeout=5400, label="model " + r["label"], heap="3g")
        if res["error"]:
            raise ToolingError("TLC error in format model %s:\n%s" % (r["label"], res["error"]))
        if res["violated"] or res["deadlock"] or not res["finished"]:
            raise ToolingError("format model %s does not satisfy its own properties (%s):\n%s" % (r["label"], res["violated"], res["out"][-3000:]))
        cases = [o for o in parse_tlc_prints(res["out"]) if isinstance(o, dict) and o.get("fmt") in r["fmts"]]
        # an INSTANCE with its variable bound to a constant makes TLC evaluate the instance's Export once: drop duplicates
        seen, uniq = set(), []
        for c in cases:
            k = json.dumps(c, sort_keys=True)
            if k not in seen:
                seen.add(k)
                uniq.append(c)
        return r["label"], uniq, res
    out = []
    with concurrent.futures.ThreadPoolExecutor(max_workers=4 if ctx.tier == "thorough" else 5) as ex:
        for label, cases, res in ex.map(one, runs):
            if not cases:
                raise ToolingError("format model %s exported no cases:\n%s" % (label, res["out"][-1500:]))
            ctx.log("model %-32s %6d cases, %7d states, %.0fs" % (label, len(cases), res["distinct"], res["wall_s"]))
            out.append((label, cases, res))
    return out


def schedule_classes(ctx):
    res = ctx.tlc_ok("IOSchedule", cfg="e.cfg", data={"e.cfg": "SPECIFICATION ExportSpec\nCONSTANT MaxN = 1\nCHECK_DEADLOCK FALSE\n"}, workers=1, timeout=900,
                     label="IOSchedule export")
    objs = [o for o in parse_tlc_prints(res["out"]) if isinstance(o, dict) and "classes" in o]
    if not objs:
        raise ToolingError("IOSchedule export produced no classes:\n" + res["out"][-1500:])
    classes = objs[0]["classes"]
    classes.sort(key=lambda c: json.dumps(c, sort_keys=True))
    return classes


def codec_configs(ctx):
    res = ctx.tlc_ok("CodecConfig", cfg="c.cfg", data={"c.cfg": 'SPECIFICATION Spec\nCONSTANT Tier = "%s"\nINVARIANT Export\nCHECK_DEADLOCK FALSE\n' % ctx.tier},
                     workers=1, timeout=900, label="CodecConfig export")
    objs = [o for o in parse_tlc_prints(res["out"]) if isinstance(o, dict) and "configs" in o]
    if not objs:
        raise ToolingError("CodecConfig export produced nothing:\n" + res["out"][-1500:])
    o = objs[0]
    o["configs"].sort(key=lambda e: json.dumps(e, sort_keys=True))
    return o


# ----------------------------------------------- layer (ii): system tool encoders

def find_tool(name):
    for d in TOOLDIRS:
        p = os.path.join(d, name)
        if os.path.isfile(p) and os.access(p, os.X_OK):
            return p
    return shutil.which(name)


XZ_FILTER = {"delta1": "--delta=dist=1", "delta4": "--delta=dist=4", "delta256": "--delta=dist=256", "x86": "--x86", "arm": "--arm", "armthumb": "--armthumb",
             "arm64": "--arm64", "powerpc": "--powerpc", "ia64": "--ia64", "sparc": "--sparc", "riscv": "--riscv"}


def tool_cmd(cfg, tools):
    fam = cfg["family"]
    if fam == "bzip2":
        return [tools["bzip2"], "-%d" % cfg["level"], "-c"]
    if fam == "lzma":
        return [tools["xz"], "--format=lzma", "-%d%s" % (cfg["preset"], "e" if cfg["extreme"] else ""), "-T1", "-c"]
    if fam == "xz":
        cmd = [tools["xz"], "--format=xz", "--check=" + cfg["check"], "-T1", "-c"]
        if cfg["blocks"] == "many":
            cmd.append("--block-size=8192")
        preset = "%d%s" % (cfg["preset"], "e" if cfg["extreme"] else "")
        if cfg["filter"] == "none":
            cmd.append("-" + preset)
        else:
            cmd += [XZ_FILTER[cfg["filter"]], "--lzma2=preset=" + preset]
        return cmd
    return None


def encode_with_tools(ctx, items, payloads, outdir, missing):
    """items: plan items of the families bzip2 / xz / lzma / czlib.  Returns manifest entries."""
    tools = {}
    for t in ("bzip2", "xz"):
        p = find_tool(t)
        if p:
            tools[t] = p
        else:
            missing.append(t)
    try:
        import zlib as pyzlib
    except Exception:
        pyzlib = None
        missing.append("python zlib")
    need = {"bzip2": "bzip2", "xz": "xz", "lzma": "xz"}
    ext = {"bzip2": ".bz2", "xz": ".xz", "lzma": ".lzma", "czlib": ".zlib"}
    entries = []

    def one(it):
        cfg = it["cfg"]
        fam = cfg["family"]
        pay = payloads[it["class"]]
        outp = os.path.join(outdir, it["id"] + ext[fam])
        data = open(pay, "rb").read()
        if fam == "czlib":
            if pyzlib is None:
                return None
            strat = {"default": pyzlib.Z_DEFAULT_STRATEGY, "filtered": pyzlib.Z_FILTERED, "huffman": pyzlib.Z_HUFFMAN_ONLY, "rle": pyzlib.Z_RLE, "fixed": pyzlib.Z_FIXED}[cfg["strategy"]]
            co = pyzlib.compressobj(cfg["level"], pyzlib.DEFLATED, cfg["wbits"], cfg["memlevel"], strat)
            enc = co.compress(data) + co.flush()
            if pyzlib.decompress(enc) != data:
                raise ToolingError("system zlib does not decode its own output (%s)" % cfg)
            open(outp, "wb").write(enc)
            dec = "zlib"
        else:
            if need[fam] not in tools:
                return None
            r = subprocess.run(tool_cmd(cfg, tools), input=data, capture_output=True, timeout=1800)
            if r.returncode != 0:
                # e.g. a filter this xz build does not know: recorded, not fatal
                return {"skipped": "%s: %s" % (" ".join(tool_cmd(cfg, tools)[1:]), r.stderr.decode(errors="replace").strip()[-200:])}
            open(outp, "wb").write(r.stdout)
            # the tool must decode its own output to the payload (self-check of the reference)
            chk = subprocess.run([tools[need[fam]], "-d", "-c"] + (["--format=lzma"] if fam == "lzma" else []), input=r.stdout, capture_output=True, timeout=1800)
            if chk.returncode != 0 or chk.stdout != data:
                raise ToolingError("%s does not decode its own output (%s)" % (need[fam], cfg))
            dec = {"bzip2": "bzip2", "xz": "xz", "lzma": "lzma"}[fam]
        return {"id": it["id"], "family": fam, "class": it["class"], "dec": dec, "file": outp, "oracle": pay, "out_len": len(data), "goref": "n/a", "settings": cfg}

    heavy = [it for it in items if it["cfg"]["family"] in ("xz", "lzma") and it["cfg"]["preset"] >= 7]
    light = [it for it in items if it not in heavy]
    skipped = []
    for group, width in ((light, 8), (heavy, 2)):
        with concurrent.futures.ThreadPoolExecutor(max_workers=width) as ex:
            for e in ex.map(one, group):
                if e is None:
                    continue
                if "skipped" in e:
                    skipped.append(e["skipped"])
                else:
                    entries.append(e)
    return entries, skipped


# ------------------------------------------------------------------ job making

LZMA_FAMILY = ("xz", "lzma", "lzip")

# Fixed witnesses of the known findings (upstream's own test files, re-run on every run; reported through ctx.violation
# with the finding's key, i.e. as KNOWN-FINDING while KNOWN_FINDINGS.txt lists it and the defect is still there).
WITNESSES = [
    {"key": "lzma-undrained-dst-after-compacted-history", "dec": "xz", "file": "enwik5.xz", "oracle": "enwik5",
     "sched": {"src": [4096], "srcmode": "view", "dst": [4096], "dstmode": "compact", "wb": "min", "close": "end", "init": 0, "prefill": 165}},
    {"key": "lzma-undrained-dst-after-compacted-history", "dec": "lzma", "file": "enwik5.lzma", "oracle": "enwik5",
     "sched": {"src": [4096], "srcmode": "view", "dst": [4096], "dstmode": "compact", "wb": "min", "close": "end", "init": 0, "prefill": 165}},
    {"key": "xz-bcj-filter-resumed-after-suspension", "dec": "xz", "file": "artificial-xz-filter/xz-filter-07-9a3fb8ae-arm_start_1000.dat.xz",
     "oracle": "artificial-xz-filter/xz-filter-07-9a3fb8ae-arm_start_1000.dat",
     "sched": {"src": [100], "srcmode": "view", "dst": [-1], "dstmode": "grow", "wb": "min", "close": "end", "init": 0, "prefill": 165}},
    {"key": "lzma2-uncompressed-chunk-suspends-before-short-workbuf", "dec": "xz", "file": "artificial-xz-filter/xz-filter-07-9a3fb8ae-arm.dat.xz",
     "oracle": "artificial-xz-filter/xz-filter-07-9a3fb8ae-arm.dat",
     "sched": {"src": [100], "srcmode": "view", "dst": [-1], "dstmode": "grow", "wb": "min", "close": "end", "init": 0, "prefill": 165}},
]


def xz_filter_ids(path):
    """Filter ids of the first block of an .xz file (xz-file-format 3.1: 0x21 LZMA2, 0x03 delta, 0x04..0x0B the BCJ filters)."""
    try:
        b = open(path, "rb").read(256)
        if b[:6] != b"\xfd7zXZ\x00" or len(b) < 16 or b[12] == 0:
            return []
        flags = b[13]
        p = 14

        def varint(p):
            v, sh = 0, 0
            while p < len(b):
                v |= (b[p] & 0x7F) << sh
                p += 1
                if not b[p - 1] & 0x80:
                    break
                sh += 7
            return v, p
        if flags & 0x40:
            _, p = varint(p)
        if flags & 0x80:
            _, p = varint(p)
        ids = []
        for _ in range((flags & 3) + 1):
            fid, p = varint(p)
            n, p = varint(p)
            p += n
            ids.append(fid)
        return ids
    except Exception:
        return []


def has_bcj(entry):
    return entry["dec"] == "xz" and any(4 <= f <= 0x0B for f in xz_filter_ids(entry["file"]))


def known_construct(t, job, events):
    """If a rejected job is an instance of one of the three known std/lzma / std/xz constructs, its key (else None).
    The conditions are on the recorded trace itself, so that anything else these decoders get wrong keeps its own key."""
    if job["dec"] not in LZMA_FAMILY:
        return None
    calls = [e for e in events if e.get("k") == "call"]
    if not calls:
        return None
    last = calls[-1]
    saw_short_workbuf = any(c.get("st") == "$base: short workbuf" for c in calls[:-1])
    if last.get("st") == "#base: bad workbuf length" and not saw_short_workbuf:
        return "lzma2-uncompressed-chunk-suspends-before-short-workbuf"
    resumed_after_output = any(c.get("out_total", 0) > 0 for c in calls[:-1])     # a call was made after output had been produced
    if resumed_after_output and has_bcj(t["entry"]):
        return "xz-bcj-filter-resumed-after-suspension"
    undrained = any(c.get("dwi0", 0) > 0 for c in calls)                         # a call was entered with earlier output still in dst
    if undrained and job.get("dstmode") == "compact":
        return "lzma-undrained-dst-after-compacted-history"
    return None


class Plan:
    """Tasks: one task = one (manifest entry, schedule, driver build) = one or several chained stddrive jobs."""

    def __init__(self, ctx, classes, exes):
        self.ctx = ctx
        self.rng = ctx.rng
        self.classes = classes
        self.oneshot = [c for c in classes if c["src"] == [-1] and c["dst"] == [-1] and c["close"] == "end"]
        self.exes = exes
        self.tasks = []
        self.jid = 0

    def pick_class(self, e, n, out_n, cap, image=False):
        """A seeded IOSchedule class for entry e whose estimated call count stays under cap.  For std/lzma, std/xz and
        std/lzip the classes are narrowed so that the three known constructs (KNOWN_FINDINGS.txt, keys lzma-*) are not
        drawn again and again; they are re-run as fixed witnesses instead (WITNESSES below)."""
        if e["dec"] in LZMA_FAMILY:
            return self.pick_lzma(e, n, out_n, cap)
        for _ in range(60):
            c = self.rng.choice(self.classes)
            if image:
                c = dict(c, dst=[-1])
            if stdinputs.est_calls(n, out_n, c) <= cap and not (c["src"] == [-1] and c["dst"] == [-1]):
                return c
        return self.rng.choice(self.oneshot)

    def pick_lzma(self, e, n, out_n, cap):
        # an LZMA2 stream of incompressible data starts with an uncompressed chunk (no "$short workbuf" before the
        # first suspension): driven one-shot only.  (BCJ-filtered blocks were too, until the repair 9a5020d.)
        raw_start = e.get("class") in ("one", "random", "empty")
        if raw_start:
            return self.rng.choice(self.oneshot)
        for _ in range(40):
            base = self.rng.choice(self.classes)
            r = self.rng.random()
            if r < 0.34:
                c = dict(base, src=[-1], dst=[4096], dstmode="compact")       # every call starts with a drained destination
            elif r < 0.67:
                c = dict(base, dst=[-1], dstmode="grow")                      # source split, the whole history stays in dst
            else:
                c = dict(base, dst=[4096], dstmode="grow")
            if stdinputs.est_calls(n, out_n, c) <= cap and not (c["src"] == [-1] and c["dst"] == [-1]):
                return c
        return self.rng.choice(self.oneshot)

    def add(self, entry, kind, sched, exe="plain", steps=None, parts=None, layer="ii"):
        """kind: xform | image | hasher.  steps: list of {oracle, out_len} for gzip chains (default: one step)."""
        t = {"entry": entry, "kind": kind, "sched": sched, "exe": exe, "layer": layer, "parts": parts, "jobs": [], "events": [],
             "steps": steps or [{"oracle": entry.get("oracle"), "out_len": entry.get("out_len", 0)}], "hasher": None, "expect_sum": None}
        self.tasks.append(t)
        return t

    def job_for(self, t, step, skip):
        e = t["entry"]
        self.jid += 1
        j = {"id": self.jid, "dec": t["hasher"] or e["dec"], "in": e["file"]}
        n = os.path.getsize(e["file"])
        if t["kind"] == "hasher":
            j["parts"] = t["parts"]
            if j["parts"] == "none":
                j["parts"], j["noupdate"] = "*", 1
            j["init"] = t["sched"].get("init", 0)
            j["prefill"] = "%02X" % t["sched"].get("prefill", 165) if j["init"] != 1 else "00"
            return j
        j.update(stdinputs.class_fields(t["sched"]))
        if t["kind"] == "image":
            j["pixfmt"] = "bgra"
            j["prefill"] = "A5"
            if j["init"] == 1:
                j["init"] = 0
            j.pop("dst", None)
            j.pop("dstmode", None)
        else:
            st = t["steps"][step]
            if not st.get("oracle") or not os.path.exists(st["oracle"]):
                raise ToolingError("no oracle file for %s" % e["id"])
            j["oracle"] = st["oracle"]
        if e.get("quirks"):
            j["quirks"] = e["quirks"]
        if skip:
            j["skip"] = skip
        if e.get("dict") and t["exe"] == "zdict":
            j["dict"] = e["dict"]
        j["budget_ms"] = 30000 + n // 10 + e.get("out_len", 0) // 20
        j["maxcalls"] = 400000
        return j


def expect_event(t, step, jid):
    e = t["entry"]
    x = {"k": "expect", "j": jid, "st": "", "cls": "ok"}
    if t["kind"] == "hasher":
        x["sum"] = t["expect_sum"]
    elif t["kind"] == "image":
        x["out_total"] = e["img"]["out_total"]
        x["out_hash"] = e["img"]["out_hash"]
    else:
        x["out_total"] = t["steps"][step]["out_len"]
    return x


def run_plan(ctx, plan):
    """Run all tasks in rounds (a gzip member after the first starts where the real decoder stopped; an xxhash
    partition job waits for the one-shot value of the same binary).  Returns [(job_id, events, task, step)]."""
    traces = []
    pending = [(t, 0, 0) for t in plan.tasks if not t.get("after")]
    waiting = [t for t in plan.tasks if t.get("after")]
    rnd = 0
    while pending:
        rnd += 1
        by_exe = {}
        for (t, step, skip) in pending:
            j = plan.job_for(t, step, skip)
            t["jobs"].append(j)
            by_exe.setdefault(t["exe"], []).append((j, t, step, skip))
        nxt = []
        for exe, lst in by_exe.items():
            evs = stdtrace.run_jobs(ctx, plan.exes[exe], [j for (j, _, _, _) in lst], sanitizer=False)
            for (j, t, step, skip) in lst:
                ev = evs.get(j["id"], [])
                if not ev or ev[0].get("k") != "start":
                    raise ToolingError("driver produced no start event for job %s" % stdtrace.job_line(j))
                end = stdtrace.end_event(ev)
                if t["kind"] == "xform" and end is not None and not end.get("have_oracle"):
                    raise ToolingError("driver could not read the oracle file of job %s" % stdtrace.job_line(j))
                ev = [ev[0], expect_event(t, step, j["id"])] + ev[1:]
                traces.append((j["id"], ev, t, step))
                t["last_end"] = end
                if step + 1 < len(t["steps"]) and end is not None and end.get("cls") == "ok":
                    nxt.append((t, step + 1, skip + int(end.get("in_total", 0))))
        # tasks that wait for another task's result
        still = []
        for t in waiting:
            src = t["after"]
            if "last_end" not in src:
                still.append(t)
            elif src["last_end"] is not None and src["last_end"].get("sum"):
                t["expect_sum"] = src["last_end"]["sum"]
                nxt.append((t, 0, 0))
        waiting = still
        pending = nxt
        ctx.log("round %d: %d jobs run so far" % (rnd, len(traces)))
    return traces


# -------------------------------------------------------------------- reporting

def replay_dir():
    d = os.path.join(VERIF, "replays", "inputs") if REPO == "/repo" else os.path.join("/tmp", "verif-replays-alt", "inputs")
    os.makedirs(d, exist_ok=True)
    return d


def save(ctx, path, tag):
    if not path or not os.path.exists(path):
        return None
    dst = os.path.join(replay_dir(), "C07-%s-%d-%s-%s" % (ctx.tier, ctx.seed, tag, os.path.basename(path)))
    if os.path.abspath(path) != dst:
        shutil.copy(path, dst)
    return dst


def first_diff(a, b):
    n = min(len(a), len(b))
    for i in range(n):
        if a[i] != b[i]:
            return i
    return n if len(a) != len(b) else -1


def second_opinion(entry):
    """Who else decodes this file to the expected bytes (genuine-defect criterion)."""
    g = entry.get("goref")
    if g == "ok":
        return "Go's decoder of the same format reproduces the expected output from this very file"
    if g == "n/a":
        return entry.get("note") or "the encoding tool decodes its own output back to the payload"
    return str(g)


def report(ctx, plan, rej, trace_of):
    seen = set()
    for r in rej:
        jid = r["job"]
        ev, t, step = trace_of[jid]
        e = t["entry"]
        j = [x for x in t["jobs"] if x["id"] == jid][0]
        # reproduce: run the job once more with out= so that the report can show the first difference
        outp = os.path.join(ctx.subdir("rerun"), "out-%d.bin" % jid)
        j2 = dict(j, out=outp)
        diff = None
        try:
            evs2 = stdtrace.run_jobs(ctx, plan.exes[t["exe"]], [j2], sanitizer=False, shards=1)
            end2 = stdtrace.end_event(evs2.get(jid, []))
            if os.path.exists(outp):
                have = open(outp, "rb").read()
                want_p = e["img"]["expected"] if t["kind"] == "image" else t["steps"][step].get("oracle")
                if want_p and os.path.exists(want_p):
                    want = open(want_p, "rb").read()
                    k = first_diff(have, want)
                    if k >= 0:
                        if t["kind"] == "image" and k >= 8:
                            px = (k - 8) // 4
                            w = max(1, e["img"]["w"])
                            diff = "first differing pixel x=%d y=%d: Wuffs BGRA %s, expected %s" % (px % w, px // w, have[8 + px * 4: 12 + px * 4].hex(), want[8 + px * 4: 12 + px * 4].hex())
                        else:
                            diff = "first difference at offset %d (Wuffs wrote %d bytes, expected %d): Wuffs %s, expected %s" % (
                                k, len(have), len(want), have[k:k + 8].hex(), want[k:k + 8].hex())
                    else:
                        diff = "output bytes equal on the re-run"
        except ToolingError as ex:
            end2 = None
            diff = "re-run failed: %s" % ex
        event = {k: v for k, v in r["event"].items() if k != "stderr_tail"}
        setj = json.dumps(e.get("settings"), sort_keys=True)
        what = "std/%s (%s%s): clauses %s at trace line %d: %s\n  input %s (%d bytes) settings %s\n  schedule %s  driver build %s\n  final event %s\n  %s\n  second opinion: %s" % (
            j["dec"], e["family"], "/" + e["class"] if e.get("class") else "", r["clauses"], r["line"],
            "Wuffs does not reproduce the reference (status, output or checksum)", os.path.basename(e["file"]), os.path.getsize(e["file"]), setj[:600],
            json.dumps({k: j[k] for k in j if k in ("src", "dst", "srcmode", "dstmode", "wb", "close", "init", "prefill", "parts", "skip", "quirks")}),
            t["exe"], event, diff or "", second_opinion(e))
        key = known_construct(t, j, ev) or "%s:%s:%s:%s" % (j["dec"], e["family"], ",".join(sorted(r["clauses"])), hashlib.sha256(setj.encode()).hexdigest()[:12])
        if key in seen:
            continue
        seen.add(key)
        tag = "%d" % jid
        saved = {"input": save(ctx, e["file"], tag), "oracle": save(ctx, t["steps"][step].get("oracle"), tag) if t["kind"] == "xform" else None,
                 "expected_pixels": save(ctx, e["img"]["expected"], tag) if t["kind"] == "image" else None, "dict": save(ctx, e.get("dict"), tag)}
        jl = dict(j)
        if saved["input"]:
            jl["in"] = saved["input"]
        if saved.get("oracle"):
            jl["oracle"] = saved["oracle"]
        if saved.get("dict"):
            jl["dict"] = saved["dict"]
        ctx.violation(what, {"key": key, "decoder": j["dec"], "family": e["family"], "class": e.get("class"), "settings": e.get("settings"), "layer": t["layer"],
                             "clauses": r["clauses"], "event": event, "rerun_end": end2, "difference": diff, "second_opinion": second_opinion(e),
                             "driver": t["exe"], "job": stdtrace.job_line(jl), "saved": saved, "expect": expect_event(t, step, jid)})


# ------------------------------------------------------------------------- run

def hasher_parts(rng, n, thorough):
    """Update-call partitions for an input of n bytes (piece lists for stddrive's parts=; '*' = the rest)."""
    ps = ["*"]
    if n == 0:
        ps.append("none")                                # the empty string as ZERO update calls
        ps.append("0,0,*")                               # ... and as three empty update calls
    else:
        ps.append("0,%d,0,*" % rng.randrange(1, n + 1))  # empty update calls before and between the data
    if n >= 2:
        ps.append("1")                                   # 1-byte pieces
    if 2 <= n <= 6:
        ps += ["%d,*" % k for k in range(1, n)]           # every 2-partition
    elif n > 6:
        ks = {1, n - 1, rng.randrange(1, n)}
        for b in (16, 32, 64, 5552):
            if n > b:
                ks.add(b + rng.choice((-1, 0, 1)))
        ks = sorted(k for k in ks if 0 < k < n)
        if not thorough and len(ks) > 3:
            ks = rng.sample(ks, 3)
        ps += ["%d,*" % k for k in ks]
        for _ in range(3 if thorough else 1):               # seeded k-partitions
            m = rng.randrange(3, 9)
            ps.append(",".join(str(rng.randrange(1, max(2, min(n, 2 * n // m + 2)))) for _ in range(m)) + ",*")
    if n > 4000:
        lim = 2000 if thorough else 150                     # at most this many update calls per job
        ps = [p for p in ps if p != "1"] + [str(rng.choice([k for k in (3, 7, 64, 509, 4096) if n // k <= lim] or [4096]))]
    if n > 70 and "1" in ps and not thorough:
        ps.remove("1")
    return list(dict.fromkeys(ps))


def run(ctx):
    thorough = ctx.tier == "thorough"
    rng = ctx.rng
    ctx.harness_dir()      # (creates the private module copy under VERIF_REPO before the threads start)
    with concurrent.futures.ThreadPoolExecutor(max_workers=3) as ex:
        fb = ex.submit(build, ctx)
        fm = ex.submit(run_models, ctx)
        fc = ex.submit(lambda: (schedule_classes(ctx), codec_configs(ctx), ctx.go_build("./cmd/fmtcases"), ctx.go_build("./cmd/refenc")))
        classes, cc, fmtcases, refenc = fc.result()
        models = fm.result()
        exes = fb.result()
    ctx.log("built drivers; %d schedule classes; %d codec configurations" % (len(classes), len(cc["configs"])))

    # ---- layer (i): files for TLC's cases
    fdir = ctx.subdir("fmt")
    allcases = [c for (_, cases, _) in models for c in cases]
    with open(os.path.join(fdir, "cases.ndjson"), "w") as f:
        for c in allcases:
            f.write(json.dumps(c) + "\n")
    r = ctx.run([fmtcases, "-cases", os.path.join(fdir, "cases.ndjson"), "-out", fdir, "-gifevery", "4" if thorough else "6"], timeout=3600)
    if r.returncode != 0:
        raise ToolingError("fmtcases failed: " + r.stderr[-2000:])
    fman = json.load(open(os.path.join(fdir, "manifest.json")))["entries"]

    # ---- layer (ii): plan, reference encodings
    items = []
    for e in cc["configs"]:
        cls = sorted(e["classes"])
        if not thorough:
            cls = rng.sample(cls, min(len(cls), 2 if e["cfg"]["family"] in ("deflate", "zlib", "lzw", "bzip2") else 1))
        for c in cls:
            items.append({"id": "r%05d" % len(items), "cfg": e["cfg"], "class": c})
    corpus = []
    croot = os.path.join(REPO, "test", "data")
    for fn in sorted(os.listdir(croot)):
        p = os.path.join(croot, fn)
        if fn.lower().endswith((".png", ".gif")) and os.path.isfile(p) and os.path.getsize(p) <= (2 << 20) and "truncated" not in fn:
            corpus.append(p)
    if not thorough:
        keep = [p for p in corpus if "interlaced" in p]
        rest = [p for p in corpus if p not in keep]
        corpus = keep + rng.sample(rest, min(10, len(rest)))
    rdir = ctx.subdir("ref")
    hashlens = sorted(cc["hashlens"])
    if not thorough:
        hashlens = sorted(set(rng.sample(hashlens, 18) + [0, 1, 5552, 5553, 70001]))
    json.dump({"seed": ctx.seed, "tier": ctx.tier, "items": [i for i in items if i["cfg"]["family"] in ("deflate", "zlib", "gzip", "lzw", "png", "gif")],
               "hashlens": hashlens, "corpus": corpus}, open(os.path.join(rdir, "plan.json"), "w"))
    r = ctx.run([refenc, "-plan", os.path.join(rdir, "plan.json"), "-out", rdir], timeout=3600)
    if r.returncode != 0:
        raise ToolingError("refenc failed: " + r.stderr[-2000:])
    rman = json.load(open(os.path.join(rdir, "manifest.json")))
    missing = []
    tents, tskipped = encode_with_tools(ctx, [i for i in items if i["cfg"]["family"] in ("bzip2", "xz", "lzma", "czlib")], rman["payloads"], rdir, missing)
    entries2 = rman["entries"] + tents
    ctx.log("layer (i): %d TLC cases -> %d files; layer (ii): %d reference files (%d by system tools, %d corpus images; tools missing: %s)" % (
        len(allcases), len(fman), len(entries2), len(tents), sum(1 for e in entries2 if e["family"].startswith("corpus")), missing or "none"))

    # a disagreement between the format model / transport and Go's own decoder is our problem, not Wuffs'
    bad = [e for e in fman + entries2 if str(e.get("goref", "")).startswith("MISMATCH")]
    if bad:
        raise ToolingError("reference self-check failed for %d files, e.g. %s: %s" % (len(bad), bad[0]["id"], bad[0]["goref"]))

    # ---- jobs
    plan = Plan(ctx, classes, exes)
    one = lambda: rng.choice(plan.oneshot)
    cap = 150 if thorough else 40
    for e in fman:
        fam = e["family"]
        n = os.path.getsize(e["file"])
        if fam in ("fmt:adler32", "fmt:crc32", "fmt:crc64"):
            for p in hasher_parts(rng, n, thorough):
                t = plan.add(e, "hasher", one(), parts=p, layer="i")
                t["hasher"], t["expect_sum"] = e["dec"], e["sums"][e["dec"]]
        elif fam in ("fmt:pngfilter", "fmt:giflzw"):
            plan.add(e, "image", one(), layer="i")
            # bytes-per-pixel 3 and 4 have SIMD filter implementations: those cases also run on the build without them
            if fam == "fmt:pngfilter" and e["settings"]["bpp"] >= 3 and (thorough or rng.random() < 0.6):
                plan.add(e, "image", plan.pick_class(e, n, 0, cap, image=True) if thorough else one(), exe="plain_nocpu", layer="i")
        else:
            steps = [{"oracle": m["oracle"], "out_len": m["out_len"]} for m in e["chain"]] if e.get("chain") else None
            exe = "zdict" if e.get("dict") else "plain"
            plan.add(e, "xform", one(), exe=exe, steps=steps, layer="i")
            # the small streams also byte by byte / under a random class
            small = fam != "fmt:lzw" or e["out_len"] > 4000
            if small and (thorough or rng.random() < 0.5):
                plan.add(e, "xform", plan.pick_class(e, n, e["out_len"], cap), exe=exe, steps=steps, layer="i")
    for e in entries2:
        n = os.path.getsize(e["file"])
        if e["family"] == "hash":
            for h in stdinputs.HASHERS:
                first = None
                for k, p in enumerate(hasher_parts(rng, n, thorough)):
                    for exe in (("plain", "plain_nocpu") if (thorough or k == 0) else ("plain",)):
                        t = plan.add(e, "hasher", {"init": rng.choice((0, 2)), "prefill": rng.choice((0, 165, 255))}, exe=exe, parts=p)
                        t["hasher"] = h
                        if h in e["sums"]:
                            t["expect_sum"] = e["sums"][h]
                        elif first is None:
                            first = t                      # one-shot of this binary defines the expectation of the others
                            t["expect_sum"] = None
                        else:
                            t["after"] = first
            continue
        kind = "image" if e.get("img") else "xform"
        steps = [{"oracle": m["oracle"], "out_len": m["out_len"]} for m in e["chain"]] if e.get("chain") else None
        exe = "zdict" if e.get("dict") else "plain"
        plan.add(e, kind, one(), exe=exe, steps=steps)
        for k in range(1):
            c = plan.pick_class(e, n, e["out_len"], cap, image=(kind == "image"))
            plan.add(e, kind, c, exe=(exe if exe == "zdict" or (k == 0 and rng.random() < 0.5) else "plain_nocpu"), steps=steps)
    # fixed witnesses of the known findings
    nwit = 0
    for w in WITNESSES:
        fp, op = os.path.join(REPO, "test", "data", w["file"]), os.path.join(REPO, "test", "data", w["oracle"])
        if os.path.exists(fp) and os.path.exists(op):
            e = {"id": "witness%d" % nwit, "family": "known-witness", "class": w["key"], "dec": w["dec"], "file": fp, "oracle": op, "out_len": os.path.getsize(op),
                 "goref": "n/a", "settings": {"file": w["file"]}, "note": "upstream test file; the expected output is the file committed next to it"}
            plan.add(e, "xform", w["sched"], layer="witness")
            nwit += 1
    ctx.log("%d tasks" % len(plan.tasks))
    traces = run_plan(ctx, plan)
    for (jid, ev, t, step) in traces:
        if t["kind"] == "hasher" and t["expect_sum"] is None:
            end = stdtrace.end_event(ev)
            ev[1] = dict(ev[1], sum=(end or {}).get("sum", ""))   # no independent reference: trivially its own value (status / purity clauses still apply)
    ctx.log("driver runs done: %d jobs, %d events" % (len(traces), sum(len(ev) for (_, ev, _, _) in traces)))
    traces.sort(key=lambda x: x[0])
    nev, rej = stdtrace.validate(ctx, [(jid, ev) for (jid, ev, _, _) in traces], "reference", "C07", chunk_events=6000, max_rejections=40)
    ctx.log("TLC validated %d events against Trace_Std (Mode=reference), %d rejections" % (nev, len(rej)))
    trace_of = {jid: (ev, t, step) for (jid, ev, t, step) in traces}
    report(ctx, plan, rej, trace_of)

    # ---- evidence
    fam_jobs, fam_ok, distinct, ev_fam = {}, {}, set(), {}
    rejected = {r["job"] for r in rej}
    for (jid, ev, t, step) in traces:
        e = t["entry"]
        f = e["family"] + ("" if t["kind"] != "hasher" else ":" + t["hasher"])
        fam_jobs[f] = fam_jobs.get(f, 0) + 1
        ev_fam[e["family"]] = ev_fam.get(e["family"], 0) + len(ev)
        end = stdtrace.end_event(ev)
        if jid not in rejected and end is not None:
            fam_ok[f] = fam_ok.get(f, 0) + 1
            if end.get("calls", 0) >= 1 and (e.get("out_len", 0) > 0 or t["kind"] == "hasher"):
                j = [x for x in t["jobs"] if x["id"] == jid][0]
                distinct.add((j["dec"], e["id"], step, json.dumps({k: j.get(k) for k in ("src", "dst", "srcmode", "dstmode", "wb", "close", "parts")}, sort_keys=True), t["exe"]))
    model_stats = [{"model": label, "cases": len(cases), "states": res["distinct"], "transitions": res["generated"], "wall_s": res["wall_s"]} for (label, cases, res) in models]
    samples = []
    for (jid, ev, t, step) in traces[:: max(1, len(traces) // 10)][:10]:
        e = t["entry"]
        j = [x for x in t["jobs"] if x["id"] == jid][0]
        samples.append({"layer": t["layer"], "family": e["family"], "class": e.get("class"), "settings": e.get("settings"), "job": stdtrace.job_line(j),
                        "expect": ev[1], "end": stdtrace.end_event(ev)})
    ctx.evidence("exploration", {
        "evaluations": len(traces),
        "distinct_nontrivial": len(distinct),
        "rule": "one evaluation = one stddrive job (decoder or hasher, input file, IOSchedule class or update-call partition, driver build) whose recorded trace TLC "
                "accepted or rejected under Trace_Std Mode=reference. Layer (i): every case TLC enumerated from the format models (bounds in format_models) "
                "is run one-shot, and again under a seeded schedule class; checksum cases under one-shot, every 2-partition and 1-byte pieces. Layer (ii): "
                "configurations of CodecConfig.tla (%s tier selection) x payload classes, one-shot plus seeded IOSchedule classes with at most %d estimated calls; "
                "hashers: lengths around block sizes x seeded partitions x {SIMD, no-SIMD} builds. distinct_nontrivial = distinct (decoder, file, member, schedule, build) "
                "tuples that were accepted, made at least one call and have a non-empty expected output (or are hasher runs)" % (ctx.tier, cap),
        "samples": samples,
        "states": sum(t["distinct"] for t in ctx.tlc_stats),
        "transitions": sum(t["generated"] for t in ctx.tlc_stats),
        "traces_validated_against_impl": len(traces),
        "events_validated_by_tlc": nev,
        "format_models": model_stats,
        "format_model_cases": len(allcases),
        "format_model_files": len(fman),
        "reference_files": len(entries2),
        "reference_files_by_system_tools": len(tents),
        "corpus_images_with_go_decoder_as_oracle": sum(1 for e in entries2 if e["family"].startswith("corpus")),
        "corpus_images_skipped_go_cannot_decode": rman.get("skipped", []),
        "jobs_per_family": fam_jobs,
        "accepted_per_family": fam_ok,
        "rejections": len(rej),
        "known_finding_witnesses_run": nwit,
        "events_per_family": ev_fam,
        "tools_missing": missing,
        "tool_invocations_skipped": tskipped[:20],
        "schedule_classes": len(classes),
        "codec_configurations": len(cc["configs"]),
    }, assumptions=[
        "layer (i) is exhaustive inside the bounds of each format model; layer (ii) is sampled (exploration): the oracle is the reference encoder/decoder, not a specification of the codec",
        "a disagreement between a TLA+ format model and Go's decoder of the same format aborts the run as a tooling error",
        "16-bit PNG samples are compared after reduction to 8 bits; xxhash32/64 only for partition independence",
        "multi-member gzip: one Wuffs decoder object per member, each member started at the byte where the previous one reported to have stopped",
    ])


def replay(ctx, path):
    rep = json.load(open(path))["replay"]
    print(json.dumps({k: rep[k] for k in rep if k not in ("event",)}, indent=1)[:6000])
    exes = build(ctx, want=(rep.get("driver", "plain"),) if rep.get("driver") in ("plain", "plain_nocpu", "zdict") else ("plain",))
    exe = list(exes.values())[0]
    jf = os.path.join(ctx.scratch, "replay-job.txt")
    ef = os.path.join(ctx.scratch, "replay-ev.ndjson")
    outp = os.path.join(ctx.scratch, "replay-out.bin")
    open(jf, "w").write(rep["job"] + " out=" + outp + "\n")
    r = ctx.run([exe, jf, ef], timeout=1200)
    print(r.stdout[-2000:], r.stderr[-3000:])
    if os.path.exists(ef):
        print(open(ef).read()[-4000:])
    want_p = (rep.get("saved") or {}).get("oracle") or (rep.get("saved") or {}).get("expected_pixels")
    if want_p and os.path.exists(want_p) and os.path.exists(outp):
        have, want = open(outp, "rb").read(), open(want_p, "rb").read()
        print("output %d bytes, expected %d bytes, first difference at %d" % (len(have), len(want), first_diff(have, want)))

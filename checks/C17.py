"""C17 - literal-only LZMA/XZ: lossless round trip, conformant output, total decoder.

Mode V.  harness/cmd/lzmareplay encodes payload classes with /repo's
lib/litonlylzma, an independent walker parses the output into events, and TLC
validates the events against spec/XzLayout.tla + spec/LzmaAlone.tla through
spec/trace/Trace_XzLayout.tla (IsEvent idiom, TraceReset between traces,
TraceAccepted post-condition).  The final event of every trace carries the
terminal conditions observed on real code: litonlylzma's own Decode, `xz -dc`,
and the Wuffs std/lzma / std/xz decoders compiled from C that is generated from
the working tree.

The range coder is part of the specification, at true width
(spec/RangeCoder.tla: 33-bit low, 32-bit range/code in exact split arithmetic,
11-bit probabilities, the literal layer with lc=3 lp=0 pb=2, the .lzma and
LZMA2 framings).  It is model-checked on its own (RangeCoderMC: round trip of
all short decision sequences from the reset state and from extreme encoder
states) and bound to the code three ways:
  rows    every payload of an exhaustive-by-structure family is encoded by the
          real code; TLC decodes the encoded FILE with the specification's
          decoder (RangeCoderRows: returns the payload, consumes exactly the
          range-coded bytes, ends with code = 0) and checks what
          litonlylzma.Decode, one `xz -dc` over the concatenated streams and
          the Wuffs decoders (one batch process) said about every row;
  rare    payloads that drive the specification's encoder into its rare states
          (low = 2^32 exactly at a ShiftLow, a carry into pending 0xFF bytes,
          ...) are derived by TLC (RangeCoderReach; recorded in
          RangeCoderRare.tla, re-confirmed every run, re-derived in the thorough
          tier) and go through rows and traces;
  flip    payloads bisected onto the compressed/uncompressed chunk choice of
          the .xz encoder (the 16-bit packed-size field) go through traces.

Totality of Decode: a table of calls on arbitrary / truncated / mutated inputs,
every row an initial state of spec/LzmaExpansion.tla (no panic, |out| <= 42 *
|in|, the multiple derived and TLC-checked in that module).  The layout
specifications are also model-checked on their own as generators
(XzLayoutGen.tla, LzmaAlone!LGenSpec).
"""
import json, os, re, shutil, threading, hashlib
import vlib
from vlib import ToolingError

META = {
    "level": "exploration",
    "technique": "TLA+ specifications as acceptors of what the real encoder wrote: (1) a true-width model of the LZMA range coder and literal coder (RangeCoder.tla; 33-bit low / 32-bit range in exact split arithmetic), model-checked alone (round trip of all short decision sequences from the reset state and from extreme encoder states, encoder invariant) and used by TLC as an independent decoder of every file of exhaustive-by-structure payload families (table validation, RangeCoderRows); (2) container specifications (XzLayout, LzmaAlone) as trace acceptors for the events an independent walker parses out of Encode's output, with the round-trip / xz / Wuffs-decoder outcomes as terminal conditions; (3) table validation of Decode calls against a TLC-checked expansion bound (LzmaExpansion); payloads are spec-directed: a TLC reachability query over the specification's encoder yields the payloads that reach the rare carry states, a bisection on the chunk-choice rule yields the payloads at the 16-bit packed-size boundary",
    "text": "Rows (every one decoded by TLC with the specification's range decoder, by litonlylzma.Decode, by xz over the concatenated streams and by the Wuffs decoders): quick = .lzma of every payload of length 0 and 1 and of every two-byte payload (a, b) with b in the spec-derived boundary set (22 values, all 256 a), the same as .xz (stored chunks), .xz of (a, b) + 30 zero bytes (the least padding that makes litonlylzma emit an LZMA chunk) for b in {0xBE, 0x01}, and the rare payloads; thorough = ALL 65793 payloads of length <= 2 in both formats, ALL 65536 two-byte prefixes + 30 zeros as .xz, the boundary set + 256 zeros. Traces: payload classes from the container specification's boundary analysis (lengths 0..5, 64 KiB +-1, 128 KiB +-1, 2 MiB +-1 in thorough, seeded lengths; all-0x00, all-0xFF, incompressible, text, alternating, 0xFF runs, steered pending-0xFF chains), the rare payloads, and every N within +-24 of the point where the last chunk (N random bytes then zeros; 64 KiB single / second chunk, shorter) flips between LZMA and uncompressed; each file is parsed field by field and accepted by TLC, decoded by litonlylzma, xz 5.8 and the Wuffs decoders. Decode is called on arbitrary, truncated and mutated inputs under recover and a watchdog; TLC checks no panic and |out| <= 42*|in| on every row.",
    "note": "Exhaustive over payloads of length <= 2 (thorough) and over the boundary family (quick); sampling beyond. Rare encoder states reached on real code: low = 2^32 exactly at a ShiftLow (in the flush: 30 two-byte payloads; while coding: those + zeros), carry into one and into two pending 0xFF bytes, pending runs (longer runs through the steered chain classes); range = 2^24 - 1 and a cache byte 0xFF are covered by the model only (RangeCoderMC starts), no payload of length <= 4 reaches them. Trusted: TLC, the walker (written from the format documents, not from litonlylzma), Go's hash/crc32, the xz binary, gcc. The specification's coder is the reference coder of the LZMA specification, not a transcription of litonlylzma (whose shiftLow is organised differently). An owed end-of-stream marker (unknown-size .lzma) cannot be seen by the walker and is left to the decoders; litonlylzma never emits that form.",
}

XZ = "/root/miniconda/bin/xz"
VLOCK = threading.Lock()     # ctx.violation numbers replay files; two sides of this check run concurrently


def report(ctx, what, rep):
    with VLOCK:
        return ctx.violation(what, rep)

GEN_QUICK = dict(GenMaxStreams=1, GenMaxBlocks=1, GenMaxChunks=2, GenMaxOff=600000, GenUs="{1, 2097152}", GenCs="{5, 6}",
                 GenRaw="{1}", GenSb="{2}", GenDeclC="{12}", GenDeclU="{1}", GenChecks="{1}")
# thorough: three generator configurations (one deep block, two blocks, two streams)
GEN_THOROUGH = [
    ("1 block x 3 chunks", dict(GenMaxStreams=1, GenMaxBlocks=1, GenMaxChunks=3, GenMaxOff=8000000, GenUs="{1, 2097152}", GenCs="{5, 6}",
                                GenRaw="{1}", GenSb="{2, 3}", GenDeclC="{12}", GenDeclU="{1}", GenChecks="{0, 1, 4, 10}")),
    ("2 blocks x 1 chunk", dict(GenMaxStreams=1, GenMaxBlocks=2, GenMaxChunks=1, GenMaxOff=8000000, GenUs="{1, 65537}", GenCs="{5, 65536}",
                                GenRaw="{1, 65536}", GenSb="{2}", GenDeclC="{12, 65548}", GenDeclU="{1, 65537}", GenChecks="{0, 1, 4, 10}")),
    ("2 streams", dict(GenMaxStreams=2, GenMaxBlocks=1, GenMaxChunks=1, GenMaxOff=8000000, GenUs="{1, 2097152}", GenCs="{5, 6}",
                       GenRaw="{1}", GenSb="{2, 3}", GenDeclC="{12}", GenDeclU="{1}", GenChecks="{1, 4}")),
]


def gen_cfg(c, extra_inv=""):
    lines = ["SPECIFICATION GenSpec", "CONSTANTS"]
    lines += ["  %s = %s" % (k, v) for k, v in c.items()]
    lines += ["CONSTRAINT GenConstraint", "INVARIANTS TypeOK AlignInv RecsInv DoneInv FooterInv DeviantsRefused " + extra_inv, "CHECK_DEADLOCK FALSE"]
    return "\n".join(lines) + "\n"


TRACE_CFG = """SPECIFICATION TraceSpec
CONSTANTS
  TraceFile = "trace.ndjson"
  LGenPlen = {0}
INVARIANT Complete
POSTCONDITION TraceAccepted
CHECK_DEADLOCK FALSE
"""

LGEN_CFG = """SPECIFICATION LGenSpec
CONSTANTS
  LGenPlen = {0, 1, 7}
INVARIANTS LTypeOK LDoneInv LPayloadInv
CHECK_DEADLOCK FALSE
"""

PROB_CFG = """SPECIFICATION ProbSpec
CONSTANTS
  RowsFile = "none.json"
INVARIANT ProbClamp
CHECK_DEADLOCK FALSE
"""

MC_CFG = """SPECIFICATION Spec
CONSTANTS
  MaxN = %d
  Extreme = %s
  Slim = %s
INVARIANTS EncoderInv RoundTrip ProbInv FirstByteZero
CHECK_DEADLOCK FALSE
"""

SMALL_CFG = """SPECIFICATION %s
CONSTANTS
  MaxCs = %d
  MaxN = %d
%s
INVARIANTS %s
CHECK_DEADLOCK FALSE
"""

REACH_CFG = """SPECIFICATION %s
CONSTANTS
  Alphabet %s
  MaxLen = %d
  FullLen = %d
  RtLen = %d
INVARIANTS RoundTripOK EncoderOK Report %s
CHECK_DEADLOCK FALSE
"""

RCROWS_CFG = """SPECIFICATION Spec
CONSTANTS
  RowsFile = "rows.json"
INVARIANTS %s
CHECK_DEADLOCK FALSE
"""

ROWS_CFG = """SPECIFICATION RowSpec
CONSTANTS
  RowsFile = "rows.json"
INVARIANT RowInv
CHECK_DEADLOCK FALSE
"""


# --------------------------------------------------------------------- builds
def build_tools(ctx):
    """lzmareplay (linked against the working tree's lib/litonlylzma) and the
    Wuffs decoder driver compiled against C generated from the working tree."""
    binp = ctx.go_build("./cmd/lzmareplay")
    ctx.go_build("github.com/google/wuffs/cmd/wuffs-c")
    ctx.go_build("github.com/google/wuffs/cmd/wuffs")
    root = ctx.subdir("wroot")
    if not os.path.isdir(os.path.join(root, "std")):
        shutil.copytree(os.path.join(vlib.REPO, "std"), os.path.join(root, "std"))
        shutil.copy(os.path.join(vlib.REPO, "wuffs-root-directory.txt"), root)
    env = {"PATH": ctx.subdir("bin") + ":" + os.environ.get("PATH", "")}
    r = ctx.run([os.path.join(ctx.subdir("bin"), "wuffs"), "gen"], cwd=root, env=env, timeout=600)
    snap = os.path.join(root, "release", "c", "wuffs-unsupported-snapshot.c")
    if r.returncode != 0 or not os.path.exists(snap):
        raise ToolingError("wuffs gen failed in the scratch copy of std/:\n" + (r.stdout + r.stderr)[-3000:])
    drv = os.path.join(ctx.subdir("bin"), "wuffsdec")
    src = os.path.join(vlib.HARNESS, "cmd", "lzmareplay", "cdriver", "wuffsdec.c")
    r = ctx.run(["gcc", "-O1", "-o", drv, '-DWUFFS_SNAPSHOT="%s"' % snap, src], timeout=900)
    if r.returncode != 0:
        raise ToolingError("gcc failed on the Wuffs decoder driver:\n" + r.stderr[-3000:])
    return binp, drv


# ----------------------------------------------------------------- trace side
def split_traces(text):
    """ndjson text -> list of (reset_event, [lines])"""
    traces = []
    for line in text.splitlines():
        if not line.strip():
            continue
        if '"ev":"reset"' in line:
            traces.append((json.loads(line), [line]))
        else:
            traces[-1][1].append(line)
    return traces


def validate(ctx, text, label, workers=2):
    """Run the trace acceptor.  Returns (accepted, matched_events, tlc_result)."""
    res = ctx.tlc("Trace_XzLayout", cfg="trace.cfg", data={"trace.cfg": TRACE_CFG, "trace.ndjson": text},
                  workers=workers, timeout=3000, heap="3g", label=label)
    out = res["out"]
    nev = len([l for l in text.splitlines() if l.strip()])
    m = re.search(r'"TRACE-REJECTED matched",\s*(\d+)', out)
    if m:
        return False, int(m.group(1)), res
    if res["violated"] == "Complete":
        return False, nev, res
    if "Model checking completed. No error has been found." in out and res["diameter"] == nev + 1:
        return True, nev, res
    raise ToolingError("TLC did not give a verdict on %s (diameter %s, events %d):\n%s" % (label, res["diameter"], nev, out[-3000:]))


def one_trace(ctx, binp, drv, reset, keep_dump=None):
    """Re-run one payload through the real code; returns its ndjson text."""
    d = ctx.subdir("one")
    outp = os.path.join(d, "one.ndjson")
    cmd = [binp, "-mode", "one", "-fmt", reset["fmt"], "-class", reset["class"], "-plen", str(reset["plen"]),
           "-pseed", str(reset["pseed"]), "-out", outp, "-xz", XZ, "-wuffs", drv]
    if keep_dump:
        cmd += ["-dump", keep_dump]
    r = ctx.run(cmd, timeout=900)
    if r.returncode != 0:
        raise ToolingError("lzmareplay -mode one failed:\n" + r.stderr[-2000:])
    return open(outp).read()


def describe(events, matched):
    if matched < len(events):
        e = events[matched]
        if e.get("ev") == "eof":
            bad = []
            if e["rt"] != "ok" or e["rem"] != 0:
                bad.append("Decode(Encode(x)) -> %s, %d bytes left over" % (e["rt"], e["rem"]))
            if e["xz"] not in ("ok", "xz_unavailable"):
                bad.append("xz -dc: " + e["xz"])
            if e["wuffs"] != "ok":
                bad.append("Wuffs decoder: " + e["wuffs"])
            if not bad:
                bad.append("file/payload length does not match what the container describes")
            return "terminal condition fails (" + "; ".join(bad) + ")"
        if e.get("ev") == "reset":
            return "Encode failed: " + e.get("encode", "?")
        return "event #%d %s at offset %s is not legal here" % (matched + 1, e.get("ev"), e.get("off"))
    return "trace incomplete"


def check_traces(ctx, binp, drv, text, stats):
    """Validate all traces; on rejection reproduce on the real code, report,
    drop the trace and continue with the rest."""
    traces = split_traces(text)
    accepted = 0
    reported = 0
    remaining = traces
    while remaining:
        cur = "\n".join("\n".join(t[1]) for t in remaining) + "\n"
        ok, matched, res = validate(ctx, cur, "traces (%d)" % len(remaining))
        if ok:
            accepted += len(remaining)
            break
        # find the trace that holds event index `matched` (0-based)
        n = 0
        bad_i = None
        for ti, t in enumerate(remaining):
            if matched < n + len(t[1]):
                bad_i = ti
                break
            n += len(t[1])
        if bad_i is None and matched >= n and remaining:
            bad_i = len(remaining) - 1      # the file ended inside the last trace (invariant Complete)
        if bad_i is None:
            raise ToolingError("rejected trace not found (matched=%d)" % matched)
        accepted += bad_i
        reset = remaining[bad_i][0]
        # reproduce on the real code, alone
        dump = os.path.join(ctx.subdir("one"), "enc.bin")
        again = one_trace(ctx, binp, drv, reset, keep_dump=dump)
        ok2, m2, res2 = validate(ctx, again, "reproduce %s/%s/%d" % (reset["fmt"], reset["class"], reset["plen"]))
        if ok2:
            raise ToolingError("trace %s rejected in the batch but accepted when replayed alone" % json.dumps(reset))
        evs = [json.loads(l) for l in again.splitlines() if l.strip()]
        what = "litonlylzma %s of payload class=%s len=%d seed=%d: %s" % (
            reset["fmt"], reset["class"], reset["plen"], reset["pseed"], describe(evs, m2))
        enc_hex = None
        if os.path.exists(dump) and os.path.getsize(dump) <= 4096:
            enc_hex = open(dump, "rb").read().hex()
        report(ctx, what, {
            "kind": "trace", "key": "trace:%s:%s:%d" % (reset["fmt"], reset["class"], reset["plen"]),
            "fmt": reset["fmt"], "class": reset["class"], "plen": reset["plen"], "pseed": reset["pseed"],
            "matched_events": m2, "rejected_event": evs[m2] if m2 < len(evs) else None,
            "events": evs[:60], "encoded_hex": enc_hex,
            "how": "bin/check C17 --replay <this file>  (regenerates the payload, encodes it with the working tree's litonlylzma, walks and validates it)",
        })
        reported += 1
        remaining = remaining[bad_i + 1:]
        if reported >= 3:
            ctx.log("stopping after %d rejected traces; %d traces not examined" % (reported, len(remaining)))
            break
    return accepted, reported


def canary(ctx, text, both=True):
    """Self-test of the binding: damage one recorded field (the footer's
    Backward Size, and the round-trip verdict) of a real trace and require
    that TLC rejects the trace exactly there."""
    t = next((t for t in split_traces(text) if t[0]["fmt"] == "xz" and t[0]["plen"] > 0), None)
    if t is None:
        return 0
    n = 0
    for field, fn in (("footer", lambda e: e.update(bsize=e["bsize"] + 1)), ("eof", lambda e: e.update(wuffs="mismatch")))[:2 if both else 1]:
        lines = list(t[1])
        idx = next(i for i, l in enumerate(lines) if json.loads(l)["ev"] == field)
        e = json.loads(lines[idx])
        fn(e)
        lines[idx] = json.dumps(e)
        ok, matched, _ = validate(ctx, "\n".join(lines) + "\n", "canary: damaged %s" % field)
        if ok or matched != idx:
            raise ToolingError("acceptor self-test failed: damaged %s event at %d, TLC says ok=%s matched=%d" % (field, idx, ok, matched))
        n += 1
    return n


# -------------------------------------------------------------- totality side
def check_totality(ctx, binp):
    d = ctx.subdir("total")
    rows_p = os.path.join(d, "rows.json")
    hang = ctx.subdir("hang")
    budget = 20000
    r = ctx.run([binp, "-mode", "total", "-tier", ctx.tier, "-seed", str(ctx.seed), "-out", rows_p,
                 "-hangdir", hang, "-budget_ms", str(budget)], timeout=2400)
    if r.returncode == 7:
        # watchdog: confirm with 4x the budget on the single input (DESIGN 2.2)
        files = sorted(os.listdir(hang))
        if not files:
            raise ToolingError("watchdog fired without an input file:\n" + r.stderr[-1000:])
        f = os.path.join(hang, files[0])
        fm = "xz" if "-xz-" in files[0] else "lzma"
        try:
            r2 = ctx.run([binp, "-mode", "decodeone", "-fmt", fm, "-in", f], timeout=4 * budget / 1000.0)
            raise ToolingError("Decode exceeded %d ms once but returned within 4x on the second run: %s" % (budget, r2.stdout[-300:]))
        except ToolingError as e:
            if "timeout after" not in str(e):
                raise
        data = open(f, "rb").read()
        report(ctx, "litonlylzma %s Decode does not return within %d s on a %d-byte input" % (fm, 4 * budget // 1000, len(data)),
                      {"kind": "hang", "key": "hang:" + vlib.sha(data), "fmt": fm, "input_hex": data[:65536].hex(), "inlen": len(data)})
        return 0, None
    if r.returncode != 0 and re.search(r"^fatal error: ", r.stderr, re.M) and "wuffs/lib/litonlylzma" in r.stderr:
        # the Go runtime gave up inside the decoder (out of memory, stack exhaustion): no recover() catches that - the
        # "total decoder" clause is broken for whoever calls the package; the goroutine that was running names the site
        head = re.search(r"^fatal error: .*$", r.stderr, re.M).group(0)
        frames = [l.split("(")[0] for l in r.stderr.splitlines() if "wuffs/lib/litonlylzma" in l and not l.startswith("\t")][:3]
        report(ctx, "litonlylzma Decode kills the process on an input of the decode table (tier %s, seed %d): %s in %s" % (ctx.tier, ctx.seed, head, " <- ".join(frames)),
               {"kind": "decode", "key": "decode:process-death:" + (frames[0] if frames else "?"), "stderr": r.stderr[:6000],
                "regen": {"tier": ctx.tier, "seed": ctx.seed}})
        return 0, None
    if r.returncode != 0:
        raise ToolingError("lzmareplay -mode total failed (%d):\n%s" % (r.returncode, r.stderr[-2000:]))
    st = json.loads(r.stdout.strip().splitlines()[-1])
    rows = open(rows_p).read()
    nrows = st["rows"]
    res = ctx.tlc("LzmaExpansion", cfg="rows.cfg", data={"rows.cfg": ROWS_CFG, "rows.json": rows}, timeout=3000, heap="3g",
                  label="decode table (%d rows)" % nrows)
    if res["error"]:
        raise ToolingError("TLC error on the Decode table:\n" + res["error"])
    if res["violated"]:
        m = re.search(r"/\\ k = (\d+)", res["out"])
        if not m:
            m = re.search(r"\bk = (\d+)", res["out"])
        if not m:
            raise ToolingError("RowInv violated but no row index in TLC's output:\n" + res["out"][-2000:])
        k = int(m.group(1))
        row = json.loads(rows)[k - 1]
        inp = os.path.join(d, "row.bin")
        ctx.run([binp, "-mode", "total", "-tier", ctx.tier, "-seed", str(ctx.seed), "-only", str(k), "-dump", inp], timeout=600, check=True)
        fm = "xz" if row[0] == 2 else "lzma"
        r2 = ctx.run([binp, "-mode", "decodeone", "-fmt", fm, "-in", inp], timeout=600)
        rep = json.loads(r2.stdout.splitlines()[0])
        if not (rep["panicked"] or rep["outlen"] > 42 * rep["inlen"]):
            raise ToolingError("row %d rejected by TLC but not reproduced alone: %s" % (k, r2.stdout))
        data = open(inp, "rb").read()
        what = "litonlylzma %s Decode on a %d-byte input (%s): %s" % (
            fm, len(data), st["kinds"][row[6]] if isinstance(st["kinds"], list) else row[6],
            "panic: " + r2.stdout.split("panic:", 1)[-1].strip()[:300] if rep["panicked"] else "output %d bytes > 42 * input" % rep["outlen"])
        report(ctx, what, {"kind": "decode", "key": "decode:" + vlib.sha(data), "fmt": fm, "row": row, "input_hex": data[:65536].hex(),
                             "inlen": len(data), "regen": {"tier": ctx.tier, "seed": ctx.seed, "row": k}})
    return nrows, st


# ------------------------------------------------- range coder: rare payloads
def reach_events(out):
    """The (kinds, cp, pend, pay) objects RangeCoderReach!Report printed."""
    return [o for o in vlib.parse_tlc_prints(out) if isinstance(o, dict) and "kinds" in o and "pay" in o]


def select_rare(evs):
    """The deterministic selection rule that turns the answer of the full
    reachability query into spec/RangeCoderRare.tla!RarePayloads (order kept)."""
    sel = []

    def take(kind, pred, n, tail=0):
        c = sorted([o for o in evs if kind in o["kinds"] and pred(o)], key=lambda o: (len(o["pay"]), o["pay"]))
        for o in c[:n] + (c[-tail:] if tail and len(c) > n else []):
            x = (kind, tuple(o["pay"]))
            if x not in sel:
                sel.append(x)
    take("exact32_flush", lambda o: True, 1000)
    take("exact32", lambda o: o["pay"][-1] in (0, 7), 1000)
    take("carry_pend_flush", lambda o: len(o["pay"]) == 2, 8, 2)
    take("carry_pend_flush", lambda o: o["cp"] >= 2, 6)
    take("carry_pend", lambda o: True, 6)
    take("pend_flush", lambda o: len(o["pay"]) == 1, 4)
    take("pend_flush", lambda o: len(o["pay"]) == 2, 8)
    take("pend", lambda o: o["pend"] >= 2, 6)
    take("eq24", lambda o: True, 4)
    take("m24", lambda o: True, 4)
    take("cacheff", lambda o: True, 4)
    take("pend_last", lambda o: True, 6)
    return sel


SMALL_ALPHABET = "{0, 1, 2, 3, 128, 255}"     # deep search: few bytes, so that adaptive contexts repeat


def boundary_seconds(evs):
    return sorted({o["pay"][1] for o in evs if len(o["pay"]) == 2 and set(o["kinds"]) - {"eq24"}} | {0x55, 0x7F, 0xAA, 0xFE, 0xFF})


def rare_module_text(sel, seconds):
    """For the maintainer: the RarePayloads / BoundarySeconds definitions to
    paste into spec/RangeCoderRare.tla when the specification changed."""
    return "RarePayloads == <<\n" + ",\n".join('    <<"%s", <<%s>>>>' % (k, ", ".join(map(str, p))) for k, p in sel) + \
           "\n>>\nBoundarySeconds == {%s}\n" % ", ".join(map(str, seconds))


def rare_side(ctx, box, errors):
    """Quick: TLC confirms every recorded (kind, payload) against the
    specification's encoder.  Thorough: additionally the full reachability
    query is run and must reproduce the recorded list."""
    try:
        res = ctx.tlc_ok("RangeCoderReach", cfg="confirm.cfg", data={"confirm.cfg": REACH_CFG % ("ConfirmSpec", "<- AllBytes", 0, 0, 0, "Confirmed")},
                         workers=2, timeout=1500, heap="2g", label="RangeCoderReach: recorded rare payloads confirmed")
        evs = reach_events(res["out"])
        m = next((o for o in vlib.parse_tlc_prints(res["out"]) if isinstance(o, dict) and "boundary_seconds" in o), None)
        if not evs or not m:
            raise ToolingError("RangeCoderReach!ConfirmSpec printed no payloads / no boundary set:\n" + res["out"][-2000:])
        seconds = sorted(m["boundary_seconds"])
        small = sorted(m["boundary_seconds_small"])
        kinds = {}
        for o in evs:
            for k in o["kinds"]:
                kinds.setdefault(k, []).append(o["pay"])
        box.update(payloads=[o["pay"] for o in evs], seconds=seconds, small=small, events=evs,
                   reached={k: {"payloads": len(v), "shortest": min(v, key=lambda p: (len(p), p))} for k, v in sorted(kinds.items())},
                   max_carry_into_pending=max(o["cp"] for o in evs), max_pending=max(o["pend"] for o in evs))
        box["ready"].set()
        if ctx.tier == "thorough":
            res = ctx.tlc_ok("RangeCoderReach", cfg="reach.cfg", data={"reach.cfg": REACH_CFG % ("Spec", "<- AllBytes", 4, 2, 2, "")},
                             workers=4, timeout=3000, heap="4g",
                             label="RangeCoderReach: every payload of length <= 2, directed search to length 4")
            res2 = ctx.tlc_ok("RangeCoderReach", cfg="reach.cfg", data={"reach.cfg": REACH_CFG % ("Spec", "= " + SMALL_ALPHABET, 6, 6, 0, "")},
                              workers=3, timeout=3000, heap="4g",
                              label="RangeCoderReach: every payload of length <= 6 over the alphabet " + SMALL_ALPHABET)
            full = reach_events(res["out"]) + reach_events(res2["out"])
            sel = select_rare(full)
            secs = boundary_seconds(full)
            rec = []
            m2 = re.findall(r'<<"(\w+)", <<([\d, ]+)>>>>', open(os.path.join(vlib.SPEC, "RangeCoderRare.tla")).read())
            for k, p in m2:
                rec.append((k, tuple(int(x) for x in p.split(","))))
            if sel != rec or secs != seconds:
                raise ToolingError("spec/RangeCoderRare.tla is stale: the reachability query now answers differently.  New definitions:\n"
                                   + rare_module_text(sel, secs))
            by = {}
            for o in full:
                for k in o["kinds"]:
                    by.setdefault(k, {}).setdefault(len(o["pay"]), 0)
                    by[k][len(o["pay"])] += 1
            box["full_query"] = {"states": res["distinct"] + res2["distinct"], "small_alphabet": SMALL_ALPHABET, "reported_events_by_kind_and_length": by,
                                 "note": "inside the directed subtrees (length 3, 4) only every 16th single-pending event is reported"}
    except Exception as e:  # noqa
        errors.append(e)
        box["ready"].set()


# ------------------------------------------------------- range coder: rows
def rows_families(ctx, box):
    sec = ".".join(map(str, box["seconds"]))
    small = ".".join(map(str, box["small"]))
    if ctx.tier == "thorough":
        return "lzma2,xz2,xzz30,xzz256/" + small
    return "lzma2/%s,xz2/%s,xzz30/190.1" % (sec, sec)


def hexrows(box):
    out = []
    for p in box["payloads"]:
        h = bytes(p).hex()
        out += [h, h + ":30"]
    return ",".join(out)


def row_desc(row):
    fm = "xz" if row[0] == 2 else "lzma"
    pre = bytes(row[7:7 + row[2]])
    return fm, pre, row[1], bytes(row[7 + row[2]:])


RT_TEXT = {1: "returned the payload", 2: "returned an error", 3: "returned other bytes", 4: "panicked", 5: "(Encode itself failed)"}


def row_what(row, verdict):
    fm, pre, z, enc = row_desc(row)
    bad = []
    if verdict not in ("ok", "unmodelled"):
        bad.append("the specification's range decoder (RangeCoder.tla) says '%s'" % verdict)
    if row[3] != 1 or row[4] != 0:
        bad.append("litonlylzma.Decode %s, %d bytes left over" % (RT_TEXT.get(row[3], "?"), row[4]))
    if row[5] == 0:
        bad.append("xz -dc does not give the payload back")
    if row[6] == 0:
        bad.append("the Wuffs decoder does not give the payload back")
    return "litonlylzma %s of payload %s%s (%d bytes) -> %d-byte file %s: %s" % (
        fm, pre.hex() or "(empty)", " + %d zero bytes" % z if z else "", len(pre) + z, len(enc), enc.hex()[:200], "; ".join(bad))


def tlc_rows(ctx, text, label, invs="DecodesTo Modelled ImplRoundTrip IndependentOK", workers=2):
    res = ctx.tlc("RangeCoderRows", cfg="rows.cfg", data={"rows.cfg": RCROWS_CFG % invs, "rows.json": text},
                  workers=workers, timeout=3000, heap="3g", label=label)
    if res["error"]:
        raise ToolingError("TLC error on %s:\n%s" % (label, res["error"]))
    return res


def survey(ctx, text, label):
    """All rows of a file that any invariant rejects: [(k, verdict)]."""
    res = tlc_rows(ctx, text, label, invs="Survey")
    if res["violated"]:
        raise ToolingError("Survey is never false:\n" + res["out"][-2000:])
    out = []
    for m in re.finditer(r'<<"ROW-SURVEY", (\d+), "(\w+)", (\d+), (\d+), (\d+), (\d+)>>', res["out"]):
        out.append((int(m.group(1)), m.group(2)))
    return sorted(out), res


def reproduce_row(ctx, binp, drv, row, verdict_seen):
    """Encode the payload again, alone, with the per-file decoders; TLC must
    reject the fresh row too.  Returns (row2, verdict2) or raises."""
    fm, pre, z, enc = row_desc(row)
    d = ctx.subdir("rowone")
    outp = os.path.join(d, "row-%s.json" % vlib.sha(fm.encode() + pre + bytes([z % 256])))
    r = ctx.run([binp, "-mode", "rowone", "-row", "%s:%s:%d" % (fm, pre.hex(), z), "-out", outp, "-xz", XZ, "-wuffs", drv], timeout=600)
    if r.returncode != 0:
        raise ToolingError("lzmareplay -mode rowone failed:\n" + r.stderr[-2000:])
    text = open(outp).read()
    row2 = json.loads(text)[0]
    sv, _ = survey(ctx, text, "reproduce row %s:%s:%d" % (fm, pre.hex(), z))
    if not sv:
        raise ToolingError("row %s:%s:%d rejected in the table (%s) but accepted when encoded again alone" % (fm, pre.hex(), z, verdict_seen))
    return row2, sv[0][1], json.loads(r.stdout.strip().splitlines()[-1])


def rows_side(ctx, binp, drv, box, out, errors):
    try:
        d = ctx.subdir("rcrows")
        nsh = 4 if ctx.tier == "thorough" else 2
        r = ctx.run([binp, "-mode", "rows", "-family", rows_families(ctx, box), "-hexrows", hexrows(box), "-shards", str(nsh),
                     "-outdir", d, "-xz", XZ, "-wuffs", drv], timeout=3000)
        if r.returncode != 0:
            raise ToolingError("lzmareplay -mode rows failed:\n" + r.stderr[-2000:])
        st = json.loads(r.stdout.strip().splitlines()[-1])
        ctx.log("range-coder rows: %d rows written (%s)" % (st["rows"], ", ".join("%s=%d" % kv for kv in sorted(st["by_family"].items()))))
        texts = [open(f).read() for f in st["files"]]
        results = [None] * len(texts)
        errs = []

        def one(i):
            try:
                results[i] = tlc_rows(ctx, texts[i], "RangeCoderRows: TLC decodes shard %d/%d" % (i + 1, len(texts)),
                                      workers=3 if ctx.tier == "thorough" else 2)
            except Exception as e:  # noqa
                errs.append(e)
        ths = [threading.Thread(target=one, args=(i,)) for i in range(len(texts))]
        t0 = __import__("time").time()
        for t in ths:
            t.start()
        for t in ths:
            t.join()
        if errs:
            raise errs[0]
        wall = __import__("time").time() - t0
        decoded = 0
        rejected = 0
        reported = 0
        for i, res in enumerate(results):
            rows = json.loads(texts[i])
            if not res["violated"]:
                if "Model checking completed. No error has been found." not in res["out"]:
                    raise ToolingError("TLC gave no verdict on row shard %d:\n%s" % (i, res["out"][-2000:]))
                decoded += len(rows)
                continue
            if res["violated"] == "Modelled":
                raise ToolingError("a row uses a legal feature that RangeCoder.tla does not decode (status 'unmodelled'); "
                                   "the specification has to be extended:\n" + res["out"][-1500:])
            sv, _ = survey(ctx, texts[i], "survey of shard %d after a rejection" % (i + 1))
            if not sv:
                raise ToolingError("shard %d violates %s but the survey lists no row" % (i, res["violated"]))
            rejected += len(sv)
            decoded += len(rows) - len(sv)
            ctx.log("shard %d: TLC rejects %d of %d rows (%s); first: %s" % (
                i + 1, len(sv), len(rows), res["violated"], [(row_desc(rows[k - 1])[0], row_desc(rows[k - 1])[1].hex(), rows[k - 1][1], v) for k, v in sv[:5]]))
            for k, v in sv:
                if reported >= 3:
                    break
                row = rows[k - 1]
                row2, v2, detail = reproduce_row(ctx, binp, drv, row, v)
                fm, pre, z, enc = row_desc(row2)
                report(ctx, row_what(row2, v2), {
                    "kind": "row", "key": "row:%s:%s:%d" % (fm, pre.hex(), z), "fmt": fm, "payload_prefix_hex": pre.hex(), "zeros": z,
                    "spec_verdict": v2, "decode": RT_TEXT.get(row2[3]), "decode_remaining": row2[4], "xz": row2[5], "wuffs": row2[6],
                    "encoded_hex": enc.hex(), "decoders": detail, "rows_rejected_in_this_shard": len(sv), "violated_invariant": res["violated"],
                    "how": "bin/check C17 --replay <this file>  (encodes the payload with the working tree's litonlylzma and lets TLC decode the file with spec/RangeCoder.tla)",
                })
                reported += 1
        out.update(rows=st["rows"], by_family=st["by_family"], decoded=decoded, rejected=rejected, wall_s=round(wall, 1),
                   xz_processes=st["xz_processes"], xz_rows_with_lzma_chunk=st["xz_rows_with_lzma_chunk"],
                   tlc_states=sum(r["distinct"] for r in results), shards=len(texts),
                   rows_per_s=round(st["rows"] / max(wall, 0.1), 1))
        # Self-test of the binding: damaged copies of one real row must all be rejected.
        if rejected == 0:
            out["canary"] = rows_canary(ctx, texts[0])
    except Exception as e:  # noqa
        errors.append(e)


def rows_canary(ctx, text):
    rows = json.loads(text)
    base = next((r for r in rows if r[0] == 1 and r[2] == 2 and r[1] == 0 and r[7] > 1), None)
    if base is None:
        return 0
    hdr = 7 + base[2]
    dam = []
    a = list(base); a[-1] = (a[-1] + 1) % 256; dam.append(("last range-coded byte + 1", a))
    a = list(base); a[hdr + 14] ^= 0x40; dam.append(("one bit of the first code byte", a))
    a = list(base)[:-1]; dam.append(("file one byte short", a))
    a = list(base) + [0]; dam.append(("one byte appended", a))
    a = list(base); a[3] = 3; dam.append(("Decode verdict", a))
    a = list(base); a[6] = 0; dam.append(("Wuffs verdict", a))
    sv, res = survey(ctx, json.dumps([base] + [x[1] for x in dam]), "canary: %d damaged copies of one row" % len(dam))
    got = {k for k, _ in sv}
    want = set(range(2, len(dam) + 2))
    if got != want:
        raise ToolingError("row acceptor self-test failed: damaged rows %s, TLC rejects %s" % (sorted(want), sorted(got)))
    return {"damaged_rows_rejected": len(dam), "verdicts": {dam[k - 2][0]: v for k, v in sv}}


# ------------------------------------------------------------------------ run
covered = []
rc_info = {}      # what the range-coder side measured (evidence)


GEN_ACTIONS = ["GSHeader", "GBHeader", "GChunk", "GChunkEnd", "GBPad", "GCheck", "GIHead", "GIRec", "GIEnd", "GFooter", "GSPad", "GEof"]


def action_coverage(out, need_all=True):
    """Per-action (distinct, generated) counts from a -coverage 1 run of
    XzLayoutGen.  Every action of XzLayout must have been taken and no
    deviant accepted, otherwise the acceptor would be vacuous."""
    acts = {}
    for m in re.finditer(r"<(\w+) line \d+, col \d+ to line \d+, col \d+ of module XzLayoutGen>: (\d+):(\d+)", out):
        acts[m.group(1)] = [int(m.group(2)), int(m.group(3))]
    missing = [a for a in GEN_ACTIONS if acts.get(a, [0, 0])[1] == 0]
    if need_all and missing:
        raise ToolingError("generator never took: %s" % missing)
    if acts.get("DevNext", [0, 0])[1] != 0:
        raise ToolingError("a deviant event was accepted by XzLayout")
    return {k: v for k, v in acts.items() if k in GEN_ACTIONS or k == "DevNext"}


def spec_level(ctx, errors):
    """Design-level model checking of the specifications themselves."""
    try:
        thorough = ctx.tier == "thorough"
        if thorough:
            for k, (name, c) in enumerate(GEN_THOROUGH):
                res = ctx.tlc_ok("XzLayoutGen", cfg="gen.cfg", data={"gen.cfg": gen_cfg(c)}, workers=6, timeout=3000, heap="4g",
                                 label="XzLayoutGen generator (%s)" % name, coverage=(k == 0))
                if k == 0:
                    covered.append(action_coverage(res["out"], need_all=False))
        res = ctx.tlc_ok("XzLayoutGen", cfg="gen.cfg", data={"gen.cfg": gen_cfg(GEN_QUICK)}, workers=4, timeout=3000, heap="4g",
                         label="XzLayoutGen generator (1 block x 2 chunks, stream padding)", coverage=True)
        covered.insert(0, action_coverage(res["out"]))
        ctx.tlc_ok("LzmaAlone", cfg="lgen.cfg", data={"lgen.cfg": LGEN_CFG}, workers=2, timeout=1500, heap="2g", label="LzmaAlone generator")
        ctx.tlc_ok("LzmaExpansion", cfg="prob.cfg", data={"prob.cfg": PROB_CFG}, workers=2, timeout=1500, heap="2g",
                   label="LzmaExpansion ProbClamp + Window")
        # The range coder on its own: Decoder(Encoder(decisions)) = decisions.
        for (n, extreme, slim, what) in ([(14, False, False, "reset state, <= 14 decisions"), (7, True, False, "extreme states, <= 7 decisions")] if thorough
                                         else [(10, False, True, "reset state, <= 10 decisions"), (3, True, True, "extreme states (slim family), <= 3 decisions")]):
            res = ctx.tlc_ok("RangeCoderMC", cfg="mc.cfg", data={"mc.cfg": MC_CFG % (n, "TRUE" if extreme else "FALSE", "TRUE" if slim else "FALSE")},
                             workers=4 if thorough else 2, timeout=3000, heap="3g", label="RangeCoderMC round trip (%s)" % what)
            m = re.search(r'"MC-COVERAGE", (\[.*?\])', res["out"])
            if extreme and m:
                rc_info["mc_first_decision_coverage"] = {k: int(v) for k, v in re.findall(r"(\w+) \|-> (\d+)", m.group(1))}
        # The same algorithm scaled down (2-bit digits): every reachable state.
        res = ctx.tlc_ok("RangeCoderSmall", cfg="small.cfg", data={"small.cfg": SMALL_CFG % ("RtSpec", 5, 7 if thorough else 5, "", "EncInvSmall RoundTripSmall")},
                         workers=4 if thorough else 2, timeout=3000, heap="3g",
                         label="RangeCoderSmall round trip (all sequences of <= %d decisions)" % (7 if thorough else 5))
        if thorough:
            ctx.tlc_ok("RangeCoderSmall", cfg="small.cfg", data={"small.cfg": SMALL_CFG % ("InvSpec", 5, 0, "CONSTRAINT CsBound", "EncInvSmall")},
                       workers=4, timeout=3000, heap="3g", label="RangeCoderSmall: encoder invariant on every reachable state (<= 5 pending digits)")
            res = ctx.tlc("RangeCoderSmall", cfg="small.cfg", data={"small.cfg": SMALL_CFG % ("InvSpec", 5, 0, "CONSTRAINT CsBound", "NoLongRun")},
                          workers=2, timeout=3000, heap="3g", label="RangeCoderSmall: a run of 4 pending digits is reachable (expected violation)")
            if res["violated"] != "NoLongRun":
                raise ToolingError("RangeCoderSmall never builds a pending run of MaxCs digits: the exploration would be vacuous\n" + res["out"][-1500:])
    except Exception as e:  # noqa
        errors.append(e)


def run(ctx):
    # The machine is shared: keep every JVM's helper threads few.
    ctx.env.setdefault("JAVA_TOOL_OPTIONS", "-XX:ParallelGCThreads=2 -XX:CICompilerCount=2")
    # ... and never more than six TLC processes at a time (several sides of this check run concurrently).
    jvms = threading.Semaphore(6)
    tlc0 = ctx.tlc

    def tlc_limited(*a, **kw):
        with jvms:
            return tlc0(*a, **kw)
    ctx.tlc = tlc_limited
    errors = []
    th = threading.Thread(target=spec_level, args=(ctx, errors))
    th.start()
    rare = {"ready": threading.Event()}
    rare_err = []
    thr = threading.Thread(target=rare_side, args=(ctx, rare, rare_err))
    thr.start()
    threads = [th, thr]
    try:
        binp, drv = build_tools(ctx)
        ctx.log("tools built")
        have_xz = os.path.exists(XZ)
        if not have_xz:
            ctx.log("xz_unavailable: %s is missing; traces record xz=xz_unavailable" % XZ)

        tot, tot_err = [], []

        def totality_side():
            try:
                tot.append(check_totality(ctx, binp))
            except Exception as e:  # noqa
                tot_err.append(e)
        th2 = threading.Thread(target=totality_side)
        th2.start()
        threads.append(th2)

        rare["ready"].wait()
        if rare_err:
            raise rare_err[0]
        ctx.log("rare encoder states: %d recorded payloads confirmed by TLC (%s)" % (
            len(rare["payloads"]), ", ".join("%s: %d" % (k, v["payloads"]) for k, v in rare["reached"].items())))
        rows_out, rows_err = {}, []
        th3 = threading.Thread(target=rows_side, args=(ctx, binp, drv, rare, rows_out, rows_err))
        th3.start()
        threads.append(th3)

        # Rare payloads through the trace path as well: the shortest two of
        # every kind, bare and followed by 30 zero bytes.
        extra = []
        seen_k = {}
        for o in sorted(rare["events"], key=lambda o: (len(o["pay"]), o["pay"])):
            for k in o["kinds"]:
                if seen_k.get(k, 0) < 2 and k != "eq24":
                    seen_k[k] = seen_k.get(k, 0) + 1
                    h = bytes(o["pay"]).hex()
                    for e in ("hex:%s@%d" % (h, len(o["pay"])), "hex:%s@%d" % (h, len(o["pay"]) + 30)):
                        if e not in extra:
                            extra.append(e)
        d = ctx.subdir("traces")
        tp, sp = os.path.join(d, "trace.ndjson"), os.path.join(d, "stats.json")
        r = ctx.run([binp, "-mode", "traces", "-tier", ctx.tier, "-seed", str(ctx.seed), "-out", tp, "-stats", sp,
                     "-xz", XZ, "-wuffs", drv, "-extra", ",".join(extra)], timeout=3000)
        if r.returncode != 0:
            raise ToolingError("lzmareplay -mode traces failed:\n" + r.stderr[-2000:])
        stats = json.load(open(sp))
        text = open(tp).read()
        nev = len(text.splitlines())
        ctx.log("%d traces, %d events recorded" % (len(stats["traces"]), nev))
        accepted, rejected = check_traces(ctx, binp, drv, text, stats)
        ctx.log("traces accepted by TLC: %d, rejected: %d" % (accepted, rejected))
        ncanary = canary(ctx, text, both=(ctx.tier == "thorough")) if rejected == 0 else 0
        th2.join()
        if tot_err:
            raise tot_err[0]
        nrows, tst = tot[0]
        ctx.log("Decode table: %d rows; largest observed |out|/|in| = %s" % (
            nrows, ("%d/%d" % (tst["max_ratio_out"], tst["max_ratio_in"])) if tst else "n/a"))
        th3.join()
        if rows_err:
            raise rows_err[0]
        ctx.log("range-coder rows: %d of %d decoded by TLC to their payloads (%d rejected) in %.0f s (%s rows/s, %d JVMs)" % (
            rows_out["decoded"], rows_out["rows"], rows_out["rejected"], rows_out["wall_s"], rows_out["rows_per_s"], rows_out["shards"]))
        thr.join()
        if rare_err:
            raise rare_err[0]
    finally:
        for t in threads:
            t.join()
    if errors:
        raise errors[0]

    tr = stats["traces"]
    distinct = {(t["fmt"], t["class"], t["plen"]) for t in tr if t["plen"] > 0}
    multi = [t for t in tr if t["fmt"] == "xz" and t["chunks"] >= 2]
    raw = sum(t["raw_chunks"] for t in tr)
    lz = sum(t["chunks"] - t["raw_chunks"] for t in tr)
    samples = []
    seen = set()
    for want in (("xz", "ff", 65537), ("xz", "random", 131073), ("lzma", "ff", 65536), ("xz", "zero", 0), ("xz", "text", 131072),
                 ("xz", "chain", None), ("lzma", "chaincarry", None), ("xz", "ffrandom", None), ("xz", "alt", 1), ("xz", "random", 2097153),
                 ("xz", "rz", 65536), ("xz", "trz", 131072), ("lzma", "hex", 2), ("xz", "hex", 32)):
        for t in tr:
            if t["fmt"] == want[0] and t["class"].split(":")[0] == want[1] and (want[2] is None or t["plen"] == want[2]) and t["id"] not in seen:
                seen.add(t["id"])
                samples.append({k: t[k] for k in ("fmt", "class", "plen", "pseed", "flen", "events", "chunks", "raw_chunks", "max_ff_run")})
                break
    first_xz = next((t for t in split_traces(text) if t[0]["fmt"] == "xz" and t[0]["plen"] > 0), None)
    if first_xz:
        samples.append({"events_of_one_trace": [json.loads(l) for l in first_xz[1][:14]]})
    gen = [s for s in ctx.tlc_stats if s["label"].startswith("XzLayoutGen generator")]
    flips = {}
    for t in tr:
        c = t["class"].split(":")
        if c[0] in ("rz", "trz"):
            f = flips.setdefault("%s len=%d seed=%d" % (c[0], t["plen"], t["pseed"]), {"n": [], "lzma_last_chunk": 0, "raw_last_chunk": 0})
            f["n"].append(int(c[1]))
            f["raw_last_chunk" if t["raw_chunks"] else "lzma_last_chunk"] += 1
    for f in flips.values():
        f["n"] = "%d..%d" % (min(f["n"]), max(f["n"]))
    mc = [s for s in ctx.tlc_stats if s["label"].startswith(("RangeCoderMC", "RangeCoderSmall"))]
    samples.append({"row_decoded_by_tlc": "payload 02 be as .lzma: the flush starts with low = 2^32 exactly", "rare_payloads": rare["reached"]})
    ctx.evidence("exploration", {
        "evaluations": len(tr) + (nrows or 0) + rows_out["rows"],
        "distinct_nontrivial": len(distinct) + rows_out["rows"] - 2,
        "rule": "a case is one (format, content class, length) payload that is encoded by the real code, walked into events, "
                "validated by TLC against XzLayout/LzmaAlone and decoded by litonlylzma, xz and the Wuffs decoder; distinct = distinct "
                "(format, class, length) triples; non-trivial = payload length > 0. Lengths: 0..5, 65535..65537, 131071..131073"
                + (", 196609, 2 MiB-1..2 MiB+1, 2 MiB+65537" if ctx.tier == "thorough" else "")
                + ", seeded lengths (small / < 5000 / 65536+-40 / < 192 KiB); classes zero, ff, random, text, alt, ffrandom, chain, chaincarry. "
                  "Spec-directed classes: hex (payloads that the reachability query over the specification's encoder found to reach rare carry states), "
                  "rz / trz (every N within +-24 of the point where the last chunk - N random bytes then zeros - flips between an LZMA and an uncompressed chunk). "
                  "Range-coder rows: one (format, payload) per row, all distinct; the two empty payloads are the trivial ones. "
                  "Decode-table rows (arbitrary / header+arbitrary / every truncation / mutations / size bombs) are counted in evaluations only.",
        "samples": samples,
        "states": sum(t["distinct"] for t in ctx.tlc_stats),
        "transitions": sum(t["generated"] for t in ctx.tlc_stats),
        "traces_validated_against_impl": accepted,
        "trace_events": nev,
        "traces_rejected": rejected,
        "damaged_traces_rejected_by_tlc_selftest": ncanary,
        "xz_tool": "available" if have_xz else "xz_unavailable",
        "xz_multi_chunk_traces": len(multi),
        "lzma2_chunks_seen": {"lzma": lz, "uncompressed": raw},
        "longest_0xFF_run_in_any_encoding": max(t["max_ff_run"] for t in tr),
        "steering_model": stats.get("steer_model"),
        "decode_table_rows": nrows,
        "decode_max_out_over_in": ("%d/%d" % (tst["max_ratio_out"], tst["max_ratio_in"])) if tst else None,
        "expansion_multiple": 42,
        "generator_states": sum(g["distinct"] for g in gen) if gen else None,
        "generator_action_coverage": covered[0] if covered else None,
        "range_coder": {
            "rows_decoded_by_tlc": rows_out["decoded"], "rows_rejected": rows_out["rejected"], "rows_by_family": rows_out["by_family"],
            "tlc_decode_rows_per_s": rows_out["rows_per_s"], "tlc_decode_wall_s": rows_out["wall_s"], "tlc_processes": rows_out["shards"],
            "xz_rows_stored_in_lzma_chunks": rows_out["xz_rows_with_lzma_chunk"], "xz_processes_for_all_xz_rows": rows_out["xz_processes"],
            "damaged_rows_selftest": rows_out.get("canary"),
            "model_checking": [{k: m[k] for k in ("label", "distinct", "generated", "wall_s")} for m in mc],
            "model_first_decision_coverage_of_extreme_starts": rc_info.get("mc_first_decision_coverage"),
            "rare_states_reached_by_recorded_payloads": rare["reached"],
            "largest_pending_run_resolved_by_a_carry": rare["max_carry_into_pending"], "largest_pending_run": rare["max_pending"],
            "boundary_second_bytes": rare["seconds"],
            "reachability_query": rare.get("full_query", "thorough tier only; quick confirms the recorded answers"),
            "not_reached_by_payloads_up_to_length_4": ["range = 2^24 - 1 after a decision", "cache byte 0xFF"],
        },
        "chunk_choice_flip_windows": flips,
        "exhaustive": False,
    }, assumptions=[
        "the walker (harness/cmd/lzmareplay/walker.go) reports the fields of the file faithfully; it was written from xz-file-format.txt and the LZMA2 chunk table, not from litonlylzma",
        "the Check value is judged against the CRC-32/CRC-64/SHA-256 of the payload computed with Go's standard library",
        "xz 5.8.2 at /root/miniconda/bin/xz is a conformant full decoder; if it is absent the traces say xz_unavailable and only the Wuffs decoder and litonlylzma's own Decode are consulted",
        "the Wuffs decoders are built from C generated from the working tree's std/ by the working tree's cmd/wuffs and cmd/wuffs-c",
        "spec/RangeCoder.tla is the reference coder of the LZMA specification (written from the SDK's description, not from litonlylzma); its 16-bit-halves arithmetic is exact; a literal-only stream with a known size and no end marker must end with code = 0 and leave nothing of the segment unread",
        "rows: the family is exhaustive only up to payload length 2 (and 2 + zero padding); longer payloads are sampled; long pending-0xFF chains are reached through the generator-side steering model of payload.go and judged by the three decoders",
        "the concatenation of .xz streams decodes to the concatenation of the payloads (xz -dc); a row whose stream makes xz stop is found by offset and re-examined alone",
        "the expansion multiple 42 is derived in LzmaExpansion.tla (probability clamp model-checked, window lemma evaluated by TLC) and only checked, not proved, against the Go code on the table's rows",
    ])


# --------------------------------------------------------------------- replay
def replay(ctx, path):
    rep = json.load(open(path))["replay"]
    ctx.env.setdefault("JAVA_TOOL_OPTIONS", "-XX:ParallelGCThreads=2 -XX:CICompilerCount=2")
    print(json.dumps({k: v for k, v in rep.items() if k not in ("events", "encoded_hex", "input_hex")}, indent=1))
    binp, drv = build_tools(ctx)
    if rep.get("kind") == "row":
        row = [2 if rep["fmt"] == "xz" else 1, rep["zeros"], len(rep["payload_prefix_hex"]) // 2, 0, 0, 2, 2] + list(bytes.fromhex(rep["payload_prefix_hex"]))
        try:
            row2, v2, detail = reproduce_row(ctx, binp, drv, row, rep.get("spec_verdict"))
        except ToolingError as e:
            if "accepted when encoded again alone" in str(e):
                print("REPLAY: row accepted - not reproduced")
                return
            raise
        print(json.dumps(detail))
        report(ctx, "replayed: " + row_what(row2, v2), rep)
        return
    if rep.get("kind") == "trace":
        text = one_trace(ctx, binp, drv, rep)
        ok, matched, res = validate(ctx, text, "replay")
        evs = [json.loads(l) for l in text.splitlines() if l.strip()]
        if ok:
            print("REPLAY: trace accepted (%d events) - not reproduced" % matched)
        else:
            report(ctx, "replayed: litonlylzma %s class=%s len=%d: %s" % (rep["fmt"], rep["class"], rep["plen"], describe(evs, matched)), rep)
    else:
        d = ctx.subdir("rp")
        inp = os.path.join(d, "in.bin")
        open(inp, "wb").write(bytes.fromhex(rep["input_hex"]))
        if rep.get("kind") == "hang":
            try:
                ctx.run([binp, "-mode", "decodeone", "-fmt", rep["fmt"], "-in", inp], timeout=80)
                print("REPLAY: Decode returned - not reproduced")
            except ToolingError:
                report(ctx, "replayed: Decode does not return within 80 s", rep)
            return
        r = ctx.run([binp, "-mode", "decodeone", "-fmt", rep["fmt"], "-in", inp], timeout=600)
        o = json.loads(r.stdout.splitlines()[0])
        row = [2 if rep["fmt"] == "xz" else 1, o["inlen"], o["outlen"], 1 if o["panicked"] else 0, 0, o["rem"], 0, o["ms"]]
        res = ctx.tlc("LzmaExpansion", cfg="rows.cfg", data={"rows.cfg": ROWS_CFG, "rows.json": json.dumps([row])}, timeout=600, heap="2g")
        print(r.stdout)
        if res["violated"]:
            report(ctx, "replayed: Decode row rejected by LzmaExpansion!RowOK: " + r.stdout.strip()[:400], rep)
        else:
            print("REPLAY: row accepted - not reproduced")

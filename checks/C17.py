"""C17 - literal-only LZMA/XZ: lossless round trip, conformant output, total decoder.

Mode V.  harness/cmd/lzmareplay encodes payload classes with /repo's
lib/litonlylzma, an independent walker parses the output into events, and TLC
validates the events against spec/XzLayout.tla + spec/LzmaAlone.tla through
spec/trace/Trace_XzLayout.tla (IsEvent idiom, TraceReset between traces,
TraceAccepted post-condition).  The final event of every trace carries the
terminal conditions observed on real code: litonlylzma's own Decode, `xz -dc`,
and the Wuffs std/lzma / std/xz decoders compiled from C that is generated from
the working tree.  Totality of Decode: a table of calls on arbitrary /
truncated / mutated inputs, every row an initial state of
spec/LzmaExpansion.tla (no panic, |out| <= 42 * |in|, the multiple derived and
TLC-checked in that module).  The layout specifications are also model-checked
on their own as generators (XzLayoutGen.tla, LzmaAlone!LGenSpec).
"""
import json, os, re, shutil, threading, hashlib
import vlib
from vlib import ToolingError

META = {
    "level": "exploration",
    "technique": "TLA+ container specifications (XzLayout, LzmaAlone) used as trace acceptors for the events an independent walker parses out of Encode's output, with the round-trip / xz / Wuffs-decoder outcomes as terminal conditions of each trace; table validation of Decode calls against a TLC-checked expansion bound (LzmaExpansion); the layout specs model-checked alone as generators",
    "text": "Payload classes from the specification's boundary analysis (lengths 0..5, 64 KiB +-1, 128 KiB +-1, 2 MiB +-1 in thorough, seeded lengths; all-0x00, all-0xFF, incompressible, text, alternating, 0xFF runs, and payloads steered into long pending-0xFF chains resolved with and without a carry) x {LZMA, XZ}: every encoded file is parsed field by field and accepted by TLC, decoded back by litonlylzma with no remainder, by xz 5.8 and by the Wuffs lzma/xz decoders generated from the working tree. Decode is called on arbitrary, truncated and mutated inputs under recover and a watchdog; TLC checks no panic and |out| <= 42*|in| on every row.",
    "note": "Sampling, not exhaustive, over payloads. Trusted: TLC, the walker (written from the format documents, not from litonlylzma), Go's hash/crc32, the xz binary, gcc. The range coder itself is not modelled (DESIGN C17 stated limit); carry chains are exercised by steered payloads and judged by three decoders. An owed end-of-stream marker (unknown-size .lzma) cannot be seen by the walker and is left to the decoders; litonlylzma never emits that form.",
}

XZ = "/root/miniconda/bin/xz"
VLOCK = threading.Lock()     # ctx.violation numbers replay files; two sides of this check run concurrently


def report(ctx, what, rep):
    with VLOCK:
        return ctx.violation(what, rep)

GEN_QUICK = dict(GenMaxStreams=1, GenMaxBlocks=1, GenMaxChunks=2, GenMaxOff=600000, GenUs="{1, 2097152}", GenCs="{5, 6}",
                 GenRaw="{1}", GenSb="{2}", GenDeclC="{12}", GenDeclU="{1}", GenChecks="{1}")
# thorough: three generator configurations (one deep block, two blocks, two streams)
GEN_THOROUGH = [
    ("1 block x 3 chunks", dict(GenMaxStreams=1, GenMaxBlocks=1, GenMaxChunks=3, GenMaxOff=8000000, GenUs="{1, 2097152}", GenCs="{5, 6}",
                                GenRaw="{1}", GenSb="{2, 3}", GenDeclC="{12}", GenDeclU="{1}", GenChecks="{0, 1, 4, 10}")),
    ("2 blocks x 1 chunk", dict(GenMaxStreams=1, GenMaxBlocks=2, GenMaxChunks=1, GenMaxOff=8000000, GenUs="{1, 65537}", GenCs="{5, 65536}",
                                GenRaw="{1, 65536}", GenSb="{2}", GenDeclC="{12, 65548}", GenDeclU="{1, 65537}", GenChecks="{0, 1, 4, 10}")),
    ("2 streams", dict(GenMaxStreams=2, GenMaxBlocks=1, GenMaxChunks=1, GenMaxOff=8000000, GenUs="{1, 2097152}", GenCs="{5, 6}",
                       GenRaw="{1}", GenSb="{2, 3}", GenDeclC="{12}", GenDeclU="{1}", GenChecks="{1, 4}")),
]


def gen_cfg(c, extra_inv=""):
    lines = ["SPECIFICATION GenSpec", "CONSTANTS"]
    lines += ["  %s = %s" % (k, v) for k, v in c.items()]
    lines += ["CONSTRAINT GenConstraint", "INVARIANTS TypeOK AlignInv RecsInv DoneInv FooterInv DeviantsRefused " + extra_inv, "CHECK_DEADLOCK FALSE"]
    return "\n".join(lines) + "\n"


TRACE_CFG = """SPECIFICATION TraceSpec
CONSTANTS
  TraceFile = "trace.ndjson"
  LGenPlen = {0}
INVARIANT Complete
POSTCONDITION TraceAccepted
CHECK_DEADLOCK FALSE
"""

LGEN_CFG = """SPECIFICATION LGenSpec
CONSTANTS
  LGenPlen = {0, 1, 7}
INVARIANTS LTypeOK LDoneInv LPayloadInv
CHECK_DEADLOCK FALSE
"""

PROB_CFG = """SPECIFICATION ProbSpec
CONSTANTS
  RowsFile = "none.json"
INVARIANT ProbClamp
CHECK_DEADLOCK FALSE
"""

ROWS_CFG = """SPECIFICATION RowSpec
CONSTANTS
  RowsFile = "rows.json"
INVARIANT RowInv
CHECK_DEADLOCK FALSE
"""


# --------------------------------------------------------------------- builds
def build_tools(ctx):
    """lzmareplay (linked against the working tree's lib/litonlylzma) and the
    Wuffs decoder driver compiled against C generated from the working tree."""
    binp = ctx.go_build("./cmd/lzmareplay")
    ctx.go_build("github.com/google/wuffs/cmd/wuffs-c")
    ctx.go_build("github.com/google/wuffs/cmd/wuffs")
    root = ctx.subdir("wroot")
    if not os.path.isdir(os.path.join(root, "std")):
        shutil.copytree(os.path.join(vlib.REPO, "std"), os.path.join(root, "std"))
        shutil.copy(os.path.join(vlib.REPO, "wuffs-root-directory.txt"), root)
    env = {"PATH": ctx.subdir("bin") + ":" + os.environ.get("PATH", "")}
    r = ctx.run([os.path.join(ctx.subdir("bin"), "wuffs"), "gen"], cwd=root, env=env, timeout=600)
    snap = os.path.join(root, "release", "c", "wuffs-unsupported-snapshot.c")
    if r.returncode != 0 or not os.path.exists(snap):
        raise ToolingError("wuffs gen failed in the scratch copy of std/:\n" + (r.stdout + r.stderr)[-3000:])
    drv = os.path.join(ctx.subdir("bin"), "wuffsdec")
    src = os.path.join(vlib.HARNESS, "cmd", "lzmareplay", "cdriver", "wuffsdec.c")
    r = ctx.run(["gcc", "-O1", "-o", drv, '-DWUFFS_SNAPSHOT="%s"' % snap, src], timeout=900)
    if r.returncode != 0:
        raise ToolingError("gcc failed on the Wuffs decoder driver:\n" + r.stderr[-3000:])
    return binp, drv


# ----------------------------------------------------------------- trace side
def split_traces(text):
    """ndjson text -> list of (reset_event, [lines])"""
    traces = []
    for line in text.splitlines():
        if not line.strip():
            continue
        if '"ev":"reset"' in line:
            traces.append((json.loads(line), [line]))
        else:
            traces[-1][1].append(line)
    return traces


def validate(ctx, text, label, workers=2):
    """Run the trace acceptor.  Returns (accepted, matched_events, tlc_result)."""
    res = ctx.tlc("Trace_XzLayout", cfg="trace.cfg", data={"trace.cfg": TRACE_CFG, "trace.ndjson": text},
                  workers=workers, timeout=3000, heap="3g", label=label)
    out = res["out"]
    nev = len([l for l in text.splitlines() if l.strip()])
    m = re.search(r'"TRACE-REJECTED matched",\s*(\d+)', out)
    if m:
        return False, int(m.group(1)), res
    if res["violated"] == "Complete":
        return False, nev, res
    if "Model checking completed. No error has been found." in out and res["diameter"] == nev + 1:
        return True, nev, res
    raise ToolingError("TLC did not give a verdict on %s (diameter %s, events %d):\n%s" % (label, res["diameter"], nev, out[-3000:]))


def one_trace(ctx, binp, drv, reset, keep_dump=None):
    """Re-run one payload through the real code; returns its ndjson text."""
    d = ctx.subdir("one")
    outp = os.path.join(d, "one.ndjson")
    cmd = [binp, "-mode", "one", "-fmt", reset["fmt"], "-class", reset["class"], "-plen", str(reset["plen"]),
           "-pseed", str(reset["pseed"]), "-out", outp, "-xz", XZ, "-wuffs", drv]
    if keep_dump:
        cmd += ["-dump", keep_dump]
    r = ctx.run(cmd, timeout=900)
    if r.returncode != 0:
        raise ToolingError("lzmareplay -mode one failed:\n" + r.stderr[-2000:])
    return open(outp).read()


def describe(events, matched):
    if matched < len(events):
        e = events[matched]
        if e.get("ev") == "eof":
            bad = []
            if e["rt"] != "ok" or e["rem"] != 0:
                bad.append("Decode(Encode(x)) -> %s, %d bytes left over" % (e["rt"], e["rem"]))
            if e["xz"] not in ("ok", "xz_unavailable"):
                bad.append("xz -dc: " + e["xz"])
            if e["wuffs"] != "ok":
                bad.append("Wuffs decoder: " + e["wuffs"])
            if not bad:
                bad.append("file/payload length does not match what the container describes")
            return "terminal condition fails (" + "; ".join(bad) + ")"
        if e.get("ev") == "reset":
            return "Encode failed: " + e.get("encode", "?")
        return "event #%d %s at offset %s is not legal here" % (matched + 1, e.get("ev"), e.get("off"))
    return "trace incomplete"


def check_traces(ctx, binp, drv, text, stats):
    """Validate all traces; on rejection reproduce on the real code, report,
    drop the trace and continue with the rest."""
    traces = split_traces(text)
    accepted = 0
    reported = 0
    remaining = traces
    while remaining:
        cur = "\n".join("\n".join(t[1]) for t in remaining) + "\n"
        ok, matched, res = validate(ctx, cur, "traces (%d)" % len(remaining))
        if ok:
            accepted += len(remaining)
            break
        # find the trace that holds event index `matched` (0-based)
        n = 0
        bad_i = None
        for ti, t in enumerate(remaining):
            if matched < n + len(t[1]):
                bad_i = ti
                break
            n += len(t[1])
        if bad_i is None and matched >= n and remaining:
            bad_i = len(remaining) - 1      # the file ended inside the last trace (invariant Complete)
        if bad_i is None:
            raise ToolingError("rejected trace not found (matched=%d)" % matched)
        accepted += bad_i
        reset = remaining[bad_i][0]
        # reproduce on the real code, alone
        dump = os.path.join(ctx.subdir("one"), "enc.bin")
        again = one_trace(ctx, binp, drv, reset, keep_dump=dump)
        ok2, m2, res2 = validate(ctx, again, "reproduce %s/%s/%d" % (reset["fmt"], reset["class"], reset["plen"]))
        if ok2:
            raise ToolingError("trace %s rejected in the batch but accepted when replayed alone" % json.dumps(reset))
        evs = [json.loads(l) for l in again.splitlines() if l.strip()]
        what = "litonlylzma %s of payload class=%s len=%d seed=%d: %s" % (
            reset["fmt"], reset["class"], reset["plen"], reset["pseed"], describe(evs, m2))
        enc_hex = None
        if os.path.exists(dump) and os.path.getsize(dump) <= 4096:
            enc_hex = open(dump, "rb").read().hex()
        report(ctx, what, {
            "kind": "trace", "key": "trace:%s:%s:%d" % (reset["fmt"], reset["class"], reset["plen"]),
            "fmt": reset["fmt"], "class": reset["class"], "plen": reset["plen"], "pseed": reset["pseed"],
            "matched_events": m2, "rejected_event": evs[m2] if m2 < len(evs) else None,
            "events": evs[:60], "encoded_hex": enc_hex,
            "how": "bin/check C17 --replay <this file>  (regenerates the payload, encodes it with the working tree's litonlylzma, walks and validates it)",
        })
        reported += 1
        remaining = remaining[bad_i + 1:]
        if reported >= 3:
            ctx.log("stopping after %d rejected traces; %d traces not examined" % (reported, len(remaining)))
            break
    return accepted, reported


def canary(ctx, text, both=True):
    """Self-test of the binding: damage one recorded field (the footer's
    Backward Size, and the round-trip verdict) of a real trace and require
    that TLC rejects the trace exactly there."""
    t = next((t for t in split_traces(text) if t[0]["fmt"] == "xz" and t[0]["plen"] > 0), None)
    if t is None:
        return 0
    n = 0
    for field, fn in (("footer", lambda e: e.update(bsize=e["bsize"] + 1)), ("eof", lambda e: e.update(wuffs="mismatch")))[:2 if both else 1]:
        lines = list(t[1])
        idx = next(i for i, l in enumerate(lines) if json.loads(l)["ev"] == field)
        e = json.loads(lines[idx])
        fn(e)
        lines[idx] = json.dumps(e)
        ok, matched, _ = validate(ctx, "\n".join(lines) + "\n", "canary: damaged %s" % field)
        if ok or matched != idx:
            raise ToolingError("acceptor self-test failed: damaged %s event at %d, TLC says ok=%s matched=%d" % (field, idx, ok, matched))
        n += 1
    return n


# -------------------------------------------------------------- totality side
def check_totality(ctx, binp):
    d = ctx.subdir("total")
    rows_p = os.path.join(d, "rows.json")
    hang = ctx.subdir("hang")
    budget = 20000
    r = ctx.run([binp, "-mode", "total", "-tier", ctx.tier, "-seed", str(ctx.seed), "-out", rows_p,
                 "-hangdir", hang, "-budget_ms", str(budget)], timeout=2400)
    if r.returncode == 7:
        # watchdog: confirm with 4x the budget on the single input (DESIGN 2.2)
        files = sorted(os.listdir(hang))
        if not files:
            raise ToolingError("watchdog fired without an input file:\n" + r.stderr[-1000:])
        f = os.path.join(hang, files[0])
        fm = "xz" if "-xz-" in files[0] else "lzma"
        try:
            r2 = ctx.run([binp, "-mode", "decodeone", "-fmt", fm, "-in", f], timeout=4 * budget / 1000.0)
            raise ToolingError("Decode exceeded %d ms once but returned within 4x on the second run: %s" % (budget, r2.stdout[-300:]))
        except ToolingError as e:
            if "timeout after" not in str(e):
                raise
        data = open(f, "rb").read()
        report(ctx, "litonlylzma %s Decode does not return within %d s on a %d-byte input" % (fm, 4 * budget // 1000, len(data)),
                      {"kind": "hang", "key": "hang:" + vlib.sha(data), "fmt": fm, "input_hex": data[:65536].hex(), "inlen": len(data)})
        return 0, None
    if r.returncode != 0:
        raise ToolingError("lzmareplay -mode total failed (%d):\n%s" % (r.returncode, r.stderr[-2000:]))
    st = json.loads(r.stdout.strip().splitlines()[-1])
    rows = open(rows_p).read()
    nrows = st["rows"]
    res = ctx.tlc("LzmaExpansion", cfg="rows.cfg", data={"rows.cfg": ROWS_CFG, "rows.json": rows}, timeout=3000, heap="3g",
                  label="decode table (%d rows)" % nrows)
    if res["error"]:
        raise ToolingError("TLC error on the Decode table:\n" + res["error"])
    if res["violated"]:
        m = re.search(r"/\\ k = (\d+)", res["out"])
        if not m:
            m = re.search(r"\bk = (\d+)", res["out"])
        if not m:
            raise ToolingError("RowInv violated but no row index in TLC's output:\n" + res["out"][-2000:])
        k = int(m.group(1))
        row = json.loads(rows)[k - 1]
        inp = os.path.join(d, "row.bin")
        ctx.run([binp, "-mode", "total", "-tier", ctx.tier, "-seed", str(ctx.seed), "-only", str(k), "-dump", inp], timeout=600, check=True)
        fm = "xz" if row[0] == 2 else "lzma"
        r2 = ctx.run([binp, "-mode", "decodeone", "-fmt", fm, "-in", inp], timeout=600)
        rep = json.loads(r2.stdout.splitlines()[0])
        if not (rep["panicked"] or rep["outlen"] > 42 * rep["inlen"]):
            raise ToolingError("row %d rejected by TLC but not reproduced alone: %s" % (k, r2.stdout))
        data = open(inp, "rb").read()
        what = "litonlylzma %s Decode on a %d-byte input (%s): %s" % (
            fm, len(data), st["kinds"][row[6]] if isinstance(st["kinds"], list) else row[6],
            "panic: " + r2.stdout.split("panic:", 1)[-1].strip()[:300] if rep["panicked"] else "output %d bytes > 42 * input" % rep["outlen"])
        report(ctx, what, {"kind": "decode", "key": "decode:" + vlib.sha(data), "fmt": fm, "row": row, "input_hex": data[:65536].hex(),
                             "inlen": len(data), "regen": {"tier": ctx.tier, "seed": ctx.seed, "row": k}})
    return nrows, st


# ------------------------------------------------------------------------ run
covered = []


GEN_ACTIONS = ["GSHeader", "GBHeader", "GChunk", "GChunkEnd", "GBPad", "GCheck", "GIHead", "GIRec", "GIEnd", "GFooter", "GSPad", "GEof"]


def action_coverage(out, need_all=True):
    """Per-action (distinct, generated) counts from a -coverage 1 run of
    XzLayoutGen.  Every action of XzLayout must have been taken and no
    deviant accepted, otherwise the acceptor would be vacuous."""
    acts = {}
    for m in re.finditer(r"<(\w+) line \d+, col \d+ to line \d+, col \d+ of module XzLayoutGen>: (\d+):(\d+)", out):
        acts[m.group(1)] = [int(m.group(2)), int(m.group(3))]
    missing = [a for a in GEN_ACTIONS if acts.get(a, [0, 0])[1] == 0]
    if need_all and missing:
        raise ToolingError("generator never took: %s" % missing)
    if acts.get("DevNext", [0, 0])[1] != 0:
        raise ToolingError("a deviant event was accepted by XzLayout")
    return {k: v for k, v in acts.items() if k in GEN_ACTIONS or k == "DevNext"}


def spec_level(ctx, errors):
    """Design-level model checking of the specifications themselves."""
    try:
        thorough = ctx.tier == "thorough"
        if thorough:
            for k, (name, c) in enumerate(GEN_THOROUGH):
                res = ctx.tlc_ok("XzLayoutGen", cfg="gen.cfg", data={"gen.cfg": gen_cfg(c)}, workers=6, timeout=3000, heap="4g",
                                 label="XzLayoutGen generator (%s)" % name, coverage=(k == 0))
                if k == 0:
                    covered.append(action_coverage(res["out"], need_all=False))
        res = ctx.tlc_ok("XzLayoutGen", cfg="gen.cfg", data={"gen.cfg": gen_cfg(GEN_QUICK)}, workers=4, timeout=3000, heap="4g",
                         label="XzLayoutGen generator (1 block x 2 chunks, stream padding)", coverage=True)
        covered.insert(0, action_coverage(res["out"]))
        ctx.tlc_ok("LzmaAlone", cfg="lgen.cfg", data={"lgen.cfg": LGEN_CFG}, workers=2, timeout=1500, heap="2g", label="LzmaAlone generator")
        ctx.tlc_ok("LzmaExpansion", cfg="prob.cfg", data={"prob.cfg": PROB_CFG}, workers=2, timeout=1500, heap="2g",
                   label="LzmaExpansion ProbClamp + Window")
    except Exception as e:  # noqa
        errors.append(e)


def run(ctx):
    errors = []
    th = threading.Thread(target=spec_level, args=(ctx, errors))
    th.start()
    try:
        binp, drv = build_tools(ctx)
        ctx.log("tools built")
        have_xz = os.path.exists(XZ)
        if not have_xz:
            ctx.log("xz_unavailable: %s is missing; traces record xz=xz_unavailable" % XZ)

        tot, tot_err = [], []

        def totality_side():
            try:
                tot.append(check_totality(ctx, binp))
            except Exception as e:  # noqa
                tot_err.append(e)
        th2 = threading.Thread(target=totality_side)
        th2.start()

        d = ctx.subdir("traces")
        tp, sp = os.path.join(d, "trace.ndjson"), os.path.join(d, "stats.json")
        r = ctx.run([binp, "-mode", "traces", "-tier", ctx.tier, "-seed", str(ctx.seed), "-out", tp, "-stats", sp,
                     "-xz", XZ, "-wuffs", drv], timeout=3000)
        if r.returncode != 0:
            raise ToolingError("lzmareplay -mode traces failed:\n" + r.stderr[-2000:])
        stats = json.load(open(sp))
        text = open(tp).read()
        nev = len(text.splitlines())
        ctx.log("%d traces, %d events recorded" % (len(stats["traces"]), nev))
        accepted, rejected = check_traces(ctx, binp, drv, text, stats)
        ctx.log("traces accepted by TLC: %d, rejected: %d" % (accepted, rejected))
        ncanary = canary(ctx, text, both=(ctx.tier == "thorough")) if rejected == 0 else 0
        th2.join()
        if tot_err:
            raise tot_err[0]
        nrows, tst = tot[0]
        ctx.log("Decode table: %d rows; largest observed |out|/|in| = %s" % (
            nrows, ("%d/%d" % (tst["max_ratio_out"], tst["max_ratio_in"])) if tst else "n/a"))
    finally:
        th.join()
        if "th2" in locals():
            th2.join()
    if errors:
        raise errors[0]

    tr = stats["traces"]
    distinct = {(t["fmt"], t["class"], t["plen"]) for t in tr if t["plen"] > 0}
    multi = [t for t in tr if t["fmt"] == "xz" and t["chunks"] >= 2]
    raw = sum(t["raw_chunks"] for t in tr)
    lz = sum(t["chunks"] - t["raw_chunks"] for t in tr)
    samples = []
    seen = set()
    for want in (("xz", "ff", 65537), ("xz", "random", 131073), ("lzma", "ff", 65536), ("xz", "zero", 0), ("xz", "text", 131072),
                 ("xz", "chain", None), ("lzma", "chaincarry", None), ("xz", "ffrandom", None), ("xz", "alt", 1), ("xz", "random", 2097153)):
        for t in tr:
            if t["fmt"] == want[0] and t["class"] == want[1] and (want[2] is None or t["plen"] == want[2]) and t["id"] not in seen:
                seen.add(t["id"])
                samples.append({k: t[k] for k in ("fmt", "class", "plen", "pseed", "flen", "events", "chunks", "raw_chunks", "max_ff_run")})
                break
    first_xz = next((t for t in split_traces(text) if t[0]["fmt"] == "xz" and t[0]["plen"] > 0), None)
    if first_xz:
        samples.append({"events_of_one_trace": [json.loads(l) for l in first_xz[1][:14]]})
    gen = [s for s in ctx.tlc_stats if s["label"].startswith("XzLayoutGen generator")]
    ctx.evidence("exploration", {
        "evaluations": len(tr) + (nrows or 0),
        "distinct_nontrivial": len(distinct),
        "rule": "a case is one (format, content class, length) payload that is encoded by the real code, walked into events, "
                "validated by TLC against XzLayout/LzmaAlone and decoded by litonlylzma, xz and the Wuffs decoder; distinct = distinct "
                "(format, class, length) triples; non-trivial = payload length > 0. Lengths: 0..5, 65535..65537, 131071..131073"
                + (", 196609, 2 MiB-1..2 MiB+1, 2 MiB+65537" if ctx.tier == "thorough" else "")
                + ", seeded lengths (small / < 5000 / 65536+-40 / < 192 KiB); classes zero, ff, random, text, alt, ffrandom, chain, chaincarry. "
                  "Decode-table rows (arbitrary / header+arbitrary / every truncation / mutations / size bombs) are counted in evaluations only.",
        "samples": samples,
        "states": sum(t["distinct"] for t in ctx.tlc_stats),
        "transitions": sum(t["generated"] for t in ctx.tlc_stats),
        "traces_validated_against_impl": accepted,
        "trace_events": nev,
        "traces_rejected": rejected,
        "damaged_traces_rejected_by_tlc_selftest": ncanary,
        "xz_tool": "available" if have_xz else "xz_unavailable",
        "xz_multi_chunk_traces": len(multi),
        "lzma2_chunks_seen": {"lzma": lz, "uncompressed": raw},
        "longest_0xFF_run_in_any_encoding": max(t["max_ff_run"] for t in tr),
        "steering_model": stats.get("steer_model"),
        "decode_table_rows": nrows,
        "decode_max_out_over_in": ("%d/%d" % (tst["max_ratio_out"], tst["max_ratio_in"])) if tst else None,
        "expansion_multiple": 42,
        "generator_states": sum(g["distinct"] for g in gen) if gen else None,
        "generator_action_coverage": covered[0] if covered else None,
        "exhaustive": False,
    }, assumptions=[
        "the walker (harness/cmd/lzmareplay/walker.go) reports the fields of the file faithfully; it was written from xz-file-format.txt and the LZMA2 chunk table, not from litonlylzma",
        "the Check value is judged against the CRC-32/CRC-64/SHA-256 of the payload computed with Go's standard library",
        "xz 5.8.2 at /root/miniconda/bin/xz is a conformant full decoder; if it is absent the traces say xz_unavailable and only the Wuffs decoder and litonlylzma's own Decode are consulted",
        "the Wuffs decoders are built from C generated from the working tree's std/ by the working tree's cmd/wuffs and cmd/wuffs-c",
        "the range coder is not modelled; carry propagation is exercised by payloads chosen with a generator-side model of a textbook range encoder and judged by the decoders",
        "the expansion multiple 42 is derived in LzmaExpansion.tla (probability clamp model-checked, window lemma evaluated by TLC) and only checked, not proved, against the Go code on the table's rows",
    ])


# --------------------------------------------------------------------- replay
def replay(ctx, path):
    rep = json.load(open(path))["replay"]
    print(json.dumps({k: v for k, v in rep.items() if k not in ("events", "encoded_hex", "input_hex")}, indent=1))
    binp, drv = build_tools(ctx)
    if rep.get("kind") == "trace":
        text = one_trace(ctx, binp, drv, rep)
        ok, matched, res = validate(ctx, text, "replay")
        evs = [json.loads(l) for l in text.splitlines() if l.strip()]
        if ok:
            print("REPLAY: trace accepted (%d events) - not reproduced" % matched)
        else:
            report(ctx, "replayed: litonlylzma %s class=%s len=%d: %s" % (rep["fmt"], rep["class"], rep["plen"], describe(evs, matched)), rep)
    else:
        d = ctx.subdir("rp")
        inp = os.path.join(d, "in.bin")
        open(inp, "wb").write(bytes.fromhex(rep["input_hex"]))
        if rep.get("kind") == "hang":
            try:
                ctx.run([binp, "-mode", "decodeone", "-fmt", rep["fmt"], "-in", inp], timeout=80)
                print("REPLAY: Decode returned - not reproduced")
            except ToolingError:
                report(ctx, "replayed: Decode does not return within 80 s", rep)
            return
        r = ctx.run([binp, "-mode", "decodeone", "-fmt", rep["fmt"], "-in", inp], timeout=600)
        o = json.loads(r.stdout.splitlines()[0])
        row = [2 if rep["fmt"] == "xz" else 1, o["inlen"], o["outlen"], 1 if o["panicked"] else 0, 0, o["rem"], 0, o["ms"]]
        res = ctx.tlc("LzmaExpansion", cfg="rows.cfg", data={"rows.cfg": ROWS_CFG, "rows.json": json.dumps([row])}, timeout=600, heap="2g")
        print(r.stdout)
        if res["violated"]:
            report(ctx, "replayed: Decode row rejected by LzmaExpansion!RowOK: " + r.stdout.strip()[:400], rep)
        else:
            print("REPLAY: row accepted - not reproduced")

"""C16 - cutting DEFLATE/zlib data yields a valid stream that decodes to a prefix.

Specification: spec/FlateCut.tla (the RESULT specification Accept: which
<<encodedLen, decodedLen, error>> are acceptable answers of Cut),
spec/FlateCutImpl.tla (an implementation-shaped model of lib/flatecut's
algorithm, model-checked against Accept over small abstract streams; the
source of counterexample-guided scripts), spec/FlateCutShapes.tla (the
universe of stream shapes x limit classes the driver has to realise) and
spec/FlateCutTable.tla (Accept evaluated by TLC on rows recorded from the
real code).

Binding: harness/cmd/cutreplay realises the shapes TLC exports (compress/flate
and compress/zlib at every level incl. HuffmanOnly/BestSpeed with Flush()
patterns and preset dictionaries, plus a hand-written bit-writer for stored
blocks of length 0, fixed-Huffman blocks, final empty blocks, degenerate
trees, 15-bit codes), calls lib/flatecut.Cut / lib/zlibcut.Cut of the
repository's working tree for EVERY limit from the documented minimum to
length+2 (and two far-away limits) on a fresh copy of the buffer, with and
without the optional writer, decodes encoded[:encodedLen] with compress/flate /
compress/zlib and compares with the ORIGINAL payload; TLC judges every
recorded row.  Robustness: arbitrary, truncated and mutated bytes, judged the
same way (no panic; an error or lengths inside limit and buffer).
"""
import json, os, re, concurrent.futures as cf
from vlib import ToolingError

META = {
    "level": "exploration",
    "technique": "TLA+ result specification (FlateCut.tla: Accept) + implementation-shaped model (FlateCutImpl.tla) model-checked against it by TLC; "
                 "TLC-enumerated stream shapes (FlateCutShapes.tla) realised concretely and cut by the real lib/flatecut / lib/zlibcut at every limit; "
                 "every recorded call validated by TLC against Accept (table validation); model answers compared with the real answers (replay)",
    "text": "Every limit from the documented minimum to length+2, with and without writer, for each realised stream shape (block-kind sequences "
            "of length <= 3 quick / <= 4 thorough over {stored, empty stored, fixed, empty fixed, dynamic, empty dynamic, one-code distance tree, 15-bit "
            "codes, no distance codes}, Go encoder streams at levels 0..9 and HuffmanOnly with Flush() patterns, preset dictionaries); decoding of the "
            "cut buffer is compared with the original payload by compress/flate / compress/zlib and by an independent inflate; arbitrary/mutated bytes for robustness.",
    "note": "Trusted: TLC, compress/flate and compress/zlib as decoding oracles (cross-checked by the harness's own inflate), the row writer of "
            "harness/cmd/cutreplay. Streams are small (<= ~1.2 KiB payload per segment): the 2 GiB decodedLen overflow guards and 65535-byte stored "
            "block limits of lib/flatecut are not driven.",
}

KINDS = ["S0", "S", "F0", "F", "D0", "D", "D1", "DL", "DZ"]

K_ELEN = "flatecut-encodedlen-exceeds-limit-empty-huffman-block"
K_DICT = "zlibcut-preset-dictionary-decoded-without-dictionary"
K_DZ = "flatecut-rejects-dynamic-block-without-distance-codes"


# ------------------------------------------------------------------ cfg files
def shapes_cfg(maxlen, maxdict, levels, maxsegs, export):
    return ("SPECIFICATION Spec\nCONSTANTS\n  MaxLen = %d\n  MaxDictLen = %d\n  Levels = {%s}\n  MaxSegs = %d\n  ExportFile = \"%s\"\n"
            "INVARIANT ShapeOK\nCHECK_DEADLOCK FALSE\n") % (maxlen, maxdict, ",".join(map(str, levels)), maxsegs, export)


def impl_cfg(u, guard, mutant, invs, universe="enum", streamfile="none"):
    f = lambda s: "{" + ",".join(str(v) for v in s) + "}"
    return ("SPECIFICATION Spec\nCONSTANTS\n  Universe = \"%s\"\n  StreamFile = \"%s\"\n  MaxBlocks = %d\n  StoredNs = %s\n"
            "  FixSymCodes = %s\n  DynSymCodes = %s\n  MaxSyms = %d\n  DynHdrs = %s\n  DynEobs = %s\n  Guard = %s\n  Mutant = \"%s\"\n"
            "INVARIANTS %s\n") % (universe, streamfile, u["blocks"], f(u["stored"]), f(u["fix"]), f(u["dyn"]), u["syms"], f(u["hdrs"]), f(u["eobs"]),
                                 "TRUE" if guard else "FALSE", mutant, " ".join(invs))


def table_cfg(fn, strict, stride):
    return ("SPECIFICATION Spec\nCONSTANTS\n  TableFile = \"%s\"\n  Strict = %s\n  Stride = %d\nINVARIANT RowJudged\nCHECK_DEADLOCK FALSE\n"
            % (fn, "TRUE" if strict else "FALSE", stride))


# Universes of abstract streams for FlateCutImpl (symbol = 1000*bits + decoded length).
U2 = {"blocks": 2, "stored": [0, 1, 3], "fix": [8001, 13004], "dyn": [1001, 20009], "syms": 2, "hdrs": [41], "eobs": [1, 15]}
U2_SMALL = {"blocks": 2, "stored": [0, 3], "fix": [8001, 13004], "dyn": [1001, 20009], "syms": 1, "hdrs": [41], "eobs": [1, 15]}
U2_QUICK = {"blocks": 2, "stored": [0, 1, 3], "fix": [8001, 13004], "dyn": [1001, 20009], "syms": 2, "hdrs": [41], "eobs": [15]}
U2_WIDE = {"blocks": 2, "stored": [0, 1, 3], "fix": [8001, 9001, 13004], "dyn": [1001, 15001, 20009], "syms": 2, "hdrs": [41], "eobs": [1, 15]}
U3 = {"blocks": 3, "stored": [0, 2], "fix": [8001, 21258], "dyn": [20009, 2001], "syms": 1, "hdrs": [41], "eobs": [1, 15]}
FILE_U = {"blocks": 1, "stored": [0], "fix": [8001], "dyn": [1001], "syms": 0, "hdrs": [1], "eobs": [1]}


def tlc_prints(out):
    objs = []
    for line in out.splitlines():
        line = line.strip()
        if len(line) >= 2 and line[0] == '"' and line[-1] == '"':
            body = line[1:-1].replace('\\"', '"').replace("\\\\", "\\")
            try:
                objs.append(json.loads(body))
            except Exception:
                pass
    return objs


def ce_kinds(ce):
    ks = []
    for b in ce:
        n = b["n"]
        if b["t"] == "stored":
            ks.append("S0" if n == 0 else "S")
        elif b["t"] == "fixed":
            ks.append("F0" if n == 0 else "F")
        else:
            ks.append("D0" if n == 0 else ("DL" if b["eob"] == 15 else "D"))
    return ks


REJECT_RE = re.compile(r'<<"REJECT", (\d+), (-?\d+), (-?\d+), (TRUE|FALSE), \{([^}]*)\}>>')


def parse_rejects(out):
    res = []
    for m in REJECT_RE.finditer(out):
        res.append({"index": int(m.group(1)), "sid": int(m.group(2)), "limit": int(m.group(3)), "w": m.group(4) == "TRUE",
                    "failed": sorted(x.strip().strip('"') for x in m.group(5).split(",") if x.strip())})
    return res


# ---------------------------------------------------------------- shape choice
def choose_shapes(ctx, shapes, thorough, ce_seqs):
    rng = ctx.rng
    bw = [s for s in shapes if s["gen"] == "bw" and not s["dict"]]
    bwd = [s for s in shapes if s["gen"] == "bw" and s["dict"]]
    go = [s for s in shapes if s["gen"] == "go" and not s["dict"]]
    god = [s for s in shapes if s["gen"] == "go" and s["dict"]]
    pick = []
    short = [s for s in bw if len(s["kinds"]) <= 2]
    longer = [s for s in bw if len(s["kinds"]) > 2]
    if thorough:
        pick += short
        pick += rng.sample(longer, min(len(longer), 700))
        pick += rng.sample(bwd, min(len(bwd), 40))
        pick += rng.sample(god, min(len(god), 40))
        ngo = 30
    else:
        pick += [s for s in short if s["fmt"] == "flate"]
        pick += rng.sample([s for s in short if s["fmt"] == "zlib"], 30)
        pick += rng.sample(longer, min(len(longer), 45))
        pick += rng.sample(bwd, min(len(bwd), 6))
        pick += rng.sample(god, min(len(god), 6))
        ngo = 3
    levels = sorted({s["level"] for s in go})
    for lv in levels:                       # every level, incl. BestSpeed (1) and HuffmanOnly (10)
        cand = [s for s in go if s["level"] == lv]
        pick += rng.sample(cand, min(len(cand), ngo))
    # counterexample-guided: the block sequences of FlateCutImpl's rejected answers, as bit-writer shapes
    guided = 0
    for ks in ce_seqs[: (40 if thorough else 10)]:
        for fmt in (("flate", "zlib") if thorough else ("flate",)):
            pick.append({"gen": "bw", "fmt": fmt, "dict": False, "kinds": ks, "level": 0, "segs": [], "flush": "none",
                         "classes": [], "guided": True})
            guided += 1
    out = []
    for n, s in enumerate(pick):
        d = dict(s)
        d["seed"] = ctx.seed * 1000003 + n * 7919 + 1
        d["index"] = n
        out.append(d)
    return out, guided


# --------------------------------------------------------------------- helpers
def run_harness(ctx, binp, shapes, robust, absmax, part):
    tag = "p%d" % part
    d = ctx.subdir("h-" + tag)
    sf = os.path.join(d, "shapes.json")
    json.dump(shapes, open(sf, "w"))
    args = [binp, "-shapes", sf, "-seed", str(ctx.seed * 64 + part), "-out", os.path.join(d, "rows.json"), "-ann", os.path.join(d, "ann.json"),
            "-streams", os.path.join(d, "streams.json"), "-witness", os.path.join(d, "robust.json"), "-robust", str(robust), "-abstract-max", str(absmax)]
    r = ctx.run(args, timeout=1800)
    if r.returncode != 0:
        raise ToolingError("cutreplay failed (%d): %s" % (r.returncode, r.stderr[-3000:]))
    st = json.loads(r.stdout)
    return {"stats": st, "rows": json.load(open(os.path.join(d, "rows.json"))), "anns": json.load(open(os.path.join(d, "ann.json"))),
            "streams": json.load(open(os.path.join(d, "streams.json"))), "wit": json.load(open(os.path.join(d, "robust.json")))}


def validate_rows(ctx, rows, label, workers=4):
    """TLC judges every row; returns the rejects (1-based indices into rows)."""
    if not rows:
        return []
    res = ctx.tlc("FlateCutTable", cfg="t.cfg", data={"t.cfg": table_cfg("rows.json", False, 64), "rows.json": json.dumps(rows)},
                  timeout=3000, label=label, workers=workers)
    if res["error"] or res["violated"] or "Model checking completed" not in res["out"]:
        raise ToolingError("TLC failed on %s:\n%s" % (label, res["out"][-3000:]))
    if res["distinct"] != len(rows):
        raise ToolingError("TLC judged %d of %d rows (%s)" % (res["distinct"], len(rows), label))
    return parse_rejects(res["out"])


def strict_verdict(ctx, row, label):
    res = ctx.tlc("FlateCutTable", cfg="t.cfg", data={"t.cfg": table_cfg("rows.json", True, 1), "rows.json": json.dumps([row])},
                  timeout=600, label=label, workers=1)
    if res["error"]:
        raise ToolingError("TLC failed on %s:\n%s" % (label, res["error"]))
    return res["violated"] is None


def classify_reject(rj, row, ann, stream, wit):
    """Which known finding (if any) a rejected row is an instance of.  This only
    routes the report; that the row is rejected was decided by TLC."""
    failed = rj["failed"]
    valid = row[3] == 1
    fmt_zlib, dict_, elen = row[1] == 1, row[2] == 1, row[10]
    # the layout of the input: of the valid stream, or of the complete blocks that arbitrary bytes start with
    lay = stream if valid else wit
    if lay is None:
        return None
    if failed == ["WithinLimit"] and ann[1] == 3 and 1 <= ann[0] <= len(lay["kinds"]):
        # the limit falls in an EMPTY Huffman block whose header fits, and the
        # answer ends exactly where that block's end-of-block code ends
        kind = lay["kinds"][ann[0] - 1]
        off = (6 if dict_ else 2) if fmt_zlib else 0
        if not valid:
            off = lay["start"]
        want = off + (lay["block_end_bits"][ann[0] - 1] + 7) // 8 + (4 if fmt_zlib else 0)
        if kind in ("F0", "D0") and elen == want:
            return K_ELEN
    if not valid:
        return None
    if failed == ["ErrorJustified"]:
        if dict_ and ann[4] == 2:
            return K_DICT
        if ann[4] == 3 and "DZ" in stream["kinds"]:
            return K_DZ
    return None


KNOWN_TEXT = {
    K_ELEN: "encodedLen > maxEncodedLen when an EMPTY Huffman block's end-of-block code straddles the limit (doHuffman returns nil at an end-of-block "
            "code that is the block's first symbol without checking the budget); witness findings/C16-elen-exceeds-limit.json",
    K_DICT: "zlibcut.Cut fails with 'flate: corrupt input' on valid zlib streams with a preset dictionary (FDICT is parsed but the Adler-32 "
            "recomputation decodes without the dictionary); witness findings/C16-zlib-preset-dictionary.json",
    K_DZ: "flatecut.Cut rejects a valid dynamic block with 'one distance code of zero bits' (RFC 1951 3.2.7) as 'bad Huffman tree'; "
          "witness findings/C16-no-distance-codes.json",
}


def fidelity_file(streams):
    out = []
    for s in streams:
        if s.get("abstract") and s.get("results") and len(s["results"]) == s["len"] + 1:
            out.append({"sid": s["sid"], "blocks": s["abstract"], "results": s["results"]})
    return out


# ------------------------------------------------------------------------- run
def run(ctx):
    thorough = ctx.tier == "thorough"
    rng = ctx.rng
    binp = ctx.go_build("./cmd/cutreplay")
    pool = cf.ThreadPoolExecutor(max_workers=6 if thorough else 4)

    # ---- phase 1: the specification side (all independent, run concurrently)
    levels = list(range(0, 11)) if thorough else [0, 1, 2, 5, 6, 9, 10]     # 1 = BestSpeed, 10 = HuffmanOnly
    scfg = shapes_cfg(4 if thorough else 3, 2, levels, 3 if thorough else 2, "shapes_out.json")
    f_shapes = pool.submit(ctx.tlc, "FlateCutShapes", cfg="s.cfg", data={"s.cfg": scfg}, timeout=3000, label="shapes", workers=4)
    u_design = U2_WIDE if thorough else U2_QUICK
    f_design = pool.submit(ctx.tlc, "FlateCutImpl", cfg="i.cfg", data={"i.cfg": impl_cfg(u_design, True, "none", ["AnswerAccepted", "CursorInBuffer"])},
                           timeout=3000, deadlock=False, label="impl-repaired-vs-result-spec", workers=4)
    f_asis = pool.submit(ctx.tlc, "FlateCutImpl", cfg="i.cfg", data={"i.cfg": impl_cfg(U2 if thorough else U2_SMALL, False, "none", ["AnswerReported", "CursorInBuffer"])},
                         timeout=3000, deadlock=False, label="impl-as-is-counterexamples", workers=4)
    f_extra = []
    if thorough:
        f_extra.append(pool.submit(ctx.tlc, "FlateCutImpl", cfg="i.cfg", data={"i.cfg": impl_cfg(U3, True, "none", ["AnswerAccepted", "CursorInBuffer"])},
                                   timeout=3000, deadlock=False, label="impl-repaired-3-blocks", workers=4))
        f_extra.append(pool.submit(ctx.tlc, "FlateCutImpl", cfg="i.cfg", data={"i.cfg": impl_cfg(U3, False, "none", ["AnswerReported", "CursorInBuffer"])},
                                   timeout=3000, deadlock=False, label="impl-as-is-3-blocks", workers=4))
    mutants = ["eobroom", "nopatch", "storedlen", "unread"]
    if not thorough:
        mutants = [rng.choice(mutants)]
    f_mut = {m: pool.submit(ctx.tlc, "FlateCutImpl", cfg="i.cfg", data={"i.cfg": impl_cfg(U2_SMALL, True, m, ["AnswerAccepted"])},
                            timeout=3000, deadlock=False, label="impl-mutant-" + m, workers=2) for m in mutants}

    res = f_shapes.result()
    if res["error"] or res["violated"] or not os.path.exists(os.path.join(res["dir"], "shapes_out.json")):
        raise ToolingError("FlateCutShapes failed:\n" + res["out"][-3000:])
    shapes = json.load(open(os.path.join(res["dir"], "shapes_out.json")))
    shape_states = res["distinct"]
    ctx.log("TLC enumerated %d shapes, %d <<shape, limit class>> states" % (len(shapes), shape_states))

    res = f_design.result()
    if res["error"]:
        raise ToolingError("FlateCutImpl: " + res["error"])
    if res["violated"] or res["deadlock"]:
        raise ToolingError("the repaired algorithm model does not satisfy the result specification (%s):\n%s" % (res["violated"], res["out"][-3000:]))
    ctx.log("impl model (repaired) satisfies Accept: %d states" % res["distinct"])
    design_states = res["distinct"]

    ce_list = []
    for f in [f_asis] + f_extra:
        r = f.result()
        if r["error"] or r["violated"]:
            raise ToolingError("FlateCutImpl (%s):\n%s" % (r["label"], r["out"][-3000:]))
        if "as-is" in r["label"]:
            ce_list += [o for o in tlc_prints(r["out"]) if "ce" in o]
    ce_seqs = []
    for o in ce_list:
        ks = ce_kinds(o["ce"])
        if ks not in ce_seqs:
            ce_seqs.append(ks)
    rng.shuffle(ce_seqs)
    ctx.log("impl model (code as it is): %d rejected answers, %d distinct block sequences -> scripts; failed clauses %s" % (
        len(ce_list), len(ce_seqs), sorted({c for o in ce_list for c in o["failed"]})))

    for m, f in f_mut.items():
        r = f.result()
        if r["error"]:
            raise ToolingError("FlateCutImpl mutant %s: %s" % (m, r["error"]))
        if not r["violated"]:
            raise ToolingError("vacuity guard: the planted model mistake '%s' is not rejected by the result specification" % m)
    ctx.log("vacuity guard: planted model mistakes %s rejected by Accept" % mutants)

    # ---- phase 2: the real code
    chosen, guided = choose_shapes(ctx, shapes, thorough, ce_seqs)
    nproc = 6 if thorough else 2
    parts = [chosen[j::nproc] for j in range(nproc)]
    robust = 8000 if thorough else 900
    absmax = 60 if thorough else 40
    futs = [pool.submit(run_harness, ctx, binp, p, robust // nproc, absmax, j) for j, p in enumerate(parts) if p]
    runs = [f.result() for f in futs]
    nstreams = sum(len(r["streams"]) for r in runs)
    ncalls = sum(r["stats"]["valid_calls"] + r["stats"]["robust_calls"] for r in runs)
    ctx.log("real code: %d streams (%d counterexample-guided), %d Cut calls on valid streams, %d robustness inputs / %d calls, %d rows" % (
        nstreams, guided, sum(r["stats"]["valid_calls"] for r in runs), sum(r["stats"]["robust_inputs"] for r in runs),
        sum(r["stats"]["robust_calls"] for r in runs), sum(len(r["rows"]) for r in runs)))

    # ---- phase 3: TLC judges every row; the model's answers are compared with the real ones
    chunks = []
    for ri, r in enumerate(runs):
        step = 40000
        for a in range(0, len(r["rows"]), step):
            chunks.append((ri, a, r["rows"][a:a + step]))
    vf = [pool.submit(validate_rows, ctx, c[2], "table part %d+%d" % (c[0], c[1]), 3) for c in chunks]

    fid = []
    for r in runs:
        fid += fidelity_file(r["streams"])
    if len(fid) > (400 if thorough else 70):
        fid = rng.sample(fid, 400 if thorough else 70)
    f_fid = None
    if fid:
        f_fid = pool.submit(ctx.tlc, "FlateCutImpl", cfg="i.cfg", data={"i.cfg": impl_cfg(FILE_U, False, "none", ["AnswerAsRecorded", "CursorInBuffer"], "file", "fid.json"),
                                                                       "fid.json": json.dumps(fid)}, timeout=3000, deadlock=False, label="fidelity-as-is", workers=4)

    # self-test of the binding: corrupt one field of an accepted row, TLC must reject it
    good = next((row for r in runs for row in r["rows"] if row[3] == 1 and row[9] == 0 and row[8] == 0 and row[12] == 1 and row[11] > 0 and row[7] == 2
                 and row[10] <= row[6] and row[13] == 0 and row[14] == row[11] and row[15] == 1 and row[16] == row[11] and row[17] == 1
                 and (row[6] < row[4] or row[11] == row[5])), None)
    if good is None:
        raise ToolingError("no successful, acceptable cut with decodedLen > 0 was recorded at all")
    st_rows, st_names = [good], ["unchanged"]
    for fld, name in ((11, "dLen"), (10, "eLen"), (15, "decPrefix"), (16, "wLen"), (13, "trail")):
        bad = list(good)
        bad[fld] = (1 - bad[fld]) if fld == 15 else bad[fld] + 1
        if fld == 10:
            bad[fld] = bad[6] + 1   # eLen beyond the limit
        st_rows.append(bad)
        st_names.append(name)
    f_st = pool.submit(validate_rows, ctx, st_rows, "self-test: one recorded row + corrupted copies", 1)
    f_strict = pool.submit(strict_verdict, ctx, st_rows[1], "self-test: strict mode, corrupted dLen") if thorough else None

    rejects = []
    for c, f in zip(chunks, vf):
        for rj in f.result():
            rj["run"], rj["row0"] = c[0], c[1] + rj["index"] - 1
            rejects.append(rj)

    st_rej = {rj["index"] for rj in f_st.result()}
    if st_rej != set(range(2, len(st_rows) + 1)):
        raise ToolingError("self-test: TLC rejected rows %s of [%s]" % (sorted(st_rej), ", ".join(st_names)))
    if f_strict is not None and f_strict.result():
        raise ToolingError("self-test: strict mode accepted a corrupted row")
    selftest = st_names[1:]
    ctx.log("self-test: corrupted field(s) %s of a recorded row rejected by TLC, the unchanged row accepted" % selftest)

    # ---- phase 4: verdicts
    known_counts = {}
    seen_sigs = set()
    reported = 0
    new_total = 0
    oracle_conflicts = 0
    for rj in rejects:
        r = runs[rj["run"]]
        row, ann = r["rows"][rj["row0"]], r["anns"][rj["row0"]]
        stream = r["streams"][row[0] - 1] if row[0] >= 1 else None
        wit = r["wit"].get(str(rj["row0"]))
        key = classify_reject(rj, row, ann, stream, wit)
        if key:
            known_counts[key] = known_counts.get(key, 0) + 1
            if known_counts[key] == 1:
                src = stream if stream is not None else wit
                ctx.violation(KNOWN_TEXT[key], {"key": key, "fmt": src["fmt"], "hex": src["hex"], "payload_hex": src.get("payload_hex", ""),
                                                "dict_hex": src.get("dict_hex", ""), "valid": stream is not None, "limit": rj["limit"], "w": rj["w"],
                                                "failed": rj["failed"], "row": row, "kinds": src["kinds"]})
            continue
        new_total += 1
        sig = (rj["run"], row[0], tuple(rj["failed"])) if stream is not None else ("robust", tuple(rj["failed"]), row[1])
        if reported >= 8 or sig in seen_sigs:
            continue
        seen_sigs.add(sig)
        reported += 1
        if stream is not None:
            what = ("Cut(%s) on a valid %s stream (blocks %s, %d bytes, decodes to %d bytes) with maxEncodedLen=%d: row rejected by FlateCut!Accept, failed %s "
                    "(err=%d eLen=%d dLen=%d decOK=%d trail=%d decLen=%d decPrefix=%d wLen=%d wPrefix=%d)" % (
                        "w" if rj["w"] else "nil", stream["fmt"], ",".join(stream["kinds"]), stream["len"], stream["total"], rj["limit"], rj["failed"],
                        row[9], row[10], row[11], row[12], row[13], row[14], row[15], row[16], row[17]))
            rep = {"fmt": stream["fmt"], "hex": stream["hex"], "payload_hex": stream["payload_hex"], "dict_hex": stream.get("dict_hex", ""),
                   "valid": True, "limit": rj["limit"], "w": rj["w"], "failed": rj["failed"], "row": row, "shape": stream["shape"], "kinds": stream["kinds"]}
        else:
            w = wit
            if w is None:
                raise ToolingError("no witness for rejected robustness row %d" % rj["row0"])
            what = "Cut on arbitrary bytes (%s, %d bytes) with maxEncodedLen=%d: row rejected, failed %s (panic=%d err=%d eLen=%d) %s" % (
                w["fmt"], len(w["hex"]) // 2, w["limit"], rj["failed"], row[8], row[9], row[10], w.get("panic", ""))
            rep = {"fmt": w["fmt"], "hex": w["hex"], "payload_hex": "", "dict_hex": "", "valid": False, "limit": w["limit"], "w": w["w"],
                   "failed": rj["failed"], "row": row, "panic": w.get("panic", "")}
        ctx.violation(what, rep)
    if new_total > reported:
        ctx.log("%d rejected rows in all that are not instances of a known finding (%d listed: one per <<stream, failed clauses>>)" % (new_total, reported))
    for k, n in known_counts.items():
        ctx.log("known finding %s: %d rejected rows" % (k, n))

    # accepted rows on which the two decoding oracles disagree would be accepted on one oracle's word only
    rejected_idx = {(rj["run"], rj["row0"]) for rj in rejects}
    for ri, r in enumerate(runs):
        for j, a in enumerate(r["anns"]):
            if a[2] == 0 and (ri, j) not in rejected_idx:
                oracle_conflicts += 1
    if oracle_conflicts:
        raise ToolingError("%d accepted rows on which compress/flate and the harness inflate disagree" % oracle_conflicts)

    # fidelity of the implementation-shaped model
    fid_note = "no abstract streams"
    fid_rows = sum(len(s["results"]) for s in fid)
    if f_fid is not None:
        r = f_fid.result()
        if r["error"] or r["violated"]:
            raise ToolingError("fidelity run failed:\n" + r["out"][-3000:])
        diffs = [o for o in tlc_prints(r["out"]) if "diff" in o]
        if not diffs:
            fid_note = "the real code gave the model's (code as it is) answer for all %d <<stream, limit>> pairs of %d streams" % (fid_rows, len(fid))
        else:
            r2 = ctx.tlc("FlateCutImpl", cfg="i.cfg", data={"i.cfg": impl_cfg(FILE_U, True, "none", ["AnswerAsRecorded"], "file", "fid.json"),
                                                          "fid.json": json.dumps(fid)}, timeout=3000, deadlock=False, label="fidelity-repaired", workers=4)
            d2 = [o for o in tlc_prints(r2["out"]) if "diff" in o]
            if not d2 and not r2["error"]:
                fid_note = "the real code gave the REPAIRED model's answer for all %d pairs (as-is model differs on %d)" % (fid_rows, len(diffs))
            else:
                fid_note = "model and real code differ on %d (as-is) / %d (repaired) of %d <<stream, limit>> pairs, e.g. %s" % (
                    len(diffs), len(d2), fid_rows, json.dumps(diffs[0]))
        ctx.log("fidelity: " + fid_note)

    # ---- evidence
    reached, oblig = set(), set()
    nontrivial = set()
    for sh in chosen:
        for c in sh.get("classes", []):
            oblig.add((sh["index"], c[0] if sh["gen"] == "bw" else min(c[0], 1), c[1]))
    for r in runs:
        by_sid = {s["sid"]: s for s in r["streams"]}
        for row, a in zip(r["rows"], r["anns"]):
            if row[3] != 1:
                continue
            s = by_sid[row[0]]
            sh = s["shape"]
            reached.add((sh["index"], a[0] if sh["gen"] == "bw" else min(a[0], 1), a[1]))
            if a[1] >= 2:
                nontrivial.add((s["fmt"], s["dict"], tuple(s["kinds"]), a[0], a[1]))
    kinds_seen = sorted({k for r in runs for s in r["streams"] for k in s["kinds"]})
    levels_seen = sorted({s["shape"]["level"] for r in runs for s in r["streams"] if s["shape"]["gen"] == "go"})
    samples = []
    allrows = [(r, j) for r in runs for j in range(len(r["rows"])) if r["rows"][j][3] == 1]
    for r, j in rng.sample(allrows, min(8, len(allrows))):
        row = r["rows"][j]
        s = r["streams"][row[0] - 1]
        samples.append({"format": s["fmt"], "blocks": s["kinds"], "generator": s["shape"]["gen"], "stream_len": s["len"], "payload_len": s["total"],
                        "maxEncodedLen": row[6], "err": row[9], "encodedLen": row[10], "decodedLen": row[11], "decodes_ok": row[12], "prefix_of_original": row[15]})
    valid_rows = sum(r["stats"]["valid_rows"] for r in runs)
    ctx.evidence("exploration", {
        "evaluations": ncalls,
        "distinct_nontrivial": len(nontrivial),
        "rule": "one evaluation = one call of flatecut.Cut / zlibcut.Cut of the working tree, judged by TLC (FlateCut!Accept) on the recorded row; "
                "non-trivial distinct case = <<format, dictionary, parsed block-kind sequence, index of the block in which the limit falls, where in that "
                "block (header / no symbol fits / some symbols / end-of-block room decides)>> with a genuine cut (limit < stream length)",
        "samples": samples,
        "states": sum(t["distinct"] for t in ctx.tlc_stats),
        "transitions": sum(t["generated"] for t in ctx.tlc_stats),
        "traces_validated_against_impl": sum(len(r["rows"]) for r in runs),
        "streams": nstreams,
        "counterexample_guided_streams": guided,
        "shapes_enumerated_by_tlc": len(shapes),
        "shape_x_limit_class_states": shape_states,
        "limit_classes_reached": "%d of %d obliged <<shape, block, where>> classes" % (len(reached & oblig), len(oblig)),
        "block_kinds_realised": kinds_seen,
        "go_levels_realised (10 = HuffmanOnly)": levels_seen,
        "valid_stream_rows": valid_rows,
        "robustness_inputs": sum(r["stats"]["robust_inputs"] for r in runs),
        "robustness_calls": sum(r["stats"]["robust_calls"] for r in runs),
        "rows_rejected": len(rejects),
        "rows_rejected_known": known_counts,
        "rows_rejected_new": new_total,
        "impl_model_states_repaired": design_states,
        "impl_model_rejected_answers_as_is": len(ce_list),
        "impl_model_mutants_rejected": mutants,
        "model_fidelity": fid_note,
        "corrupted_row_selftest": selftest,
        "exhaustive": False,
    }, assumptions=[
        "compress/flate and compress/zlib decide what a complete valid stream is (cross-checked on every row by an independent inflate in the harness)",
        "a stream is 'valid' when both decoders accept it and it decodes to the payload the realiser intended (checked before cutting)",
        "the smallest acceptable limit for a zlib stream with a preset dictionary is taken as 12 (6 byte header + 2 + 4), the documented constant being 8",
        "payloads are small; decodedLen overflow guards and > 65535 byte stored fall-backs are not driven",
    ])


# ---------------------------------------------------------------------- replay
def replay(ctx, path):
    rep = json.load(open(path))["replay"]
    binp = ctx.go_build("./cmd/cutreplay")
    d = ctx.subdir("replay")
    q = {k: rep.get(k, "") for k in ("fmt", "hex", "payload_hex", "dict_hex")}
    q.update({"valid": bool(rep.get("valid", True)), "limit": rep["limit"], "w": bool(rep.get("w", False))})
    json.dump(q, open(os.path.join(d, "one.json"), "w"))
    r = ctx.run([binp, "-one", os.path.join(d, "one.json")], timeout=120)
    if r.returncode != 0:
        raise ToolingError("cutreplay -one failed: " + r.stderr[-2000:])
    ans = json.loads(r.stdout)
    print(json.dumps({"request": {k: (v if len(str(v)) < 200 else str(v)[:200] + "...") for k, v in q.items()}, "answer": ans}, indent=1))
    ok = strict_verdict(ctx, ans["row"], "replay")
    if ok:
        print("row accepted by FlateCut!Accept: not reproduced")
        return
    what = "replayed: %s.Cut with maxEncodedLen=%d -> err=%r row=%s rejected by FlateCut!Accept" % (q["fmt"], q["limit"], ans["err"], ans["row"])
    rr = dict(rep)
    rr["row"] = ans["row"]
    ctx.violation(what, rr)

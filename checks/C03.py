"""C03 - the generated standard library is memory-safe and well-behaved on any input.

Mode V with monitors: the C that the working tree's compiler generates from
std/ is built with ASan+UBSan (and plainly, with the allocator wrapped), every
decoder/hasher is driven over the corpus, seeded mutants and truncations under
buffer schedules enumerated from spec/IOSchedule.tla, one event per public call
is recorded, and TLC validates every event against spec/IOClauses.tla through
spec/Trace_Std.tla (Mode = "contract").  spec/IOContract.tla's closed model is
model-checked to show the clause set gives the caller bounded work.

The checked build (hook H3, internal/cgen/range_verif.go; C01 on std): the same
std is generated a second time with the compiler's own derived ranges (the
checker's MBounds of every index, slice bound, non-modular arithmetic result,
conversion, divisor, shift amount, argument, stored and returned value)
asserted at run time; the driver records the failed assertions of every public
call in the call's event ("range_viol", first site and value) and TLC evaluates
the clause ClaimedRangesHold (spec/IOClauses.tla) on every such event.  Thorough
tier: every job; quick tier: every input under its one-shot schedule plus a
seeded sample of the chunked jobs.

Token decoders (std/json, std/cbor): every decode_tokens call's event carries the
tokens written and the source bytes consumed (inputs up to 16 KiB; running
summaries above) and TLC evaluates the token-stream clauses of
spec/TokenStream.tla on them: TokenLengthsPartitionSource, TokenChainsClosed,
TokenStructureBalanced, TokenUtf8NotStraddled, TokenNumberUnsplit,
TokenFieldsWellFormed.  Generated JSON / CBOR documents (lib/tokgen.py) and their
mutants are added, under 1-byte source pieces and token buffers of 1, 2, 3 tokens
(IOSchedule!TokDstLists).
"""
import json, os, random, shutil, time, concurrent.futures
from vlib import ToolingError, VERIF, parse_tlc_prints
import stdbuild, stdtrace, stdinputs, tokgen

META = {
    "level": "exploration",
    "technique": "trace validation by TLC: per-call events of the sanitizer-instrumented generated C (corpus + seeded mutants + every prefix with a late close x IOSchedule.tla buffer schedules) checked against the I/O contract clauses of IOClauses.tla via Trace_Std.tla; a second, 'checked' build of std (hook H3) asserts the compiler's own derived range of every index, slice bound, arithmetic result and conversion at run time and TLC evaluates ClaimedRangesHold on every call; closed contract model IOContract.tla model-checked",
    "text": "Every public call the driver makes on every std decoder/hasher is logged and validated by TLC against the I/O contract (index order, monotone ri/wi, source and written destination bytes unchanged, legal status class, no internal error, justified short read/short write, no allocation) while ASan+UBSan watch the same executions and a CPU-time watchdog (confirmed with a 4x budget) bounds each job; the checked build (14 000 assertion sites in std, the checker's MBounds) runs the one-shot jobs and a sample of the chunked ones (thorough: all). Memory safety of 60k lines of codec is observed, not proved: exploration.",
    "note": "Token decoders: the recorded token stream of every call is checked by TLC against spec/TokenStream.tla (lengths partition the consumed bytes, chains closed and structure balanced at OK, UTF-8 never straddles a token, numbers unsplit). Trusted: gcc's sanitizers, the driver harness/c/stddrive.c (hashes/memcmp, schedule unfolding checked against IOSchedule.tla), TLC. Inputs are the repository corpus plus seeded mutations; schedules are the IOSchedule classes; only executions actually run are covered.",
}

SCHED_CFG = "SPECIFICATION Spec\nCONSTANT MaxN = %d\nINVARIANT Partition\n"
EXPORT_CFG = "SPECIFICATION ExportSpec\nCONSTANT MaxN = 1\nCHECK_DEADLOCK FALSE\n"
CONTRACT_CFG = ("SPECIFICATION MSpec\nCONSTANTS N = %d OutMax = %d Ample = 2 Drop = {%s}\nINVARIANT MTypeOK\n"
                "PROPERTIES Terminates VariantDecreases\n")


def spec_side(ctx):
    """Design-level TLC runs: contract sufficiency, schedule semantics, class export."""
    thorough = ctx.tier == "thorough"
    ctx.tlc_ok("IOContract", cfg="c.cfg", data={"c.cfg": CONTRACT_CFG % ((4, 5, "") if thorough else (3, 4, ""))},
               workers=4, timeout=1200, label="IOContract sufficiency")
    # necessity of the short-write clause: without it TLC must find a non-terminating caller loop
    res = ctx.tlc("IOContract", cfg="c2.cfg", data={"c2.cfg": CONTRACT_CFG % (2, 3, '"ShortWriteJustified"')}, workers=4, timeout=600,
                  label="IOContract necessity(ShortWriteJustified)")
    if not (res["violated"] or "Terminates" in res["out"] and "violated" in res["out"]):
        raise ToolingError("IOContract: dropping ShortWriteJustified should break termination but TLC found nothing:\n" + res["out"][-1500:])
    ctx.tlc_ok("IOSchedule", cfg="s.cfg", data={"s.cfg": SCHED_CFG % (12 if thorough else 9)}, workers=4, timeout=600, label="IOSchedule partition")
    res = ctx.tlc_ok("IOSchedule", cfg="e.cfg", data={"e.cfg": EXPORT_CFG}, workers=1, timeout=300, label="IOSchedule export")
    objs = [o for o in parse_tlc_prints(res["out"]) if isinstance(o, dict) and "classes" in o]
    if not objs:
        raise ToolingError("IOSchedule export produced no classes:\n" + res["out"][-1500:])
    classes = objs[0]["classes"]
    classes.sort(key=lambda c: json.dumps(c, sort_keys=True))
    global TOKDST
    TOKDST = sorted(objs[0].get("tokdst", TOKDST))
    return classes


def save_input(ctx, path, name):
    import vlib
    # runs against a scratch worktree (VERIF_REPO) keep their replays under /tmp, as vlib does
    d = os.path.join(VERIF, "replays", "inputs") if vlib.REPO == "/repo" else os.path.join("/tmp", "verif-replays-alt", "inputs")
    os.makedirs(d, exist_ok=True)
    dst = os.path.join(d, "%s-%s-%d-%s" % (ctx.id, ctx.tier, ctx.seed, name))
    shutil.copy(path, dst)
    return dst


TOKDST = [[-1], [1], [2], [3], [13]]      # token-buffer capacities; replaced by IOSchedule!TokDstLists as exported by TLC
RANGE = "rangeassert"   # stdbuild variant of the checked build
RANGE_ID0 = 10000000    # job ids of the checked build's copies of the jobs


def build(ctx, variants, checked=False):
    """Regenerates std and compiles the driver variants in parallel.  With checked=True the checked build (H3) is
    generated and compiled too (exes["rangeassert"], root "rangeroot" in the returned dict) when the working tree
    has the hook; otherwise exes has no such entry."""
    tools = stdbuild.build_tools(ctx)
    root = stdbuild.gen_std(ctx, tools)
    rroot = stdbuild.gen_std(ctx, tools, range_assert=True) if checked else None
    todo = [(v, root) for v in variants] + ([(RANGE, rroot)] if rroot else [])
    res = {}
    with concurrent.futures.ThreadPoolExecutor(max_workers=len(todo)) as ex:
        futs = {v: ex.submit(stdbuild.compile_driver, ctx, r, "stddrive.c", v) for v, r in todo}
        for v, f in futs.items():
            res[v] = f.result()
    exes = {"rangeroot": rroot} if rroot else {}
    for v, (exe, log) in res.items():
        if exe is None:
            # The C generated from the working tree does not compile: that is a
            # violation of C11's last clause, not of this property; here it is a
            # precondition failure.
            raise ToolingError("generated std C does not compile (%s):\n%s" % (v, log[-3000:]))
        exes[v] = exe
    return tools, root, exes


def make_inputs(ctx, nmut, max_size):
    rng = ctx.rng
    corp = stdinputs.corpus(max_size=max_size)
    mdir = ctx.subdir("mutants")
    inputs = []   # (path, dec, extra, origin)
    for p, dec, extra in corp:
        inputs.append((p, dec, extra, "corpus"))
    for p, dec, extra in corp:
        data = open(p, "rb").read()
        if len(data) > 262144:
            continue
        for i in range(nmut):
            kind = rng.choice(stdinputs.MUT_KINDS)
            m = stdinputs.mutate(data, rng, kind)
            mp = os.path.join(mdir, "%s.%s%d" % (os.path.basename(p), kind, i))
            with open(mp, "wb") as f:
                f.write(m)
            inputs.append((mp, dec, extra, "mutant:" + kind))
    return inputs


def run(ctx):
    thorough = ctx.tier == "thorough"
    classes = spec_side(ctx)
    ctx.log("IOSchedule exported %d classes" % len(classes))
    tools, root, exes = build(ctx, ["asan", "plain"], checked=True)
    ctx.log("built drivers" + (" (+ the checked build: %d range assertion sites)" % sum(stdbuild.range_sites(exes["rangeroot"]).values())
                               if RANGE in exes else " (no checked build: the working tree has no hook H3)"))
    rng = ctx.rng
    inputs = make_inputs(ctx, nmut=(12 if thorough else 2), max_size=(4 << 20) if thorough else (1 << 20))
    oneshot = [c for c in classes if c["src"] == [-1] and c["dst"] == [-1]]
    jobs_asan, jobs_plain = [], []
    meta = {}
    jid = 0
    call_cap = 800 if thorough else 120
    per_input = 3 if thorough else 1
    for (p, dec, extra, origin) in inputs:
        n = os.path.getsize(p)
        picks = [rng.choice(oneshot)]
        tries = 0
        while len(picks) < 1 + per_input and tries < 40:
            tries += 1
            c = rng.choice(classes)
            picks.append(c)
        for k, c in enumerate(picks):
            jid += 1
            j = {"id": jid, "dec": dec, "in": p}
            j.update(stdinputs.class_fields(c))
            j.update(extra)
            j["budget_ms"] = 20000 + n // 20
            j["maxcalls"] = 200000 if k == 0 else call_cap
            if rng.random() < 0.5:
                j["pixfmt"] = "bgra"
            meta[jid] = {"input": p, "origin": origin, "dec": dec, "class": c}
            # the plain build counts allocator calls; it gets the one-shot job and one more
            (jobs_plain if (k == 0 and origin == "corpus") else jobs_asan).append(j)
            if k == 0 and origin == "corpus":
                jid += 1
                j2 = dict(j)
                j2["id"] = jid
                meta[jid] = meta[jid - 1]
                jobs_asan.append(j2)
    # token decoders: generated JSON / CBOR documents (+ mutants) one-shot, under 1-byte source pieces and under token buffers of
    # 1, 2, 3 tokens (never below the decoder's documented minimum); own random stream, so the jobs above stay as they were
    trng = random.Random(ctx.seed * 7919 + 3)
    tokdocs = tokgen.write_docs(ctx.subdir("tokdocs"), trng, 20 if thorough else 8, 16 if thorough else 6, mutants=2 if thorough else 1)
    ntokjobs = 0
    for (p, dec, extra, origin) in tokdocs:
        n = os.path.getsize(p)
        caps = [d for d in TOKDST if d[0] < 0 or d[0] >= tokgen.TOKEN_CAP_MIN[dec]]
        scheds = [{"src": [-1], "dst": [-1]}]
        if n <= (6000 if thorough else 1500):
            scheds.append({"src": [1], "dst": trng.choice(caps), "close": trng.choice(("end", "late")), "srcmode": trng.choice(("view", "fresh"))})
        small = [d for d in caps if 0 < d[0] <= 3]
        if n <= 20000:
            for d in (small if thorough else [trng.choice(small)]):
                scheds.append({"src": trng.choice(([-1], [2], [3], [7])), "dst": d, "close": trng.choice(("end", "late"))})
        for sc in scheds:
            jid += 1
            c = dict(trng.choice(classes), **sc)
            j = {"id": jid, "dec": dec, "in": p}
            j.update(stdinputs.class_fields(c))
            j.update(extra)
            j["budget_ms"] = 30000
            j["maxcalls"] = 30000
            meta[jid] = {"input": p, "origin": origin, "dec": dec, "class": c}
            jobs_asan.append(j)
            ntokjobs += 1
    ctx.log("token-decoder jobs on generated documents: %d over %d documents" % (ntokjobs, len(tokdocs)))
    # systematic: EVERY prefix of the smallest corpus file(s) of each decoder, delivered whole or byte by byte, with the
    # source closed only by a LATER call that brings no new bytes (close=late).  A decoder that keeps bits or bytes
    # buffered across a "$short read" meets the end of the input in every such buffered state (std/lzw reported an
    # internal error there: it tried to undo a byte an earlier call had read).
    late = [c for c in classes if c["close"] == "late"]
    base_late = dict(late[0] if late else oneshot[0], close="late", dst=[-1], dstmode="grow", init=0, prefill=165, srcmode="view")
    bydec = {}
    for (p, dec, extra, origin) in inputs:
        if origin == "corpus" and stdinputs.KIND.get(dec) != "hasher":
            bydec.setdefault(dec, []).append((os.path.getsize(p), p, extra))
    tdir = ctx.subdir("prefixes")
    nprefix = 0
    for dec, lst in sorted(bydec.items()):
        lst.sort()
        for (n, p, extra) in lst[: (3 if thorough else 1)]:
            data = open(p, "rb").read()
            n = min(n, 4096 if thorough else 1500)      # (prefixes of a large file are as good as those of a small one)
            skip = int(extra.get("skip", 0))
            lens = list(range(skip, n)) if (thorough or n <= 96) else sorted(set(list(range(skip, min(n, skip + 64))) + rng.sample(range(skip, n), 32)))
            for L in lens:
                tp = os.path.join(tdir, "%s.%s.prefix%d" % (dec, os.path.basename(p), L))
                with open(tp, "wb") as f:
                    f.write(data[:L])
                for src in ([-1], [1]):
                    if src == [1] and L - skip > 80:
                        continue
                    jid += 1
                    c = dict(base_late, src=src)
                    j = {"id": jid, "dec": dec, "in": tp}
                    j.update(stdinputs.class_fields(c))
                    j.update(extra)
                    j["budget_ms"] = 20000
                    j["maxcalls"] = 4000
                    meta[jid] = {"input": tp, "origin": "prefix:late-close", "dec": dec, "class": c}
                    jobs_asan.append(j)
                    nprefix += 1
    ctx.log("prefix x late-close jobs: %d over %d decoders" % (nprefix, len(bydec)))
    # hashers: corpus files in partitions
    hfiles = [p for (p, d, e, o) in inputs if o == "corpus" and os.path.getsize(p) < (1 << 20)]
    rng.shuffle(hfiles)
    for p in hfiles[: (60 if thorough else 15)]:
        for h in stdinputs.HASHERS:
            for parts in ("*", "1,*", "%d,%d,*" % (rng.randrange(0, 70), rng.randrange(1, 70)), str(rng.choice((1, 3, 7, 64, 4096)))):
                if parts.isdigit() and os.path.getsize(p) // int(parts) > 300:
                    continue
                jid += 1
                j = {"id": jid, "dec": h, "in": p, "parts": parts, "init": rng.choice((0, 2)), "prefill": rng.choice(("00", "A5", "FF"))}
                meta[jid] = {"input": p, "origin": "corpus", "dec": h, "class": {"parts": parts}}
                (jobs_plain if parts == "*" else jobs_asan).append(j)
    # the checked build (H3): thorough = every job once more; quick = every input under its one-shot schedule (few
    # events per job) + a seeded sixth of the chunked jobs
    jobs_range = []
    if RANGE in exes:
        oneshot_keys = {json.dumps(c, sort_keys=True) for c in oneshot}
        for j in jobs_asan + jobs_plain:
            m = meta[j["id"]]
            is_oneshot = json.dumps(m["class"], sort_keys=True) in oneshot_keys or m["class"].get("parts") == "*"
            if thorough or is_oneshot or rng.random() < 1.0 / 6:
                j2 = dict(j)
                j2["id"] = RANGE_ID0 + j["id"]
                meta[j2["id"]] = dict(m, build=RANGE)
                jobs_range.append(j2)
    ctx.log("jobs: %d under ASan+UBSan, %d under the allocator wrap, %d under the range assertions of the checked build" % (
        len(jobs_asan), len(jobs_plain), len(jobs_range)))
    ev_asan = stdtrace.run_jobs(ctx, exes["asan"], jobs_asan, sanitizer=True)
    ev_plain = stdtrace.run_jobs(ctx, exes["plain"], jobs_plain, sanitizer=False)
    ev_range = stdtrace.run_jobs(ctx, exes[RANGE], jobs_range, sanitizer=False) if jobs_range else {}
    ctx.log("driver runs done: %d events" % (sum(len(v) for v in ev_asan.values()) + sum(len(v) for v in ev_plain.values())
                                             + sum(len(v) for v in ev_range.values())))
    allj = sorted(list(ev_asan.items()) + list(ev_plain.items()) + list(ev_range.items()))
    nev, rejections = stdtrace.validate(ctx, allj, "contract", "C03")
    ctx.log("TLC validated %d events, %d rejections" % (nev, len(rejections)))
    report(ctx, rejections, meta, jobs_asan + jobs_plain + jobs_range)
    checked = checked_build_coverage(exes, jobs_range, ev_range, rejections)

    # evidence
    calls = sum(1 for j, evs in allj for e in evs if e.get("k") in ("call", "hcall"))
    distinct = set()
    stat = {}
    for j, evs in allj:
        end = stdtrace.end_event(evs)
        m = meta.get(j)
        if end is None or m is None:
            continue
        key = (m["dec"], os.path.basename(m["input"]), json.dumps(m["class"], sort_keys=True))
        if end.get("calls", 0) >= 1:
            distinct.add(key)
        stat.setdefault(m["dec"], {}).setdefault(end.get("cls", "?"), 0)
        stat[m["dec"]][end.get("cls", "?")] += 1
    samples = []
    for j, evs in allj[:: max(1, len(allj) // 8)][:8]:
        m = meta.get(j, {})
        samples.append({"job": j, "decoder": m.get("dec"), "input": os.path.basename(m.get("input", "")), "origin": m.get("origin"),
                        "class": m.get("class"), "events": len(evs), "last_event": evs[-1] if evs else None})
    ctx.evidence("exploration", {
        "evaluations": len(allj),
        "distinct_nontrivial": len(distinct),
        "rule": "one job = (decoder, input file, IOSchedule class); inputs = every corpus file with a known extension + seeded mutants "
                "(trunc/flip/byte/splice/dup/zero/head); classes drawn from the %d classes TLC enumerates from IOSchedule.tla "
                "(a one-shot class for every input plus random ones whose estimated call count stays under %d); distinct = distinct "
                "(decoder, file name, class) triples that made at least one call" % (len(classes), call_cap),
        "samples": samples,
        "traces_validated_against_impl": len(allj),
        "events_validated_by_tlc": nev,
        "public_calls_logged": calls,
        "jobs_under_sanitizers": len(jobs_asan),
        "jobs_under_allocator_wrap": len(jobs_plain),
        "final_status_classes_per_decoder": stat,
        "schedule_classes": len(classes),
        "token_streams": dict(stdtrace.token_stats(dict(allj)), clauses=["TokenLengthsPartitionSource", "TokenChainsClosed", "TokenStructureBalanced",
                                                                         "TokenUtf8NotStraddled", "TokenNumberUnsplit", "TokenFieldsWellFormed"],
                              generated_documents=len(tokdocs), jobs_on_generated_documents=ntokjobs),
        "checked_build": checked,
        "states": sum(t["distinct"] for t in ctx.tlc_stats),
        "transitions": sum(t["generated"] for t in ctx.tlc_stats),
    }, assumptions=[
        "memory safety is observed by ASan/UBSan on the executions that were run; it is not proved",
        "wrap-around of unsigned arithmetic inside one struct is invisible to the sanitizers; the checked build (coverage.checked_build) asserts "
        "the checker's own ranges instead, but not inside while-loop conditions, whose cached ranges belong to the loop-entry proving site "
        "(there only index/slice bounds and overflow of the C type are asserted)",
        "the allocator wrap sees malloc/calloc/realloc/free only",
    ])


def checked_build_coverage(exes, jobs_range, ev_range, rejections):
    """Measured numbers of the checked build's run (evidence; C01 refers to them)."""
    if RANGE not in exes:
        return {"available": False, "why": "the working tree has no internal/cgen/range_verif.go (hook H3)"}
    sites = stdbuild.range_sites(exes["rangeroot"])
    calls = evals = viol = 0
    for evs in ev_range.values():
        for e in evs:
            if "range_viol" in e:
                calls += 1
                viol += e["range_viol"]
                evals += int(e.get("range_evals", "0"))
    return {"available": True, "assertion_sites": sum(sites.values()), "assertion_sites_by_kind": sites, "jobs": len(jobs_range),
            "events_carrying_range_viol": calls, "assertions_evaluated": evals, "assertions_failed": viol,
            "jobs_rejected_for_ClaimedRangesHold": sorted({r["job"] for r in rejections if "ClaimedRangesHold" in r["clauses"]})}


def report(ctx, rejections, meta, jobs):
    byid = {int(j["id"]): j for j in jobs}
    for r in rejections:
        m = meta.get(r["job"], {})
        job = byid.get(r["job"], {})
        saved = save_input(ctx, m["input"], os.path.basename(m["input"])) if m.get("input") and os.path.exists(m["input"]) else None
        ev = r["event"]
        if "ClaimedRangesHold" in r["clauses"]:
            # C01 on std: a range the compiler derived is false in a concrete run of the (checked build of the) generated C
            what = ("std/%s: %d run-time assertion(s) of a compiler-derived range failed during %s (checked build, hook H3); first: %s, "
                    "value %s outside %s ..= %s; input %s [%s], schedule %s" % (
                        m.get("dec"), ev.get("range_viol", 0), ev.get("m", ev.get("k")), ev.get("range_site"), ev.get("range_value"),
                        ev.get("range_lo"), ev.get("range_hi"), os.path.basename(m.get("input", "?")), m.get("origin"),
                        json.dumps(m.get("class"), sort_keys=True)))
            key = "range:%s:%s:%s:%s" % (m.get("dec"), ev.get("range_file"), ev.get("range_line"), ev.get("range_kind"))
            ctx.violation(what, {"key": key, "decoder": m.get("dec"), "input_saved": saved, "origin": m.get("origin"), "build": RANGE,
                                 "site": ev.get("range_site"), "value": ev.get("range_value"),
                                 "job": stdtrace.job_line(dict(job, **({"in": saved} if saved else {}))), "clauses": r["clauses"], "event": ev})
            continue
        what = "std/%s: clauses %s violated at trace line %d (event %s) on input %s [%s], schedule %s" % (
            m.get("dec"), r["clauses"], r["line"], _short(ev), os.path.basename(m.get("input", "?")),
            m.get("origin"), json.dumps(m.get("class"), sort_keys=True))
        if ev.get("k") == "crash":
            what += "\n" + ev.get("stderr_tail", "")[-1800:]
        key = "%s:%s:%s" % (m.get("dec"), ",".join(sorted(r["clauses"])), os.path.basename(m.get("input", "?")).split(".")[0])
        ctx.violation(what, {"key": key, "decoder": m.get("dec"), "input_saved": saved, "origin": m.get("origin"),
                             "job": stdtrace.job_line(dict(job, **({"in": saved} if saved else {}))), "clauses": r["clauses"], "event": ev})



def _short(ev):
    """An event for a message: the recorded token / byte arrays are elided (the replay file keeps them)."""
    return {k: (v if not (isinstance(v, list) and len(v) > 12) else v[:12] + ["... %d more" % (len(v) - 12)]) for k, v in ev.items() if k != "stderr_tail"}

def replay(ctx, path):
    rep = json.load(open(path))["replay"]
    variant = RANGE if rep.get("build") == RANGE else "asan"
    tools, root, exes = build(ctx, [] if variant == RANGE else ["asan"], checked=(variant == RANGE))
    if variant not in exes:
        raise ToolingError("this replay needs the checked build, but the working tree has no hook H3")
    jl = rep["job"]
    jf = os.path.join(ctx.scratch, "replay-job.txt")
    ef = os.path.join(ctx.scratch, "replay-ev.ndjson")
    open(jf, "w").write(jl + "\n")
    r = ctx.run([exes[variant], jf, ef], timeout=600, env=stdbuild.ASAN_ENV)
    print(r.stdout[-2000:], r.stderr[-4000:])
    if os.path.exists(ef):
        print(open(ef).read()[-3000:])

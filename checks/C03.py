"""C03 - the generated standard library is memory-safe and well-behaved on any input.

Mode V with monitors: the C that the working tree's compiler generates from
std/ is built with ASan+UBSan (and plainly, with the allocator wrapped), every
decoder/hasher is driven over the corpus, seeded mutants and truncations under
buffer schedules enumerated from spec/IOSchedule.tla, one event per public call
is recorded, and TLC validates every event against spec/IOClauses.tla through
spec/Trace_Std.tla (Mode = "contract").  spec/IOContract.tla's closed model is
model-checked to show the clause set gives the caller bounded work.
"""
import json, os, shutil, time
from vlib import ToolingError, VERIF, parse_tlc_prints
import stdbuild, stdtrace, stdinputs

META = {
    "level": "exploration",
    "technique": "trace validation by TLC: per-call events of the sanitizer-instrumented generated C (corpus + seeded mutants x IOSchedule.tla buffer schedules) checked against the I/O contract clauses of IOClauses.tla via Trace_Std.tla; closed contract model IOContract.tla model-checked",
    "text": "Every public call the driver makes on every std decoder/hasher is logged and validated by TLC against the I/O contract (index order, monotone ri/wi, source and written destination bytes unchanged, legal status class, no internal error, justified short read/short write, no allocation) while ASan+UBSan watch the same executions and a CPU-time watchdog (confirmed with a 4x budget) bounds each job. Memory safety of 60k lines of codec is observed, not proved: exploration.",
    "note": "Trusted: gcc's sanitizers, the driver harness/c/stddrive.c (hashes/memcmp, schedule unfolding checked against IOSchedule.tla), TLC. Inputs are the repository corpus plus seeded mutations; schedules are the IOSchedule classes; only executions actually run are covered.",
}

SCHED_CFG = "SPECIFICATION Spec\nCONSTANT MaxN = %d\nINVARIANT Partition\n"
EXPORT_CFG = "SPECIFICATION ExportSpec\nCONSTANT MaxN = 1\nCHECK_DEADLOCK FALSE\n"
CONTRACT_CFG = ("SPECIFICATION MSpec\nCONSTANTS N = %d OutMax = %d Ample = 2 Drop = {%s}\nINVARIANT MTypeOK\n"
                "PROPERTIES Terminates VariantDecreases\n")


def spec_side(ctx):
    """Design-level TLC runs: contract sufficiency, schedule semantics, class export."""
    thorough = ctx.tier == "thorough"
    ctx.tlc_ok("IOContract", cfg="c.cfg", data={"c.cfg": CONTRACT_CFG % ((4, 5, "") if thorough else (3, 4, ""))},
               workers=4, timeout=1200, label="IOContract sufficiency")
    # necessity of the short-write clause: without it TLC must find a non-terminating caller loop
    res = ctx.tlc("IOContract", cfg="c2.cfg", data={"c2.cfg": CONTRACT_CFG % (2, 3, '"ShortWriteJustified"')}, workers=4, timeout=600,
                  label="IOContract necessity(ShortWriteJustified)")
    if not (res["violated"] or "Terminates" in res["out"] and "violated" in res["out"]):
        raise ToolingError("IOContract: dropping ShortWriteJustified should break termination but TLC found nothing:\n" + res["out"][-1500:])
    ctx.tlc_ok("IOSchedule", cfg="s.cfg", data={"s.cfg": SCHED_CFG % (12 if thorough else 9)}, workers=4, timeout=600, label="IOSchedule partition")
    res = ctx.tlc_ok("IOSchedule", cfg="e.cfg", data={"e.cfg": EXPORT_CFG}, workers=1, timeout=300, label="IOSchedule export")
    objs = [o for o in parse_tlc_prints(res["out"]) if isinstance(o, dict) and "classes" in o]
    if not objs:
        raise ToolingError("IOSchedule export produced no classes:\n" + res["out"][-1500:])
    classes = objs[0]["classes"]
    classes.sort(key=lambda c: json.dumps(c, sort_keys=True))
    return classes


def save_input(ctx, path, name):
    d = os.path.join(VERIF, "replays", "inputs")
    os.makedirs(d, exist_ok=True)
    dst = os.path.join(d, "%s-%s-%d-%s" % (ctx.id, ctx.tier, ctx.seed, name))
    shutil.copy(path, dst)
    return dst


def build(ctx, variants):
    tools = stdbuild.build_tools(ctx)
    root = stdbuild.gen_std(ctx, tools)
    res = stdbuild.compile_many(ctx, root, "stddrive.c", variants)
    exes = {}
    for v, (exe, log) in res.items():
        if exe is None:
            # The C generated from the working tree does not compile: that is a
            # violation of C11's last clause, not of this property; here it is a
            # precondition failure.
            raise ToolingError("generated std C does not compile (%s):\n%s" % (v, log[-3000:]))
        exes[v] = exe
    return tools, root, exes


def make_inputs(ctx, nmut, max_size):
    rng = ctx.rng
    corp = stdinputs.corpus(max_size=max_size)
    mdir = ctx.subdir("mutants")
    inputs = []   # (path, dec, extra, origin)
    for p, dec, extra in corp:
        inputs.append((p, dec, extra, "corpus"))
    for p, dec, extra in corp:
        data = open(p, "rb").read()
        if len(data) > 262144:
            continue
        for i in range(nmut):
            kind = rng.choice(stdinputs.MUT_KINDS)
            m = stdinputs.mutate(data, rng, kind)
            mp = os.path.join(mdir, "%s.%s%d" % (os.path.basename(p), kind, i))
            with open(mp, "wb") as f:
                f.write(m)
            inputs.append((mp, dec, extra, "mutant:" + kind))
    return inputs


def run(ctx):
    thorough = ctx.tier == "thorough"
    classes = spec_side(ctx)
    ctx.log("IOSchedule exported %d classes" % len(classes))
    tools, root, exes = build(ctx, ["asan", "plain"])
    ctx.log("built drivers")
    rng = ctx.rng
    inputs = make_inputs(ctx, nmut=(12 if thorough else 2), max_size=(4 << 20) if thorough else (1 << 20))
    oneshot = [c for c in classes if c["src"] == [-1] and c["dst"] == [-1]]
    jobs_asan, jobs_plain = [], []
    meta = {}
    jid = 0
    call_cap = 800 if thorough else 120
    per_input = 3 if thorough else 1
    for (p, dec, extra, origin) in inputs:
        n = os.path.getsize(p)
        picks = [rng.choice(oneshot)]
        tries = 0
        while len(picks) < 1 + per_input and tries < 40:
            tries += 1
            c = rng.choice(classes)
            picks.append(c)
        for k, c in enumerate(picks):
            jid += 1
            j = {"id": jid, "dec": dec, "in": p}
            j.update(stdinputs.class_fields(c))
            j.update(extra)
            j["budget_ms"] = 20000 + n // 20
            j["maxcalls"] = 200000 if k == 0 else call_cap
            if rng.random() < 0.5:
                j["pixfmt"] = "bgra"
            meta[jid] = {"input": p, "origin": origin, "dec": dec, "class": c}
            # the plain build counts allocator calls; it gets the one-shot job and one more
            (jobs_plain if (k == 0 and origin == "corpus") else jobs_asan).append(j)
            if k == 0 and origin == "corpus":
                jid += 1
                j2 = dict(j)
                j2["id"] = jid
                meta[jid] = meta[jid - 1]
                jobs_asan.append(j2)
    # hashers: corpus files in partitions
    hfiles = [p for (p, d, e, o) in inputs if o == "corpus" and os.path.getsize(p) < (1 << 20)]
    rng.shuffle(hfiles)
    for p in hfiles[: (60 if thorough else 15)]:
        for h in stdinputs.HASHERS:
            for parts in ("*", "1,*", "%d,%d,*" % (rng.randrange(0, 70), rng.randrange(1, 70)), str(rng.choice((1, 3, 7, 64, 4096)))):
                if parts.isdigit() and os.path.getsize(p) // int(parts) > 300:
                    continue
                jid += 1
                j = {"id": jid, "dec": h, "in": p, "parts": parts, "init": rng.choice((0, 2)), "prefill": rng.choice(("00", "A5", "FF"))}
                meta[jid] = {"input": p, "origin": "corpus", "dec": h, "class": {"parts": parts}}
                (jobs_plain if parts == "*" else jobs_asan).append(j)
    ctx.log("jobs: %d under ASan+UBSan, %d under the allocator wrap" % (len(jobs_asan), len(jobs_plain)))
    ev_asan = stdtrace.run_jobs(ctx, exes["asan"], jobs_asan, sanitizer=True)
    ev_plain = stdtrace.run_jobs(ctx, exes["plain"], jobs_plain, sanitizer=False)
    ctx.log("driver runs done: %d events" % (sum(len(v) for v in ev_asan.values()) + sum(len(v) for v in ev_plain.values())))
    allj = sorted(list(ev_asan.items()) + list(ev_plain.items()))
    nev, rejections = stdtrace.validate(ctx, allj, "contract", "C03")
    ctx.log("TLC validated %d events, %d rejections" % (nev, len(rejections)))
    report(ctx, rejections, meta, jobs_asan + jobs_plain)

    # evidence
    calls = sum(1 for j, evs in allj for e in evs if e.get("k") in ("call", "hcall"))
    distinct = set()
    stat = {}
    for j, evs in allj:
        end = stdtrace.end_event(evs)
        m = meta.get(j)
        if end is None or m is None:
            continue
        key = (m["dec"], os.path.basename(m["input"]), json.dumps(m["class"], sort_keys=True))
        if end.get("calls", 0) >= 1:
            distinct.add(key)
        stat.setdefault(m["dec"], {}).setdefault(end.get("cls", "?"), 0)
        stat[m["dec"]][end.get("cls", "?")] += 1
    samples = []
    for j, evs in allj[:: max(1, len(allj) // 8)][:8]:
        m = meta.get(j, {})
        samples.append({"job": j, "decoder": m.get("dec"), "input": os.path.basename(m.get("input", "")), "origin": m.get("origin"),
                        "class": m.get("class"), "events": len(evs), "last_event": evs[-1] if evs else None})
    ctx.evidence("exploration", {
        "evaluations": len(allj),
        "distinct_nontrivial": len(distinct),
        "rule": "one job = (decoder, input file, IOSchedule class); inputs = every corpus file with a known extension + seeded mutants "
                "(trunc/flip/byte/splice/dup/zero/head); classes drawn from the %d classes TLC enumerates from IOSchedule.tla "
                "(a one-shot class for every input plus random ones whose estimated call count stays under %d); distinct = distinct "
                "(decoder, file name, class) triples that made at least one call" % (len(classes), call_cap),
        "samples": samples,
        "traces_validated_against_impl": len(allj),
        "events_validated_by_tlc": nev,
        "public_calls_logged": calls,
        "jobs_under_sanitizers": len(jobs_asan),
        "jobs_under_allocator_wrap": len(jobs_plain),
        "final_status_classes_per_decoder": stat,
        "schedule_classes": len(classes),
        "states": sum(t["distinct"] for t in ctx.tlc_stats),
        "transitions": sum(t["generated"] for t in ctx.tlc_stats),
    }, assumptions=[
        "memory safety is observed by ASan/UBSan on the executions that were run; it is not proved",
        "wrap-around of unsigned arithmetic inside one struct is invisible to the sanitizers (see C01 for the checker's own ranges)",
        "the allocator wrap sees malloc/calloc/realloc/free only",
    ])


def report(ctx, rejections, meta, jobs):
    byid = {int(j["id"]): j for j in jobs}
    for r in rejections:
        m = meta.get(r["job"], {})
        job = byid.get(r["job"], {})
        saved = save_input(ctx, m["input"], os.path.basename(m["input"])) if m.get("input") and os.path.exists(m["input"]) else None
        ev = r["event"]
        what = "std/%s: clauses %s violated at trace line %d (event %s) on input %s [%s], schedule %s" % (
            m.get("dec"), r["clauses"], r["line"], {k: ev[k] for k in ev if k not in ("stderr_tail",)}, os.path.basename(m.get("input", "?")),
            m.get("origin"), json.dumps(m.get("class"), sort_keys=True))
        if ev.get("k") == "crash":
            what += "\n" + ev.get("stderr_tail", "")[-1800:]
        key = "%s:%s:%s" % (m.get("dec"), ",".join(sorted(r["clauses"])), os.path.basename(m.get("input", "?")).split(".")[0])
        ctx.violation(what, {"key": key, "decoder": m.get("dec"), "input_saved": saved, "origin": m.get("origin"),
                             "job": stdtrace.job_line(dict(job, **({"in": saved} if saved else {}))), "clauses": r["clauses"], "event": ev})


def replay(ctx, path):
    rep = json.load(open(path))["replay"]
    tools, root, exes = build(ctx, ["asan"])
    jl = rep["job"]
    jf = os.path.join(ctx.scratch, "replay-job.txt")
    ef = os.path.join(ctx.scratch, "replay-ev.ndjson")
    open(jf, "w").write(jl + "\n")
    r = ctx.run([exes["asan"], jf, ef], timeout=600, env=stdbuild.ASAN_ENV)
    print(r.stdout[-2000:], r.stderr[-4000:])
    if os.path.exists(ef):
        print(open(ef).read()[-3000:])
